"""Generators for C18 (reusable by other properties):

  part 1  wide_ops helper cases: wire lines for vh-wide, Coq terms for VV.Wide.WideModel and the
          specification (python big-int arithmetic = the statements of Props/C18.v) used as oracle
  part 2  operator expressions over ports: random expression trees, Veryl module text
          (`module M (a: input logic<WA>, ..., o0: output logic<WO>) { assign o0 = <expr>; }`),
          the same expressions with the operands as literals inside `const` declarations
          (compile-time evaluation), Coq terms for VV.Wide.ExprEval, and the driver for the
          simulator harness (vh-wide SIM cases).
"""
import random

M64 = (1 << 64) - 1
W = 1 << 64

# ------------------------------------------------------------------------------------------------
# part 1: wide_ops helper cases
# ------------------------------------------------------------------------------------------------

SPECIAL_LIMBS = [0, 1, 2, M64, M64 - 1, 1 << 63, (1 << 63) - 1, (1 << 63) + 1, 1 << 32, (1 << 32) - 1,
                 0x5555555555555555, 0xAAAAAAAAAAAAAAAA]


def gen_limb(rng):
    r = rng.random()
    if r < 0.45:
        return rng.choice(SPECIAL_LIMBS)
    if r < 0.6:
        return 1 << rng.randrange(64)
    if r < 0.7:
        return M64 ^ (1 << rng.randrange(64))
    return rng.getrandbits(64)


def gen_limbs(rng, n):
    r = rng.random()
    if r < 0.08:
        return [0] * n
    if r < 0.16:
        return [M64] * n
    if r < 0.22 and n > 0:
        l = [0] * n
        l[rng.randrange(n)] = 1 << rng.randrange(64)
        return l
    if r < 0.30 and n > 0:
        # carry chain: ones below a boundary
        k = rng.randrange(n + 1)
        return [M64] * k + [gen_limb(rng) for _ in range(n - k)]
    return [gen_limb(rng) for _ in range(n)]


def val(l):
    v = 0
    for i, x in enumerate(l):
        v |= x << (64 * i)
    return v


def limbs(v, n):
    return [(v >> (64 * i)) & M64 for i in range(n)]


def pad_to_width(l, w):
    """zero the bits at/above w (callers keep wide values zero padded)"""
    n = len(l)
    return limbs(val(l) & ((1 << w) - 1), n)


def gen_n(rng):
    r = rng.random()
    if r < 0.03:
        return 0
    if r < 0.9:
        return rng.randrange(1, 7)
    return rng.randrange(7, 10)


def gen_width(rng, n, allow_zero=True, allow_over=False):
    """width straddling limb boundaries, within the n-limb buffer unless allow_over"""
    top = 64 * n
    cands = [1, 2, 63, 64, 65, 127, 128, 129, 191, 192, 193, 255, 256, 257, top - 1, top, top - 63, top - 64, top - 65]
    cands = [c for c in cands if 1 <= c <= top]
    r = rng.random()
    if allow_zero and r < 0.04:
        return 0
    if allow_over and r < 0.12:
        return top + rng.choice([1, 63, 64, 65, 200])
    if r < 0.7 and cands:
        return rng.choice(cands)
    return rng.randrange(1, top + 1) if top >= 1 else 0


def gen_amount(rng, n, w=None):
    top = 64 * n
    cands = [0, 1, 2, 31, 63, 64, 65, 127, 128, 129, top - 1, top, top + 1, top - 64, top + 64,
             1 << 63, (1 << 64) - 1, (1 << 32), (1 << 32) + 1, 1 << 16]
    if w is not None:
        cands += [w - 1, w, w + 1, w - 64, w + 64, w - 63, w - 65]
    cands = [c for c in cands if 0 <= c < (1 << 64)]
    if rng.random() < 0.75:
        return rng.choice(cands)
    return rng.randrange(0, top + 70)


def pack(nb, width):
    return (nb & 0xFFFFFFFF) | ((width << 16) & 0xFFFFFFFF)


def gen_nb(rng, n):
    """byte count for n limbs: 8n, sometimes not a multiple of 8 (nw rounds down)"""
    if rng.random() < 0.06:
        return 8 * n + rng.randrange(1, 8)
    return 8 * n


BIN_OPS = ["band", "bor", "bxor", "bxor_not", "band_not", "add", "sub", "mul"]
UN_OPS = ["bnot", "negate", "copy"]
CMP_OPS = ["eq", "ne", "ucmp"]
ALL_HELPER_OPS = BIN_OPS + UN_OPS + CMP_OPS + ["scmp", "scmp_asym", "resize", "shl", "lshr", "ashr", "is_nonzero",
                                                "popcnt", "is_all_ones", "apply_mask", "fill_ones", "pack"]
# weights: the ops with boundary logic get more cases
HELPER_WEIGHTS = {"add": 3, "sub": 3, "mul": 4, "negate": 2, "shl": 5, "lshr": 5, "ashr": 6, "resize": 6, "scmp": 4,
                  "scmp_asym": 5, "ucmp": 2, "is_all_ones": 3, "apply_mask": 3, "fill_ones": 3, "popcnt": 2}


def gen_helper_case(rng, op=None):
    """-> dict(op=..., plus the arguments).  Buffers hold exactly the limbs the helper may touch."""
    if op is None:
        ops = ALL_HELPER_OPS
        op = rng.choices(ops, weights=[HELPER_WEIGHTS.get(o, 1) for o in ops])[0]
    n = gen_n(rng)
    c = {"op": op}
    if op in BIN_OPS or op in CMP_OPS:
        c.update(nb=gen_nb(rng, n), a=gen_limbs(rng, n), b=gen_limbs(rng, n))
        if rng.random() < 0.25:
            c["b"] = list(c["a"])
            if n and rng.random() < 0.6:
                i = rng.randrange(n)
                c["b"][i] = (c["b"][i] + rng.choice([1, M64, 1 << 63])) & M64
        if op == "mul" and rng.random() < 0.3 and n:
            # sparse operands exercise the `ai == 0` skip
            c["a"] = [x if rng.random() < 0.4 else 0 for x in c["a"]]
    elif op in UN_OPS or op in ("is_nonzero", "popcnt"):
        c.update(nb=gen_nb(rng, n), a=gen_limbs(rng, n))
    elif op == "scmp":
        n = max(n, 1)
        w = gen_width(rng, n)
        a, b = gen_limbs(rng, n), gen_limbs(rng, n)
        if rng.random() < 0.3:
            b = list(a)
            if rng.random() < 0.6:
                i = rng.randrange(n)
                b[i] ^= 1 << rng.randrange(64)
        if w and rng.random() < 0.85:
            a, b = pad_to_width(a, w), pad_to_width(b, w)
        nb = 8 * n if rng.random() < 0.97 else 0
        c.update(a=a, b=b, packed=pack(nb, w), n=n, w=w, nb=nb)
    elif op == "scmp_asym":
        # each operand lives in its own buffer (na / nb limbs) and is only read below its width
        na, nbl = max(gen_n(rng), 1), max(gen_n(rng), 1)
        if rng.random() < 0.5:
            nbl = na
        aw, bw = gen_width(rng, na), gen_width(rng, nbl)
        if rng.random() < 0.3 and na == nbl:
            bw = aw
        a, b = gen_limbs(rng, na), gen_limbs(rng, nbl)
        if rng.random() < 0.3:
            # same low bits, different widths: a negative narrow value against a wide one
            b = (list(a) + [0] * nbl)[:nbl]
        if aw and rng.random() < 0.85:
            a = pad_to_width(a, aw)
        if bw and rng.random() < 0.85:
            b = pad_to_width(b, bw)
        if aw and rng.random() < 0.4:
            a = limbs(val(a) | (1 << (aw - 1)), na)
        if bw and rng.random() < 0.4:
            b = limbs(val(b) | (1 << (bw - 1)), nbl)
        c.update(a=a, b=b, a_packed=pack(8 * na, aw), b_packed=pack(8 * nbl, bw), n=max(na, nbl), aw=aw, bw=bw)
    elif op == "resize":
        sw = rng.choice([0, 1, 7, 8, 31, 32, 33, 63, 64, 65, 100, 127, 128, 129, 191, 192, 193, 255, 256, 300,
                         rng.randrange(1, 400)])
        ns = (sw + 63) // 64
        if rng.random() < 0.3:
            ns += rng.randrange(0, 3)       # buffer larger than the width needs
        src = gen_limbs(rng, ns)
        if sw and rng.random() < 0.8:
            src = pad_to_width(src, sw)
        if sw and rng.random() < 0.4 and ns:
            src = limbs(val(src) | (1 << (sw - 1)), ns)   # sign bit set
        signed = rng.random() < 0.6
        snb = 8 * ns
        info = pack(snb, sw) | ((1 << 32) if signed else 0)
        if rng.random() < 0.1:
            info |= rng.getrandbits(20) << 33      # bits above bit 32 are ignored
        c.update(src=src, info=info, dst_nb=gen_nb(rng, n), sw=sw, signed=signed)
    elif op in ("shl", "lshr"):
        c.update(nb=gen_nb(rng, n), a=gen_limbs(rng, n), amount=gen_amount(rng, n))
    elif op == "ashr":
        n = max(n, 1)
        w = gen_width(rng, n)
        a = gen_limbs(rng, n)
        if w and rng.random() < 0.85:
            a = pad_to_width(a, w)
        if w and rng.random() < 0.5:
            a = limbs(val(a) | (1 << (w - 1)), n)
        nb = 8 * n if rng.random() < 0.97 else 0
        c.update(dst0=gen_limbs(rng, n), a=a, amount=gen_amount(rng, n, w), packed=pack(nb, w), n=n, w=w, nb=nb)
    elif op == "is_all_ones":
        n = max(n, 1)
        w = gen_width(rng, n)
        a = gen_limbs(rng, n)
        r = rng.random()
        if r < 0.5 and w:
            a = limbs((1 << w) - 1, n)
            if rng.random() < 0.5:
                a = limbs(val(a) ^ (1 << rng.randrange(w)), n)     # one hole
            elif rng.random() < 0.5:
                a = limbs(val(a) | (rng.getrandbits(64 * n) & ~((1 << w) - 1)), n)   # garbage above width
        c.update(a=a, packed=pack(8 * n, w), n=n, w=w)
    elif op in ("apply_mask", "fill_ones"):
        w = gen_width(rng, max(n, 1), allow_over=True)
        nb = gen_nb(rng, n)
        if rng.random() < 0.03:
            nb = 0
        c.update(dst=gen_limbs(rng, n), packed=pack(nb, w), n=n, w=w, nb=nb)
    elif op == "pack":
        c.update(nb=rng.choice([0, 8, 16, 24, 65528, 65535, rng.randrange(65536)]),
                 width=rng.choice([0, 1, 64, 65, 129, 65535, rng.randrange(65536)]))
    return c


def wl(l):
    return ",".join(str(x) for x in l) if l else "-"


def helper_wire(c):
    op = c["op"]
    if op in BIN_OPS or op in CMP_OPS:
        return "%s %d %s %s" % (op, c["nb"], wl(c["a"]), wl(c["b"]))
    if op in UN_OPS or op in ("is_nonzero", "popcnt"):
        return "%s %d %s" % (op, c["nb"], wl(c["a"]))
    if op == "scmp":
        return "scmp %s %s %d" % (wl(c["a"]), wl(c["b"]), c["packed"])
    if op == "scmp_asym":
        return "scmp_asym %s %s %d %d" % (wl(c["a"]), wl(c["b"]), c["a_packed"], c["b_packed"])
    if op == "resize":
        return "resize %s %d %d" % (wl(c["src"]), c["info"], c["dst_nb"])
    if op in ("shl", "lshr"):
        return "%s %d %s %d" % (op, c["nb"], wl(c["a"]), c["amount"])
    if op == "ashr":
        return "ashr %s %s %d %d" % (wl(c["dst0"]), wl(c["a"]), c["amount"], c["packed"])
    if op == "is_all_ones":
        return "is_all_ones %s %d" % (wl(c["a"]), c["packed"])
    if op in ("apply_mask", "fill_ones"):
        return "%s %s %d" % (op, wl(c["dst"]), c["packed"])
    if op == "pack":
        return "pack %d %d" % (c["nb"], c["width"])
    raise ValueError(op)


def cl(l):
    return "[" + ";".join(str(x) for x in l) + "]"


HELPER_PREAMBLE = """From VV Require Import Wide.WideModel.
From Coq Require Import List NArith ZArith.
Import ListNotations.
Open Scope N_scope.
Inductive res := RL (l : list N) | RI (z : Z).
"""

COQ_NAME = {"popcnt": "wide_popcnt_parity"}


def helper_coq(c):
    op = c["op"]
    f = COQ_NAME.get(op, "wide_" + op)
    if op in BIN_OPS:
        return "RL (%s (nw %d) %s %s)" % (f, c["nb"], cl(c["a"]), cl(c["b"]))
    if op in CMP_OPS:
        return "RI (%s (nw %d) %s %s)" % (f, c["nb"], cl(c["a"]), cl(c["b"]))
    if op in UN_OPS:
        return "RL (%s (nw %d) %s)" % (f, c["nb"], cl(c["a"]))
    if op in ("is_nonzero", "popcnt"):
        return "RI (%s (nw %d) %s)" % (f, c["nb"], cl(c["a"]))
    if op == "scmp":
        return "RI (wide_scmp %s %s %d)" % (cl(c["a"]), cl(c["b"]), c["packed"])
    if op == "scmp_asym":
        return "RI (wide_scmp_asym %s %s %d %d)" % (cl(c["a"]), cl(c["b"]), c["a_packed"], c["b_packed"])
    if op == "resize":
        return "RL (wide_resize %s %d %d)" % (cl(c["src"]), c["info"], c["dst_nb"])
    if op in ("shl", "lshr"):
        return "RL (%s (nw %d) %s %d)" % (f, c["nb"], cl(c["a"]), c["amount"])
    if op == "ashr":
        return "RL (wide_ashr %s %s %d %d)" % (cl(c["dst0"]), cl(c["a"]), c["amount"], c["packed"])
    if op == "is_all_ones":
        return "RI (wide_is_all_ones %s %d)" % (cl(c["a"]), c["packed"])
    if op in ("apply_mask", "fill_ones"):
        return "RL (%s %s %d)" % (f, cl(c["dst"]), c["packed"])
    if op == "pack":
        return "RI (Z.of_N (pack_nb_width %d %d))" % (c["nb"], c["width"])
    raise ValueError(op)


def parse_helper_out(line):
    """harness line -> ('L', [..]) | ('I', int) | ('BAD', text)"""
    t = line.split()
    if len(t) == 2 and t[0] == "OK":
        if t[1] == "-":
            return ("L", [])
        if "," in t[1] or not t[1].lstrip("-").isdigit():
            try:
                return ("L", [int(x) for x in t[1].split(",")])
            except ValueError:
                return ("BAD", line)
        return ("N", int(t[1]))          # a single number: one limb or an integer result
    return ("BAD", line)


def parse_helper_model(v):
    """parsed Coq value of type res -> same shape as parse_helper_out"""
    if isinstance(v, tuple) and v[0] == "RL":
        return ("L", list(v[1]))
    if isinstance(v, tuple) and v[0] == "RI":
        return ("I", v[1])
    return ("BAD", repr(v))


def same_result(impl, model):
    if impl[0] == "N":
        return (model[0] == "L" and model[1] == [impl[1]]) or (model[0] == "I" and model[1] == impl[1])
    return impl == model


def sx(v, w):
    """two's complement value of the low w bits"""
    v &= (1 << w) - 1
    return v - (1 << w) if w and (v >> (w - 1)) & 1 else v


def cmp3(x, y):
    return -1 if x < y else (1 if x > y else 0)


def helper_spec(c):
    """What the property requires of the helper (the statements proved in Props/C18.v, evaluated
    with python integers).  Returns ('L', limbs) / ('I', int) or None where the statement has a
    precondition the case does not meet (then only model = implementation is checked)."""
    op = c["op"]
    if op in BIN_OPS or op in UN_OPS or op in CMP_OPS or op in ("is_nonzero", "popcnt", "shl", "lshr"):
        n = c["nb"] // 8
        a = val(c["a"][:n])
        mod = 1 << (64 * n)
        if "b" in c:
            b = val(c["b"][:n])
        if op == "band":
            r = a & b
        elif op == "bor":
            r = a | b
        elif op == "bxor":
            r = a ^ b
        elif op == "bxor_not":
            r = (a ^ b) ^ (mod - 1)
        elif op == "band_not":
            r = a & ~b
        elif op == "add":
            r = (a + b) % mod
        elif op == "sub":
            r = (a - b) % mod
        elif op == "mul":
            r = (a * b) % mod
        elif op == "bnot":
            r = a ^ (mod - 1)
        elif op == "negate":
            r = (-a) % mod
        elif op == "copy":
            r = a
        elif op == "shl":
            r = (a << min(c["amount"], 64 * n + 1)) % mod
        elif op == "lshr":
            r = a >> min(c["amount"], 64 * n + 1)
        elif op == "eq":
            return ("I", 1 if a == b else 0)
        elif op == "ne":
            return ("I", 1 if a != b else 0)
        elif op == "ucmp":
            return ("I", cmp3(a, b))
        elif op == "is_nonzero":
            return ("I", 1 if a else 0)
        elif op == "popcnt":
            return ("I", bin(a).count("1") & 1)
        return ("L", limbs(r, n))
    if op == "scmp":
        n, w = c["n"], c["w"]
        if w == 0 or c["nb"] == 0:
            return ("I", 0)
        a, b = val(c["a"]), val(c["b"])
        if a >> w or b >> w:
            return None
        return ("I", cmp3(sx(a, w), sx(b, w)))
    if op == "scmp_asym":
        aw, bw = c["aw"], c["bw"]
        if aw == 0 or bw == 0:
            return ("I", 0)
        return ("I", cmp3(sx(val(c["a"]), aw), sx(val(c["b"]), bw)))
    if op == "resize":
        n = c["dst_nb"] // 8
        sw = c["sw"]
        v = val(c["src"]) & ((1 << sw) - 1)
        if c["signed"]:
            v = sx(v, sw)
        return ("L", limbs(v % (1 << (64 * n)), n))
    if op == "ashr":
        n, w = c["n"], c["w"]
        if w == 0 or c["nb"] == 0:
            return ("L", c["dst0"])
        a = val(c["a"])
        if a >> w:
            return None
        return ("L", limbs((sx(a, w) >> min(c["amount"], w + 1)) % (1 << w), n))
    if op == "is_all_ones":
        w = c["w"]
        return ("I", 1 if val(c["a"]) & ((1 << w) - 1) == (1 << w) - 1 else 0)
    if op == "apply_mask":
        n, w = c["nb"] // 8, c["w"]
        if w == 0 or c["nb"] == 0:
            return ("L", c["dst"])
        d = c["dst"]
        return ("L", limbs(val(d[:n]) & ((1 << w) - 1), n) + d[n:])
    if op == "fill_ones":
        n, w = c["nb"] // 8, c["w"]
        if c["nb"] == 0:
            return ("L", c["dst"])
        d = c["dst"]
        return ("L", limbs((1 << min(w, 64 * n)) - 1, n) + d[n:])
    if op == "pack":
        return ("I", c["nb"] | (c["width"] << 16))
    return None


def helper_shape(c):
    """tags for the input-shape histogram"""
    op = c["op"]
    n = c.get("n")
    if n is None:
        n = (c.get("nb", c.get("dst_nb", 0))) // 8
    tags = ["limbs=%d" % min(n, 7)]
    w = c.get("w", c.get("sw"))
    if w is not None:
        tags.append("width%%64=%s" % ("0" if w % 64 == 0 else ("1" if w % 64 == 1 else ("63" if w % 64 == 63 else "mid"))))
    if "amount" in c:
        am = c["amount"]
        top = 64 * n
        tags.append("amount=%s" % ("0" if am == 0 else "mult64" if am % 64 == 0 and am < top else
                                   "ge-buffer" if am >= top else "huge" if am >= (1 << 32) else "mid"))
    return tags


# ------------------------------------------------------------------------------------------------
# part 2: operator expressions over ports
# ------------------------------------------------------------------------------------------------
# expression trees (python tuples):
#   ("var", i)                      port i of the module
#   ("lit", width, signed, value)   sized literal
#   ("un", op, x)    ("bin", op, x, y)    ("cond", c, x, y)    ("cat", [x, ...])

UOPS = {"+": "UPlus", "-": "UMinus", "~": "UNot", "&": "URAnd", "~&": "URNand", "|": "UROr", "~|": "URNor",
        "^": "URXor", "~^": "URXnor", "!": "ULNot"}
BOPS = {"+": "BAdd", "-": "BSub", "*": "BMul", "/": "BDiv", "%": "BRem", "&": "BAnd", "|": "BOr", "^": "BXor",
        "~^": "BXnor", "==": "BEq", "!=": "BNe", "==?": "BWeq", "!=?": "BWne", "<:": "BLt", "<=": "BLe",
        ">:": "BGt", ">=": "BGe", "&&": "BLAnd", "||": "BLOr", "<<": "BShl", ">>": "BShr", "<<<": "BAShl",
        ">>>": "BAShr", "**": "BPow"}
ARITH = ["+", "-", "*", "/", "%", "&", "|", "^", "~^"]
REL = ["==", "!=", "==?", "!=?", "<:", "<=", ">:", ">="]
LOGIC = ["&&", "||"]
SHIFT = ["<<", ">>", "<<<", ">>>", "**"]
REDUCE = ["&", "~&", "|", "~|", "^", "~^", "!"]

BOUNDARY_WIDTHS = [1, 2, 3, 7, 8, 9, 31, 32, 33, 63, 64, 65, 66, 95, 96, 127, 128, 129, 130, 160, 191, 192, 193,
                   200, 255, 256, 257, 299, 300]


def gen_port_width(rng):
    if rng.random() < 0.75:
        return rng.choice(BOUNDARY_WIDTHS)
    return rng.randrange(1, 301)


class Port:
    def __init__(self, name, width, signed):
        self.name, self.width, self.signed = name, width, signed

    def decl(self, direction):
        return "%s: %s %slogic<%d>" % (self.name, direction, "signed " if self.signed else "", self.width)


def gen_ports(rng, k):
    ports = []
    base = gen_port_width(rng)
    for i in range(k):
        r = rng.random()
        if i > 0 and r < 0.25:
            w = base                                  # same width as the first port
        elif i > 0 and r < 0.4:
            w = max(1, min(300, base + rng.choice([-65, -64, -63, -1, 1, 63, 64, 65])))
        else:
            w = gen_port_width(rng)
        ports.append(Port("p%d" % i, w, rng.random() < 0.4))
    if rng.random() < 0.3:
        s = rng.random() < 0.5
        for p in ports:
            p.signed = s                              # all signed / all unsigned: signed context survives
    for p in ports:
        if p.width == 1:
            p.signed = False      # recorded finding: Cranelift leaves a 1-bit output unmasked after a signed 1-bit operand
    return ports


M64LIT = ("lit", 64, False, (1 << 64) - 1)


def gen_bool(rng, ports, depth, ops, wide_ctx):
    """a 1-bit valued expression (comparison / logical / reduction of a port)"""
    r = rng.random()
    if r < 0.55 or depth <= 0:
        op = rng.choice(REL)
        x, y = gen_expr(rng, ports, max(depth - 1, 0), ops, wide_ctx), gen_expr(rng, ports, max(depth - 1, 0), ops, wide_ctx)
        e = ("bin", op, x, y)
        if op in ("<:", "<=", ">:", ">=") and expr_signed(x, ports) and expr_signed(y, ports):
            return ("cat", [e])
        return e
    if r < 0.75:
        red = gen_reduction(rng, ports, 0, ops, wide_ctx)
        if red is not None:
            return red
        return ("bin", rng.choice(REL), ("var", rng.randrange(len(ports))), ("var", rng.randrange(len(ports))))
    return ("bin", rng.choice(LOGIC), gen_bool(rng, ports, depth - 1, ops, wide_ctx), gen_bool(rng, ports, depth - 1, ops, wide_ctx))


def expr_signed(e, ports):
    """IEEE 11.8.1 type of an expression (mirror of ExprEval.sgn; generator decisions only)"""
    k = e[0]
    if k == "var":
        return ports[e[1]].signed
    if k == "lit":
        return e[2]
    if k == "un":
        return False if e[1] in REDUCE else expr_signed(e[2], ports)
    if k == "bin":
        if e[1] in ARITH:
            return expr_signed(e[2], ports) and expr_signed(e[3], ports)
        if e[1] in SHIFT:
            return expr_signed(e[2], ports)
        return False
    if k == "cond":
        return expr_signed(e[2], ports) and expr_signed(e[3], ports)
    return False


def gen_unary_arith(rng, ports, depth, ops, wide_ctx):
    """+x, -x, ~x.  In a >128-bit context the operand is an unsigned port wider than 128 bits
    (recorded findings: the JIT engines do not sign-extend a narrower signed operand of a unary
    operator there, and mis-evaluate `~` of a narrow literal)."""
    op = rng.choice(["-", "~", "+"])
    if not wide_ctx:
        x = gen_expr(rng, ports, depth - 1, ops, wide_ctx)
        if x[0] == "lit":
            # recorded findings: the JIT engines mis-evaluate ~ / - of a literal narrower than the context
            x = ("var", rng.randrange(len(ports)))
        return ("un", op, x)
    if wide_ctx:
        ok = [i for i, p in enumerate(ports) if p.width > 128 and not p.signed]
        if not ok:
            return None
        return ("un", op, ("var", rng.choice(ok)))
    return ("un", op, gen_expr(rng, ports, depth - 1, ops, wide_ctx))


def gen_reduction(rng, ports, depth, ops, wide_ctx):
    """a reduction / `!`.  In a module with a context wider than 128 bits only >128-bit ports are
    reduced (recorded finding: Cranelift reads a reduction operand of at most 64 bits as 0 there)."""
    if wide_ctx:
        wide = [i for i, p in enumerate(ports) if p.width > 128]
        if not wide:
            return None
        return ("un", rng.choice(REDUCE), ("var", rng.choice(wide)))
    if depth <= 0:
        return ("un", rng.choice(REDUCE), ("var", rng.randrange(len(ports))))
    return ("un", rng.choice(REDUCE), gen_expr(rng, ports, depth - 1, ops, wide_ctx))


def gen_amount_operand(rng, ports):
    """right operand of a shift / power: a plain operand; one wider than 64 bits is cut to its low 64
    bits (`p & 64'hffff_ffff_ffff_ffff` keeps the wide TYPE, the value stays below 2^64).  Amounts
    >= 2^64 are exercised by gen_narrow_shift_module and the corpus (KNOWN_FINDINGS: the wide-operand
    paths of the JIT engines drop the high words of the amount; ** saturates its exponent)."""
    if rng.random() < 0.25:
        w = rng.choice([1, 4, 8, 16, 32, 64])
        v = rng.choice([0, 1, 2, 31, 63, 64, 65, 127, 128, 129, rng.randrange(0, 310)]) & ((1 << w) - 1)
        return ("lit", w, False, v)
    i = rng.randrange(len(ports))
    if ports[i].width > 64:
        return ("bin", "&", ("var", i), M64LIT)
    return ("var", i)


def gen_expr(rng, ports, depth, ops=None, wide_ctx=True):
    """random expression over the ports; `ops` restricts the binary operator pool.
    wide_ctx: some operand or output of the module is wider than 128 bits.  Two shapes are left
    to the corpus because of recorded findings (KNOWN_FINDINGS.txt): a reduction / `!` of a
    operand of at most 64 bits in a >128-bit context (Cranelift), and a `?:` condition wider than
    64 bits (the JIT engines panic)."""
    if depth <= 0 or rng.random() < 0.12:
        if rng.random() < 0.88:
            return ("var", rng.randrange(len(ports)))
        w = rng.choice([1, 4, 8, 16, 32, 33, 64, 65, 128, 129, 200])
        v = rng.choice([0, 1, (1 << w) - 1, 1 << (w - 1), rng.getrandbits(w), rng.randrange(0, 70)]) & ((1 << w) - 1)
        return ("lit", w, rng.random() < 0.4, v)
    r = rng.random()
    if r < 0.16:
        u = gen_unary_arith(rng, ports, depth, ops, wide_ctx) if rng.random() < 0.55 else gen_reduction(rng, ports, depth, ops, wide_ctx)
        if u is not None:
            return u
        return ("var", rng.randrange(len(ports)))
    if r < 0.22:
        # conditions are 1-bit valued expressions: a multi-bit condition (legal, with a warning) makes
        # the Cranelift lowering panic in several width combinations (recorded findings, corpus)
        c = gen_bool(rng, ports, depth - 1, ops, wide_ctx)
        x, y = gen_expr(rng, ports, depth - 1, ops, wide_ctx), gen_expr(rng, ports, depth - 1, ops, wide_ctx)
        if expr_signed(x, ports) and expr_signed(y, ports):
            # recorded finding: compile-time ?: extends a signed-signed selection by its own type
            # even inside an unsigned context; `{y}` makes the selection unsigned everywhere
            y = ("cat", [y])

        def one_bit(e):
            return (e[0] == "bin" and (e[1] in REL or e[1] in LOGIC)) or (e[0] == "un" and e[1] in REDUCE)
        # recorded finding: Cranelift panics on a ?: arm that is itself a comparison / logical result
        if one_bit(x):
            x = ("cat", [x])
        if one_bit(y):
            y = ("cat", [y])
        return ("cond", c, x, y)
    if r < 0.27:
        return ("cat", [gen_expr(rng, ports, depth - 1, ops, wide_ctx) for _ in range(rng.randrange(1, 4))])
    pool = ops or (ARITH * 3 + REL * 2 + LOGIC + SHIFT * 3)
    op = rng.choice(pool)
    x = gen_expr(rng, ports, depth - 1, ops, wide_ctx)
    if op == "**":
        # recorded findings: ** with a signed base or exponent (negative exponent rules, signed base
        # in the JIT lowering); both operands are made unsigned with `{}`
        y = gen_amount_operand(rng, ports)
        if expr_signed(y, ports):
            y = ("cat", [y])
        # the base is a plain operand (recorded finding: Cranelift mis-evaluates ** whose base is a
        # 1-bit reduction result)
        x = ("var", rng.randrange(len(ports)))
        if expr_signed(x, ports):
            x = ("cat", [x])
    elif op in SHIFT:
        y = gen_amount_operand(rng, ports) if rng.random() < 0.5 else ("var", rng.randrange(len(ports)))
    else:
        y = gen_expr(rng, ports, depth - 1, ops, wide_ctx)
    e = ("bin", op, x, y)
    if op in ("<:", "<=", ">:", ">=") and expr_signed(x, ports) and expr_signed(y, ports):
        # recorded finding: veryl types the 1-bit result of an ordering comparison of two signed
        # operands as signed (IEEE 11.8.1: unsigned); `{...}` makes it unsigned on both sides
        return ("cat", [e])
    return e


def expr_ports(e, acc=None):
    acc = set() if acc is None else acc
    k = e[0]
    if k == "var":
        acc.add(e[1])
    elif k == "un":
        expr_ports(e[2], acc)
    elif k == "bin":
        expr_ports(e[2], acc)
        expr_ports(e[3], acc)
    elif k == "cond":
        for x in e[1:]:
            expr_ports(x, acc)
    elif k == "cat":
        for x in e[1]:
            expr_ports(x, acc)
    return acc


def expr_ops(e, acc=None):
    acc = [] if acc is None else acc
    k = e[0]
    if k == "un":
        acc.append("u" + e[1])
        expr_ops(e[2], acc)
    elif k == "bin":
        acc.append(e[1])
        expr_ops(e[2], acc)
        expr_ops(e[3], acc)
    elif k == "cond":
        acc.append("?:")
        for x in e[1:]:
            expr_ops(x, acc)
    elif k == "cat":
        acc.append("{}")
        for x in e[1]:
            expr_ops(x, acc)
    return acc


def expr_children(e):
    k = e[0]
    if k == "un":
        return [e[2]]
    if k == "bin":
        return [e[2], e[3]]
    if k == "cond":
        return list(e[1:])
    if k == "cat":
        return list(e[1])
    return []


def lit_text(w, signed, v):
    return "%d'%sh%x" % (w, "s" if signed else "", v)


def expr_veryl(e, ports, values=None):
    """Veryl text; with `values` (list of ints, one per port) the ports become sized literals"""
    k = e[0]
    if k == "var":
        p = ports[e[1]]
        if values is None:
            return p.name
        return lit_text(p.width, p.signed, values[e[1]])
    if k == "lit":
        return lit_text(e[1], e[2], e[3])
    if k == "un":
        return "(%s%s)" % (e[1], expr_veryl(e[2], ports, values))
    if k == "bin":
        return "(%s %s %s)" % (expr_veryl(e[2], ports, values), e[1], expr_veryl(e[3], ports, values))
    if k == "cond":
        return "(if %s ? %s : %s)" % tuple(expr_veryl(x, ports, values) for x in e[1:])
    if k == "cat":
        return "{%s}" % ", ".join(expr_veryl(x, ports, values) for x in e[1])
    raise ValueError(k)


def expr_coq(e, ports, values, masks=None):
    """term of type VV.Wide.ExprEval.expr with the port values substituted"""
    k = e[0]
    if k == "var":
        p = ports[e[1]]
        m = masks[e[1]] if masks else 0
        return "(EVar %d %s (mkVec %d %d))" % (p.width, "true" if p.signed else "false", values[e[1]], m)
    if k == "lit":
        return "(EVar %d %s (mkVec %d 0))" % (e[1], "true" if e[2] else "false", e[3])
    if k == "un":
        return "(EUn %s %s)" % (UOPS[e[1]], expr_coq(e[2], ports, values, masks))
    if k == "bin":
        return "(EBin %s %s %s)" % (BOPS[e[1]], expr_coq(e[2], ports, values, masks), expr_coq(e[3], ports, values, masks))
    if k == "cond":
        return "(ECond %s %s %s)" % tuple(expr_coq(x, ports, values, masks) for x in e[1:])
    if k == "cat":
        return "(ECat [%s])" % "; ".join(expr_coq(x, ports, values, masks) for x in e[1])
    raise ValueError(k)


EXPR_PREAMBLE = """From VV Require Import BV.Ops1800 Wide.ExprEval.
Open Scope N_scope.
Definition run (c : N * expr) : N * N := let (wo, e) := c in let v := eval_assign wo e in (vp v, vm v).
"""


def gen_value(rng, w, others=()):
    """operand value of width w: boundary patterns, small numbers (useful as shift amounts and
    exponents), values next to the widths in play, random bits"""
    m = (1 << w) - 1
    r = rng.random()
    if r < 0.10:
        return 0
    if r < 0.18:
        return m
    if r < 0.26:
        return 1 << (w - 1)                          # most negative / MSB only
    if r < 0.32:
        return (1 << (w - 1)) - 1 if w > 1 else 0    # most positive
    if r < 0.38:
        return 1
    if r < 0.50:
        return rng.randrange(0, 8) & m
    if r < 0.62 and others:
        return max(0, rng.choice(list(others)) + rng.choice([-65, -64, -63, -1, 0, 1, 63, 64, 65])) & m
    if r < 0.70:
        # a run of ones crossing a 64-bit boundary: carries / sign fill across limbs
        lo = rng.randrange(0, w)
        hi = rng.randrange(lo, w)
        return (((1 << (hi + 1)) - 1) ^ ((1 << lo) - 1)) & m
    if r < 0.78:
        return (m ^ rng.randrange(0, 8)) & m         # -1 .. -8
    return rng.getrandbits(w)


class ExprModule:
    """module M (p0.., o0..) { assign oK = exprK; }"""

    def __init__(self, name, ports, outs, exprs):
        self.name, self.ports, self.outs, self.exprs = name, ports, outs, exprs

    def text(self):
        decls = [p.decl("input") for p in self.ports] + [o.decl("output") for o in self.outs]
        body = "\n".join("    assign %s = %s;" % (o.name, expr_veryl(e, self.ports)) for o, e in zip(self.outs, self.exprs))
        return "module %s (\n    %s,\n) {\n%s\n}\n" % (self.name, ",\n    ".join(decls), body)

    def const_text(self, vectors, name=None):
        """the same expressions with the operands of each vector written as literals, evaluated
        by the analyzer at compile time: const R_v_k: logic<WO> = <expr>; assign c_v_k = R_v_k;"""
        name = name or (self.name + "C")
        decls, body = [], []
        for vi, vals in enumerate(vectors):
            for k, (o, e) in enumerate(zip(self.outs, self.exprs)):
                decls.append("c%d_%d: output logic<%d>" % (vi, k, o.width))
                body.append("    const R%d_%d: logic<%d> = %s;" % (vi, k, o.width, expr_veryl(e, self.ports, vals)))
                body.append("    assign c%d_%d = R%d_%d;" % (vi, k, vi, k))
        return "module %s (\n    %s,\n) {\n%s\n}\n" % (name, ",\n    ".join(decls), "\n".join(body))

    def single(self, k, e=None, wo=None):
        """a module with only expression k (or a replacement expression / output width): used to
        confirm and shrink a failing case"""
        e = e if e is not None else self.exprs[k]
        o = Port("o0", wo if wo is not None else self.outs[k].width, False)
        return ExprModule(self.name, self.ports, [o], [e])


def gen_module(rng, idx, n_out=6, depth=None, ops=None):
    ports = gen_ports(rng, rng.choice([2, 2, 3, 3, 4]))
    # output widths first: they decide whether any context in the module exceeds 128 bits
    wos = []
    for k in range(n_out):
        r = rng.random()
        if r < 0.35:
            wo = rng.choice(ports).width              # as wide as one of the operands
        elif r < 0.5:
            wo = max(1, min(300, max(p.width for p in ports) + rng.choice([-64, -1, 1, 2, 64, 65])))
        else:
            wo = gen_port_width(rng)
        wos.append(wo)
    if rng.random() < 0.3:
        # a module whose every width stays <= 128: reductions of compound operands are generated here
        for p in ports:
            p.width = min(p.width, rng.choice([64, 65, 100, 127, 128]))
        wos = [min(w, rng.choice([64, 65, 127, 128])) for w in wos]
    wide_ctx = False      # the JIT engines only see modules without any width above 128 (see module_is_narrow)
    outs, exprs = [], []
    for k in range(n_out):
        d = depth if depth is not None else rng.choice([1, 1, 1, 2, 2, 3])
        e = gen_expr(rng, ports, d, ops, wide_ctx)
        if e[0] in ("var", "lit"):
            e = ("bin", rng.choice(ARITH), e, ("var", rng.randrange(len(ports))))
        if e[0] == "bin" and e[1] in ("&", "|", "^", "~^") and expr_signed(e, ports) and 64 < expr_selfw(e, ports) <= 128:
            # recorded finding: Cranelift does not mask the store of a signed 65..128-bit bitwise root to a
            # narrower non-native destination; `{}` keeps the shape out of the root position
            e = ("cat", [e])
        outs.append(Port("o%d" % k, wos[k], False))
        exprs.append(e)
    return ExprModule("M%d" % idx, ports, outs, exprs)


def expr_lit_widths(e, acc=None):
    acc = [] if acc is None else acc
    if e[0] == "lit":
        acc.append(e[1])
    for c in expr_children(e):
        expr_lit_widths(c, acc)
    return acc


def expr_selfw(e, ports):
    """self-determined width (mirror of ExprEval.selfw; generator decisions only)"""
    k = e[0]
    if k == "var":
        return ports[e[1]].width
    if k == "lit":
        return e[1]
    if k == "un":
        return 1 if e[1] in REDUCE else expr_selfw(e[2], ports)
    if k == "bin":
        if e[1] in ARITH:
            return max(expr_selfw(e[2], ports), expr_selfw(e[3], ports))
        if e[1] in SHIFT:
            return expr_selfw(e[2], ports)
        return 1
    if k == "cond":
        return max(expr_selfw(e[2], ports), expr_selfw(e[3], ports))
    if k == "cat":
        return sum(expr_selfw(x, ports) for x in e[1])
    raise ValueError(k)


def expr_max_width(e, ports):
    """largest self-determined width of any sub-expression"""
    return max([expr_selfw(e, ports)] + [expr_max_width(c, ports) for c in expr_children(e)])


def module_max_width(m):
    """largest width in play: ports, outputs, literals, every sub-expression (concatenations).
    The JIT engines are compared with the reference on modules up to 128 (Cranelift) / 64 (cc) and on
    gen_wide_core_module shapes: beyond that the unchanged lowering fails in many independent ways
    (KNOWN_FINDINGS.txt, corpus/C18/engines.jsonl)."""
    ws = [p.width for p in m.ports] + [o.width for o in m.outs]
    for e in m.exprs:
        ws.append(expr_max_width(e, m.ports))
    return max(ws)


def gen_wide_core_module(rng, idx, n_out=6):
    """>128-bit unsigned operands of one width class, binary operators that reach the wide_ops
    helpers through the JIT lowering (add, sub, mul, and/or/xor/xnor, eq/ne/ucmp, shl/lshr by a
    small literal, concatenation)"""
    base = rng.choice([129, 130, 191, 192, 193, 200, 255, 256, 257, 300])
    ports = [Port("p%d" % i, base, False) for i in range(rng.choice([2, 3]))]
    outs, exprs = [], []

    def leaf():
        return ("var", rng.randrange(len(ports)))

    def node(d):
        if d <= 0:
            return leaf()
        op = rng.choice(["+", "-", "*", "&", "|", "^", "~^"] * 2 + ["<<", ">>"])
        if op in ("<<", ">>"):
            am = rng.choice([0, 1, 63, 64, 65, 127, 128, 129, base - 1, base, base + 1])
            return ("bin", op, node(d - 1), ("lit", 16, False, am))
        return ("bin", op, node(d - 1), node(d - 1))
    for k in range(n_out):
        r = rng.random()
        if r < 0.25:
            e = ("bin", rng.choice(["==", "!=", "<:", "<=", ">:", ">="]), node(1), node(1))
            wo = rng.choice([1, 8, base])
        else:
            e = node(rng.choice([1, 1, 2]))
            wo = rng.choice([base, base, base + 1, min(300, base + 64)])
        outs.append(Port("o%d" % k, wo, False))
        exprs.append(e)
    m = ExprModule("M%d" % idx, ports, outs, exprs)
    m.kind = "widecore"
    return m


def gen_signed_shift_module(rng, idx):
    """a signed operand shifted by amounts at and around its width (sign fill boundary):
    >>> / >> / <<< by width-1, width, width+1, 0, 1, 63, 64, 65 (literals) and by a small port"""
    w = rng.choice([2, 8, 33, 63, 64, 65, 100, 127, 128] if rng.random() < 0.6 else [129, 191, 192, 193, 200, 256, 300])
    pw = rng.choice([7, 9, 10, 16])
    # the amount is an unsigned magnitude even when its type is signed (and its MSB set)
    ports = [Port("p0", w, True), Port("p1", pw, rng.random() < 0.5)]
    cand = [0, 1, 63, 64, 65, w - 1, w, w + 1, w - 64, w + 64, 127, 128, 129,
            (1 << (pw - 1)), (1 << (pw - 1)) | 1, (1 << pw) - 1, (1 << pw) - 2]
    cand = [c for c in cand if 0 <= c < 512]
    outs, exprs = [], []
    for k in range(6):
        op = rng.choice([">>>", ">>>", ">>", ">>", "<<<", "<<"])
        y = ("var", 1) if k < 3 else ("lit", 10, False, rng.choice(cand))
        outs.append(Port("o%d" % k, rng.choice([w, w, w + 1, max(1, w - 1), min(300, w + 64)]), False))
        exprs.append(("bin", op, ("var", 0), y))
    m = ExprModule("M%d" % idx, ports, outs, exprs)
    m.kind = "signedshift"
    m.amounts = cand
    return m


def gen_signed_shift_vectors(rng, m, n):
    w = m.ports[0].width
    mk = (1 << w) - 1
    vals = [mk, 1 << (w - 1), (1 << (w - 1)) | 1, mk ^ 1, (1 << (w - 1)) - 1, rng.getrandbits(w) | (1 << (w - 1)), rng.getrandbits(w)]
    return [[rng.choice(vals) & mk, rng.choice(m.amounts) & ((1 << m.ports[1].width) - 1)] for _ in range(n)]


ROOT_WIDTHS = [1, 2, 3, 5, 7, 9, 13, 15, 17, 31, 33, 47, 63, 8, 16, 32, 64]


def gen_root_mask_module(rng, idx):
    """directed family: an operator whose result can have set bits above the destination width
    (>>>, -, unary -, ~, *, <<, +, sign extension of a narrower signed operand) as the ROOT of
    `assign o = ...`, destination widths that are not a native size (1,2,3,5,7,9,13,15,17,31,33,
    47,63) next to 8/16/32/64, signed and unsigned operands.  What Simulator::get returns is
    compared unmasked, so a store that is not masked to the declared width shows."""
    w = rng.choice(ROOT_WIDTHS)
    sg = rng.random() < 0.65 and w > 1
    pw = rng.choice([3, 4, 7])
    ports = [Port("p0", w, sg), Port("p1", w, sg), Port("p2", pw, False)]
    if w > 2 and rng.random() < 0.4:
        ports[1] = Port("p1", rng.choice([x for x in ROOT_WIDTHS if 1 < x < w] or [w]), sg)    # narrower operand: extension
    amounts = [1, 2, 3, w - 1, w, w + 1, max(1, w // 2)]
    amounts = [a for a in amounts if 1 <= a < 128]
    shapes = [
        lambda: ("bin", ">>>", ("var", 0), ("lit", 8, False, rng.choice(amounts))),
        lambda: ("bin", ">>>", ("var", 0), ("var", 2)),
        lambda: ("bin", ">>", ("var", 0), ("lit", 8, False, rng.choice(amounts))),
        lambda: ("bin", "<<", ("var", 0), ("lit", 8, False, rng.choice(amounts))),
        lambda: ("bin", "<<<", ("var", 0), ("var", 2)),
        lambda: ("bin", "-", ("var", 0), ("var", 1)),
        lambda: ("bin", "+", ("var", 0), ("var", 1)),
        lambda: ("bin", "*", ("var", 0), ("var", 1)),
        lambda: ("un", "-", ("var", 0)),
        lambda: ("un", "~", ("var", 0)),
        lambda: ("un", "-", ("var", 1)),
        # extension of the narrower operand (recorded finding: `p1 | <signed zero literal>` is folded by
        # Cranelift and stored unmasked, so the other operand is a port)
        lambda: ("bin", "|", ("var", 1), ("var", 0)),
        lambda: ("bin", "^", ("var", 1), ("var", 0)),
    ]
    order = list(range(len(shapes)))
    rng.shuffle(order)
    order = [0, 1] + [i for i in order if i > 1][:6]
    outs, exprs = [], []
    for k, i in enumerate(order):
        e = shapes[i]()
        r = rng.random()
        wo = w if r < 0.6 else rng.choice([x for x in ROOT_WIDTHS if x <= 64])
        if wo == 1 and sg:
            wo = w          # recorded finding engine-cranelift-one-bit-output-not-masked
        outs.append(Port("o%d" % k, wo, False))
        exprs.append(e)
    m = ExprModule("M%d" % idx, ports, outs, exprs)
    m.kind = "rootmask"
    m.amounts = amounts
    return m


def gen_root_mask_vectors(rng, m, n):
    vecs = []
    for _ in range(n):
        v = []
        for p in m.ports[:2]:
            mk = (1 << p.width) - 1
            v.append(rng.choice([mk, 1 << (p.width - 1), (1 << (p.width - 1)) | 1, mk ^ 1, mk ^ 0xf & mk,
                                 (mk ^ rng.getrandbits(p.width) >> 1) & mk, rng.getrandbits(p.width), 1, 0]) & mk)
        v.append(rng.choice(m.amounts + [1, 2]) & ((1 << m.ports[2].width) - 1))
        vecs.append(v)
    return vecs


def gen_narrow_shift_module(rng, idx, n_out=6):
    """operand and result at most 128 bits wide, shift amount of a much wider type with values up
    to 2^300: the engines must treat any amount >= the width as a full shift"""
    wa = rng.choice([1, 8, 32, 63, 64, 65, 100, 127, 128])
    ports = [Port("p0", wa, rng.random() < 0.5), Port("p1", rng.choice([65, 70, 128, 129, 192, 200, 257, 300]), False)]
    outs, exprs = [], []
    for k in range(n_out):
        op = rng.choice(["<<", ">>", ">>>", "<<<"])
        outs.append(Port("o%d" % k, min(128, max(1, wa + rng.choice([-1, 0, 0, 1, 8]))), False))
        exprs.append(("bin", op, ("var", 0), ("var", 1)))
    return ExprModule("M%d" % idx, ports, outs, exprs)


def gen_vectors(rng, ports, n):
    widths = [p.width for p in ports]
    return [[gen_value(rng, p.width, widths) for p in ports] for _ in range(n)]


ENGINE_CONFIGS = ["-", "f", "j", "jf", "4", "4f", "4j", "4jf", "c", "cf"]


def hexs(s):
    return s.encode().hex()


def sim_line(cfgs, top, code, outputs, ports, vectors, masks=None):
    """a vh-wide SIM case line"""
    vs = []
    for vi, vals in enumerate(vectors):
        vs.append(",".join("%s:%d:%x:%x" % (p.name, p.width, v, (masks[vi][i] if masks else 0))
                           for i, (p, v) in enumerate(zip(ports, vals))))
    return "SIM %s %s %s %s %s" % (",".join(cfgs), top, hexs(code), ",".join(outputs) if outputs else "-",
                                   ";".join(vs) if vs and ports else "-")


def parse_sim(line):
    """-> ('ERR', reason) | dict cfg -> ('ERR', reason) | list(vectors) of list(outputs) of (payload, mask, width)"""
    if not line.startswith("OK "):
        return ("ERR", line)
    res = {}
    for part in line[3:].split(";"):
        cfg, _, body = part.partition("=")
        if body.startswith("ERR:"):
            res[cfg] = ("ERR", body[4:])
            continue
        vecs = []
        for v in body.split("|"):
            outs = []
            for o in v.split(","):
                if o == "none" or not o:
                    outs.append(None)
                else:
                    p, m, w = o.split("/")
                    outs.append((int(p, 16), int(m, 16), int(w)))
            vecs.append(outs)
        res[cfg] = vecs
    return res


# ------------------------------------------------------------------------------------------------
# extracted (OCaml) evaluation of the helper model: same wire lines as the harness
# ------------------------------------------------------------------------------------------------
HELPER_EXTRACT_V = """From VV Require Import Wide.WideModel.
From Coq Require Import NArith ZArith List.
Require Extraction.
Require Import ExtrOcamlBasic.
Extraction "wide_model.ml" N.add N.mul N.div_eucl nw pack_nb_width
  wide_band wide_bor wide_bxor wide_bxor_not wide_band_not wide_bnot wide_copy
  wide_add wide_sub wide_mul wide_negate wide_eq wide_ne wide_ucmp wide_scmp wide_scmp_asym
  wide_resize wide_shl wide_lshr wide_ashr wide_is_nonzero wide_is_all_ones wide_popcnt_parity
  wide_apply_mask wide_fill_ones.
"""

HELPER_DRIVER_ML = r"""
open Wide_model
let rec n_of_int (i : int) : n = if i = 0 then N0 else N.add (n_of_int (i - 1)) (Npos XH)
let digit = Array.init 10 n_of_int
let ten = n_of_int 10
let n_of_string (s : string) : n =
  let acc = ref N0 in
  String.iter (fun c -> acc := N.add (N.mul !acc ten) digit.(Char.code c - 48)) s; !acc
let rec int_of_pos = function XH -> 1 | XO p -> 2 * int_of_pos p | XI p -> 2 * int_of_pos p + 1
let int_of_n = function N0 -> 0 | Npos p -> int_of_pos p
let string_of_n (x : n) : string =
  if x = N0 then "0" else begin
    let b = Buffer.create 24 in
    let cur = ref x in
    let ds = ref [] in
    while !cur <> N0 do
      let (q, r) = N.div_eucl !cur ten in
      ds := (int_of_n r) :: !ds; cur := q
    done;
    List.iter (fun d -> Buffer.add_char b (Char.chr (48 + d))) !ds; Buffer.contents b end
let string_of_z = function Z0 -> "0" | Zpos p -> string_of_n (Npos p) | Zneg p -> "-" ^ string_of_n (Npos p)
let limbs (s : string) : n list = if s = "-" then [] else List.map n_of_string (String.split_on_char ',' s)
let show (l : n list) : string = if l = [] then "-" else String.concat "," (List.map string_of_n l)
let run (t : string array) : string =
  let nwof i = nw (n_of_string t.(i)) in
  let nn i = n_of_string t.(i) in
  match t.(0) with
  | "band" -> show (wide_band (nwof 1) (limbs t.(2)) (limbs t.(3)))
  | "bor" -> show (wide_bor (nwof 1) (limbs t.(2)) (limbs t.(3)))
  | "bxor" -> show (wide_bxor (nwof 1) (limbs t.(2)) (limbs t.(3)))
  | "bxor_not" -> show (wide_bxor_not (nwof 1) (limbs t.(2)) (limbs t.(3)))
  | "band_not" -> show (wide_band_not (nwof 1) (limbs t.(2)) (limbs t.(3)))
  | "add" -> show (wide_add (nwof 1) (limbs t.(2)) (limbs t.(3)))
  | "sub" -> show (wide_sub (nwof 1) (limbs t.(2)) (limbs t.(3)))
  | "mul" -> show (wide_mul (nwof 1) (limbs t.(2)) (limbs t.(3)))
  | "bnot" -> show (wide_bnot (nwof 1) (limbs t.(2)))
  | "negate" -> show (wide_negate (nwof 1) (limbs t.(2)))
  | "copy" -> show (wide_copy (nwof 1) (limbs t.(2)))
  | "eq" -> string_of_z (wide_eq (nwof 1) (limbs t.(2)) (limbs t.(3)))
  | "ne" -> string_of_z (wide_ne (nwof 1) (limbs t.(2)) (limbs t.(3)))
  | "ucmp" -> string_of_z (wide_ucmp (nwof 1) (limbs t.(2)) (limbs t.(3)))
  | "scmp" -> string_of_z (wide_scmp (limbs t.(1)) (limbs t.(2)) (nn 3))
  | "scmp_asym" -> string_of_z (wide_scmp_asym (limbs t.(1)) (limbs t.(2)) (nn 3) (nn 4))
  | "resize" -> show (wide_resize (limbs t.(1)) (nn 2) (nn 3))
  | "shl" -> show (wide_shl (nwof 1) (limbs t.(2)) (nn 3))
  | "lshr" -> show (wide_lshr (nwof 1) (limbs t.(2)) (nn 3))
  | "ashr" -> show (wide_ashr (limbs t.(1)) (limbs t.(2)) (nn 3) (nn 4))
  | "is_nonzero" -> string_of_z (wide_is_nonzero (nwof 1) (limbs t.(2)))
  | "popcnt" -> string_of_z (wide_popcnt_parity (nwof 1) (limbs t.(2)))
  | "is_all_ones" -> string_of_z (wide_is_all_ones (limbs t.(1)) (nn 2))
  | "apply_mask" -> show (wide_apply_mask (limbs t.(1)) (nn 2))
  | "fill_ones" -> show (wide_fill_ones (limbs t.(1)) (nn 2))
  | "pack" -> string_of_n (pack_nb_width (nn 1) (nn 2))
  | o -> "ERR " ^ o
let () =
  try
    while true do
      let line = input_line stdin in
      let t = Array.of_list (List.filter (fun s -> s <> "") (String.split_on_char ' ' line)) in
      (try print_string ("OK " ^ run t) with e -> print_string ("ERR " ^ Printexc.to_string e));
      print_newline ()
    done
  with End_of_file -> ()
"""


# ------------------------------------------------------------------------------------------------
# extracted (OCaml) evaluation of the reference expression evaluator
# ------------------------------------------------------------------------------------------------
def expr_wire(e, ports, values, masks=None):
    """prefix token form read by the OCaml driver: V w s payload mask | U op x | B op x y | C c x y | K n x.."""
    k = e[0]
    if k == "var":
        p = ports[e[1]]
        return "V %d %d %d %d" % (p.width, 1 if p.signed else 0, values[e[1]], masks[e[1]] if masks else 0)
    if k == "lit":
        return "V %d %d %d 0" % (e[1], 1 if e[2] else 0, e[3])
    if k == "un":
        return "U %s %s" % (UOPS[e[1]], expr_wire(e[2], ports, values, masks))
    if k == "bin":
        return "B %s %s %s" % (BOPS[e[1]], expr_wire(e[2], ports, values, masks), expr_wire(e[3], ports, values, masks))
    if k == "cond":
        return "C %s %s %s" % tuple(expr_wire(x, ports, values, masks) for x in e[1:])
    if k == "cat":
        return "K %d %s" % (len(e[1]), " ".join(expr_wire(x, ports, values, masks) for x in e[1]))
    raise ValueError(k)


EXPR_EXTRACT_V = """From VV Require Import BV.Ops1800 Wide.ExprEval.
From Coq Require Import NArith ZArith List.
Require Extraction.
Require Import ExtrOcamlBasic.
Extraction "expr_model.ml" N.add N.mul N.div_eucl eval_assign.
"""

EXPR_DRIVER_ML = r"""
open Expr_model
let rec n_of_int (i : int) : n = if i = 0 then N0 else N.add (n_of_int (i - 1)) (Npos XH)
let digit = Array.init 10 n_of_int
let ten = n_of_int 10
let n_of_string (s : string) : n =
  let acc = ref N0 in
  String.iter (fun c -> acc := N.add (N.mul !acc ten) digit.(Char.code c - 48)) s; !acc
let rec int_of_pos = function XH -> 1 | XO p -> 2 * int_of_pos p | XI p -> 2 * int_of_pos p + 1
let int_of_n = function N0 -> 0 | Npos p -> int_of_pos p
let string_of_n (x : n) : string =
  if x = N0 then "0" else begin
    let b = Buffer.create 24 in
    let cur = ref x in
    let ds = ref [] in
    while !cur <> N0 do
      let (q, r) = N.div_eucl !cur ten in
      ds := (int_of_n r) :: !ds; cur := q
    done;
    List.iter (fun d -> Buffer.add_char b (Char.chr (48 + d))) !ds; Buffer.contents b end
let uop_of = function
  | "UPlus" -> UPlus | "UMinus" -> UMinus | "UNot" -> UNot | "URAnd" -> URAnd | "URNand" -> URNand
  | "UROr" -> UROr | "URNor" -> URNor | "URXor" -> URXor | "URXnor" -> URXnor | "ULNot" -> ULNot
  | s -> failwith ("uop " ^ s)
let bop_of = function
  | "BAdd" -> BAdd | "BSub" -> BSub | "BMul" -> BMul | "BDiv" -> BDiv | "BRem" -> BRem | "BAnd" -> BAnd
  | "BOr" -> BOr | "BXor" -> BXor | "BXnor" -> BXnor | "BEq" -> BEq | "BNe" -> BNe | "BWeq" -> BWeq
  | "BWne" -> BWne | "BLt" -> BLt | "BLe" -> BLe | "BGt" -> BGt | "BGe" -> BGe | "BLAnd" -> BLAnd
  | "BLOr" -> BLOr | "BShl" -> BShl | "BShr" -> BShr | "BAShl" -> BAShl | "BAShr" -> BAShr | "BPow" -> BPow
  | s -> failwith ("bop " ^ s)
let parse (t : string array) : expr =
  let pos = ref 1 in
  let next () = let x = t.(!pos) in incr pos; x in
  let rec go () : expr =
    match next () with
    | "V" -> let w = n_of_string (next ()) in let s = (next ()) = "1" in
             let p = n_of_string (next ()) in let m = n_of_string (next ()) in
             EVar (w, s, { vp = p; vm = m })
    | "U" -> let o = uop_of (next ()) in let x = go () in EUn (o, x)
    | "B" -> let o = bop_of (next ()) in let x = go () in let y = go () in EBin (o, x, y)
    | "C" -> let c = go () in let x = go () in let y = go () in ECond (c, x, y)
    | "K" -> let n = int_of_string (next ()) in
             let rec many k = if k = 0 then [] else (let x = go () in x :: many (k - 1)) in
             ECat (many n)
    | s -> failwith ("token " ^ s)
  in go ()
let () =
  try
    while true do
      let line = input_line stdin in
      let t = Array.of_list (List.filter (fun s -> s <> "") (String.split_on_char ' ' line)) in
      (try
         let wo = n_of_string t.(0) in
         let v = eval_assign wo (parse t) in
         print_string ("OK " ^ string_of_n v.vp ^ " " ^ string_of_n v.vm)
       with e -> print_string ("ERR " ^ Printexc.to_string e));
      print_newline ()
    done
  with End_of_file -> ()
"""


# ------------------------------------------------------------------------------------------------
# line runner that survives a harness that aborts (a panic inside an extern "C" helper aborts the process)
# ------------------------------------------------------------------------------------------------
def run_lines_robust(binary, lines, env=None, timeout=900, max_crashes=40, nshards=None):
    """like C.run_lines, but when the process dies the lines already answered are kept, the line it
    died on is reported as `CRASH ...` and the rest continues in a fresh process (at most
    max_crashes times per shard; after that the remaining lines are `NOTRUN`)."""
    from .. import common as C
    from concurrent.futures import ThreadPoolExecutor
    if not lines:
        return []
    n = nshards or min(C.NCPU, max(1, len(lines) // 50))
    size = (len(lines) + n - 1) // n
    shards = [lines[i:i + size] for i in range(0, len(lines), size)]

    def work(sh_lines):
        out = []
        rest = list(sh_lines)
        crashes = 0
        while rest:
            rc, o, e = C.sh([binary], inp="\n".join(rest) + "\n", timeout=timeout, env=env)
            got = o.splitlines()
            if len(got) >= len(rest):
                out.extend(got[:len(rest)])
                break
            out.extend(got)
            tail = e.strip().splitlines()[-1][:160] if e.strip() else ""
            out.append("CRASH rc=%d %s" % (rc, tail))
            rest = rest[len(got) + 1:]
            crashes += 1
            if crashes >= max_crashes:
                out.extend(["NOTRUN"] * len(rest))
                break
        return out

    res = []
    with ThreadPoolExecutor(max_workers=C.NCPU) as ex:
        for r in ex.map(work, shards):
            res.extend(r)
    return res
