"""vp/gen/vtext.py — syntactically valid Veryl text with layout noise.

Two sources of programs, one layout engine:

  * gen_program(rng, size, old_for=False)   synthetic designs (token list) that are well-formed by
                                            construction: every name declared, every variable driven once
  * repo_testcases(repo) + lex_tokens(...)  the repository's testcases/**/*.veryl, cut into tokens by a
                                            lexer that is DERIVED from crates/parser/veryl.par on every
                                            call (terminals, scanner modes, %on transitions), so the
                                            cut follows the grammar of the tree under test
  * layout(tokens, rng, profile)            puts the tokens back together with random layout: runs of
                                            blanks / tabs, LF / CRLF / (rarely) lone CR, blank-line
                                            runs, line comments, block comments (one-line, multi-line,
                                            "/**/", "/***/", stars and slashes inside), doc comments,
                                            several comments per line, multi-byte UTF-8 (2, 3 and 4
                                            byte characters) in comments, comments before the first token
                                            and after the last one.  Tokens are never split or merged
                                            (need_sep is decided with the derived lexer).

A token is   Tok(text, kind, gap, tag)
  kind : terminal name ("IdentifierTerm", ...) or "" for synthetic tokens
  gap  : None  -> the layout engine chooses what follows the token
         str   -> exactly this text follows the token (inside embed {{{ ... }}} bodies)
  tag  : free marker ("for_type" marks the `: Type` of an old-grammar for statement, C23)

Everything is deterministic in the rng that is passed in.  Text is python str; callers encode
as UTF-8.  Used by C12, C13, C23 and the formatter properties.
"""
import os
import re
from collections import namedtuple

Tok = namedtuple("Tok", "text kind gap tag")


def T(text, kind="", gap=None, tag=None):
    return Tok(text, kind, gap, tag)


class LexError(Exception):
    pass


# ------------------------------------------------------------------------------------------
# lexer derived from a veryl.par

_TERM_RE = re.compile(r"^([A-Za-z0-9]+Term)\s*:\s*<([^>]*)>\s*(.*?)\s*:\s*Token\s*;", re.M)


def _conv_regex(body):
    """parol terminal body -> python regex source"""
    q = body[0]
    inner = body[1:body.rindex(q)]
    if q == "'":
        return re.escape(inner)
    # "..." and /.../ are regexes; \u{XXXX} -> python escapes
    inner = re.sub(r"\\u\{([0-9a-fA-F]+)\}", lambda m: "\\u%04x" % int(m.group(1), 16), inner)
    return inner


class ParLexer:
    """Emulation of the scnr2 scanner parol generates from a veryl.par: per-mode terminal sets,
    longest match (first terminal wins a tie), whitespace skipped unless %auto_ws_off, mode
    stack driven by the %on directives."""

    def __init__(self, par_path):
        src = open(par_path, encoding="utf8").read()
        head, _, body = src.partition("\n%%")
        self.trans = {}          # (mode, term) -> ("push"|"enter", target) | ("pop", None)
        self.auto_ws = {"INITIAL": True}
        mode = "INITIAL"
        for line in head.splitlines():
            s = line.strip()
            m = re.match(r"%scanner\s+(\w+)\s*\{", s)
            if m:
                mode = m.group(1)
                self.auto_ws.setdefault(mode, True)
                continue
            if s == "}":
                mode = "INITIAL"
                continue
            if s.startswith("%auto_ws_off"):
                self.auto_ws[mode] = False
            m = re.match(r"%on\s+(\w+)\s+%(push|enter)\s+(\w+)", s)
            if m:
                self.trans[(mode, m.group(1))] = (m.group(2), m.group(3))
            m = re.match(r"%on\s+(\w+)\s+%pop", s)
            if m:
                self.trans[(mode, m.group(1))] = ("pop", None)
        self.terms = []          # (name, modes, compiled)
        for m in _TERM_RE.finditer(body):
            name, modes, rx = m.group(1), m.group(2), m.group(3)
            modes = [x.strip() for x in modes.split(",") if x.strip()]
            self.terms.append((name, set(modes), re.compile(_conv_regex(rx))))
        if not any(n == "CommentsTerm" for n, _, _ in self.terms) or len(self.terms) < 100:
            raise LexError("cannot read the terminals of " + par_path)
        self._sep_cache = {}
        # speed: a keyword terminal is a literal word that the identifier terminal also matches, so
        # at a word only the identifier regex is tried and the keyword (earlier in the file, wins the
        # tie) is looked up afterwards.  Falls back to the plain loop when the grammar has no such shape.
        self._ident = next(((n, m, r) for n, m, r in self.terms if n == "IdentifierTerm"), None)
        self._kw = {}
        self._rest = []
        for idx, (name, modes, rx) in enumerate(self.terms):
            src_ = rx.pattern
            if self._ident and re.fullmatch(r"[a-z_][a-z_0-9]*", src_) and self._ident[2].fullmatch(src_) \
                    and idx < self.terms.index(self._ident):
                self._kw[src_] = (name, modes)
            else:
                self._rest.append((name, modes, rx))
        self._word = re.compile(r"[A-Za-z_]")

    def lex(self, text, start_mode="INITIAL"):
        """-> list of (kind, text, start, mode_at_start).  Comment runs are one CommentsTerm."""
        out = []
        stack = []
        mode = start_mode
        i = 0
        n = len(text)
        ws = re.compile(r"\s+")
        while i < n:
            if self.auto_ws.get(mode, True):
                m = ws.match(text, i)
                if m:
                    i = m.end()
                    if i >= n:
                        break
            best = None
            if self._ident and mode in self._ident[1] and self._word.match(text, i) and not text.startswith("r#", i):
                m = self._ident[2].match(text, i)
                if m:
                    kw = self._kw.get(m.group(0))
                    best = (kw[0] if kw and mode in kw[1] else "IdentifierTerm", m.end())
            if best is None:
                for name, modes, rx in (self._rest if self._ident and mode in self._ident[1] else self.terms):
                    if mode not in modes:
                        continue
                    m = rx.match(text, i)
                    if m and m.end() > i and (best is None or m.end() > best[1]):
                        best = (name, m.end())
            if best is None:
                raise LexError("no terminal matches at offset %d (mode %s): %r" % (i, mode, text[i:i + 20]))
            name, e = best
            out.append((name, text[i:e], i, mode))
            i = e
            tr = self.trans.get((mode, name))
            if tr:
                if tr[0] == "push":
                    stack.append(mode)
                    mode = tr[1]
                elif tr[0] == "enter":
                    mode = tr[1]
                elif tr[0] == "pop" and stack:
                    mode = stack.pop()
        return out

    def need_sep(self, a, b):
        """True when writing a immediately followed by b would not be read back as a, b
        (b may be a comment: then the second token must be the comment run)."""
        key = (a, b)
        r = self._sep_cache.get(key)
        if r is None:
            r = True
            try:
                t = self.lex(a + b + "\n")
                if len(t) >= 2 and t[0][1] == a and t[1][2] == len(a):
                    if b.startswith("//") or b.startswith("/*"):
                        r = not (t[1][0] == "CommentsTerm")
                    else:
                        r = not (t[1][1] == b and len(t) == 2)
            except LexError:
                r = True
            self._sep_cache[key] = r
        return r


_lexers = {}


def lexer(repo, which="parser"):
    p = os.path.join(repo, "crates", which, "veryl.par")
    key = (p, os.path.getmtime(p))
    if key not in _lexers:
        _lexers[key] = ParLexer(p)
    return _lexers[key]


def lex_tokens(text, lx):
    """Cut a Veryl source into Tok items (comments and whitespace dropped; the inside of an
    embed body is kept verbatim through `gap`).  -> (tokens, comments) where comments is the list
    of comment-run texts that were dropped."""
    raw = lx.lex(text)
    toks = []
    comments = []
    for idx, (kind, s, start, mode) in enumerate(raw):
        if kind == "CommentsTerm":
            comments.append(s)
            continue
        toks.append([s, kind, None, None, start, mode])
    # verbatim zones: from a TripleLBraceTerm up to the matching TripleRBraceTerm every gap is
    # the original text between the tokens
    inside = False
    for j, t in enumerate(toks):
        if t[1] == "TripleLBraceTerm":
            inside = True
        if t[1] == "TripleRBraceTerm":
            inside = False
        if inside and j + 1 < len(toks):
            t[2] = text[t[4] + len(t[0]):toks[j + 1][4]]
    return [Tok(t[0], t[1], t[2], t[3]) for t in toks], comments


def repo_testcases(repo, subdirs=("veryl", "sample/src", "native_test/src", "filelist/a/src", "heliodor", "map")):
    """[(relative path, text)] of the repository's .veryl testcases (sorted; the `error`
    directory holds programs that are meant to be rejected and is left out by default)."""
    out = []
    base = os.path.join(repo, "testcases")
    for sd in subdirs:
        d = os.path.join(base, sd)
        if not os.path.isdir(d):
            continue
        for root, dirs, files in os.walk(d):
            dirs.sort()
            for f in sorted(files):
                if f.endswith(".veryl"):
                    p = os.path.join(root, f)
                    try:
                        out.append((os.path.relpath(p, repo), open(p, encoding="utf8").read()))
                    except (OSError, UnicodeDecodeError):
                        pass
    return out


# ------------------------------------------------------------------------------------------
# layout noise

PROFILES = {
    # name: probabilities / switches
    "plain":   dict(p_comment=0.0, p_none=0.0, p_nl=0.15, p_blank=0.02, p_multi=0.0, p_utf8=0.0, eol="lf", p_cr=0.0, p_tab=0.0),
    "ascii":   dict(p_comment=0.18, p_none=0.3, p_nl=0.25, p_blank=0.08, p_multi=0.35, p_utf8=0.0, eol="lf", p_cr=0.0, p_tab=0.15),
    "utf8":    dict(p_comment=0.22, p_none=0.3, p_nl=0.2, p_blank=0.06, p_multi=0.35, p_utf8=0.6, eol="lf", p_cr=0.0, p_tab=0.1),
    "crlf":    dict(p_comment=0.2, p_none=0.25, p_nl=0.3, p_blank=0.1, p_multi=0.4, p_utf8=0.4, eol="crlf", p_cr=0.0, p_tab=0.1),
    "mixed":   dict(p_comment=0.25, p_none=0.25, p_nl=0.3, p_blank=0.1, p_multi=0.45, p_utf8=0.5, eol="mixed", p_cr=0.03, p_tab=0.2),
    "dense":   dict(p_comment=0.6, p_none=0.4, p_nl=0.1, p_blank=0.03, p_multi=0.6, p_utf8=0.5, eol="lf", p_cr=0.0, p_tab=0.05),
}
PROFILE_NAMES = sorted(PROFILES)

_UTF8 = ["é", "ß", "ñ", "Ω", "日本語", "漢", "→", "✓", "😀", "𝔘", "e\u0301", "א", "—", "\u00a0", "ü"]
_WORDS = ["todo", "fix", "x", "clk", "the", "a", "b", "data", "note", "if", "module", "0", "1'b0", "=", ";", "{", "}",
          "*", "**", "/", "* /", "/ *", "//", "/*", "\"", "'", "\\", "#", "$", "@", "`", "<=", "::"]


def _eol(rng, pr):
    e = pr["eol"]
    if e == "lf":
        return "\n"
    if e == "crlf":
        return "\r\n"
    return rng.choice(["\n", "\r\n", "\n"])


def _comment_words(rng, pr, n):
    ws = []
    for _ in range(n):
        if rng.random() < pr["p_utf8"]:
            ws.append(rng.choice(_UTF8))
        else:
            ws.append(rng.choice(_WORDS))
    return ws


def gen_comment(rng, pr, force_block=False):
    """-> (text, is_line).  A line comment ends with its end-of-line."""
    kind = rng.random()
    if not force_block and kind < 0.45:
        lead = rng.choice(["//", "//", "// ", "///", "/// ", "//!", "////"])
        body = " ".join(_comment_words(rng, pr, rng.randint(0, 5)))
        if rng.random() < pr["p_cr"]:
            # a lone CR does not end the comment for the splitter; keep comment openers out of
            # the tail (the lexer may end the line comment at the CR when that gives a longer run)
            body = body.replace("/*", "/ *") + "\r" + rng.choice(["x", "todo", "b", "1", ";"])
        return lead + body + _eol(rng, pr), True
    r = rng.random()
    if r < 0.06:
        return "/**/", False
    if r < 0.12:
        return "/***/", False
    if r < 0.16:
        return "/****/", False
    parts = []
    nlines = 1
    if rng.random() < pr["p_multi"]:
        nlines = rng.randint(2, 4)
    for li in range(nlines):
        seg = " ".join(_comment_words(rng, pr, rng.randint(0, 4)))
        parts.append(rng.choice(["", " ", "  ", " * ", "\t"]) + seg)
    body = parts[0]
    for seg in parts[1:]:
        body += _eol(rng, pr) + seg
    body = body.replace("*/", "* /")
    if body.endswith("*") and rng.random() < 0.5:
        body += " "
    opener = rng.choice(["/*", "/*", "/* ", "/**", "/** "])
    closer = rng.choice(["*/", " */", "**/"])
    text = opener + body + closer
    # the comment must end at its own closer: the first "*/" from offset 2 is the last two characters
    if text.find("*/", 2) != len(text) - 2:
        text = opener + " " + body + closer
    assert text.find("*/", 2) == len(text) - 2, text
    return text, False


def _blanks(rng, pr, lo=1, hi=4):
    n = rng.randint(lo, hi)
    if rng.random() < pr["p_tab"]:
        return "".join(rng.choice(" \t") for _ in range(n))
    return " " * n


def gen_gap(rng, pr, lx, a, b, first=False, last=False):
    """Random layout between token texts a and b (a == "" at the start, b == "" at the end).
    Never empty where the two tokens would fuse."""
    out = ""
    r = rng.random()
    if r < pr["p_comment"]:
        ncom = 1 if rng.random() < 0.55 else rng.randint(2, 4)
        pre = rng.choice(["", " ", "  ", _eol(rng, pr), _eol(rng, pr) + _blanks(rng, pr, 0, 6)])
        out += pre
        after_line = False
        for k in range(ncom):
            c, is_line = gen_comment(rng, pr)
            if out == "" or not out[-1:].isspace():
                prev = a if out == "" else None
                if prev is not None and prev != "" and lx.need_sep(prev, c):
                    out += " "
            out += c
            after_line = is_line
            if k + 1 < ncom or True:
                x = rng.random()
                if is_line:
                    out += rng.choice(["", "", _blanks(rng, pr, 0, 8), _eol(rng, pr), _eol(rng, pr) * 2 + _blanks(rng, pr, 0, 4)])
                elif x < 0.35:
                    out += ""
                elif x < 0.7:
                    out += _blanks(rng, pr)
                else:
                    out += _eol(rng, pr) + _blanks(rng, pr, 0, 8)
        return out
    r = rng.random()
    if r < pr["p_none"] and a != "" and b != "" and not lx.need_sep(a, b):
        return ""
    if a == "" and rng.random() < 0.5:
        return ""
    r = rng.random()
    if r < pr["p_blank"]:
        return _eol(rng, pr) * rng.randint(2, 4) + _blanks(rng, pr, 0, 8)
    if r < pr["p_blank"] + pr["p_nl"]:
        trail = _blanks(rng, pr, 1, 2) if rng.random() < 0.2 else ""
        return trail + _eol(rng, pr) + _blanks(rng, pr, 0, 12)
    if rng.random() < pr["p_cr"]:
        return " \r "
    if rng.random() < 0.7:
        return " "
    return _blanks(rng, pr)


def _guard(gap, nxt):
    """A token starting with '/' is never placed directly after the newline that ends a comment
    run: the lexer (scnr2 0.5.2) then reports a wrong line for it and for everything after it
    (KNOWN_FINDINGS C12 lexer-slash-after-comment-newline); that input shape lives in corpus/C12
    only, so that the generated streams keep every other check sharp."""
    if nxt.startswith("/") and gap.endswith("\n") and "/" in gap:
        return gap + " "
    return gap


def layout(tokens, rng, profile, lx):
    """tokens: list of Tok -> text.  profile: name in PROFILES or a dict."""
    pr = PROFILES[profile] if isinstance(profile, str) else profile
    out = []
    if tokens:
        out.append(_guard(gen_gap(rng, pr, lx, "", tokens[0].text, first=True), tokens[0].text))
    for i, t in enumerate(tokens):
        out.append(t.text)
        if t.gap is not None:
            out.append(t.gap)
            continue
        nxt = tokens[i + 1].text if i + 1 < len(tokens) else ""
        g = _guard(gen_gap(rng, pr, lx, t.text, nxt, last=(nxt == "")), nxt)
        # a gap that ends in a block comment directly before the next token is always safe;
        # a gap that is empty was checked by need_sep; anything else contains whitespace
        out.append(g)
    s = "".join(out)
    if not s.endswith("\n") and rng.random() < 0.7:
        s += _eol(rng, pr)
    return s


def relayout(text, rng, profile, lx):
    """Re-lay-out an existing source: same tokens, new whitespace and comments."""
    toks, _ = lex_tokens(text, lx)
    return layout(toks, rng, profile, lx), toks


# ------------------------------------------------------------------------------------------
# synthetic designs

_STR_PIECES = ["hello", "a b", "%d", "é", "日本", "😀", "\\n", "\\t", "\\\"", "\\\\", "//", "/* x */", "  ", "x=%h"]


class _Gen:
    def __init__(self, rng, old_for):
        self.rng = rng
        self.old_for = old_for
        self.out = []
        self.mod_names = []
        self.uid = 0
        self.n_for = 0

    def e(self, *texts, tag=None):
        for t in texts:
            self.out.append(Tok(t, "", None, tag))

    def fresh(self, p):
        """fresh name; lengths vary on purpose (alignment groups with members of unequal width)"""
        self.uid += 1
        if len(p) == 1 and self.rng.random() < 0.45:
            p = p + self.rng.choice(["_x", "_long", "_much_longer_name", "_q", "_mid_len"]) + "_"
        return "%s%d" % (p, self.uid)

    # ---- expressions over the readable names `rd` (all logic<W>)
    def number(self):
        r = self.rng
        return r.choice(["0", "1", "2", "3", "8'hff", "4'b1010", "16'd42", "8'o17", "32'h0000_00ff", "1'b1", "10", "8'b0000_1111"])

    def expr(self, rd, depth):
        r = self.rng
        if depth <= 0 or r.random() < 0.3:
            if rd and r.random() < 0.7:
                self.e(r.choice(rd))
            else:
                self.e(self.number())
            return
        k = r.randrange(9)
        if k == 0:
            self.e("(")
            self.expr(rd, depth - 1)
            self.e(")")
        elif k == 1:
            self.e(r.choice(["~", "-", "&", "|", "^", "~&", "~|", "~^"]))
            self.e("(")
            self.expr(rd, depth - 1)
            self.e(")")
        elif k in (2, 3):
            self.expr(rd, depth - 1)
            self.e(r.choice(["+", "-", "*", "&", "|", "^", "~^", "<<", ">>", "==", "!=", "<:", ">:", "<=", ">=", "==?", "!=?"]))
            self.expr(rd, depth - 1)
        elif k == 4:
            # logical operators take 1-bit operands
            self.e("(")
            if r.random() < 0.3:
                self.e("!")
            self.e("(", "(")
            self.expr(rd, depth - 1)
            self.e(")", r.choice(["!=", "==", "<:", ">="]), self.number(), ")")
            self.e(r.choice(["&&", "||"]), "(", "(")
            self.expr(rd, depth - 1)
            self.e(")", r.choice(["!=", "==", ">:", "<="]), self.number(), ")", ")")
        elif k == 5:
            self.e("(", "if")
            self.cond(rd, depth - 1)
            self.e("?")
            self.expr(rd, depth - 1)
            self.e(":")
            self.expr(rd, depth - 1)
            self.e(")")
        elif k == 6:
            self.e("{")
            self.e(r.choice(rd) if rd and r.random() < 0.6 else self.sized())
            if r.random() < 0.4:
                self.e("repeat", r.choice(["2", "3"]))
            self.e(",")
            self.e(r.choice(rd) if rd and r.random() < 0.6 else self.sized())
            self.e("}")
        elif k == 7 and rd:
            self.e(r.choice(rd), "[", r.choice(["0", "1", "2"]), "]")
        elif k == 8 and rd:
            self.e(r.choice(rd), "[", "3", r.choice([":", "-:"]) if r.random() < 0.5 else ":", "1", "]")
        else:
            self.e(self.number())

    def sized(self):
        return self.rng.choice(["8'hff", "4'b1010", "16'd42", "8'o17", "32'h0000_00ff", "1'b1", "8'b0000_1111"])

    def cond(self, rd, depth):
        """a 1-bit expression"""
        r = self.rng
        k = r.randrange(4)
        if k == 0 and rd:
            self.e(r.choice(rd), "[", r.choice(["0", "1", "7"]), "]")
        elif k == 1:
            self.e(r.choice(["|", "&", "^"]), "(")
            self.expr(rd, depth)
            self.e(")")
        else:
            self.e("(")
            self.expr(rd, depth)
            self.e(")", r.choice(["!=", "==", "<:", ">:", "<=", ">="]), "(")
            self.expr(rd, depth)
            self.e(")")

    def for_head(self, var, hi):
        r = self.rng
        self.n_for += 1
        self.e("for", var)
        if self.old_for:
            self.e(":", tag="for_type")
            ty = r.choice([["u32"], ["i32"], ["u8"], ["u64"], ["i8"], ["logic", "<", "8", ">"], ["bit", "<", "4", ">"], ["u16"]])
            for t in ty:
                self.e(t, tag="for_type")
        self.e("in")
        if r.random() < 0.2:
            self.e("rev")
        self.e("0", r.choice(["..", "..="]), str(hi))
        if r.random() < 0.15:
            self.e("step", "+=", "2")

    def statements(self, rd, wr, depth):
        """assign every name in wr at least once on every path (default first, then noise)"""
        r = self.rng
        for v in wr:
            self.e(v, "=")
            self.expr(rd, 2)
            self.e(";")
        for _ in range(r.randint(1 if (self.old_for and self.n_for == 0) else 0, 3)):
            if not wr:
                break
            k = r.randrange(5)
            if self.old_for and self.n_for == 0 and depth > 0:
                k = 3          # an old-grammar program holds at least one for statement
            v = r.choice(wr)
            if k == 0 or depth <= 0:
                self.e(v, r.choice(["=", "=", "+=", "|=", "&=", "^=", "<<=", "-="]))
                self.expr(rd, 2)
                self.e(";")
            elif k == 1:
                self.e("if")
                self.cond(rd, 1)
                self.e("{")
                self.statements(rd, [v], depth - 1)
                self.e("}")
                if r.random() < 0.5:
                    self.e("else", "if")
                    self.cond(rd, 1)
                    self.e("{")
                    self.statements(rd, [v], depth - 1)
                    self.e("}")
                if r.random() < 0.6:
                    self.e("else", "{")
                    self.statements(rd, [v], depth - 1)
                    self.e("}")
            elif k == 2:
                self.e("case", r.choice(rd) if rd else "1", "{")
                for c in r.sample(["0", "1", "2", "3", "8'h10"], r.randint(1, 3)):
                    self.e(c, ":", v, "=")
                    self.expr(rd, 1)
                    self.e(";")
                self.e("default", ":", "{")
                self.statements(rd, [v], depth - 1)
                self.e("}", "}")
            elif k == 3:
                i = self.fresh("ix")
                self.for_head(i, r.choice([2, 3, 4]))
                self.e("{")
                self.e(v, "[", i, "]", "=")
                self.expr(rd, 1)
                self.e(";")
                if r.random() < 0.3 and depth > 1:
                    j = self.fresh("jx")
                    self.for_head(j, 2)
                    self.e("{", v, "[", j, "]", "=", "~", v, "[", i, "]", ";", "}")
                self.e("}")
            else:
                self.e("switch", "{")
                self.cond(rd, 1)
                self.e(":", v, "=")
                self.expr(rd, 1)
                self.e(";")
                self.e("default", ":", v, "=", self.number(), ";", "}")

    def string(self):
        r = self.rng
        return '"' + "".join(r.choice(_STR_PIECES) for _ in range(r.randint(0, 4))) + '"'

    def module(self):
        r = self.rng
        name = self.fresh("Mod")
        if r.random() < 0.25:
            self.e("#[", "allow", "(", r.choice(["unused_variable", "missing_reset_statement", "missing_port"]), ")", "]")
        if r.random() < 0.2:
            self.e("pub")
        self.e("module", name)
        if r.random() < 0.4:
            self.e("#", "(", "param", "W", ":", "u32", "=", r.choice(["8", "16"]), ",", ")")
        nin = r.randint(1, 3)
        nout = r.randint(1, 3)
        ins = [self.fresh("a") for _ in range(nin)]
        outs = [self.fresh("o") for _ in range(nout)]
        self.e("(")
        self.e("clk", ":", "input", "clock", ",")
        self.e("rst", ":", "input", "reset", ",")
        for v in ins:
            self.e(v, ":", "input", "logic", "<", "8", ">", ",")
        for k, v in enumerate(outs):
            self.e(v, ":", "output", "logic", "<", "8", ">")
            if k + 1 < len(outs) or r.random() < 0.5:
                self.e(",")
        self.e(")", "{")
        rd = list(ins)
        pending = list(outs)
        for _ in range(r.randint(0, 3)):
            v = self.fresh("v")
            self.e("var", v, ":", "logic", "<", "8", ">", ";")
            pending.append(v)
        r.shuffle(pending)
        # let / const
        for _ in range(r.randint(0, 2)):
            v = self.fresh("c")
            if r.random() < 0.5:
                self.e("const", v.upper(), ":", "u32", "=", self.number(), ";")
            else:
                self.e("let", v, ":", "logic", "<", "8", ">", "=")
                self.expr(rd, 2)
                self.e(";")
                rd.append(v)
        while pending:
            k = r.randrange(5)
            take = pending[:r.randint(1, 2)]
            pending = pending[len(take):]
            if k == 0:
                for v in take:
                    self.e("assign", v, "=")
                    self.expr(rd, 3)
                    self.e(";")
            elif k in (1, 2):
                self.e("always_comb", "{")
                self.statements(rd, take, 2)
                self.e("}")
            elif k == 3:
                self.e("always_ff")
                if r.random() < 0.5:
                    self.e("(", "clk", ",", "rst", ")")
                self.e("{", "if_reset", "{")
                for v in take:
                    self.e(v, "=", r.choice(["'0", "'1", "0", self.number()]), ";")
                self.e("}", "else", "{")
                self.statements(rd + take, take, 1)
                self.e("}", "}")
            else:
                for v in take:
                    self.e("assign", v, "=")
                    self.e("case", r.choice(rd), "{", "0", ":", self.number(), ",", "1", "..=", "3", ":")
                    self.expr(rd, 1)
                    self.e(",", "default", ":", self.number(), ",", "}", ";")
            rd.extend(take)
        for _ in range(r.choice([0, 1, 1, 2])):
            self.struct_ctor(rd)
        if r.random() < 0.35:
            self.e("initial", "{", "$display", "(", self.string(), ",", r.choice(rd), ")", ";", "}")
        if r.random() < 0.3:
            g = self.fresh("g")
            i = self.fresh("ix")
            self.e("for", i, "in", "0", "..", "2", ":", g, "{")
            w = self.fresh("w")
            self.e("let", "_" + w, ":", "logic", "<", "8", ">", "=", r.choice(rd), "+", i, ";")
            self.e("}")
        if self.mod_names and r.random() < 0.5:
            m, mins, mouts = r.choice(self.mod_names)
            u = self.fresh("ux")
            self.e("inst", u, ":", m, "(")
            self.e("clk", ",", "rst", ",")
            for p in mins:
                self.e(p, ":", r.choice(rd), ",")
            for p in mouts:
                self.e(p, ":", "_", ",")
            self.e(")", ";")
        if r.random() < 0.3:
            f = self.fresh("f")
            self.e("function", f, "(", "x", ":", "input", "logic", "<", "8", ">", ")", "->", "logic", "<", "8", ">", "{")
            self.e("return", "x", "+", "1", ";", "}")
        self.e("}")
        self.mod_names.append((name, ins, outs))

    def struct_ctor(self, rd):
        """a struct with member names of unequal length and a constructor for it (the emitter
        aligns the members of a constructor only when the constructor breaks over lines)"""
        r = self.rng
        st = self.fresh("St")
        pool = ["a", "bb", "x", "much_longer_name", "mid_len", "q", "data_valid", "k0", "the_longest_member_name_here"]
        names = r.sample(pool, r.randint(2, 5))
        self.e("struct", st, "{")
        for n in names:
            self.e(n, ":", "logic", "<", "8", ">", ",")
        self.e("}")
        v = self.fresh("s")
        self.e("let", "_" + v, ":", st, "=", st, "'{")
        for i, n in enumerate(names):
            self.e(n, ":")
            if rd and r.random() < 0.7:
                self.e(r.choice(rd))
                if r.random() < 0.5:
                    self.e(r.choice(["+", "&", "|", "^"]), r.choice(rd))
            else:
                self.e(self.sized() if r.random() < 0.5 else "8'h" + r.choice(["0", "7f", "ff", "a5"]))
            if i + 1 < len(names) or r.random() < 0.5:
                self.e(",")
        self.e("}", ";")

    def package(self):
        r = self.rng
        name = self.fresh("Pkg")
        self.e("package", name, "{")
        for _ in range(r.randint(1, 3)):
            c = self.fresh("K")
            self.e("const", c, ":")
            if r.random() < 0.3:
                self.e("bit", "<", "8", ">")
            else:
                self.e(r.choice(["u32", "u8"]))
            self.e("=", self.number(), ";")
        if r.random() < 0.5:
            en = self.fresh("En")
            self.e("enum", en, ":", "logic", "<", "2", ">", "{", "A" + en, ",", "B" + en, "=", "2", ",", "}")
        if r.random() < 0.5:
            st = self.fresh("St")
            self.e("struct", st, "{", "x", ":", "logic", "<", "4", ">", ",", "y", ":", "logic", ",", "}")
        self.e("}")


def gen_program(rng, size=2, old_for=False):
    """-> list of Tok: `size` top-level items (modules, a few packages)."""
    g = _Gen(rng, old_for)
    for _ in range(size):
        if rng.random() < 0.2:
            g.package()
        else:
            g.module()
    return g.out


def tokens_text(tokens):
    return [t.text for t in tokens]
