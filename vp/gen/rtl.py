"""µRTL generator: programs in the core of Veryl covered by coq/Rtl, printed as Veryl text (for the real
tools) and as a token line (for the extracted reference, vp/rtl_ref.py), plus stimulus.

AST (python tuples; variable = index into module["decls"]):
  expr : ("lit", w, signed, payload, mask) | ("var", x) | ("sel", x, hi, lo) | ("un", op, e)
       | ("bin", op, a, b) | ("tern", c, a, b) | ("cat", [(e, n), ...]) | ("cast", w, e) | ("sign", sg, e)
  stmt : ("assign", x, e) | ("asel", x, hi, lo, e) | ("if", c, [stmt], [stmt])
       | ("case", sel, [([pattern expr], [stmt])], [stmt])
  item : ("assign", x, e) | ("comb", [stmt]) | ("ff", [stmt] | None, [stmt])
  module = {"decls": [(name, width, signed, two_state, kind in/out/var)], "items": [item],
            "order": [indices of the comb items in dependency order]}
  stim  = [(reset?, [(payload, mask) per input, in declaration order])]

Everything random derives from the random.Random handed in.  All shapes are documented in
design/RTL.md; `histogram(module)` returns the construct histogram recorded in the evidence.
"""
import random
from collections import Counter

UNOPS = {"plus": "+", "minus": "-", "bitnot": "~", "lognot": "!", "rand": "&", "rnand": "~&",
         "ror": "|", "rnor": "~|", "rxor": "^", "rxnor": "~^"}
BINOPS = {"add": "+", "sub": "-", "mul": "*", "div": "/", "rem": "%", "and": "&", "or": "|", "xor": "^",
          "xnor": "~^", "shl": "<<", "shr": ">>", "ashl": "<<<", "ashr": ">>>", "pow": "**",
          "lt": "<:", "le": "<=", "gt": ">:", "ge": ">=", "eq": "==", "ne": "!=", "weq": "==?",
          "wne": "!=?", "land": "&&", "lor": "||"}
ARITH = ["add", "sub", "mul", "div", "rem"]
BITW = ["and", "or", "xor", "xnor"]
SHIFT = ["shl", "shr", "ashl", "ashr"]
REL = ["lt", "le", "gt", "ge"]
EQ = ["eq", "ne", "weq", "wne"]
LOGIC = ["land", "lor"]
REDUCE = ["rand", "rnand", "ror", "rnor", "rxor", "rxnor"]

BOUNDARY_WIDTHS = [1, 2, 3, 7, 8, 9, 15, 16, 17, 31, 32, 33, 63, 64, 65, 66, 100, 127, 128, 129, 130, 191, 192, 193, 200]


# ------------------------------------------------------------------------------------ typing (mirror of coq/Rtl/Eval.v gather)

def gather(m, e):
    """self-determined (width, signed) — must stay identical to VV.Rtl.Eval.gather"""
    k = e[0]
    D = m["decls"]
    if k == "lit":
        return (e[1], e[2])
    if k == "var":
        return (D[e[1]][1], D[e[1]][2])
    if k == "sel":
        return (e[2] - e[3] + 1, D[e[1]][2])
    if k == "un":
        if e[1] in ("plus", "minus", "bitnot"):
            return gather(m, e[2])
        return (1, False)
    if k == "bin":
        o = e[1]
        ga = gather(m, e[2])
        gb = gather(m, e[3])
        if o in ARITH or o in BITW:
            return (max(ga[0], gb[0]), ga[1] and gb[1])
        if o in SHIFT or o == "pow":
            return ga
        if o in REL:
            return (1, ga[1] and gb[1])
        return (1, False)
    if k == "tern":
        ga = gather(m, e[2])
        gb = gather(m, e[3])
        return (max(ga[0], gb[0]), ga[1] and gb[1])
    if k == "cat":
        return (sum(gather(m, a)[0] * n for a, n in e[1]), False)
    if k == "cast":
        return (e[1], False)
    if k == "sign":
        return (gather(m, e[2])[0], e[1])
    raise ValueError(k)


# ------------------------------------------------------------------------------------ printers

def lit_text(w, sg, p, mk):
    s = "s" if sg else ""
    if mk == 0:
        return "%d'%sh%x" % (w, s, p)
    bits = []
    for i in range(w - 1, -1, -1):
        pb = (p >> i) & 1
        mb = (mk >> i) & 1
        bits.append(("z" if pb else "x") if mb else str(pb))
    return "%d'%sb%s" % (w, s, "".join(bits))


def expr_text(m, e):
    k = e[0]
    N = lambda x: m["decls"][x][0]
    if k == "lit":
        return lit_text(e[1], e[2], e[3], e[4])
    if k == "var":
        return N(e[1])
    if k == "sel":
        return "%s[%d]" % (N(e[1]), e[2]) if e[2] == e[3] else "%s[%d:%d]" % (N(e[1]), e[2], e[3])
    if k == "un":
        return "(%s%s)" % (UNOPS[e[1]], expr_text(m, e[2]))
    if k == "bin":
        return "(%s %s %s)" % (expr_text(m, e[2]), BINOPS[e[1]], expr_text(m, e[3]))
    if k == "tern":
        return "(if %s ? %s : %s)" % (expr_text(m, e[1]), expr_text(m, e[2]), expr_text(m, e[3]))
    if k == "cat":
        return "{%s}" % ", ".join(expr_text(m, a) + ("" if n == 1 else " repeat %d" % n) for a, n in e[1])
    if k == "cast":
        return "(%s as %d)" % (expr_text(m, e[2]), e[1])
    if k == "sign":
        return "%s(%s)" % ("$signed" if e[1] else "$unsigned", expr_text(m, e[2]))
    raise ValueError(k)


def stmt_text(m, s, ind):
    pad = "    " * ind
    N = lambda x: m["decls"][x][0]
    k = s[0]
    if k == "assign":
        return ["%s%s = %s;" % (pad, N(s[1]), expr_text(m, s[2]))]
    if k == "asel":
        t = "%s[%d]" % (N(s[1]), s[2]) if s[2] == s[3] else "%s[%d:%d]" % (N(s[1]), s[2], s[3])
        return ["%s%s = %s;" % (pad, t, expr_text(m, s[4]))]
    if k == "if":
        out = ["%sif %s {" % (pad, expr_text(m, s[1]))]
        for x in s[2]:
            out += stmt_text(m, x, ind + 1)
        if s[3]:
            out.append("%s} else {" % pad)
            for x in s[3]:
                out += stmt_text(m, x, ind + 1)
        out.append("%s}" % pad)
        return out
    if k == "case":
        out = ["%scase %s {" % (pad, expr_text(m, s[1]))]
        for pats, body in s[2]:
            out.append("%s    %s: {" % (pad, ", ".join(expr_text(m, p) for p in pats)))
            for x in body:
                out += stmt_text(m, x, ind + 2)
            out.append("%s    }" % pad)
        out.append("%s    default: {" % pad)
        for x in s[3]:
            out += stmt_text(m, x, ind + 2)
        out.append("%s    }" % pad)
        out.append("%s}" % pad)
        return out
    raise ValueError(k)


def type_text(w, sg, two):
    return "%s%s<%d>" % ("signed " if sg else "", "bit" if two else "logic", w)


def expr_vars(e, acc):
    k = e[0]
    if k in ("var", "sel"):
        acc.add(e[1])
    elif k in ("un", "cast", "sign"):
        expr_vars(e[2], acc)
    elif k == "bin":
        expr_vars(e[2], acc)
        expr_vars(e[3], acc)
    elif k == "tern":
        for x in e[1:]:
            expr_vars(x, acc)
    elif k == "cat":
        for a, _ in e[1]:
            expr_vars(a, acc)


def stmt_rw(s, rd, wr):
    k = s[0]
    if k == "assign":
        wr.add(s[1])
        expr_vars(s[2], rd)
    elif k == "asel":
        wr.add(s[1])
        expr_vars(s[4], rd)
    elif k == "if":
        expr_vars(s[1], rd)
        for x in s[2] + s[3]:
            stmt_rw(x, rd, wr)
    elif k == "case":
        expr_vars(s[1], rd)
        for p, b in s[2]:
            for x in b:
                stmt_rw(x, rd, wr)
        for x in s[3]:
            stmt_rw(x, rd, wr)


def item_rw(it):
    rd, wr = set(), set()
    if it[0] == "assign":
        wr.add(it[1])
        expr_vars(it[2], rd)
    elif it[0] == "comb":
        for s in it[1]:
            stmt_rw(s, rd, wr)
    else:
        for s in (it[1] or []) + it[2]:
            stmt_rw(s, rd, wr)
    return rd, wr


def item_lines(m, it, disp=None):
    """disp: variables to print with $display at the end of an always_ff (text only: the reference has no
    $display; the engines' output is compared with each other)"""
    D = m["decls"]
    lines = []
    if it[0] == "assign":
        lines.append("    assign %s = %s;" % (D[it[1]][0], expr_text(m, it[2])))
    elif it[0] == "comb":
        lines.append("    always_comb {")
        for s in it[1]:
            lines += stmt_text(m, s, 2)
        lines.append("    }")
    else:
        lines.append("    always_ff {")
        if it[1] is not None:
            lines.append("        if_reset {")
            for s in it[1]:
                lines += stmt_text(m, s, 3)
            lines.append("        } else {")
            for s in it[2]:
                lines += stmt_text(m, s, 3)
            lines.append("        }")
        else:
            for s in it[2]:
                lines += stmt_text(m, s, 2)
        if disp:
            lines.append('        $display("%s", %s);' % (" ".join("%s=%%h" % D[x][0] for x in disp), ", ".join(D[x][0] for x in disp)))
        lines.append("    }")
    return lines


def to_veryl(m, top="Top"):
    """Veryl text.  m may carry "children": [{"name": str, "items": [item indices]}]: those items are
    printed inside a child module instantiated once in Top (the reference semantics sees the flat
    item list; the hierarchy exists only in the text)."""
    D = m["decls"]
    children = m.get("children") or []
    in_child = {}
    for ci, ch in enumerate(children):
        for i in ch["items"]:
            in_child[i] = ci
    rw = [item_rw(it) for it in m["items"]]
    top_items = [i for i in range(len(m["items"])) if i not in in_child]
    outside_reads = {}
    texts = []
    child_internal = set()
    insts = []
    for ci, ch in enumerate(children):
        rd, wr = set(), set()
        for i in ch["items"]:
            rd |= rw[i][0]
            wr |= rw[i][1]
        other_rd = set()
        for i in range(len(m["items"])):
            if in_child.get(i) != ci:
                other_rd |= rw[i][0]
        outs = sorted(x for x in wr if x in other_rd or D[x][4] == "out")
        ins = sorted(x for x in rd if x not in wr)
        internal = sorted(x for x in wr if x not in outs)
        child_internal |= set(internal)
        has_ff = any(m["items"][i][0] == "ff" for i in ch["items"])
        cl = ["module %s (" % ch["name"]]
        if has_ff:
            cl += ["    clk: input clock,", "    rst: input reset,"]
        for x in ins:
            cl.append("    %s: input %s," % (D[x][0], type_text(D[x][1], D[x][2], D[x][3])))
        for x in outs:
            cl.append("    %s: output %s," % (D[x][0], type_text(D[x][1], D[x][2], D[x][3])))
        cl.append(") {")
        for x in internal:
            cl.append("    var %s: %s;" % (D[x][0], type_text(D[x][1], D[x][2], D[x][3])))
        for i in ch["items"]:
            cl += item_lines(m, m["items"][i], (m.get("displays") or {}).get(str(i)))
        cl.append("}")
        texts.append("\n".join(cl))
        ports = (["clk", "rst"] if has_ff else []) + [D[x][0] for x in ins + outs]
        insts.append("    inst u%d: %s (%s);" % (ci, ch["name"], ", ".join(ports)))
    lines = ["module %s (" % top, "    clk: input clock,", "    rst: input reset,"]
    for (n, w, sg, two, kind) in D:
        if kind in ("in", "out"):
            lines.append("    %s: %s %s," % (n, "input" if kind == "in" else "output", type_text(w, sg, two)))
    lines.append(") {")
    for x, (n, w, sg, two, kind) in enumerate(D):
        if kind == "var" and x not in child_internal:
            lines.append("    var %s: %s;" % (n, type_text(w, sg, two)))
    done_inst = set()
    for i, it in enumerate(m["items"]):
        if i in in_child:
            ci = in_child[i]
            if ci not in done_inst:
                done_inst.add(ci)
                lines.append(insts[ci])
            continue
        lines += item_lines(m, it, (m.get("displays") or {}).get(str(i)))
    lines.append("}")
    texts.append("\n".join(lines))
    return "\n".join(texts) + "\n"


def expr_wire(e):
    k = e[0]
    if k == "lit":
        return "L %d %d %x %x" % (e[1], 1 if e[2] else 0, e[3], e[4])
    if k == "var":
        return "V %d" % e[1]
    if k == "sel":
        return "S %d %d %d" % (e[1], e[2], e[3])
    if k == "un":
        return "U %s %s" % (e[1], expr_wire(e[2]))
    if k == "bin":
        return "B %s %s %s" % (e[1], expr_wire(e[2]), expr_wire(e[3]))
    if k == "tern":
        return "T %s %s %s" % (expr_wire(e[1]), expr_wire(e[2]), expr_wire(e[3]))
    if k == "cat":
        return "C %d %s" % (len(e[1]), " ".join("%s %d" % (expr_wire(a), n) for a, n in e[1]))
    if k == "cast":
        return "K %d %s" % (e[1], expr_wire(e[2]))
    if k == "sign":
        return "G %d %s" % (1 if e[1] else 0, expr_wire(e[2]))
    raise ValueError(k)


def stmts_wire(l):
    return "%d %s" % (len(l), " ".join(stmt_wire(s) for s in l))


def stmt_wire(s):
    k = s[0]
    if k == "assign":
        return "A %d %s" % (s[1], expr_wire(s[2]))
    if k == "asel":
        return "P %d %d %d %s" % (s[1], s[2], s[3], expr_wire(s[4]))
    if k == "if":
        return "I %s %s %s" % (expr_wire(s[1]), stmts_wire(s[2]), stmts_wire(s[3]))
    if k == "case":
        arms = " ".join("%d %s %s" % (len(p), " ".join(expr_wire(x) for x in p), stmts_wire(b)) for p, b in s[2])
        return "W %s %d %s %s" % (expr_wire(s[1]), len(s[2]), arms, stmts_wire(s[3]))
    raise ValueError(k)


def item_wire(it):
    if it[0] == "assign":
        return "a %d %s" % (it[1], expr_wire(it[2]))
    if it[0] == "comb":
        return "c %s" % stmts_wire(it[1])
    if it[1] is None:
        return "f 0 %s" % stmts_wire(it[2])
    return "f 1 %s %s" % (stmts_wire(it[1]), stmts_wire(it[2]))


def inputs_of(m):
    return [i for i, d in enumerate(m["decls"]) if d[4] == "in"]


def outputs_of(m):
    return [i for i, d in enumerate(m["decls"]) if d[4] == "out"]


def wire_ref(m, stim, mode, noreset=False):
    D = m["decls"]
    ins = inputs_of(m)
    outs = outputs_of(m)
    t = [mode, str(len(D))]
    for (n, w, sg, two, kind) in D:
        t.append("%d %d %d %s" % (w, 1 if sg else 0, 1 if two else 0, kind))
    t.append(str(len(m["items"])))
    t += [item_wire(it) for it in m["items"]]
    t.append("%d %s" % (len(m["order"]), " ".join(str(i) for i in m["order"])))
    t.append("%d %s" % (len(outs), " ".join(str(i) for i in outs)))
    t.append("1" if noreset else "0")
    t.append("%d %s" % (len(ins), " ".join(str(i) for i in ins)))
    t.append(str(len(stim)))
    for (r, vals) in stim:
        t.append("1" if r else "0")
        for (p, mk) in vals:
            t.append("%x %x" % (p, mk))
    return " ".join(t)


def sim_case(m, stim, four_state_inputs=False, noreset=False, allow=None):
    """case dict for harness/sim (vp/rtl_sim.py)"""
    D = m["decls"]
    c = {"src": to_veryl(m), "top": "Top", "clk": "clk", "rst": "rst",
         "ins": [[D[i][0], D[i][1]] for i in inputs_of(m)],
         "outs": [[D[i][0], D[i][1]] for i in outputs_of(m)],
         "cycles": []}
    if noreset:
        c["noreset"] = True
    if allow:
        c["allow"] = allow
    for (r, vals) in stim:
        cyc = {"r": 1 if r else 0, "v": ["%x" % p for p, _ in vals]}
        if four_state_inputs:
            cyc["m"] = ["%x" % mk for _, mk in vals]
        c["cycles"].append(cyc)
    return c


# ------------------------------------------------------------------------------------ histogram

def _walk_expr(e, h):
    k = e[0]
    if k == "lit":
        h["lit" + ("_xz" if e[4] else "") + ("_signed" if e[2] else "")] += 1
    elif k == "var":
        h["var"] += 1
    elif k == "sel":
        h["select"] += 1
    elif k == "un":
        h["un:" + e[1]] += 1
        _walk_expr(e[2], h)
    elif k == "bin":
        h["bin:" + e[1]] += 1
        _walk_expr(e[2], h)
        _walk_expr(e[3], h)
    elif k == "tern":
        h["ternary"] += 1
        for x in e[1:]:
            _walk_expr(x, h)
    elif k == "cat":
        h["concat"] += 1
        for a, n in e[1]:
            if n != 1:
                h["repeat"] += 1
            _walk_expr(a, h)
    elif k == "cast":
        h["cast"] += 1
        _walk_expr(e[2], h)
    elif k == "sign":
        h["$signed" if e[1] else "$unsigned"] += 1
        _walk_expr(e[2], h)


def _walk_stmt(s, h, where):
    k = s[0]
    if k == "assign":
        h[where + ":assign"] += 1
        _walk_expr(s[2], h)
    elif k == "asel":
        h[where + ":assign_select"] += 1
        _walk_expr(s[4], h)
    elif k == "if":
        h[where + ":if"] += 1
        _walk_expr(s[1], h)
        for x in s[2] + s[3]:
            _walk_stmt(x, h, where)
    elif k == "case":
        h[where + ":case"] += 1
        _walk_expr(s[1], h)
        for p, b in s[2]:
            for x in b:
                _walk_stmt(x, h, where)
        for x in s[3]:
            _walk_stmt(x, h, where)


def histogram(m):
    h = Counter()
    for (n, w, sg, two, kind) in m["decls"]:
        h["decl:%s%s%s" % (kind, "_signed" if sg else "", "_bit" if two else "")] += 1
        h["width:" + ("1" if w == 1 else "2-32" if w <= 32 else "33-64" if w <= 64 else "65-128" if w <= 128 else "129-200")] += 1
    for it in m["items"]:
        if it[0] == "assign":
            h["item:assign"] += 1
            _walk_expr(it[2], h)
        elif it[0] == "comb":
            h["item:always_comb"] += 1
            for s in it[1]:
                _walk_stmt(s, h, "comb")
        else:
            h["item:always_ff" + ("" if it[1] is not None else "_noreset")] += 1
            for s in (it[1] or []) + it[2]:
                _walk_stmt(s, h, "ff")
    return h


# ------------------------------------------------------------------------------------ keeping programs inside the agreed fragment

ONEBIT_OPS = set(REL + EQ + LOGIC)


def tsigned(m, e):
    """signedness of the analyzer's Comptime TYPE of e (Op::eval_type_*: a binary / ternary node clones the
    type of its FIRST operand).  A narrowing cast sign-extends its result when this is true, whatever the
    gathered context says — must stay identical to VV.Rtl.Eval.tsigned."""
    k = e[0]
    if k == "lit":
        return e[2]
    if k in ("var", "sel"):
        return m["decls"][e[1]][2]
    if k == "un":
        return tsigned(m, e[2]) if e[1] in ("plus", "minus") else False
    if k == "bin":
        return tsigned(m, e[2])
    if k == "tern":
        return tsigned(m, e[1])
    if k == "cat":
        return False
    if k == "cast":
        return tsigned(m, e[2])
    if k == "sign":
        return e[1]
    raise ValueError(k)


def strip_to_var(e):
    while e[0] == "sign" or (e[0] == "un" and e[1] == "plus"):
        e = e[2]
    return e[1] if e[0] == "var" else None


def _wrap(e):
    return ("cat", [(e, 1)])


def fix_expr(m, e, cw):
    """e is evaluated in a context of width cw.  In a context wider than 64 bits a 1-bit-result operator
    (comparison, equality, && ||, reduction, !) is wrapped in a concatenation `{e}`: the JIT mishandles the
    bare forms there (findings jit-onebit-in-wide-context, design/C02.md); `{e}` is handled by all engines."""
    k = e[0]
    if k in ("lit", "var", "sel"):
        return e
    if k == "un":
        if e[1] in ("plus", "minus", "bitnot"):
            return ("un", e[1], fix_expr(m, e[2], cw))
        n = ("un", e[1], fix_expr(m, e[2], gather(m, e[2])[0]))
        return _wrap(n) if cw > 64 else n
    if k == "bin":
        o = e[1]
        if o == "xnor" and cw > 64:
            # the C backend computes ~^ of <=64-bit operands in a wider context in 64 bits only
            # (finding cc-xnor-wide-context): spell it ~(a ^ b) there
            return ("un", "bitnot", ("bin", "xor", fix_expr(m, e[2], cw), fix_expr(m, e[3], cw)))
        if o in ARITH or o in BITW:
            return ("bin", o, fix_expr(m, e[2], cw), fix_expr(m, e[3], cw))
        if o in SHIFT or o == "pow":
            return ("bin", o, fix_expr(m, e[2], cw), fix_expr(m, e[3], gather(m, e[3])[0]))
        if o in REL or o in EQ:
            mw = max(gather(m, e[2])[0], gather(m, e[3])[0])
            n = ("bin", o, fix_expr(m, e[2], mw), fix_expr(m, e[3], mw))
        else:
            n = ("bin", o, fix_expr(m, e[2], gather(m, e[2])[0]), fix_expr(m, e[3], gather(m, e[3])[0]))
        return _wrap(n) if cw > 64 else n
    if k == "tern":
        a, b = e[2], e[3]
        if a[0] == "sign" and b[0] == "sign":
            # `if c ? $signed(x) : $signed(y)` in an unsigned wider context is sign-extended by all engines
            # (C01 finding ternary-of-signed-calls; reference and SystemVerilog zero-extend): not generated
            b = b[2]
        return ("tern", fix_expr(m, e[1], gather(m, e[1])[0]), fix_expr(m, a, cw), fix_expr(m, b, cw))
    if k == "cat":
        return ("cat", [(fix_expr(m, a, gather(m, a)[0]), n) for a, n in e[1]])
    if k == "cast":
        return ("cast", e[1], fix_expr(m, e[2], max(gather(m, e[2])[0], e[1])))
    if k == "sign":
        return ("sign", e[1], fix_expr(m, e[2], gather(m, e[2])[0]))
    raise ValueError(k)


def fix_rhs(m, e, wl):
    for _ in range(3):                      # wrapping may change nothing in widths; iterate to a fixpoint anyway
        e2 = fix_expr(m, e, max(gather(m, e)[0], wl))
        if e2 == e:
            break
        e = e2
    return e


def fix_stmt(m, s):
    D = m["decls"]
    k = s[0]
    if k == "assign":
        if strip_to_var(s[2]) == s[1]:
            # `q = q;` after another write to q in one always_ff: engines with ff-opt drop it, --disable-ff-opt
            # keeps the old value (finding ff-self-assignment): never generated
            return ("assign", s[1], ("un", "bitnot", s[2]))
        return ("assign", s[1], fix_rhs(m, s[2], D[s[1]][1]))
    if k == "asel":
        wl = s[2] - s[3] + 1
        e = fix_rhs(m, s[4], wl)
        # the interpreter loses a part-select write whose right-hand side is evaluated wider than 64 bits
        # into a <=64-bit variable (finding interp-partselect-wide-rhs): keep such writes whole
        if D[s[1]][1] <= 64 and max(gather(m, e)[0], wl) > 64:
            return ("assign", s[1], fix_rhs(m, s[4], D[s[1]][1]))
        return ("asel", s[1], s[2], s[3], e)
    if k == "if":
        return ("if", fix_rhs(m, s[1], 1), [fix_stmt(m, x) for x in s[2]], [fix_stmt(m, x) for x in s[3]])
    if k == "case":
        return ("case", fix_rhs(m, s[1], 1), [([fix_rhs(m, p, 1) for p in pats], [fix_stmt(m, x) for x in b]) for pats, b in s[2]],
                [fix_stmt(m, x) for x in s[3]])
    raise ValueError(k)


def fix_module(m):
    items = []
    for it in m["items"]:
        if it[0] == "assign":
            items.append(("assign", it[1], fix_rhs(m, it[2], m["decls"][it[1]][1])))
        elif it[0] == "comb":
            items.append(("comb", [fix_stmt(m, s) for s in it[1]]))
        else:
            items.append(("ff", None if it[1] is None else [fix_stmt(m, s) for s in it[1]], [fix_stmt(m, s) for s in it[2]]))
    out = dict(m)
    out["items"] = items
    return out


# ------------------------------------------------------------------------------------ random programs

class Gen:
    """Random µRTL module builder.  `profile` switches constructs on/off so the core can grow
    construct by construct (and so a finding can be bisected to a construct)."""

    DEFAULT = dict(display=True, max_depth=4, p_signed=0.3, p_bit=0.12, div=True, pow=False, cast=True, sign=True,
                   cat=True, sel=True, tern=True, xz_lit=False, asel=True, case=True, max_width=200,
                   ff_noreset=False, wide=True)

    def __init__(self, rng, **profile):
        self.r = rng
        self.p = dict(self.DEFAULT)
        self.p.update(profile)
        self.decls = []
        self.items = []          # in dependency order; shuffled at the end

    # --- declarations
    def width(self):
        r = self.r
        k = r.random()
        mw = self.p["max_width"]
        if k < 0.35:
            w = r.choice(BOUNDARY_WIDTHS)
        elif k < 0.75:
            w = r.randint(1, 16)
        elif k < 0.9:
            w = r.randint(17, 70)
        else:
            w = r.randint(1, 200)
        if not self.p["wide"]:
            w = min(w, 64)
        return max(1, min(w, mw))

    def decl(self, prefix, kind, w=None, sg=None, two=None):
        r = self.r
        w = self.width() if w is None else w
        sg = (r.random() < self.p["p_signed"]) if sg is None else sg
        two = (r.random() < self.p["p_bit"]) if two is None else two
        self.decls.append(("%s%d" % (prefix, len(self.decls)), w, sg, two, kind))
        return len(self.decls) - 1

    def m(self):
        return {"decls": self.decls}

    # --- expressions
    def lit(self, w=None, sg=None):
        r = self.r
        w = self.width() if w is None else w
        sg = (r.random() < 0.25) if sg is None else sg
        k = r.random()
        full = (1 << w) - 1
        if k < 0.15:
            p = 0
        elif k < 0.3:
            p = full
        elif k < 0.4:
            p = 1 << (w - 1)
        elif k < 0.5:
            p = full >> 1
        elif k < 0.65:
            p = r.randint(0, min(full, 5))
        else:
            p = r.getrandbits(w)
        mk = 0
        if self.p["xz_lit"] and r.random() < 0.15:
            mk = r.getrandbits(w) & r.getrandbits(w)
        return ("lit", w, sg, p & full, mk)

    def leaf(self, avail):
        r = self.r
        if not avail or r.random() < 0.18:
            return self.lit()
        x = r.choice(avail)
        w = self.decls[x][1]
        if self.p["sel"] and w > 1 and not self.decls[x][2] and r.random() < 0.25:
            hi = r.randint(0, w - 1)
            lo = r.randint(0, hi)
            if r.random() < 0.3:
                lo = hi
            if r.random() < 0.3:        # word boundaries
                cands = [b for b in (31, 32, 63, 64, 65, 127, 128) if b < w]
                if cands:
                    hi = r.choice(cands)
                    lo = r.randint(0, hi)
            return ("sel", x, hi, lo)
        return ("var", x)

    def selfwidth_leaf(self, avail, depth, any_sign=False):
        """variable or concatenation (an operand that keeps its own width)"""
        r = self.r
        vs = [x for x in avail if any_sign or not self.decls[x][2]]
        if vs and r.random() < 0.7:
            return ("var", r.choice(vs))
        items = []
        tot = 0
        for _ in range(r.randint(1, 3)):
            a = self.leaf(avail) if r.random() < 0.7 else self.expr(avail, max(0, depth - 1))
            wa = gather(self.m(), a)[0]
            rep = r.choice([1, 1, 2, 3])
            if tot + wa * rep > (200 if self.p["wide"] else 64):
                continue
            tot += wa * rep
            items.append((a, rep))
        if not items:
            return ("cat", [(("lit", 4, False, r.randint(0, 15), 0), 1)])
        return ("cat", items)

    def cast(self, avail, depth):
        """`e as w` on the fragment where all engines agree and the simulator really casts: a narrowing
        (w < width) of an unsigned operand"""
        r = self.r
        for _ in range(4):
            a = self.expr(avail, depth) if r.random() < 0.6 else self.leaf([x for x in avail if not self.decls[x][2]])
            ga = gather(self.m(), a)
            if not ga[1] and ga[0] > 1 and not tsigned(self.m(), a):
                return ("cast", r.randint(1, ga[0] - 1), a)
        return ("cast", 3, ("lit", 5, False, r.randint(0, 31), 0))

    def cond(self, avail, depth):
        """1-bit expression"""
        r = self.r
        k = r.random()
        if depth <= 0 or k < 0.1:
            ones = [x for x in avail if self.decls[x][1] == 1]
            if ones and r.random() < 0.6:
                return ("var", r.choice(ones))
            uns = [x for x in avail if not self.decls[x][2] and self.decls[x][1] > 1]
            if uns:
                x = r.choice(uns)
                i = r.randint(0, self.decls[x][1] - 1)
                return ("sel", x, i, i)
            if avail:
                return ("un", "ror", ("var", r.choice(avail)))
            return ("lit", 1, False, r.randint(0, 1), 0)
        if k < 0.4:
            return ("bin", r.choice(REL), self.expr(avail, depth - 1), self.expr(avail, depth - 1))
        if k < 0.65:
            ops = ["eq", "ne"] + (["weq", "wne"] if r.random() < 0.3 else [])
            return ("bin", r.choice(ops), self.expr(avail, depth - 1), self.expr(avail, depth - 1))
        if k < 0.8:
            return ("un", r.choice(REDUCE), self.expr(avail, depth - 1))
        if k < 0.9:
            return ("bin", r.choice(LOGIC), self.cond(avail, depth - 1), self.cond(avail, depth - 1))
        return ("un", "lognot", self.cond(avail, depth - 1))

    def expr(self, avail, depth):
        r = self.r
        if depth <= 0 or r.random() < 0.12:
            return self.leaf(avail)
        k = r.random()
        d = depth - 1
        if k < 0.22:
            ops = ARITH if self.p["div"] else ["add", "sub", "mul"]
            wts = [4, 4, 2, 1, 1][:len(ops)]
            op = r.choices(ops, wts)[0]
            b = self.expr(avail, d)
            if op in ("div", "rem") and not self.p.get("div_by_zero"):
                gb = gather(self.m(), b)
                b = ("bin", "or", b, ("lit", 2 if gb[1] else 1, gb[1], 1, 0))      # never zero
            return ("bin", op, self.expr(avail, d), b)
        if k < 0.38:
            return ("bin", r.choice(BITW), self.expr(avail, d), self.expr(avail, d))
        if k < 0.5:
            a = self.expr(avail, d)
            op = r.choice(["shl", "shr"])
            svars = [x for x in avail if self.decls[x][2] and self.decls[x][1] <= 64]
            if svars and r.random() < 0.4:
                # <<< / >>> only where the analyzer sees a signed left operand (a signed variable or
                # $signed(var)); it flags the others (unsigned_arith_shift)
                a = ("var", r.choice(svars)) if r.random() < 0.7 else ("sign", True, ("var", r.choice([x for x in avail if self.decls[x][1] <= 64] or svars)))
                op = r.choice(["ashr", "ashr", "ashl"])
            if r.random() < 0.5:
                wa = gather(self.m(), a)[0]
                amt = r.choice([0, 1, wa - 1, wa, wa + 1, 31, 32, 33, 63, 64, 65, r.randint(0, wa + 2)])
                bw = max(1, amt.bit_length())
                b = ("lit", r.choice([bw, bw + 1, 8, 32]) if bw <= 8 else bw, False, amt, 0)
                if b[3] >= (1 << b[1]):
                    b = ("lit", bw, False, amt, 0)
            else:
                b = self.expr(avail, d)
                gb = gather(self.m(), b)
                if gb[0] > 64:
                    # the JIT reads only the low 64 bits of a wider shift amount (finding
                    # jit-wide-shift-amount): keep amounts <= 64 bits wide
                    if not gb[1] and b[0] in ("bin", "un", "tern"):
                        b = ("cast", r.randint(1, 16), b)
                    else:
                        b = ("lit", 8, False, r.randint(0, 255), 0)
            return ("bin", op, a, b)
        if k < 0.58:
            return ("un", r.choice(["minus", "bitnot", "plus"]), self.expr(avail, d))
        if k < 0.68:
            return self.cond(avail, depth)
        if k < 0.76 and self.p["tern"]:
            return ("tern", self.cond(avail, d), self.expr(avail, d), self.expr(avail, d))
        if k < 0.86 and self.p["cat"]:
            n = r.randint(1, 3)
            items = []
            tot = 0
            for _ in range(n):
                a = self.expr(avail, d) if r.random() < 0.6 else self.leaf(avail)
                wa = gather(self.m(), a)[0]
                rep = 1
                if r.random() < 0.3:
                    rep = r.randint(2, 4) if wa > 8 else r.choice([2, 3, 4, 8, 16, 32, 33, 64, 65])
                if wa * rep == 0 or tot + wa * rep > (250 if self.p["wide"] else 64):
                    continue
                tot += wa * rep
                items.append((a, rep))
            if not items:
                return self.leaf(avail)
            return ("cat", items)
        if k < 0.92 and self.p["cast"]:
            return self.cast(avail, d)
        if k < 0.97 and self.p["sign"]:
            return ("sign", r.random() < 0.7, ("var", r.choice(avail))) if avail else self.lit()
        if self.p["pow"]:
            return ("bin", "pow", self.expr(avail, d), ("lit", 3, False, r.randint(0, 5), 0))
        return self.leaf(avail)

    # --- statements
    def two_state_view(self, targets, avail):
        """a `bit` destination accepts only 2-state sources (analyzer: MismatchAssignment otherwise)"""
        if targets and self.decls[targets[0]][3]:
            return [x for x in avail if self.decls[x][3]]
        return avail

    def block(self, targets, avail, depth, where):
        """statements assigning (some of) `targets`; in comb every target has a default first"""
        r = self.r
        out = []
        local = list(self.two_state_view(targets, avail))
        if where == "comb":
            for t in targets:
                out.append(("assign", t, self.expr(local, depth)))
                local.append(t)
        if where == "ff":
            for t in targets:
                if r.random() < 0.6:
                    out.append(("assign", t, self.expr(local, depth)))
        n = r.randint(1, 3) if where == "comb" else r.randint(1, 2 + len(targets))
        for _ in range(n):
            out.append(self.stmt(targets, local, depth, where, 2))
        if where == "ff":
            wr = set()
            for s in out:
                stmt_rw(s, set(), wr)
            for t in targets:
                if t not in wr:
                    out.append(("assign", t, self.expr(local, depth)))
        return out

    def stmt(self, targets, avail, depth, where, nest):
        r = self.r
        k = r.random()
        if nest <= 0 or k < 0.5:
            t = r.choice(targets)
            w = self.decls[t][1]
            if self.p["asel"] and w > 1 and r.random() < 0.2:
                hi = r.randint(0, w - 1)
                lo = r.randint(0, hi)
                return ("asel", t, hi, lo, self.expr(avail, depth))
            return ("assign", t, self.expr(avail, depth))
        if k < 0.8 or not self.p["case"]:
            th = [self.stmt(targets, avail, depth, where, nest - 1) for _ in range(r.randint(1, 2))]
            el = [self.stmt(targets, avail, depth, where, nest - 1) for _ in range(r.randint(0, 2))]
            return ("if", self.cond(avail, 2), th, el)
        sel = self.leaf([x for x in avail if self.decls[x][1] <= 6] or avail)
        if sel[0] == "lit":
            sel = self.leaf(avail)
        ws = gather(self.m(), sel)[0]
        if ws > 6 or sel[0] == "lit":
            th = [self.stmt(targets, avail, depth, where, nest - 1)]
            return ("if", self.cond(avail, 2), th, [])
        vals = list(range(1 << ws))
        r.shuffle(vals)
        arms = []
        for _ in range(r.randint(1, min(4, len(vals)))):
            k2 = r.randint(1, min(2, len(vals)))
            pats = [("lit", ws, False, vals.pop(), 0) for _ in range(k2)]
            arms.append((pats, [self.stmt(targets, avail, depth, where, nest - 1) for _ in range(r.randint(1, 2))]))
            if not vals:
                break
        dflt = [self.stmt(targets, avail, depth, where, nest - 1) for _ in range(r.randint(0, 1))]
        return ("case", sel, arms, dflt)

    # --- whole module
    def build(self, n_in=None, n_comb=None, n_ff=None):
        r = self.r
        depth = self.p["max_depth"]
        n_in = r.randint(2, 5) if n_in is None else n_in
        ins = [self.decl("i", "in") for _ in range(n_in)]
        n_ff = r.randint(0, 3) if n_ff is None else n_ff
        n_comb = r.randint(1, 5) if n_comb is None else n_comb
        # FF state variables are readable everywhere
        ffgroups = []
        for _ in range(n_ff):
            two = r.random() < self.p["p_bit"]
            grp = [self.decl("q", "out" if r.random() < 0.6 else "var", two=two) for _ in range(r.randint(1, 2))]
            ffgroups.append(grp)
        ffvars = [x for g in ffgroups for x in g]
        avail = ins + ffvars
        comb_items = []
        for _ in range(n_comb):
            two = r.random() < self.p["p_bit"]
            if r.random() < 0.5:
                t = self.decl("c", "out" if r.random() < 0.5 else "var", two=two)
                comb_items.append(("assign", t, self.expr(self.two_state_view([t], avail), depth)))
                avail.append(t)
            else:
                ts = [self.decl("c", "out" if r.random() < 0.5 else "var", two=two) for _ in range(r.randint(1, 3))]
                comb_items.append(("comb", self.block(ts, avail, max(1, depth - 1), "comb")))
                avail += ts
        # every var must be observable somehow: add outputs for vars nobody exports
        if not any(d[4] == "out" for d in self.decls):
            t = self.decl("o", "out", two=False)
            comb_items.append(("assign", t, self.expr(avail, depth)))
            avail.append(t)
        ff_items = []
        for grp in ffgroups:
            body = self.block(grp, avail, max(1, depth - 1), "ff")
            if self.p["ff_noreset"] and r.random() < 0.15:
                ff_items.append(("ff", None, body))
            else:
                rst = [("assign", t, self.lit(self.decls[t][1], False) if r.random() < 0.7
                        else self.lit()) for t in grp]
                ff_items.append(("ff", rst, body))
        items = [("c", it) for it in comb_items] + [("f", it) for it in ff_items]
        idx = list(range(len(items)))
        r.shuffle(idx)
        shuffled = [items[i][1] for i in idx]
        pos = {old: new for new, old in enumerate(idx)}
        order = [pos[i] for i in range(len(comb_items))]
        m = fix_module({"decls": self.decls, "items": shuffled, "order": order})
        if self.p["display"]:
            disp = {}
            for i, it in enumerate(shuffled):
                if it[0] == "ff" and r.random() < 0.35:
                    vs = [x for x in range(len(self.decls)) if r.random() < 0.3]
                    if vs:
                        disp[str(i)] = vs[:4]
            if disp:
                m["displays"] = disp
        return m


def gen_stimulus(rng, m, cycles, p_reset=0.06, xz=False):
    ins = inputs_of(m)
    D = m["decls"]
    stim = []
    prev = [(0, 0)] * len(ins)
    for c in range(cycles):
        vals = []
        for j, x in enumerate(ins):
            w = D[x][1]
            full = (1 << w) - 1
            k = rng.random()
            if k < 0.2:
                v = prev[j][0]
            elif k < 0.3:
                v = 0
            elif k < 0.4:
                v = full
            elif k < 0.47:
                v = 1 << (w - 1)
            elif k < 0.54:
                v = full >> 1
            elif k < 0.62:
                v = rng.randint(0, min(full, 4))
            elif k < 0.7:
                v = (prev[j][0] + rng.choice([1, full])) & full
            else:
                v = rng.getrandbits(w)
            mk = 0
            if xz and rng.random() < 0.1:
                mk = rng.getrandbits(w) & rng.getrandbits(w)
            vals.append((v & full, mk))
        prev = vals
        stim.append((rng.random() < p_reset and c > 0, vals))
    return stim


def gen_program(rng, **profile):
    g = Gen(rng, **profile)
    return g.build()


# ------------------------------------------------------------------------------------ JSON (replays, corpus)

def _tj(x):
    if isinstance(x, tuple):
        return {"t": [_tj(y) for y in x]}
    if isinstance(x, list):
        return [_tj(y) for y in x]
    if isinstance(x, int) and not isinstance(x, bool) and abs(x) >= (1 << 53):
        return {"n": "%x" % x}
    return x


def _fj(x):
    if isinstance(x, dict):
        if "t" in x:
            return tuple(_fj(y) for y in x["t"])
        if "n" in x:
            return int(x["n"], 16)
    if isinstance(x, list):
        return [_fj(y) for y in x]
    return x


def module_to_json(m):
    j = {"decls": _tj(m["decls"]), "items": _tj(m["items"]), "order": list(m["order"])}
    for k in ("displays", "children"):
        if m.get(k):
            j[k] = m[k]
    return j


def module_from_json(j):
    m = {"decls": _fj(j["decls"]), "items": _fj(j["items"]), "order": list(j["order"])}
    for k in ("displays", "children"):
        if j.get(k):
            m[k] = j[k]
    return m


def stim_to_json(stim):
    return [[1 if r else 0, [["%x" % p, "%x" % mk] for p, mk in vals]] for r, vals in stim]


def stim_from_json(j):
    return [(bool(r), [(int(p, 16), int(mk, 16)) for p, mk in vals]) for r, vals in j]


# ------------------------------------------------------------------------------------ shapes that trigger the simulator's passes
# (crates/simulator/src/ir/opt/*.rs).  Each returns a module; all are ordinary µRTL programs.

def _finish(g, comb_items, ff_items, shuffle=True):
    items = [it for it in comb_items] + [it for it in ff_items]
    idx = list(range(len(items)))
    if shuffle:
        g.r.shuffle(idx)
    shuffled = [items[i] for i in idx]
    pos = {old: new for new, old in enumerate(idx)}
    return fix_module({"decls": g.decls, "items": shuffled, "order": [pos[i] for i in range(len(comb_items))]})


def shape_chain(rng, n=None, narrow=True):
    """long dependent chain of single-reader internal vars (comb fusion inlines them; dead ones are
    dropped by dead_var_dce; duplicate writes by dup_assign_dce)"""
    g = Gen(rng, p_bit=0, wide=not narrow, max_depth=2)
    n = n or rng.randint(8, 40)
    ins = [g.decl("i", "in") for _ in range(rng.randint(2, 4))]
    avail = list(ins)
    comb = []
    prev = rng.choice(ins)
    for k in range(n):
        t = g.decl("t", "var", w=rng.choice([1, 7, 8, 16, 31, 32, 33, 63, 64]) if narrow else None)
        kind = rng.random()
        if kind < 0.7:
            # reads the previous link exactly once
            e = ("bin", rng.choice(["add", "sub", "xor", "and", "or", "mul"]), ("var", prev), g.expr(ins, 1))
            comb.append(("assign", t, e))
        elif kind < 0.85:
            # duplicate write in one block: the first is dead
            comb.append(("comb", [("assign", t, g.expr(avail, 2)), ("assign", t, ("bin", "add", ("var", prev), g.lit(8)))]))
        else:
            comb.append(("comb", [("assign", t, ("var", prev)),
                                  ("if", g.cond(avail, 1), [("assign", t, g.expr(avail, 2))], [])]))
        avail.append(t)
        if rng.random() < 0.15:
            d = g.decl("dead", "var", w=rng.choice([8, 16, 64]) if narrow else None)     # never read
            comb.append(("assign", d, g.expr(avail, 2)))
        prev = t
    o = g.decl("o", "out", w=g.decls[prev][1])
    comb.append(("assign", o, ("var", prev)))
    o2 = g.decl("o", "out")
    comb.append(("assign", o2, g.expr(avail, 2)))
    q = g.decl("q", "out", w=g.decls[prev][1])
    ffs = [("ff", [("assign", q, g.lit(g.decls[q][1], False))], [("assign", q, ("bin", "xor", ("var", q), ("var", prev)))])]
    return _finish(g, comb, ffs)


def shape_lanes(rng):
    """per-bit statements over words (lane_vector fold/merge; field-store coalescing; version split
    of bit-disjoint writers)"""
    g = Gen(rng, p_bit=0, max_depth=2)
    w = rng.choice([16, 17, 24, 32, 33, 48, 64])
    a = g.decl("a", "in", w=w, sg=False, two=False)
    b = g.decl("b", "in", w=w, sg=False, two=False)
    c = g.decl("c", "in", w=rng.choice([1, 4, 8]), sg=False, two=False)
    y = g.decl("y", "out", w=w, sg=False, two=False)
    z = g.decl("z", "out", w=w, sg=False, two=False)
    rev = g.decl("rev", "var", w=w, sg=False, two=False)
    op = rng.choice(["and", "or", "xor", "xnor"])
    body = []
    perm = list(range(w))
    if rng.random() < 0.5:
        rng.shuffle(perm)
    for j in perm:
        body.append(("asel", y, j, j, ("bin", op, ("sel", a, j, j), ("sel", b, j, j))))
    body2 = [("asel", rev, j, j, ("sel", a, w - 1 - j, w - 1 - j)) for j in range(w)]
    body3 = []
    for j in range(w):
        lo = max(0, j - 3)
        body3.append(("asel", z, j, j, ("un", rng.choice(["ror", "rand", "rxor"]), ("sel", rev, j, lo))))
    comb = [("comb", body2), ("comb", body), ("comb", body3)]
    q = g.decl("q", "out", w=w, sg=False, two=False)
    ffs = [("ff", [("assign", q, ("lit", w, False, 0, 0))],
            [("asel", q, j, j, ("bin", "xor", ("sel", q, (j + 1) % w, (j + 1) % w), ("sel", y, j, j))) for j in range(0, w, 2)])]
    return _finish(g, comb, ffs)


def shape_case(rng):
    """wide case statements in always_comb and always_ff (switch lowering, cond hoist, version split)"""
    g = Gen(rng, p_bit=0, max_depth=2)
    ws = rng.choice([3, 4, 5, 6])
    sel = g.decl("s", "in", w=ws, sg=False)
    ins = [sel] + [g.decl("i", "in") for _ in range(rng.randint(2, 3))]
    y = g.decl("y", "out")
    y2 = g.decl("y", "out")
    vals = list(range(1 << ws))
    rng.shuffle(vals)
    arms = []
    while vals and len(arms) < rng.randint(6, 16):
        k = rng.randint(1, min(3, len(vals)))
        pats = [("lit", ws, False, vals.pop(), 0) for _ in range(k)]
        body = [("assign", y, g.expr(ins, 2))]
        if rng.random() < 0.5:
            body.append(("assign", y2, g.expr(ins, 2)))
        if rng.random() < 0.3 and g.decls[y][1] > 2:
            hi = rng.randint(0, g.decls[y][1] - 1)
            lo = rng.randint(0, hi)
            body.append(("asel", y, hi, lo, g.expr(ins, 1)))
        arms.append((pats, body))
    comb = [("comb", [("assign", y, g.expr(ins, 1)), ("assign", y2, g.expr(ins, 1)),
                      ("case", ("var", sel), arms, [("assign", y, g.expr(ins, 1))] if rng.random() < 0.7 else [])])]
    c = g.cond(ins, 2)
    t = g.decl("t", "out")
    comb.append(("comb", [("assign", t, g.expr(ins, 1)),
                          ("if", c, [("assign", t, g.expr(ins + [y], 2))], []),
                          ("if", c, [("asel", t, 0, 0, g.cond(ins, 1))], [("assign", t, g.expr(ins, 2))])]))
    q = g.decl("q", "out")
    q2 = g.decl("q", "out")
    farms = [([("lit", ws, False, v, 0)], [("assign", q, g.expr(ins + [q, q2, y], 2))] +
              ([("assign", q2, g.expr(ins + [q], 1))] if rng.random() < 0.5 else []))
             for v in rng.sample(range(1 << ws), min(1 << ws, rng.randint(4, 8)))]
    ffs = [("ff", [("assign", q, g.lit(g.decls[q][1], False)), ("assign", q2, g.lit(g.decls[q2][1], False))],
            [("case", ("var", sel), farms, [("assign", q2, ("var", q))])])]
    return _finish(g, comb, ffs)


def shape_priority(rng):
    """base write + guarded full/partial overrides (version_split select fusion, LUT mode)"""
    g = Gen(rng, p_bit=0, max_depth=2, wide=rng.random() < 0.3)
    ins = [g.decl("i", "in") for _ in range(rng.randint(3, 5))]
    comb = []
    avail = list(ins)
    for _ in range(rng.randint(1, 3)):
        x = g.decl("x", "out" if rng.random() < 0.7 else "var")
        w = g.decls[x][1]
        body = [("assign", x, g.expr(avail, 2))]
        for _ in range(rng.randint(2, 8)):
            if w > 1 and rng.random() < 0.4:
                hi = rng.randint(0, w - 1)
                lo = rng.randint(0, hi)
                inner = ("asel", x, hi, lo, g.expr(avail, 1))
            else:
                inner = ("assign", x, g.expr(avail + [x], 2) if rng.random() < 0.3 else g.expr(avail, 2))
            body.append(("if", g.cond(avail, 1), [inner], []))
        comb.append(("comb", body))
        avail.append(x)
    # bit-disjoint field writers of one variable
    f = g.decl("f", "out", w=rng.choice([8, 12, 16, 32, 40, 64, 72]))
    w = g.decls[f][1]
    cuts = sorted(rng.sample(range(1, w), min(w - 1, rng.randint(1, 4))))
    lo = 0
    body = []
    for cpos in cuts + [w]:
        body.append(("asel", f, cpos - 1, lo, g.expr(avail, 2)))
        lo = cpos
    comb.append(("comb", body))
    q = g.decl("q", "out")
    ffs = [("ff", [("assign", q, g.lit(g.decls[q][1], False))], [("assign", q, g.expr(avail + [f, q], 2))])]
    return _finish(g, comb, ffs)


def shape_cone(rng, n=None):
    """a child module with several hundred comb statements whose inputs change rarely (cone_gate:
    MIN_CONE_STMTS 300, MIN_SEGMENT_STMTS 64), next to logic that changes every cycle.
    Returns (module, slow_inputs) — stimulus should hold the slow inputs for long stretches."""
    g = Gen(rng, p_bit=0, max_depth=1, wide=False)
    n = n or rng.randint(320, 380)
    slow = [g.decl("s", "in", w=rng.choice([8, 16, 32])) for _ in range(3)]
    fast = [g.decl("f", "in", w=rng.choice([8, 16, 32])) for _ in range(2)]
    comb = []
    avail = list(slow)
    layer = list(slow)
    child_idx = []
    for k in range(n):
        t = g.decl("k", "var", w=rng.choice([8, 16, 32, 33, 64]), sg=False, two=False)
        a = rng.choice(avail[-12:] if len(avail) > 12 else avail)
        b = rng.choice(avail)
        op = rng.choice(["add", "sub", "xor", "and", "or", "mul"])
        if rng.random() < 0.2:
            e = ("tern", ("bin", rng.choice(["lt", "eq", "ne"]), ("var", a), ("var", b)), ("var", a), ("bin", op, ("var", b), g.lit(8)))
        else:
            e = ("bin", op, ("var", a), ("var", b))
        child_idx.append(len(comb))
        comb.append(("assign", t, e))
        avail.append(t)
    co = g.decl("co", "out", w=64, sg=False, two=False)
    # the cone output folds many internal nets so none of them is dead
    acc = ("var", avail[-1])
    for x in avail[3::7]:
        acc = ("bin", "xor", acc, ("var", x))
    child_idx.append(len(comb))
    comb.append(("assign", co, acc))
    # fast logic at the top reading the cone's output
    fo = g.decl("fo", "out", w=64)
    comb.append(("assign", fo, ("bin", "add", ("var", co), ("bin", "mul", ("var", fast[0]), ("var", fast[1])))))
    q = g.decl("q", "out", w=32)
    ffs = [("ff", [("assign", q, ("lit", 32, False, 0, 0))], [("assign", q, ("bin", "add", ("var", q), ("var", fo)))])]
    m = _finish(g, comb, ffs, shuffle=False)
    m["children"] = [{"name": "Cone", "items": child_idx}]
    return m, slow


def gen_stimulus_slow(rng, m, cycles, slow, period=7):
    """stimulus in which the inputs in `slow` change only every `period` cycles"""
    st = gen_stimulus(rng, m, cycles, p_reset=0.03)
    ins = inputs_of(m)
    held = None
    out = []
    for c, (r, vals) in enumerate(st):
        vals = list(vals)
        if held is None or c % period == 0:
            held = {j: vals[j] for j, x in enumerate(ins) if x in slow}
        for j in held:
            vals[j] = held[j]
        out.append((r, vals))
    return out


def shape_many(rng, n=None):
    """many small independent statements (chunk boundaries of the JIT / C emitter, comb layout)"""
    g = Gen(rng, p_bit=0, max_depth=2)
    n = n or rng.randint(60, 160)
    ins = [g.decl("i", "in") for _ in range(4)]
    comb = []
    avail = list(ins)
    for k in range(n):
        t = g.decl("m", "out" if rng.random() < 0.12 else "var")
        comb.append(("assign", t, g.expr(avail[-10:] + ins, 2)))
        avail.append(t)
    o = g.decl("o", "out", w=64)
    acc = ("var", avail[-1])
    for x in avail[4::5]:
        acc = ("bin", "xor", acc, ("var", x))
    comb.append(("assign", o, acc))
    ffs = []
    for _ in range(rng.randint(1, 3)):
        q = g.decl("q", "out")
        ffs.append(("ff", [("assign", q, g.lit(g.decls[q][1], False))], [("assign", q, g.expr(avail + [q], 2))]))
    return _finish(g, comb, ffs)


SHAPES = {"chain": shape_chain, "lanes": shape_lanes, "case": shape_case, "priority": shape_priority, "many": shape_many}
