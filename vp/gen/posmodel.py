"""Extracted (OCaml) evaluation of the position models: VV.Pos.PosModel.split_comments (C12) and
VV.Pos.MigrateModel.push_token (C23).  Extraction uses ExtrOcamlBasic only; N / positive / nat
stay the extracted inductives; the driver below is trusted glue (wire format <-> model values).

wire (one case per line):
  S <line> <col> <pos> <hex-bytes>                         -> OK <n> {<line> <col> <pos> <len>}
  M <hex-newline> <n> {<line> <col> <hex-text>}            -> OK <hex-output>
"""
from .. import common as C

EXTRACT_V = """From VV Require Import Pos.PosModel Pos.MigrateModel.
Require Extraction. Require Import ExtrOcamlBasic.
Extraction "pos_model.ml" split_comments push_token init_ms out_bytes.
"""

DRIVER_ML = r"""
open Pos_model
let rec pos_of_int i = if i = 1 then XH else if i land 1 = 0 then XO (pos_of_int (i lsr 1)) else XI (pos_of_int (i lsr 1))
let n_of_int i = if i = 0 then N0 else Npos (pos_of_int i)
let rec int_of_pos = function XH -> 1 | XO p -> 2 * int_of_pos p | XI p -> 2 * int_of_pos p + 1
let int_of_n = function N0 -> 0 | Npos p -> int_of_pos p
let unhex s = if s = "-" then [] else List.init (String.length s / 2) (fun i -> n_of_int (int_of_string ("0x" ^ String.sub s (2*i) 2)))
let hex l = if l = [] then "-" else String.concat "" (List.map (fun b -> Printf.sprintf "%02x" (int_of_n b)) l)
let num s = n_of_int (int_of_string s)
let run line =
  match String.split_on_char ' ' line with
  | ["S"; l; c; p; h] ->
      let text = unhex h in
      let t = { t_text = text; t_line = num l; t_col = num c; t_pos = num p; t_len = n_of_int (List.length text) } in
      let r = split_comments t in
      "OK " ^ string_of_int (List.length r) ^
      String.concat "" (List.map (fun c -> Printf.sprintf " %d %d %d %d" (int_of_n c.t_line) (int_of_n c.t_col) (int_of_n c.t_pos) (int_of_n c.t_len)) r)
  | "M" :: nl :: _n :: rest ->
      let nlb = unhex nl in
      let rec items = function
        | l :: c :: h :: tl -> { m_text = unhex h; m_line = num l; m_col = num c } :: items tl
        | [] -> []
        | _ -> failwith "bad item list" in
      let st = List.fold_left (fun st x -> push_token nlb st x) init_ms (items rest) in
      "OK " ^ hex (out_bytes st)
  | _ -> failwith ("bad case " ^ line)
let () =
  try
    while true do
      let line = input_line stdin in
      if String.trim line <> "" then
        print_endline (try run line with e -> "FAIL " ^ Printexc.to_string e)
    done
  with End_of_file -> ()
"""


def build():
    """-> (ok, binary, log)"""
    return C.ocaml_build("posmodel_%d" % (1 if C.ALT else 0), EXTRACT_V, DRIVER_ML)


def split_eval(binary, cases):
    """cases: [(line, col, pos, bytes)] -> [[(line, col, pos, len)]] or None per failed case"""
    lines = ["S %d %d %d %s" % (l, c, p, b.hex() or "-") for (l, c, p, b) in cases]
    out = []
    for ln in C.run_lines(binary, lines):
        t = ln.split()
        if not t or t[0] != "OK":
            out.append(None)
            continue
        n = int(t[1])
        out.append([tuple(int(x) for x in t[2 + 4 * i:6 + 4 * i]) for i in range(n)])
    return out


def migrate_eval(binary, cases):
    """cases: [(newline bytes, [(line, col, text bytes)])] -> [bytes or None]"""
    lines = []
    for nl, items in cases:
        parts = ["M", nl.hex() or "-", str(len(items))]
        for (l, c, tx) in items:
            parts += [str(l), str(c), tx.hex() or "-"]
        lines.append(" ".join(parts))
    out = []
    for ln in C.run_lines(binary, lines):
        t = ln.split()
        if len(t) == 2 and t[0] == "OK":
            out.append(b"" if t[1] == "-" else bytes.fromhex(t[1]))
        else:
            out.append(None)
    return out
