"""Generator, serialisers and property oracles for veryl_pretty documents (C28, C13, C26).

doc representation (python tuples):
 ("N",) ("T",cps) ("C",[docs]) ("I",off,d) ("G",d) ("F",d) ("L",cps) ("H",) ("D",lvl)
 ("M",[(text,lead,isline,sl,sc)]) ("B",cps) ("BP",w) ("P",w) ("FP",w) ("A",cps,sl,sc)
opts: (max_width, indent_width, nl 0=LF 1=CRLF, strip 0/1)
"""
import glob
import json
import os
import re

from .. import common as C

WS = {32, 9, 10, 13}


def cps(s):
    return [ord(c) for c in s]


def show(cp):
    return "".join(chr(c) for c in cp)


def wire_str(cp):
    return ",".join(str(c) for c in cp) if cp else "-"


def parse_str(t):
    return [] if t == "-" else [int(x) for x in t.split(",")]


def opts_wire(o):
    return "%d %d %d %d" % o


def opts_coq(o):
    return "mkOpts %d %d %s %s" % (o[0], o[1], "[13;10]" if o[2] else "[10]", "true" if o[3] else "false")


def doc_wire(d):
    k = d[0]
    if k in ("N", "H"):
        return k
    if k in ("T", "L", "B"):
        return "%s %s" % (k, wire_str(d[1]))
    if k == "C":
        return "C %d %s" % (len(d[1]), " ".join(doc_wire(x) for x in d[1])) if d[1] else "C 0"
    if k == "I":
        return "I %d %s" % (d[1], doc_wire(d[2]))
    if k in ("G", "F"):
        return "%s %s" % (k, doc_wire(d[1]))
    if k in ("D", "BP", "P", "FP"):
        return "%s %d" % (k, d[1])
    if k == "M":
        return "M %d %s" % (len(d[1]), " ".join("%s %d %d %d %d" % (wire_str(c[0]), c[1], 1 if c[2] else 0, c[3], c[4]) for c in d[1])) if d[1] else "M 0"
    if k == "A":
        return "A %s %d %d" % (wire_str(d[1]), d[2], d[3])
    raise ValueError(k)


def doc_coq(d):
    k = d[0]
    if k == "N":
        return "Nil"
    if k == "H":
        return "Hardline"
    if k == "T":
        return "(Text %s)" % C.cstr(d[1])
    if k == "L":
        return "(Line %s)" % C.cstr(d[1])
    if k == "B":
        return "(IfBreak %s)" % C.cstr(d[1])
    if k == "C":
        return "(Concat [%s])" % "; ".join(doc_coq(x) for x in d[1])
    if k == "I":
        return "(Indent (%d)%%Z %s)" % (d[1], doc_coq(d[2]))
    if k == "G":
        return "(Group %s)" % doc_coq(d[1])
    if k == "F":
        return "(ForceFlat %s)" % doc_coq(d[1])
    if k == "D":
        return "(DedentHardline %d)" % d[1]
    if k == "BP":
        return "(IfBreakPad %d)" % d[1]
    if k == "P":
        return "(Pad %d)" % d[1]
    if k == "FP":
        return "(IfFlatPad %d)" % d[1]
    if k == "M":
        return "(Comments [%s])" % "; ".join(
            "mkComment %s %d %s %d %d" % (C.cstr(c[0]), c[1], "true" if c[2] else "false", c[3], c[4]) for c in d[1])
    if k == "A":
        return "(Anchored %s %d %d)" % (C.cstr(d[1]), d[2], d[3])
    raise ValueError(k)


def to_json(d):
    return json.loads(json.dumps(d))


def from_json(j):
    k = j[0]
    if k == "C":
        return ("C", [from_json(x) for x in j[1]])
    if k == "I":
        return ("I", j[1], from_json(j[2]))
    if k in ("G", "F"):
        return (k, from_json(j[1]))
    if k == "M":
        return ("M", [tuple(c) for c in j[1]])
    return tuple(j)


def children(d):
    k = d[0]
    if k == "C":
        return list(d[1])
    if k == "I":
        return [d[2]]
    if k in ("G", "F"):
        return [d[1]]
    return []


def size(d):
    n = 1 + sum(size(c) for c in children(d))
    if d[0] == "M":
        n += len(d[1])
    if d[0] in ("T", "A", "B", "L"):
        n += len(d[1]) // 4
    return n


def kinds(d, acc=None):
    acc = set() if acc is None else acc
    acc.add(d[0])
    for c in children(d):
        kinds(c, acc)
    return acc


# --------------------------------------------------------------------------- generation

TEXTS = ["a", "foo", "bar_baz", "x", "+", "==", "module", "logic", "é", "日本", "α_β", "a b", "a ", " ", "  ", "",
         "begin", "end", ";", ",", "(", ")", "[7:0]", "x\ny", "q\n", "\nz", "t\t", "r\r"]
IDENTS = ["a", "b", "clk", "rst", "data_é", "module", "logic", "assign", "=", "+", ";", "(", ")", "{", "}", "x1", "日本"]
LINE_COMMENTS = ["// c", "//", "// é日 ", "// x  y"]
BLOCK_COMMENTS = ["/* c */", "/**/", "/* é */", "/*a*/ "]
MULTI_BLOCK = ["/*x\ny*/", "/* a\n * b\n */", "/*\n*/"]
SEPS = [" ", " ", "", "", ", ", ","]


def gen_opts(rng):
    return (rng.choice([0, 1, 4, 8, 12, 20, 40, 80, 120, 200]), rng.choice([0, 1, 2, 4, 8]),
            rng.choice([0, 0, 1]), rng.choice([0, 1, 1]))


def gen_comment(rng, multi_ok=True):
    r = rng.random()
    if r < 0.4:
        text, isline = rng.choice(LINE_COMMENTS), True
    elif r < 0.88 or not multi_ok:
        text, isline = rng.choice(BLOCK_COMMENTS), False
    else:
        text, isline = rng.choice(MULTI_BLOCK), False
    if rng.random() < 0.1:
        isline = not isline
    lead = rng.choice([0, 0, 1, 1, 2, 3])
    if rng.random() < 0.6:
        sl, sc = rng.randint(1, 50), rng.randint(1, 80)
    else:
        sl, sc = rng.choice([(0, 0), (0, 3), (4, 0)])
    return (cps(text), lead, isline, sl, sc)


def gen_doc(rng, depth, style="random"):
    if style == "code":
        return gen_code(rng, depth)
    if depth <= 0 or rng.random() < 0.25:
        r = rng.random()
        if r < 0.25:
            return ("T", cps(rng.choice(TEXTS)))
        if r < 0.45:
            return ("A", cps(rng.choice(IDENTS if rng.random() < 0.8 else TEXTS)), rng.randint(0, 40), rng.randint(0, 90))
        if r < 0.58:
            return ("L", cps(rng.choice(SEPS)))
        if r < 0.66:
            return ("H",)
        if r < 0.71:
            return ("D", rng.choice([0, 1, 1, 2, 3]))
        if r < 0.80:
            return ("M", [gen_comment(rng) for _ in range(rng.choice([1, 1, 2, 3]))])
        if r < 0.85:
            return ("B", cps(rng.choice([",", ";", "x", " ", "é"])))
        if r < 0.89:
            return ("BP", rng.choice([0, 1, 3, 7]))
        if r < 0.93:
            return ("P", rng.choice([0, 1, 2, 5]))
        if r < 0.97:
            return ("FP", rng.choice([0, 1, 4]))
        return ("N",)
    r = rng.random()
    if r < 0.45:
        return ("C", [gen_doc(rng, depth - 1) for _ in range(rng.choice([0, 1, 2, 3, 4, 5, 6]))])
    if r < 0.62:
        return ("I", rng.choice([1, 1, 1, -1, 2, 0, -2]), gen_doc(rng, depth - 1))
    if r < 0.90:
        return ("G", gen_doc(rng, depth - 1))
    return ("F", gen_doc(rng, depth - 1))


def gen_code(rng, depth):
    """documents shaped like the emitter's: anchored tokens, spaces, nested groups, blocks"""
    def tok():
        return ("A", cps(rng.choice(IDENTS)), rng.randint(1, 60), rng.randint(1, 100))

    def expr(dp):
        items = [tok()]
        for _ in range(rng.randint(0, 4)):
            items.append(("G", ("C", [("L", cps(" ")), ("T", cps(rng.choice(["+ ", "& ", "== "]))), tok() if dp <= 0 or rng.random() < 0.6 else expr(dp - 1)])))
        return ("G", ("I", 1, ("C", items)))

    def stmt(dp):
        r = rng.random()
        if r < 0.5 or dp <= 0:
            items = [tok(), ("P", rng.choice([0, 1, 3])), ("T", cps(" ")), ("T", cps("= ")), expr(dp), ("T", cps(";"))]
            if rng.random() < 0.3:
                items.append(("M", [gen_comment(rng, multi_ok=rng.random() < 0.3)]))
            return ("C", items)
        if r < 0.8:
            body = [("H",)] if rng.random() < 0.8 else []
            for _ in range(rng.randint(1, 3)):
                body += [stmt(dp - 1), ("H",)]
            inner = ("I", 1, ("C", body[:-1]))
            return ("C", [tok(), ("T", cps(" ")), ("T", cps("{")), inner, rng.choice([("H",), ("D", 1)]), ("T", cps("}"))])
        args = []
        for i in range(rng.randint(1, 4)):
            if i:
                args += [("T", cps(",")), ("L", cps(" "))]
            args.append(tok())
        args.append(("B", cps(",")))
        return ("G", ("C", [tok(), ("T", cps("(")), ("I", 1, ("C", [("L", cps(""))] + args)), ("L", cps("")), ("T", cps(")"))]))

    parts = []
    if rng.random() < 0.4:
        parts.append(("M", [gen_comment(rng, multi_ok=False)]))
    for _ in range(rng.randint(1, 4)):
        parts += [stmt(depth), ("H",)]
        if rng.random() < 0.2:
            parts.append(("H",))
    if rng.random() < 0.3:
        return ("F", ("C", parts)) if rng.random() < 0.2 else ("C", parts)
    return ("C", parts)


# --------------------------------------------------------------------------- oracles

def nonws(cp):
    return [c for c in cp if c not in WS]


def _ends(d, flat, s, starts):
    """set of end positions reachable by matching the content of d from any start in `starts`"""
    k = d[0]
    if not starts:
        return starts
    if k in ("T", "A"):
        t = nonws(d[1])
        return {i + len(t) for i in starts if s[i:i + len(t)] == t}
    if k == "C":
        cur = starts
        for x in d[1]:
            cur = _ends(x, flat, s, cur)
            if not cur:
                break
        return cur
    if k == "I":
        return _ends(d[2], flat, s, starts)
    if k == "G":
        if flat:
            return _ends(d[1], True, s, starts)
        return _ends(d[1], True, s, starts) | _ends(d[1], False, s, starts)
    if k == "F":
        return _ends(d[1], True, s, starts)
    if k == "L":
        if flat:
            t = nonws(d[1])
            return {i + len(t) for i in starts if s[i:i + len(t)] == t}
        return starts
    if k == "B":
        if flat:
            return starts
        t = nonws(d[1])
        return {i + len(t) for i in starts if s[i:i + len(t)] == t}
    if k == "M":
        t = nonws([c for cm in d[1] for c in cm[0]])
        return {i + len(t) for i in starts if s[i:i + len(t)] == t}
    return starts


def content_ok(d, text):
    s = nonws(text)
    return len(s) in _ends(d, False, s, {0})


def doc_anchors(d):
    k = d[0]
    if k == "A":
        return [(d[2], d[3], list(d[1]))]
    if k == "M":
        return [(c[3], c[4], list(c[0])) for c in d[1] if c[3] != 0 and c[4] != 0]
    out = []
    for c in children(d):
        out += doc_anchors(c)
    return out


def has_multiline_block_comment(d):
    if d[0] == "M":
        return any((not c[2]) and 10 in c[0] for c in d[1])
    return any(has_multiline_block_comment(c) for c in children(d))


_TRAIL = re.compile(r"[ \t]+(?=\r?\n|$)")


def anchor_at(text, dl, dc, atext, strip):
    """does the final text carry atext at 1-based line dl / character column dc?"""
    if not atext:
        return True
    if strip and atext[0] in (32, 9):
        return True   # a whitespace-led fragment may have been stripped: not judged
    s = show(text)
    a = show(atext)
    idx = 0
    for _ in range(dl - 1):
        j = s.find("\n", idx)
        if j < 0:
            return False
        idx = j + 1
    seg = s[idx:idx + dc - 1]
    if len(seg) < dc - 1 or "\n" in seg:
        return False
    rest = s[idx + dc - 1:]
    if not strip:
        return rest.startswith(a)
    return _TRAIL.sub("", rest).startswith(_TRAIL.sub("", a))


# --------------------------------------------------------------------------- shrinking

def shrink_candidates(d):
    k = d[0]
    for c in children(d):
        yield c
    if k == "C":
        for i in range(len(d[1])):
            yield ("C", d[1][:i] + d[1][i + 1:])
        for i, x in enumerate(d[1]):
            for y in shrink_candidates(x):
                yield ("C", d[1][:i] + [y] + d[1][i + 1:])
    elif k == "I":
        for y in shrink_candidates(d[2]):
            yield ("I", d[1], y)
    elif k in ("G", "F"):
        for y in shrink_candidates(d[1]):
            yield (k, y)
    elif k == "M":
        for i in range(len(d[1])):
            if len(d[1]) > 1:
                yield ("M", d[1][:i] + d[1][i + 1:])
    elif k in ("T", "B", "L"):
        if len(d[1]) > 1:
            yield (k, d[1][:len(d[1]) // 2])
            yield (k, d[1][1:])
    elif k == "A":
        if len(d[1]) > 1:
            yield ("A", d[1][:len(d[1]) // 2], d[2], d[3])


def corpus_cases(pid="C28"):
    out = []
    for f in sorted(glob.glob(os.path.join(C.VERIF, "corpus", pid, "*.json"))):
        j = json.load(open(f))
        out.append((tuple(j["opts"]), from_json(j["doc"])))
    return out
