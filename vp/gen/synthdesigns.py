"""Generator of synthesizable Veryl designs + stimuli for C19 (netlist = RTL).

A design is a dict
  {"family", "params", "src", "top", "clk", "rst", "reset_type", "clock_type",
   "ins": [[name, width], ...]   (data inputs; clock/reset excluded),
   "outs": [[name, width], ...],
   "init": optional RAM initialisation sweep description, "tags": [...]}
built deterministically by  build(family, params).  Every family has  gen_params(rng)  and the generic
shrinker (shrink_params) lowers integer parameters towards their minimum and drops list elements, so a failing
design can be re-rendered smaller.

Rules that keep the 4-state RTL simulation free of X-optimism (a condition that is X takes the else branch in
the simulator, which no hardware does): signals that may carry X (division by a possibly-zero divisor,
out-of-range dynamic selects, registers without reset, RAM contents) never feed an if/case/switch/ternary
condition, a shift amount or a dynamic index; they only flow through expressions to outputs, where X bits are
masked out of the comparison.
"""
import random

BOUNDARY_WIDTHS = [1, 2, 3, 4, 5, 7, 8, 9, 15, 16, 17, 31, 32, 33, 63, 64, 65, 70]
LIBS = ["sky130", "asap7", "gf180mcu", "ihp-sg13g2"]
RAM_DEFAULT = [1024, 16, 8, 65536]
RAM_SMALL = [64, 2, 1, 4096]
RESET_TYPES = ["async_low", "async_high", "sync_low", "sync_high"]


def pick_width(rng, lo=1, hi=70):
    c = [w for w in BOUNDARY_WIDTHS if lo <= w <= hi]
    if rng.random() < 0.7 and c:
        return rng.choice(c)
    return rng.randint(lo, hi)


def ty(w, signed=False):
    s = "signed " if signed else ""
    return "%slogic<%d>" % (s, w) if w > 1 or signed else "logic"


def lit(w, v):
    return "%d'h%x" % (w, v & ((1 << w) - 1))


def clog2(n):
    return max(1, (n - 1).bit_length())


class Mod:
    """tiny module text builder"""

    def __init__(self, name="Top"):
        self.name = name
        self.ports = []
        self.body = []

    def port(self, name, direction, typ):
        self.ports.append("    %s: %s %s," % (name, direction, typ))

    def add(self, text):
        self.body.append(text)

    def render(self):
        return "module %s (\n%s\n) {\n%s\n}\n" % (self.name, "\n".join(self.ports), "\n".join(self.body))


def design(family, params, src, ins, outs, clk=None, rst=None, reset_type="async_low", clock_type="posedge",
           init=None, tags=(), addr_ports=None):
    """addr_ports: {input name: exclusive upper bound} — inputs used as array indices; the stimulus keeps them in
    range (an out-of-range index is undefined in the RTL: X by IEEE 1800, an arbitrary known value in veryl's simulator)."""
    return {"family": family, "params": params, "src": src, "top": "Top", "clk": clk, "rst": rst,
            "reset_type": reset_type, "clock_type": clock_type, "ins": [list(x) for x in ins],
            "outs": [list(x) for x in outs], "init": init, "tags": list(tags), "addr_ports": addr_ports or {}}


# ------------------------------------------------------------------------------------------------- arith
def gp_arith(rng):
    sg = rng.random() < 0.4
    return {"wa": pick_width(rng), "wb": pick_width(rng), "wo": pick_width(rng), "sa": sg,
            "sb": sg, "ops": sorted(rng.sample(range(10), rng.randint(2, 6)))}


ARITH_OPS = ["a + b", "a - b", "a <: b", "a <= b", "a >: b", "a >= b", "a == b", "a != b", "-a", "a + b + ONE"]


def b_arith(p):
    m = Mod()
    m.port("a", "input", ty(p["wa"], p["sa"]))
    m.port("b", "input", ty(p["wb"], p["sb"]))
    outs = []
    for i in p["ops"]:
        e = ARITH_OPS[i].replace("ONE", "2'sd1" if p["sa"] else "1'd1")
        cmp_ = any(x in e for x in ("<", ">", "==", "!="))
        w = 1 if cmp_ else p["wo"]
        n = "y%d" % i
        m.port(n, "output", ty(w, (not cmp_) and p["sa"] and p["sb"]))
        m.add("    assign %s = %s;" % (n, e))
        outs.append((n, w))
    return design("arith", p, m.render(), [("a", p["wa"]), ("b", p["wb"])], outs, tags=["w%d" % max(p["wa"], p["wb"])])


# ------------------------------------------------------------------------------------------------- muldiv
def gp_muldiv(rng):
    kind = rng.choice(["mulvv", "mulc", "divc", "divv", "modv", "divs"])
    if kind in ("mulvv",):
        wa, wb = pick_width(rng, 1, 18), pick_width(rng, 1, 18)
    elif kind in ("divv", "modv", "divs"):
        wa, wb = pick_width(rng, 1, 17), pick_width(rng, 1, 17)
    else:
        wa, wb = pick_width(rng, 1, 40), 0
    wo = pick_width(rng, 1, 40)
    if kind in ("divc", "divv", "modv", "divs"):
        wo = max(wo, wa, wb)
    return {"kind": kind, "wa": wa, "wb": max(wb, 1), "wo": wo, "c": rng.choice([1, 2, 3, 5, 7, 10, 12, 255, 256, 1000, rng.randint(1, 1 << 20)]),
            "signed": kind == "divs" or rng.random() < 0.25, "nz": rng.random() < 0.5}


def b_muldiv(p):
    m = Mod()
    s = p["signed"]
    m.port("a", "input", ty(p["wa"], s))
    ins = [("a", p["wa"])]
    k = p["kind"]
    if k in ("mulvv", "divv", "modv", "divs"):
        m.port("b", "input", ty(p["wb"], s))
        ins.append(("b", p["wb"]))
    cw = max(p["c"].bit_length(), 1) + (1 if s else 0)
    cl = "%d'%sd%d" % (cw, "s" if s else "", p["c"])
    one = ("%d'sh1" % max(p["wb"], 2)) if s else lit(p["wb"], 1)
    bb = "(b | %s)" % one if p["nz"] else "b"      # nz: divisor forced non-zero
    outs = []
    if k in ("divc", "divv", "modv", "divs"):
        p = dict(p, wo=max(p["wo"], p["wa"], p["wb"] if k != "divc" else 1, cw if k == "divc" else 1))
    m.port("y", "output", ty(p["wo"], s))
    outs.append(("y", p["wo"]))
    if k == "mulvv":
        m.add("    assign y = a * b;")
    elif k == "mulc":
        m.add("    assign y = a * %s;" % cl)
    elif k == "divc":
        m.port("r", "output", ty(p["wo"], s))
        outs.append(("r", p["wo"]))
        m.add("    assign y = a / %s;\n    assign r = a %% %s;" % (cl, cl))
    elif k == "divs":
        m.port("r", "output", ty(p["wo"], s))
        outs.append(("r", p["wo"]))
        m.add("    assign y = a / %s;\n    assign r = a %% %s;" % (bb, bb))
    elif k == "divv":
        m.add("    assign y = a / %s;" % bb)
    elif k == "modv":
        m.add("    assign y = a %% %s;" % bb)
    return design("muldiv", p, m.render(), ins, outs, tags=[k])


# ------------------------------------------------------------------------------------------------- shift
def gp_shift(rng):
    w, wo = pick_width(rng), pick_width(rng)
    c = clog2(max(w, wo))
    # amount width around the barrel shifter's stage count (one bit more = the first saturating bit)
    ws = max(1, min(8, rng.choice([c - 1, c, c + 1, c + 1, c + 2, rng.randint(1, 8)])))
    return {"w": w, "ws": ws, "wo": wo, "signed": rng.random() < 0.5,
            "k": rng.choice([0, 1, 2, 3, 7, 8, 31, 32, 63, 64, 69, 80]), "ops": sorted(rng.sample(range(8), rng.randint(2, 5)))}


SHIFT_OPS = ["a << s", "a >> s", "a >>> s", "a <<< s", "a << K", "a >> K", "a >>> K", "(a >>> s) + a"]


def b_shift(p):
    p = dict(p, wo=max(p["wo"], p["w"]))       # right shifts in a narrower context are a known finding class
    if not p["signed"]:                        # >>> on an unsigned operand is a known finding class
        p = dict(p, ops=[o for o in p["ops"] if o not in (2, 6, 7)] or [1])
    m = Mod()
    m.port("a", "input", ty(p["w"], p["signed"]))
    m.port("s", "input", ty(p["ws"]))
    outs = []
    for i in p["ops"]:
        n = "y%d" % i
        m.port(n, "output", ty(p["wo"], p["signed"]))
        m.add("    assign %s = %s;" % (n, SHIFT_OPS[i].replace("K", str(p["k"]))))
        outs.append((n, p["wo"]))
    return design("shift", p, m.render(), [("a", p["w"]), ("s", p["ws"])], outs, tags=["signed" if p["signed"] else "unsigned"])


# ------------------------------------------------------------------------------------------------- mux / case
def gp_mux(rng):
    n = rng.choice([2, 3, 4, 5, 7, 8, 9, 12, 16, 17, 20])
    return {"style": rng.choice(["case_expr", "case_stmt", "if_chain", "switch", "index", "ternary", "rom", "range"]),
            "n": n, "w": pick_width(rng, 1, 40), "wsel": rng.randint(clog2(n), clog2(n) + 2),
            "consts": [rng.getrandbits(40) for _ in range(20)], "default": rng.random() < 0.8}


def b_mux(p):
    m = Mod()
    n, w, ws = p["n"], p["w"], p["wsel"]
    m.port("sel", "input", ty(ws))
    ins = [("sel", ws)]
    st = p["style"]
    nd = 4 if st not in ("rom",) else 0
    for i in range(nd):
        m.port("d%d" % i, "input", ty(w))
        ins.append(("d%d" % i, w))
    m.port("y", "output", ty(w))

    def val(i):
        if st == "rom" or i % 3 == 2:
            return lit(w, p["consts"][i % 20])
        if i % 5 == 4:
            return "(d%d ^ d%d)" % (i % 4, (i + 1) % 4)
        return "d%d" % (i % 4)
    nn = min(n, 1 << ws)
    if st == "index":
        ws = min(ws, 4)
        nn = 1 << ws
        m.ports[0] = "    sel: input %s," % ty(ws)
        ins[0] = ("sel", ws)
    if st in ("case_expr", "rom"):
        arms = "".join("        %s: %s,\n" % (lit(ws, i), val(i)) for i in range(nn))
        m.add("    assign y = case sel {\n%s        default: %s,\n    };" % (arms, val(nn)))
    elif st == "case_stmt":
        arms = "".join("            %s: y = %s;\n" % (lit(ws, i), val(i)) for i in range(nn))
        dflt = "            default: y = %s;\n" % val(nn) if p["default"] else ""
        pre = "" if p["default"] else "        y = %s;\n" % val(nn + 1)
        m.add("    always_comb {\n%s        case sel {\n%s%s        }\n    }" % (pre, arms, dflt))
    elif st == "range":
        # arms must be disjoint (overlapping case arms are a known finding class): sel needs >= 3 bits
        if ws < 3:
            ws = 3
            m.ports[0] = "    sel: input %s," % ty(ws)
            ins[0] = ("sel", ws)
        q = min(max(1, nn // 3), (1 << ws) - 4)
        m.add("    always_comb {\n        case sel {\n            %s..=%s: y = %s;\n            %s, %s: y = %s;\n"
              "            default: y = %s;\n        }\n    }" %
              (lit(ws, 0), lit(ws, q), val(0), lit(ws, q + 1), lit(ws, min(q + 3, (1 << ws) - 1)), val(1), val(2)))
    elif st == "if_chain":
        t = "        if sel == %s {\n            y = %s;\n        }" % (lit(ws, 0), val(0))
        for i in range(1, nn):
            t += " else if sel == %s {\n            y = %s;\n        }" % (lit(ws, i), val(i))
        t += " else {\n            y = %s;\n        }" % val(nn)
        m.add("    always_comb {\n%s\n    }" % t)
    elif st == "switch":
        arms = "".join("            sel == %s: y = %s;\n" % (lit(ws, i), val(i)) for i in range(nn))
        m.add("    always_comb {\n        switch {\n%s            default: y = %s;\n        }\n    }" % (arms, val(nn)))
    elif st == "index":
        # dynamic bit / element select; an out-of-range select is X in the RTL (masked)
        m.add("    var arr: %s [%d];\n    always_comb {\n%s    }\n    assign y = arr[sel];" %
              (ty(w), nn, "".join("        arr[%d] = %s;\n" % (i, val(i)) for i in range(nn))))
    else:  # ternary chain
        e = val(nn)
        for i in reversed(range(nn)):
            e = "if sel == %s ? %s : (%s)" % (lit(ws, i), val(i), e)
        m.add("    assign y = %s;" % e)
    return design("mux", p, m.render(), ins, [("y", w)], tags=[st])


# ------------------------------------------------------------------------------------------------- reductions / scans
def gp_reduce(rng):
    return {"w": pick_width(rng, 1, 70), "style": rng.choice(["ops", "loop", "gray", "prio", "prio_idx", "onehot"]),
            "op": rng.choice(["&", "|", "^"])}


def b_reduce(p):
    m = Mod()
    w = p["w"]
    m.port("a", "input", ty(w))
    outs = []
    st = p["style"]
    if st == "ops":
        for i, op in enumerate(["&", "|", "^", "~&", "~|", "~^"]):
            m.port("y%d" % i, "output", "logic")
            m.add("    assign y%d = %sa;" % (i, op))
            outs.append(("y%d" % i, 1))
    elif st == "loop":
        m.port("y", "output", "logic")
        m.add("    always_comb {\n        y = a[0];\n        for i in 1..%d {\n            y = y %s a[i];\n        }\n    }" % (max(w, 2) if w > 1 else 1, p["op"]) if w > 1 else
              "    always_comb {\n        y = a[0];\n    }")
        outs.append(("y", 1))
    elif st == "gray":
        # running XOR whose every partial result is observed (prefix.rs scan shape)
        m.port("y", "output", ty(w))
        if w > 1:
            m.add("    always_comb {\n        y[%d] = a[%d];\n        for i in rev 0..%d {\n            y[i] = y[i + 1] %s a[i];\n        }\n    }" % (w - 1, w - 1, w - 1, p["op"]))
        else:
            m.add("    assign y = a;")
        outs.append(("y", w))
    elif st == "prio":
        m.port("y", "output", ty(w))
        m.port("valid", "output", "logic")
        m.add("    always_comb {\n        var found: logic;\n        y = '0;\n        valid = 1'b0;\n        found = 1'b0;\n"
              "        for k in rev 0..%d {\n            if !found && a[k] {\n                y[k] = 1'b1;\n                valid = 1'b1;\n"
              "                found = 1'b1;\n            }\n        }\n    }" % w)
        outs += [("y", w), ("valid", 1)]
    elif st == "prio_idx":
        wi = clog2(w + 1)
        m.port("idx", "output", ty(wi))
        m.add("    always_comb {\n        idx = '0;\n        for k in 0..%d {\n            if a[k] {\n                idx = %d'd0 + k;\n            }\n        }\n    }" % (w, wi))
        outs.append(("idx", wi))
    else:  # one-hot check: exactly one bit set, via running any/multi scan
        m.port("one", "output", "logic")
        m.add("    always_comb {\n        var any: logic;\n        var multi: logic;\n        any = 1'b0;\n        multi = 1'b0;\n"
              "        for k in 0..%d {\n            multi = multi | (any & a[k]);\n            any = any | a[k];\n        }\n        one = any & !multi;\n    }" % w)
        outs.append(("one", 1))
    return design("reduce", p, m.render(), [("a", w)], outs, tags=[st, "w>=8" if w >= 8 else "w<8"])


# ------------------------------------------------------------------------------------------------- count scans (counter.rs)
def gp_count(rng):
    n = rng.choice([3, 7, 8, 9, 12, 16, 17, 24, 32, 33])
    return {"n": n, "wc": rng.choice([clog2(n + 1), clog2(n + 1), clog2(n + 1) + 2, max(1, clog2(n + 1) - 2)]),
            "style": rng.choice(["ctz", "clz", "popcount", "popcount_seed", "elseif"]), "seedw": rng.random() < 0.5}


def b_count(p):
    m = Mod()
    n, wc = p["n"], p["wc"]
    m.port("a", "input", ty(n))
    ins = [("a", n)]
    m.port("out", "output", ty(wc))
    st = p["style"]
    if st in ("ctz", "clz"):
        rng_ = ("0..%d" % n) if st == "ctz" else ("rev 0..%d" % n)
        m.add("    var cnt: %s;\n    var found: logic;\n    always_comb {\n        cnt = '0;\n        found = 1'b0;\n        for i in %s {\n"
              "            if !found && a[i] {\n                found = 1'b1;\n            } else if !found {\n                cnt = cnt + 1;\n            }\n"
              "        }\n    }\n    assign out = cnt;" % (ty(wc), rng_))
    elif st == "popcount":
        m.add("    always_comb {\n        out = '0;\n        for i in 0..%d {\n            if a[i] {\n                out = out + 1;\n            }\n        }\n    }" % n)
    elif st == "popcount_seed":
        m.port("seed", "input", ty(wc))
        ins.append(("seed", wc))
        m.add("    always_comb {\n        out = seed;\n        for i in 0..%d {\n            if a[i] {\n                out = out + 1;\n            }\n        }\n    }" % n)
    else:
        m.port("b", "input", ty(n))
        ins.append(("b", n))
        m.add("    always_comb {\n        out = '0;\n        for i in 0..%d {\n            if a[i] & b[i] {\n                out = out + 1;\n            } else if a[i] ^ b[i] {\n"
              "                out = out + 1;\n            }\n        }\n    }" % n)
    return design("count", p, m.render(), ins, [("out", wc)], tags=[st, "n>=8" if n >= 8 else "n<8"])


# ------------------------------------------------------------------------------------------------- registers / counters
CLOCK_TYPES = ["clock", "clock_posedge", "clock_negedge"]
RESET_TY = ["reset", "reset_async_high", "reset_async_low", "reset_sync_high", "reset_sync_low"]


def gp_regs(rng):
    return {"w": pick_width(rng, 1, 70), "clk_ty": rng.choice(CLOCK_TYPES), "rst_ty": rng.choice(RESET_TY),
            "reset_type": rng.choice(RESET_TYPES), "clock_type": rng.choice(["posedge", "posedge", "negedge"]),
            "rv": rng.getrandbits(70), "style": rng.choice(["counter", "counter_en", "counter_load", "updown", "acc", "shiftreg",
                                                            "noreset", "two_blocks", "slices", "sat", "lfsr", "hold"]),
            "rv_small": rng.random() < 0.5}


def b_regs(p):
    # known finding classes avoided: abstract `reset`/`clock` with a non-default [build] reset_type/clock_type,
    # reset values of registers wider than 64 bits, '1 literals
    p = dict(p)
    if p["rst_ty"] == "reset":
        p["reset_type"] = "async_low"
    if p["clk_ty"] == "clock":
        p["clock_type"] = "posedge"
    if p["w"] > 64:
        p["rv"] = 0
    m = Mod()
    w = p["w"]
    m.port("clk", "input", p["clk_ty"])
    m.port("rst", "input", p["rst_ty"])
    m.port("en", "input", "logic")
    m.port("ld", "input", "logic")
    m.port("d", "input", ty(w))
    m.port("q", "output", ty(w))
    ins = [("en", 1), ("ld", 1), ("d", w)]
    rv = p["rv"] & ((1 << w) - 1)
    if p["rv_small"]:
        rv &= 0xFF
    rvl = lit(w, rv)
    st = p["style"]
    outs = [("q", w)]
    hdr = "    var r: %s;\n    assign q = r;\n" % ty(w)
    if st == "counter":
        body = "if_reset {\n            r = %s;\n        } else {\n            r = r + 1;\n        }" % rvl
    elif st == "counter_en":
        body = "if_reset {\n            r = %s;\n        } else if en {\n            r = r + 1;\n        }" % rvl
    elif st == "counter_load":
        body = "if_reset {\n            r = %s;\n        } else if ld {\n            r = d;\n        } else if en {\n            r = r + 1;\n        }" % rvl
    elif st == "updown":
        body = "if_reset {\n            r = %s;\n        } else if en {\n            if ld {\n                r = r - 1;\n            } else {\n                r = r + 1;\n            }\n        }" % rvl
    elif st == "acc":
        body = "if_reset {\n            r = %s;\n        } else {\n            if en {\n                r = r + d;\n            }\n            if ld {\n                r = ~d;\n            }\n        }" % rvl
    elif st == "shiftreg":
        sh = "{r[%d:0], d[0]}" % (w - 2) if w > 1 else "d[0]"
        body = "if_reset {\n            r = %s;\n        } else if en {\n            r = %s;\n        }" % (rvl, sh)
    elif st == "hold":
        # one register only ever takes its reset value (D = Q: eliminate_dq_ffs turns it into constants), one loads
        m.port("q2", "output", ty(w))
        outs.append(("q2", w))
        hdr += "    var k: %s;\n    assign q2 = k ^ r;\n    always_ff (clk, rst) {\n        if_reset {\n            k = %s;\n        }\n    }\n" % (ty(w), lit(w, rv ^ 0x33 if w <= 64 else 0))
        body = "if_reset {\n            r = %s;\n        } else if en {\n            r = d + k;\n        }" % rvl
    elif st == "sat":
        body = "if_reset {\n            r = %s;\n        } else if en && r != %s {\n            r = r + 1;\n        } else if ld && r != '0 {\n            r = r - 1;\n        }" % (rvl, lit(w, (1 << w) - 1))
    elif st == "lfsr":
        fb = "r[%d] ^ r[0] ^ d[0]" % (w - 1)
        sh = "{r[%d:0], %s}" % (w - 2, fb) if w > 1 else fb
        body = "if_reset {\n            r = %s;\n        } else {\n            r = %s;\n        }" % (rvl, sh)
    elif st == "noreset":
        # no reset: the register is X until loaded; it is loaded unconditionally every cycle
        m2 = Mod()
        m2.port("clk", "input", p["clk_ty"])
        m2.port("en", "input", "logic")
        m2.port("ld", "input", "logic")
        m2.port("d", "input", ty(w))
        m2.port("q", "output", ty(w))
        m2.add("    var r: %s;\n    var r2: %s;\n    assign q = r2;\n    always_ff (clk) {\n        r = if en ? d : ~d;\n    }\n    always_ff (clk) {\n        r2 = r + d;\n    }" % (ty(w), ty(w)))
        return design("regs", p, m2.render(), ins, outs, clk="clk", rst=None, reset_type=p["reset_type"], clock_type=p["clock_type"],
                      tags=[st, p["clk_ty"]])
    elif st == "two_blocks":
        m.port("q2", "output", ty(w))
        outs.append(("q2", w))
        hdr += "    var r2: %s;\n    assign q2 = r2;\n    always_ff (clk, rst) {\n        if_reset {\n            r2 = %s;\n        } else if ld {\n            r2 = r + d;\n        }\n    }\n" % (ty(w), lit(w, (rv ^ 0x55) if w <= 64 else 0))
        body = "if_reset {\n            r = %s;\n        } else if en {\n            r = r2 ^ d;\n        }" % rvl
    else:  # slices: disjoint bit ranges of one register written under different conditions
        if w < 2:
            body = "if_reset {\n            r = %s;\n        } else {\n            r = d;\n        }" % rvl
        else:
            h = w // 2
            body = ("if_reset {\n            r = %s;\n        } else {\n            if ld {\n                r[%d:%d] = d[%d:%d];\n            }\n"
                    "            if en {\n                r[%d:0] = d[%d:0] + 1;\n            }\n        }" % (rvl, w - 1, h, w - 1, h, h - 1, h - 1))
    m.add(hdr + "    always_ff (clk, rst) {\n        %s\n    }" % body)
    return design("regs", p, m.render(), ins, outs, clk="clk", rst="rst", reset_type=p["reset_type"], clock_type=p["clock_type"],
                  tags=[st, p["clk_ty"], p["rst_ty"] + ("/" + p["reset_type"] if p["rst_ty"] == "reset" else "")])


# ------------------------------------------------------------------------------------------------- arrays / RAM
def gp_ram(rng):
    th = rng.choice([1024, 1024, 64])
    w = rng.choice([4, 8, 8, 9, 16, 32]) if th == 1024 else rng.choice([1, 2, 4, 8, 9])
    around = th // w
    depth = max(2, rng.choice([around - 1, around, around + 1, around // 2, around * 2, 3, 5, 12, 16]))
    depth = min(depth, 256)
    return {"w": w, "depth": depth, "style": rng.choice(["1r1w", "1r1w", "2r1w", "1r2w", "rreg", "bytes", "rmw", "reset", "case_we", "sub", "else_we"]),
            "aw_extra": rng.choice([0, 0, 0, 1]), "cond": rng.random() < 0.5}


def b_ram(p):
    w, depth = p["w"], p["depth"]
    aw = clog2(depth) + p["aw_extra"]
    st = p["style"]
    m = Mod("Top" if st != "sub" else "Mem")
    m.port("clk", "input", "clock")
    ins = [("we", 1), ("waddr", aw), ("wdata", w), ("raddr", aw)]
    m.port("we", "input", "logic")
    m.port("waddr", "input", ty(aw))
    m.port("wdata", "input", ty(w))
    m.port("raddr", "input", ty(aw))
    m.port("rdata", "output", ty(w))
    outs = [("rdata", w)]
    rst = None
    decl = "    var mem: %s [%d];\n" % (ty(w), depth)
    wr = "if we {\n            mem[waddr] = wdata;\n        }"
    rd = "    assign rdata = mem[raddr];"
    if st == "2r1w":
        m.port("raddr2", "input", ty(aw))
        m.port("rdata2", "output", ty(w))
        ins.append(("raddr2", aw))
        outs.append(("rdata2", w))
        rd += "\n    assign rdata2 = mem[raddr2] ^ mem[raddr];"
    elif st == "1r2w":
        m.port("we2", "input", "logic")
        m.port("waddr2", "input", ty(aw))
        ins += [("we2", 1), ("waddr2", aw)]
        wr += "\n        if we2 {\n            mem[waddr2] = ~wdata;\n        }"
    elif st == "rreg":
        m.port("rst", "input", "reset")
        rst = "rst"
        rd = "    var rq: %s;\n    always_ff (clk, rst) {\n        if_reset {\n            rq = '0;\n        } else {\n            rq = mem[raddr];\n        }\n    }\n    assign rdata = rq;" % ty(w)
    elif st == "bytes" and w >= 2:
        h = w // 2
        m.port("be", "input", ty(2))
        ins.append(("be", 2))
        wr = ("if we {\n            if be[0] {\n                mem[waddr][%d:0] = wdata[%d:0];\n            }\n            if be[1] {\n"
              "                mem[waddr][%d:%d] = wdata[%d:%d];\n            }\n        }" % (h - 1, h - 1, w - 1, h, w - 1, h))
    elif st == "rmw":
        m.port("wmask", "input", ty(w))
        ins.append(("wmask", w))
        wr = "if we {\n            mem[waddr] = (mem[waddr] & ~wmask) | (wdata & wmask);\n        }"
    elif st == "reset":
        m.port("rst", "input", "reset")
        rst = "rst"
        body = "always_ff (clk, rst) {\n        if_reset {\n            for i in 0..%d {\n                mem[i] = '0;\n            }\n        } else if we {\n            mem[waddr] = wdata;\n        }\n    }" % depth
        m.add(decl + "    " + body + "\n" + rd)
        return design("ram", p, m.render(), ins, outs, clk="clk", rst=rst, tags=[st, "bits=%d" % (w * depth)],
                      addr_ports={"waddr": depth, "raddr": depth})
    elif st == "else_we":
        m.port("we2", "input", "logic")
        ins.append(("we2", 1))
        wr = "if we {\n            mem[waddr] = wdata;\n        } else if we2 {\n            mem[raddr] = ~wdata;\n        } else {\n            if wdata[0] {\n                mem[waddr] = wdata ^ %s;\n            }\n        }" % lit(w, 0x5a5a5a5a)
    elif st == "case_we":
        m.port("mode", "input", ty(2))
        ins.append(("mode", 2))
        wr = ("case mode {\n            2'd0: {\n                if we {\n                    mem[waddr] = wdata;\n                }\n            }\n"
              "            2'd1: mem[waddr] = ~wdata;\n            default: {\n            }\n        }")
    m.add(decl + "    always_ff (clk) {\n        %s\n    }\n%s" % (wr, rd))
    src = m.render()
    if st == "sub":
        t = Mod("Top")
        t.port("clk", "input", "clock")
        for n_, w_ in ins:
            t.port(n_, "input", ty(w_))
        t.port("rdata", "output", ty(w))
        t.port("rdata_b", "output", ty(w))
        outs.append(("rdata_b", w))
        t.add("    inst u0: Mem (\n        clk, we, waddr, wdata, raddr, rdata,\n    );\n"
              "    inst u1: Mem (\n        clk, we: we & waddr[0], waddr, wdata: ~wdata, raddr, rdata: rdata_b,\n    );")
        src = src + t.render()
    init = {"we": "we", "addr": "waddr", "data": "wdata", "depth": depth, "others_zero": ["we2", "mode"]}
    return design("ram", p, src, ins, outs, clk="clk", rst=rst, init=init, tags=[st, "bits=%d" % (w * depth), "depth=%d" % depth],
                  addr_ports={"waddr": depth, "raddr": depth, "raddr2": depth, "waddr2": depth})


# ------------------------------------------------------------------------------------------------- hierarchy x inferred RAM x masked write
def gp_hram(rng):
    th = rng.choice([1024, 1024, 64])
    w = rng.choice([8, 16, 32]) if th == 1024 else rng.choice([2, 4, 8])
    depth = max(2, min(256, rng.choice([th // w, th // w + 1, 2 * th // w, th // w - 1])))
    return {"w": w, "depth": depth, "mask": rng.choice(["bytes", "rmw", "bits", "bytes"]),
            "topo": rng.choice(["one", "two", "nested", "nested_two"]), "pre": rng.randint(1, 3)}


def b_hram(p):
    """A RAM with byte / bit / read-modify-write masked writes living in a CHILD module (optionally nested two levels,
    optionally instantiated twice); the parent declares unrelated ports and logic BEFORE the instance so that its net
    numbering differs from the child's (flatten_inst must remap addr/data/enable AND mask nets)."""
    w, depth, mk, topo = p["w"], p["depth"], p["mask"], p["topo"]
    aw = clog2(depth)
    h = max(1, w // 2)
    bew = {"bytes": 2, "bits": w, "rmw": w}[mk]
    mem = Mod("MemM")
    mem.port("clk", "input", "clock")
    mem.port("we", "input", "logic")
    mem.port("be", "input", ty(bew))
    mem.port("waddr", "input", ty(aw))
    mem.port("wdata", "input", ty(w))
    mem.port("raddr", "input", ty(aw))
    mem.port("rdata", "output", ty(w))
    if mk == "bytes":
        wr = ("if we {\n            if be[0] {\n                mem[waddr][%d:0] = wdata[%d:0];\n            }\n            if be[1] {\n"
              "                mem[waddr][%d:%d] = wdata[%d:%d];\n            }\n        }" % (h - 1, h - 1, w - 1, h, w - 1, h))
    elif mk == "bits":
        wr = "if we {\n            for i in 0..%d {\n                if be[i] {\n                    mem[waddr][i] = wdata[i];\n                }\n            }\n        }" % w
    else:
        wr = "if we {\n            mem[waddr] = (mem[waddr] & ~be) | (wdata & be);\n        }"
    mem.add("    var mem: %s [%d];\n    always_ff (clk) {\n        %s\n    }\n    assign rdata = mem[raddr];" % (ty(w), depth, wr))
    src = mem.render()
    child = "MemM"
    if topo in ("nested", "nested_two"):
        mid = Mod("Mid")
        mid.port("k", "input", ty(w))
        mid.port("clk", "input", "clock")
        for n_, t_ in (("we", "logic"), ("be", ty(bew)), ("waddr", ty(aw)), ("wdata", ty(w)), ("raddr", ty(aw))):
            mid.port(n_, "input", t_)
        mid.port("rdata", "output", ty(w))
        mid.add("    var t: %s;\n    var bm: %s;\n    var ro: %s;\n    assign t = wdata ^ k;\n    assign bm = be | {k[0] repeat %d};\n"
                "    inst u: MemM (\n        clk, we, be: bm, waddr, wdata: t, raddr, rdata: ro,\n    );\n    assign rdata = ro + k;"
                % (ty(w), ty(bew), ty(w), bew))
        src += mid.render()
        child = "Mid"
    top = Mod("Top")
    ins = []
    # unrelated ports and logic first: shifts the parent's net numbering away from the child's
    top.port("x", "input", ty(w))
    top.port("y", "input", ty(w))
    ins += [("x", w), ("y", w)]
    top.port("s", "output", ty(w))
    top.port("clk", "input", "clock")
    for n_, w_ in (("we", 1), ("be", bew), ("waddr", aw), ("wdata", w), ("raddr", aw)):
        top.port(n_, "input", ty(w_))
        ins.append((n_, w_))
    top.port("rdata", "output", ty(w))
    outs = [("s", w), ("rdata", w)]
    pre = "".join("    var p%d: %s;\n    assign p%d = (x %s y) ^ %s;\n" % (i, ty(w), i, ["+", "-", "&"][i % 3], "x" if i == 0 else "p%d" % (i - 1))
                  for i in range(p["pre"]))
    last = "p%d" % (p["pre"] - 1)
    kk = "k: %s, " % last if child == "Mid" else ""
    body = pre + "    assign s = %s;\n    var bx: %s;\n    assign bx = be & ~{(x[0] & y[0]) repeat %d};\n" % (last, ty(bew), bew)
    body += "    inst u0: %s (\n        %sclk, we, be: bx, waddr, wdata: wdata ^ %s, raddr, rdata,\n    );\n" % (child, kk, last)
    if topo in ("two", "nested_two"):
        top.port("rdata_b", "output", ty(w))
        outs.append(("rdata_b", w))
        body += "    inst u1: %s (\n        %sclk, we, be: ~bx | be, waddr, wdata: ~wdata, raddr: waddr, rdata: rdata_b,\n    );\n" % (child, kk)
    top.add(body)
    src += top.render()
    init = {"we": "we", "addr": "waddr", "data": "wdata", "depth": depth, "others_zero": ["x", "y"]}
    return design("hram", p, src, ins, outs, clk="clk", init=init, tags=[mk, topo, "bits=%d" % (w * depth)],
                  addr_ports={"waddr": depth, "raddr": depth})


# ------------------------------------------------------------------------------------------------- hierarchy
def gp_hier(rng):
    return {"w": pick_width(rng, 1, 40), "n": rng.randint(1, 3), "style": rng.choice(["comb", "reg", "chain", "iface"]),
            "rst_ty": rng.choice(RESET_TY[1:])}


def b_hier(p):
    w, n = p["w"], p["n"]
    st = p["style"]
    if st == "iface":
        # producer -> interface (modports) -> consumer, flattened through two instances
        src = ("interface Bus {\n    var valid: logic;\n    var data: %s;\n    modport master {\n        valid: output,\n        data: output,\n    }\n"
               "    modport slave {\n        valid: input,\n        data: input,\n    }\n}\n"
               "module Prod (\n    a: input %s,\n    en: input logic,\n    m: modport Bus::master,\n) {\n    assign m.valid = en;\n    assign m.data = a + %s;\n}\n"
               "module Cons (\n    s: modport Bus::slave,\n    b: input %s,\n    y: output %s,\n) {\n    assign y = if s.valid ? s.data ^ b : ~b;\n}\n"
               "module Top (\n    a: input %s,\n    b: input %s,\n    en: input logic,\n    y: output %s,\n) {\n    inst bus: Bus;\n    inst p: Prod (a, en, m: bus);\n"
               "    inst c: Cons (s: bus, b, y);\n}\n" % (ty(w), ty(w), lit(w, 1 + n), ty(w), ty(w), ty(w), ty(w), ty(w)))
        return design("hier", p, src, [("a", w), ("b", w), ("en", 1)], [("y", w)], tags=[st])
    sub = Mod("Sub")
    seq = st in ("reg", "chain")
    if seq:
        sub.port("clk", "input", "clock")
        sub.port("rst", "input", p["rst_ty"])
    sub.port("x", "input", ty(w))
    sub.port("k", "input", ty(w))
    sub.port("z", "output", ty(w))
    if seq:
        sub.add("    var r: %s;\n    always_ff (clk, rst) {\n        if_reset {\n            r = %s;\n        } else {\n            r = (r + x) ^ k;\n        }\n    }\n    assign z = r;" % (ty(w), lit(w, 5)))
    else:
        sub.add("    assign z = (x + k) ^ (x & ~k);")
    top = Mod("Top")
    if seq:
        top.port("clk", "input", "clock")
        top.port("rst", "input", p["rst_ty"])
    top.port("a", "input", ty(w))
    top.port("b", "input", ty(w))
    top.port("y", "output", ty(w))
    decl = "".join("    var t%d: %s;\n" % (i, ty(w)) for i in range(n))
    insts = ""
    for i in range(n):
        x = "a" if (i == 0 or st != "chain") else "t%d" % (i - 1)
        kk = "b + %s" % lit(w, i) if i % 2 == 0 else "b"
        conn = ("clk, rst, " if seq else "") + "x: %s, k: %s, z: t%d," % (x, kk, i)
        insts += "    inst u%d: Sub (\n        %s\n    );\n" % (i, conn)
    comb = " ^ ".join("t%d" % i for i in range(n))
    top.add(decl + insts + "    assign y = %s;" % comb)
    return design("hier", p, sub.render() + top.render(), [("a", w), ("b", w)], [("y", w)], clk="clk" if seq else None,
                  rst="rst" if seq else None, tags=[st, "n=%d" % n])


# ------------------------------------------------------------------------------------------------- concat / selects / signed ext
def gp_concat(rng):
    return {"w": pick_width(rng, 4, 64), "style": rng.choice(["cat", "sel", "lhs", "rep", "sext", "packed", "func", "struct"]),
            "lo": rng.randint(0, 3), "signed": rng.random() < 0.5, "wo": pick_width(rng, 1, 70)}


def b_concat(p):
    m = Mod()
    w = p["w"]
    st = p["style"]
    lo = min(p["lo"], w - 2)
    hi = w - 1 - (p["lo"] % 2)
    hi = max(hi, lo)
    sw = hi - lo + 1
    m.port("a", "input", ty(w, p["signed"] and st == "sext"))
    m.port("b", "input", ty(w, p["signed"] and st == "sext"))
    ins = [("a", w), ("b", w)]
    outs = []
    if st == "cat":
        m.port("y", "output", ty(2 * w + 3))
        m.add("    assign y = {a, 3'b101, b};")
        outs.append(("y", 2 * w + 3))
    elif st == "sel":
        m.port("y0", "output", ty(sw))
        m.port("y1", "output", ty(2))
        m.port("y2", "output", "logic")
        m.add("    assign y0 = a[%d:%d];\n    assign y1 = b[%d+:2];\n    assign y2 = a[%d] ^ b[0];" % (hi, lo, lo, hi))
        outs += [("y0", sw), ("y1", 2), ("y2", 1)]
    elif st == "lhs":
        m.port("p", "output", ty(sw))
        m.port("q", "output", ty(w))
        m.add("    always_comb {\n        {p, q} = {a[%d:%d], b} + 1;\n    }" % (hi, lo))
        outs += [("p", sw), ("q", w)]
    elif st == "rep":
        m.port("y", "output", ty(3 * 2 + w))
        m.add("    assign y = {a[1:0] repeat 3, b};")
        outs.append(("y", 6 + w))
    elif st == "sext":
        wo = p["wo"]
        m.port("y", "output", ty(wo, p["signed"]))
        m.port("z", "output", ty(wo))
        m.add("    assign y = a;\n    assign z = a + b;")
        outs += [("y", wo), ("z", wo)]
    elif st == "packed":
        m2 = Mod()
        m2.port("a", "input", "logic<4, %d>" % w)
        m2.port("i", "input", ty(2))
        m2.port("y", "output", ty(w))
        m2.port("z", "output", ty(w))
        m2.add("    assign y = a[i];\n    assign z = a[1] ^ a[3];")
        return design("concat", p, m2.render(), [("a", 4 * w), ("i", 2)], [("y", w), ("z", w)], tags=[st])
    elif st == "func":
        m.port("y", "output", ty(w))
        m.add("    function f (\n        x: input %s,\n        k: input %s,\n    ) -> %s {\n        return (x + k) ^ (x >> 1);\n    }\n    assign y = f(a, b) + f(b, %s);" % (ty(w), ty(w), ty(w), lit(w, 3)))
        outs.append(("y", w))
    else:  # packed struct
        m.port("y", "output", ty(w + 1))
        m.add("    struct S {\n        hi: logic<%d>,\n        fl: logic,\n    }\n    var s: S;\n    always_comb {\n        s.hi = a + b;\n        s.fl = a[0] ^ b[%d];\n    }\n    assign y = s;" % (w, w - 1))
        outs.append(("y", w + 1))
    return design("concat", p, m.render(), ins, outs, tags=[st])


# ------------------------------------------------------------------------------------------------- random expressions
BIN = ["+", "-", "&", "|", "^", "~^", "*"]
CMP = ["==", "!=", "<:", "<=", ">:", ">="]


def gp_expr(rng):
    return {"seed": rng.getrandbits(32), "w": [pick_width(rng, 1, 40) for _ in range(3)], "wo": pick_width(rng, 1, 48),
            "depth": rng.randint(2, 5), "n": rng.randint(1, 4)}


def _expr(rng, depth, ws):
    if depth == 0 or rng.random() < 0.15:
        r = rng.random()
        if r < 0.7:
            return "i%d" % rng.randrange(3)
        i = rng.randrange(3)
        w = ws[i]
        return rng.choice([lit(w, 0), lit(w, (1 << w) - 1), lit(w, rng.getrandbits(w)), lit(w, 1)])
    r = rng.random()
    a = _expr(rng, depth - 1, ws)
    b = _expr(rng, depth - 1, ws)
    if r < 0.45:
        op = rng.choice(BIN if depth < 3 else BIN[:-1])
        return "(%s %s %s)" % (a, op, b)
    if r < 0.6:
        return "(if %s %s %s ? %s : %s)" % (a, rng.choice(CMP), b, _expr(rng, depth - 1, ws), _expr(rng, depth - 1, ws))
    if r < 0.7:
        return "(%s%s)" % (rng.choice(["~", "-", "~"]), a)
    if r < 0.78:
        # >> only on an input: a wider sub-expression (concatenation) shifted right inside a narrower context is the
        # known finding class narrow-context-shr-div
        if rng.random() < 0.5:
            return "(i%d >> %d)" % (rng.randrange(3), rng.randint(0, 9))
        return "(%s << %d)" % (a, rng.randint(0, 9))
    if r < 0.86:
        return "{%s, %s}" % (a, b)
    if r < 0.93:
        return "((%s != 0) %s !(%s == %s))" % (a, rng.choice(["&&", "||"]), b, a)
    return "(%s%s)" % (rng.choice(["&", "|", "^"]), a)


def b_expr(p):
    p = dict(p, wo=max([p["wo"]] + list(p["w"])))      # narrower contexts are a known finding class (>> / / %)
    rng = random.Random(p["seed"])
    m = Mod()
    ins = []
    for i in range(3):
        m.port("i%d" % i, "input", ty(p["w"][i]))
        ins.append(("i%d" % i, p["w"][i]))
    outs = []
    for k in range(p["n"]):
        e = _expr(rng, p["depth"], p["w"])
        m.port("y%d" % k, "output", ty(p["wo"]))
        m.add("    assign y%d = %s;" % (k, e))
        outs.append(("y%d" % k, p["wo"]))
    return design("expr", p, m.render(), ins, outs, tags=["depth=%d" % p["depth"]])


FAMILIES = {
    "arith": (gp_arith, b_arith, 3), "muldiv": (gp_muldiv, b_muldiv, 2), "shift": (gp_shift, b_shift, 2),
    "mux": (gp_mux, b_mux, 3), "reduce": (gp_reduce, b_reduce, 3), "count": (gp_count, b_count, 2),
    "regs": (gp_regs, b_regs, 4), "ram": (gp_ram, b_ram, 4), "hier": (gp_hier, b_hier, 2),
    "concat": (gp_concat, b_concat, 2), "expr": (gp_expr, b_expr, 3), "hram": (gp_hram, b_hram, 3),
}


def build(family, params):
    return FAMILIES[family][1](params)


# shapes every run must contain (the remaining parameters are drawn at random): one per conversion pass / corner
REQUIRED = [
    ("arith", {"wa": 65, "wb": 64, "wo": 66}), ("arith", {"wa": 3, "wb": 3, "wo": 4, "sa": True, "sb": True}),
    ("muldiv", {"kind": "divs", "signed": True, "nz": True}), ("muldiv", {"kind": "mulvv", "wa": 9, "wb": 7}),
    ("muldiv", {"kind": "modv", "signed": False}),
    ("shift", {"signed": True, "w": 16, "wo": 16, "ws": 5}), ("shift", {"signed": False, "w": 33, "wo": 33, "ws": 8}),
    ("mux", {"style": "rom", "n": 16}), ("mux", {"style": "case_stmt", "n": 9}), ("mux", {"style": "index", "n": 8}),
    ("reduce", {"style": "prio", "w": 16}), ("reduce", {"style": "loop", "w": 33}), ("reduce", {"style": "gray", "w": 17}),
    ("count", {"style": "ctz", "n": 16}), ("count", {"style": "popcount_seed", "n": 9}),
    ("regs", {"style": "hold", "rst_ty": "reset_sync_high"}), ("regs", {"style": "counter_load", "rst_ty": "reset_async_low", "clk_ty": "clock_negedge"}),
    ("regs", {"style": "noreset"}),
    ("ram", {"style": "1r1w", "w": 8, "depth": 128}), ("ram", {"style": "else_we", "w": 8, "depth": 129}),
    ("ram", {"style": "bytes", "w": 16, "depth": 64}), ("ram", {"style": "1r2w", "w": 9, "depth": 120}),
    ("ram", {"style": "sub", "w": 8, "depth": 128}), ("ram", {"style": "rmw", "w": 4, "depth": 16}),
    ("hier", {"style": "chain", "n": 3}), ("concat", {"style": "sext", "signed": True}),
    # RAM inferred inside a child, masked writes, parent with unrelated logic before the instance (flatten_inst remap)
    ("hram", {"w": 16, "depth": 64, "mask": "bytes", "topo": "one"}), ("hram", {"w": 8, "depth": 128, "mask": "rmw", "topo": "two"}),
    ("hram", {"w": 8, "depth": 129, "mask": "bits", "topo": "nested"}), ("hram", {"w": 16, "depth": 65, "mask": "bytes", "topo": "nested_two"}),
]


def gen_designs(rng, n, required=True):
    """the REQUIRED shapes, then n designs in which every family appears (round-robin first, then weighted)."""
    fams = list(FAMILIES)
    out = []
    if required:
        for f, over in REQUIRED:
            p = FAMILIES[f][0](rng)
            p.update(over)
            out.append(build(f, p))
    weights = [FAMILIES[f][2] for f in fams]
    for i in range(n):
        f = fams[i % len(fams)] if i < len(fams) else rng.choices(fams, weights)[0]
        out.append(build(f, FAMILIES[f][0](rng)))
    return out


# ------------------------------------------------------------------------------------------------- stimulus
def gen_stimulus(rng, d, cycles):
    """list of {"r": 0|1, "v": [hex per data input]}.  Starts with 2 reset cycles (inputs 0); RAM designs get an
    initialisation sweep writing every address; a reset pulse may recur mid-run."""
    ins = d["ins"]
    names = [n for n, _ in ins]
    zero = ["0"] * len(ins)
    stim = []
    if d["rst"] or d["clk"]:
        stim += [{"r": 1, "v": list(zero)}, {"r": 1, "v": list(zero)}]
    init = d.get("init")
    if init and init["we"] in names:
        for a in range(init["depth"]):
            v = []
            for n, w in ins:
                if n == init["we"]:
                    v.append("1")
                elif n == init["addr"]:
                    v.append("%x" % a)
                elif n in init.get("others_zero", []) or n.startswith("we"):
                    v.append("0")
                elif n == "be":
                    v.append("%x" % ((1 << w) - 1))
                elif n == "wmask":
                    v.append("%x" % ((1 << w) - 1))
                else:
                    v.append("%x" % rng.getrandbits(w))
            stim.append({"r": 0, "v": v})
    mid_reset = d["rst"] and rng.random() < 0.5
    for c in range(cycles):
        v = []
        for n, w in ins:
            r = rng.random()
            if r < 0.08:
                x = 0
            elif r < 0.16:
                x = (1 << w) - 1
            elif r < 0.24:
                x = 1 << rng.randrange(w)
            elif r < 0.30:
                x = rng.getrandbits(w) & rng.getrandbits(w)     # sparse
            else:
                x = rng.getrandbits(w)
            if n in d.get("addr_ports", {}):
                x = x % max(1, d["addr_ports"][n])                # out-of-range indices are undefined in the RTL
            v.append("%x" % x)
        stim.append({"r": 1 if (mid_reset and c == cycles // 2) else 0, "v": v})
    return stim


# ------------------------------------------------------------------------------------------------- shrinking
MINS = {"w": 1, "wa": 1, "wb": 1, "wo": 1, "ws": 1, "n": 1, "depth": 2, "wc": 1, "wsel": 1, "k": 0, "c": 1, "lo": 0,
        "aw_extra": 0, "rv": 0}


def shrink_params(family, params):
    """smaller parameter candidates (each still builds)."""
    out = []
    for k, v in params.items():
        if isinstance(v, bool):
            if v:
                out.append(dict(params, **{k: False}))
        elif isinstance(v, int) and k in MINS and v > MINS[k]:
            for nv in sorted({MINS[k], v // 2, v - 1}):
                if MINS[k] <= nv < v:
                    out.append(dict(params, **{k: nv}))
        elif isinstance(v, list) and k == "ops" and len(v) > 1:
            for i in range(len(v)):
                out.append(dict(params, **{k: v[:i] + v[i + 1:]}))
        elif isinstance(v, list) and k == "w" and family == "expr":
            for i in range(len(v)):
                if v[i] > 1:
                    out.append(dict(params, **{k: v[:i] + [max(1, v[i] // 2)] + v[i + 1:]}))
    good = []
    for p in out:
        try:
            build(family, p)
            good.append(p)
        except Exception:
            pass
    return good
