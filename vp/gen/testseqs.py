"""C34 generator: scratch Veryl projects whose native tests SHARE converted submodules.

A suite = one project: a library of parametrised leaf modules, generated wrapper modules that
instantiate leaves / lower wrappers at different positions (own padding before them, so the
relocation deltas differ), and 3..6 `#[test]` testbenches that pick their DUTs from a small pool of
(module, parameter values, generic arguments) specs — so the same component recurs across tests,
the same module occurs with different parameter values in different tests (seen first with A then
B and, in the reversed order, B then A), and a component may be instantiated twice inside one
test.  Tests print every DUT output each cycle with `$display`; some fail by `$assert` in the
middle of the run or at the end.

Everything is derived from the `random.Random` handed in; a suite is a plain JSON-able dict.
"""
import random

WIDTHS = [4, 7, 8, 13, 16, 31, 32, 33, 48, 64]
WIDE = [65, 96, 128, 130]

LIB = r"""
module LAcc #(
    param W: u32 = 8,
    param K: u32 = 1,
    param D: u32 = 4,
) (
    clk: input  clock   ,
    rst: input  reset   ,
    d  : input  logic<W>,
    q  : output logic<W>,
) {
    var mem: logic<W> [D];
    var acc: logic<W>;
    var ptr: logic<$clog2(D)>;
    always_ff {
        if_reset {
            acc = 0;
            ptr = 0;
        } else {
            acc      = acc + d + K as W;
            mem[ptr] = acc ^ d;
            ptr      = ptr + 1;
        }
    }
    assign q = acc ^ mem[ptr];
}

module LPipe::<N: u32> #(
    param W: u32 = 8,
) (
    clk: input  clock   ,
    rst: input  reset   ,
    d  : input  logic<W>,
    q  : output logic<W>,
) {
    var st: logic<W> [N];
    always_ff {
        if_reset {
            for i in 0..N {
                st[i] = 0;
            }
        } else {
            st[0] = d;
            for i in 1..N {
                st[i] = st[i - 1] + i as W;
            }
        }
    }
    assign q = st[N - 1];
}

module LComb #(
    param W: u32 = 8,
    param K: u32 = 3,
) (
    clk: input  clock   ,
    rst: input  reset   ,
    d  : input  logic<W>,
    q  : output logic<W>,
) {
    function f (
        x: input logic<W>,
    ) -> logic<W> {
        return (x << 1) ^ (x >> 2) ^ K as W;
    }
    var big: logic<32> [64];
    var r  : logic<W>;
    always_ff {
        if_reset {
            r = 0;
        } else {
            r           = f(d) + f(~r);
            big[r[3:0]] = r as 32;
        }
    }
    always_comb {
        q = r + f(d);
        if d[0] {
            q = q ^ (big[d[3:0]] as W);
        }
    }
}

module LMix #(
    param W: u32 = 8,
    param K: u32 = 3,
) (
    clk: input  clock   ,
    rst: input  reset   ,
    d  : input  logic<W>,
    q  : output logic<W>,
) {
    var t: logic<W>;
    var c: logic<8>;
    always_ff {
        if_reset {
            c = 0;
        } else {
            c = c + K as 8;
        }
    }
    always_comb {
        t = d;
        case c[1:0] {
            2'd0   : t = d + K as W;
            2'd1   : t = d ^ (c as W);
            2'd2   : t = ~d;
            default: t = d - 1;
        }
        q = t ^ (t >> 1);
    }
}

module LGate #(
    param W: u32 = 8,
    param K: u32 = 1,
) (
    clk: input  '_ clock   ,
    rst: input  '_ reset   ,
    d  : input  '_ logic<W>,
    q  : output '_ logic<W>,
) {
    var big  : '_ logic<32> [64];
    let en   : '_ logic = d[0] | d[1];
    let clk_g: '_ clock = clk & en;
    var r    : '_ logic<W>;
    always_ff (clk_g, rst) {
        if_reset {
            r = 0;
        } else {
            r           = r + d + K as W;
            big[r[3:0]] = r as 32;
        }
    }
    assign q = r ^ (big[d[3:0]] as W);
}
"""

LEAVES = ["LAcc", "LPipe", "LComb", "LMix", "LGate"]


def leaf_spec(rng):
    """(module text with generics, param-override dict WITHOUT W)"""
    k = rng.choice(LEAVES)
    if k == "LAcc":
        return ("LAcc", {"K": rng.choice([0, 1, 3, 7, 255]), "D": rng.choice([2, 4, 16, 64])})
    if k == "LPipe":
        return ("LPipe::<%d>" % rng.choice([1, 2, 3, 5, 8]), {})
    if k == "LComb":
        return ("LComb", {"K": rng.choice([0, 1, 5, 9, 1023])})
    if k == "LGate":
        return ("LGate", {"K": rng.choice([1, 3, 4, 250])})
    return ("LMix", {"K": rng.choice([1, 2, 3, 17])})


def inst_text(name, mod, params, ports):
    ps = ", ".join("%s: %s" % (k, v) for k, v in params.items())
    po = ", ".join(ports)
    return "    inst %s: %s #( %s ) ( %s );\n" % (name, mod, ps, po)


def gen_wrapper(rng, name, lower):
    """wrapper module text; children are leaves or lower wrappers (names in `lower`)"""
    n = rng.choice([1, 2, 2, 3])
    kids = []
    for j in range(n):
        if lower and rng.random() < 0.4:
            kids.append((rng.choice(lower), {"P": rng.choice([1, 2, 5, 9])}))
        else:
            kids.append(leaf_spec(rng))
    ffpad = rng.random() < 0.7
    t = "module %s #(\n    param P: u32 = 1,\n    param W: u32 = 16,\n) (\n" % name
    t += "    clk: input  clock   ,\n    rst: input  reset   ,\n    d  : input  logic<W>,\n    q  : output logic<W>,\n) {\n"
    t += "    var pad: logic<32> [P];\n"
    for j in range(n - 1):
        t += "    var m%d: logic<W>;\n" % j
    if ffpad:
        t += "    always_ff {\n        if_reset {\n            pad[0] = 0;\n        } else {\n            pad[0] = pad[0] + 1;\n        }\n    }\n"
    else:
        t += "    always_comb {\n        pad[0] = d as 32;\n    }\n"
    for j, (mod, pr) in enumerate(kids):
        src = "d" if j == 0 else "m%d" % (j - 1)
        if j > 0 and rng.random() < 0.5:
            src = "%s ^ (pad[0] as W)" % src
        dst = "q" if j == n - 1 else "m%d" % j
        params = {"W": "W"}
        params.update(pr)
        ports = ["clk", "rst", ("d" if src == "d" else "d: %s" % src), ("q" if dst == "q" else "q: %s" % dst)]
        t += inst_text("u%d" % j, mod, params, ports)
    if n == 0:
        t += "    assign q = d;\n"
    t += "}\n"
    return t, {"kids": [k[0] for k in kids], "ffpad": ffpad}


def gen_suite(rng, idx):
    nwr = rng.choice([1, 2, 3])
    wrappers, wtexts, wmeta = [], [], {}
    for i in range(nwr):
        name = "Wr%d" % i
        txt, meta = gen_wrapper(rng, name, list(wrappers))
        wrappers.append(name)
        wtexts.append(txt)
        wmeta[name] = meta
    # pool of DUT specs shared by the tests
    pool = []
    npool = rng.choice([2, 3, 4])
    wpool = rng.sample(WIDTHS, 2) + ([rng.choice(WIDE)] if rng.random() < 0.25 else [])
    while len(pool) < npool:
        w = rng.choice(wpool)
        if rng.random() < 0.65:
            spec = (rng.choice(wrappers), {"P": rng.choice([1, 3, 9, 70]), "W": w})
        else:
            mod, pr = leaf_spec(rng)
            pr = dict(pr)
            pr["W"] = w
            spec = (mod, pr)
        if spec not in pool:
            pool.append(spec)
    # make sure one module occurs with two different parameterisations
    if rng.random() < 0.8:
        mod, pr = pool[0]
        pr2 = dict(pr)
        if "P" in pr2:
            pr2["P"] = pr2["P"] + rng.choice([1, 4, 60])
        elif "K" in pr2:
            pr2["K"] = pr2["K"] + 1
        else:
            pr2["W"] = pr2["W"] + 1
        if (mod, pr2) not in pool:
            pool.append((mod, pr2))
    ntests = rng.choice([3, 3, 4, 4, 5])
    tests = []
    ttexts = []
    for ti in range(ntests):
        name = "tq%02d" % ti
        nd = rng.choice([1, 1, 2, 2, 3])
        duts = [rng.choice(pool) for _ in range(nd)]
        if rng.random() < 0.2:
            mod, pr = leaf_spec(rng)
            pr = dict(pr)
            pr["W"] = rng.choice(WIDTHS)
            duts.insert(rng.randrange(len(duts) + 1), (mod, pr))
        pads = rng.choice([0, 0, 1, 5, 17])
        cycles = rng.choice([5, 6, 8, 12])
        t = "#[test(%s)]\nmodule %s {\n    inst clk: $tb::clock_gen;\n    inst rst: $tb::reset_gen ( clk );\n" % (name, name)
        if pads:
            t += "    var x: logic<64> [%d];\n" % pads
        for k, (mod, pr) in enumerate(duts):
            t += "    var d%d: logic<%d>;\n    var q%d: logic<%d>;\n" % (k, pr["W"], k, pr["W"])
        for k, (mod, pr) in enumerate(duts):
            t += inst_text("dut%d" % k, mod, pr, ["clk", "rst", "d: d%d" % k, "q: q%d" % k])
        t += "    initial {\n"
        for k in range(len(duts)):
            t += "        d%d = %d;\n" % (k, rng.randrange(16))
        if pads:
            t += "        x[0] = 1;\n"
        t += "        rst.assert();\n"
        t += "        for i: u32 in 0..%d {\n" % cycles
        for k, (mod, pr) in enumerate(duts):
            a, b, c = rng.randrange(1, 200), rng.randrange(0, 1000), rng.randrange(0, 4)
            t += "            d%d = ((i * %d + %d) ^ (i << %d)) as %d;\n" % (k, a, b, c, pr["W"])
        t += "            clk.next(1);\n"
        fmt = " ".join(["%h"] * len(duts))
        t += "            $display(\"%s %%d %s\", i, %s);\n" % (name, fmt, ", ".join("q%d" % k for k in range(len(duts))))
        kind = "pass"
        r = rng.random()
        if r < 0.25:
            kk = rng.randrange(len(duts))
            t += "            $assert(q%d[1:0] != 2'd%d);\n" % (kk, rng.randrange(4))
            kind = "mid-assert"
        t += "        }\n"
        if 0.25 <= r < 0.55:
            kk = rng.randrange(len(duts))
            t += "        $assert(q%d[0] == 1'b%d);\n" % (kk, rng.randrange(2))
            kind = "end-assert"
        t += "        $finish();\n    }\n}\n"
        # the `for i: u32` form is not accepted by the parser; plain `for i`
        t = t.replace("for i: u32 in", "for i in")
        tests.append({"name": name, "duts": [[m, p] for m, p in duts], "pads": pads, "cycles": cycles, "kind": kind, "text": t})
        ttexts.append(t)
    lib = LIB + "\n" + "\n".join(wtexts) + "\n"
    # shape tags
    mods = {}
    for tt in tests:
        for m, p in tt["duts"]:
            mods.setdefault(m, set()).add(tuple(sorted(p.items())))
    recurring = {}
    for tt in tests:
        for m, p in set((m, tuple(sorted(p.items()))) for m, p in tt["duts"]):
            recurring[(m, p)] = recurring.get((m, p), 0) + 1
    tags = {
        "tests": ntests,
        "pool": len(pool),
        "same_module_diff_params": any(len(v) > 1 for v in mods.values()),
        "recurring_specs": sum(1 for v in recurring.values() if v >= 2),
        "replicated_in_one_test": any(len(tt["duts"]) != len(set((m, tuple(sorted(p.items()))) for m, p in tt["duts"])) for tt in tests),
        "wrapper_depth": 2 if any(any(k.startswith("Wr") for k in wmeta[w]["kids"]) for w in wmeta) else 1,
        "wide": any(p["W"] > 64 for tt in tests for _, p in tt["duts"]),
        "failing_tests": sum(1 for tt in tests if tt["kind"] != "pass"),
        "gated_clock": ("LGate" in " ".join(m for tt in tests for m, _ in tt["duts"])) or any("LGate" in wmeta[w]["kids"] for w in wmeta),
    }
    backend = rng.choice(["cranelift"] * 6 + ["interpret"] * 3 + ["cc"] * 1)
    opts = {
        "backend": backend,
        "four_state": rng.random() < 0.25,
        "wave": rng.random() < 0.4,
        "min_bytes": rng.choice([None, 0]),
    }
    return {"name": "s%03d" % idx, "lib": lib, "tests": tests, "tags": tags, "opts": opts, "wrappers": wmeta}


def suite_src(suite, only=None):
    """project source; `only` = list of test names to keep (default all)"""
    keep = [t for t in suite["tests"] if only is None or t["name"] in only]
    return suite["lib"] + "\n".join(t["text"] for t in keep)


TOML = """[project]
name    = "%s"
version = "0.1.0"

[build]
clock_type  = "posedge"
reset_type  = "async_low"
sources     = ["src"]
exclude_std = true

[test]
"""


def orders(rng, names, n):
    """test orders: sorted, reversed, then random shuffles"""
    out = [list(names), list(reversed(names))]
    while len(out) < n:
        p = list(names)
        rng.shuffle(p)
        if p not in out:
            out.append(p)
        elif len(names) <= 2:
            break
    return out[:n]
