"""C26: option sets, SystemVerilog lexer, token-level oracles, model of the `inside` expansion
(as a rewriter on SV token streams), Veryl design generator and source mutators.

Option set (python dict):  sc ei va in {0,1};  nl in {unix, windows, auto};  iw, mw ints.
"""
import os
import re

from .. import common as C

# ------------------------------------------------------------------------------------ options

DEFAULT = {"sc": 0, "ei": 0, "nl": "unix", "iw": 4, "mw": 120, "va": 1}
IW = [1, 2, 4, 8]
MW = [20, 40, 80, 120]
NL = ["unix", "windows", "auto"]


def opts_wire(o):
    return "sc=%d,ei=%d,nl=%s,iw=%d,mw=%d,va=%d" % (o["sc"], o["ei"], o["nl"], o["iw"], o["mw"], o["va"])


def opts_key(o):
    return opts_wire(o)


def with_(o, **kw):
    r = dict(o)
    r.update(kw)
    return r


def all_opts():
    return [{"sc": sc, "ei": ei, "nl": nl, "iw": iw, "mw": mw, "va": va}
            for sc in (0, 1) for ei in (0, 1) for nl in NL for iw in IW for mw in MW for va in (0, 1)]


def pairwise_opts(rng, extra=0):
    """A pairwise-covering set of option sets (greedy, seeded): every pair of values of every two
    options occurs in at least one row.  Plus `extra` random rows."""
    keys = ["sc", "ei", "nl", "iw", "mw", "va"]
    dom = {"sc": [0, 1], "ei": [0, 1], "nl": NL, "iw": IW, "mw": MW, "va": [0, 1]}
    need = set()
    for i, a in enumerate(keys):
        for b in keys[i + 1:]:
            for x in dom[a]:
                for y in dom[b]:
                    need.add((a, x, b, y))
    rows = []
    while need:
        best, bestc = None, -1
        for _ in range(40):
            r = {k: rng.choice(dom[k]) for k in keys}
            c = sum(1 for (a, x, b, y) in need if r[a] == x and r[b] == y)
            if c > bestc:
                best, bestc = r, c
        if bestc == 0:
            a, x, b, y = next(iter(need))
            best = {k: rng.choice(dom[k]) for k in keys}
            best[a], best[b] = x, y
        rows.append(best)
        need = {(a, x, b, y) for (a, x, b, y) in need if not (best[a] == x and best[b] == y)}
    for _ in range(extra):
        rows.append({k: rng.choice(dom[k]) for k in keys})
    return rows


def option_plan(rng, tier, full=False):
    """Option sets run for ONE design (first = default): the four (sc, ei) representatives with default
    layout, rows of a seeded pairwise-covering array (all of them when `full`, else 5 / 30), and the newline
    triples (unix/windows/auto) of some rows."""
    rows = [with_(DEFAULT, sc=sc, ei=ei) for sc in (0, 1) for ei in (0, 1)]
    pw = pairwise_opts(rng, extra=0 if tier == "quick" else 24)
    if not full:
        pw = rng.sample(pw, min(5 if tier == "quick" else 30, len(pw)))
    rows += pw
    pick = rng.sample(pw, min(4 if (full or tier != "quick") else 1, len(pw)))
    for r in pick:
        for nl in NL:
            rows.append(with_(r, nl=nl))
    seen, out = set(), []
    for r in rows:
        k = opts_key(r)
        if k not in seen:
            seen.add(k)
            out.append(r)
    return out


# ------------------------------------------------------------------------------------ SV lexer

OPS = ["<<<=", ">>>=", "===", "!==", "==?", "!=?", "<<<", ">>>", "<<=", ">>=", "<->", "|->", "|=>", "->>",
       "&&&", "'{", "==", "!=", "<=", ">=", "&&", "||", "**", "<<", ">>", "+=", "-=", "*=", "/=", "%=", "&=",
       "|=", "^=", "++", "--", "->", "::", "+:", "-:", "~&", "~|", "~^", "^~", "##"]
OPS.sort(key=lambda s: -len(s))
_ident = re.compile(r"[A-Za-z_][A-Za-z0-9_$]*")
_sys = re.compile(r"[$`][A-Za-z_][A-Za-z0-9_$]*")
_num = re.compile(r"[0-9][0-9_]*(\.[0-9][0-9_]*)?([eE][+-]?[0-9]+)?")
_based = re.compile(r"'[sS]?[bodhBODH][ \t]*[0-9a-fA-FxXzZ?_]+")
_unb = re.compile(r"'[01xXzZ]")
_esc = re.compile(r"\\[^ \t\r\n]+")
TRAILER = "//# sourceMappingURL="


class Tok:
    __slots__ = ("k", "t", "s", "e")

    def __init__(self, k, t, s, e):
        self.k, self.t, self.s, self.e = k, t, s, e      # kind, text, start, end offsets

    def __repr__(self):
        return "%s:%r" % (self.k, self.t)


def lex(src):
    """SystemVerilog text -> list of Tok.  kinds: id num str op lc (line comment) bc (block comment)
    tr (sourceMappingURL trailer).  Comments are tokens.  Raises ValueError on an unterminated
    comment/string."""
    toks = []
    i, n = 0, len(src)
    while i < n:
        c = src[i]
        if c in " \t\r\n\f\v":
            i += 1
            continue
        if c == "/" and i + 1 < n and src[i + 1] == "/":
            j = src.find("\n", i)
            if j < 0:
                j = n
            text = src[i:j].rstrip("\r")
            toks.append(Tok("tr" if text.startswith(TRAILER) else "lc", text.rstrip(), i, j))
            i = j
            continue
        if c == "/" and i + 1 < n and src[i + 1] == "*":
            j = src.find("*/", i + 2)
            if j < 0:
                raise ValueError("unterminated block comment at %d" % i)
            toks.append(Tok("bc", src[i:j + 2].replace("\r\n", "\n"), i, j + 2))
            i = j + 2
            continue
        if c == '"':
            j = i + 1
            while j < n and src[j] != '"':
                j += 2 if src[j] == "\\" else 1
            if j >= n:
                raise ValueError("unterminated string at %d" % i)
            toks.append(Tok("str", src[i:j + 1].replace("\r\n", "\n"), i, j + 1))
            i = j + 1
            continue
        m = _based.match(src, i) or _unb.match(src, i)
        if m and c == "'":
            toks.append(Tok("num", re.sub(r"[ \t]", "", m.group(0)), i, m.end()))
            i = m.end()
            continue
        m = _num.match(src, i)
        if m:
            toks.append(Tok("num", m.group(0), i, m.end()))
            i = m.end()
            continue
        m = _ident.match(src, i) or _sys.match(src, i) or _esc.match(src, i)
        if m:
            toks.append(Tok("id", m.group(0), i, m.end()))
            i = m.end()
            continue
        for op in OPS:
            if src.startswith(op, i):
                toks.append(Tok("op", op, i, i + len(op)))
                i += len(op)
                break
        else:
            toks.append(Tok("op", c, i, i + 1))
            i += 1
    return toks


def is_comment(t):
    return t.k in ("lc", "bc")


def sig(toks):
    return [(t.k, t.t) for t in toks]


def first_diff(a, b):
    """index of the first differing token of two signatures, with a little context"""
    n = min(len(a), len(b))
    i = 0
    while i < n and a[i] == b[i]:
        i += 1
    ctx = lambda s: " ".join(t for _, t in s[max(0, i - 6):i + 6])
    return i, ctx(a), ctx(b)


# ------------------------------------------------------------------------------------ newline oracle

def del_cr(s):
    return s.replace("\r", "")


def protected_spans(src):
    """offsets inside comment / string tokens (their line endings are copied from the source)"""
    try:
        return [(t.s, t.e) for t in lex(src) if t.k in ("bc", "str")]
    except ValueError:
        return []


def line_endings(src):
    """(#LF-only, #CRLF) line endings outside block comments / strings"""
    spans = protected_spans(src)
    lf = crlf = 0
    k = 0
    for m in re.finditer(r"\r?\n", src):
        p = m.start()
        while k < len(spans) and spans[k][1] <= p:
            k += 1
        if k < len(spans) and spans[k][0] <= p < spans[k][1]:
            continue
        if m.group(0) == "\n":
            lf += 1
        else:
            crlf += 1
    return lf, crlf


def embed_text(src):
    """text of all embed {{{ ... }}} blocks of a Veryl source (copied verbatim into the output)"""
    out = []
    i = 0
    while True:
        a = src.find("{{{", i)
        if a < 0:
            break
        b = src.find("}}}", a + 3)
        if b < 0:
            b = len(src)
        out.append(src[a + 3:b])
        i = b + 3
    return "\n".join(out)


def source_newline(src):
    """format.rs auto_detect_newline_style on a Linux host"""
    p = src.find("\n")
    if p > 0 and src[p - 1] == "\r":
        return "windows"
    return "unix"


# ------------------------------------------------------------------------------------ inside expansion model

def match_close(sg, i):
    """index of the bracket closing the one at sg[i]"""
    op = sg[i][1]
    cl = {"(": ")", "[": "]", "{": "}", "'{": "}"}[op]
    d = 0
    j = i
    while j < len(sg):
        t = sg[j][1]
        if sg[j][0] == "op":
            if t in ("(", "[", "{", "'{"):
                d += 1
            elif t in (")", "]", "}"):
                d -= 1
                if d == 0:
                    if t != cl:
                        raise ValueError("bracket mismatch")
                    return j
        j += 1
    raise ValueError("unbalanced")


def split_top(sg, sep):
    """split a token list at top-level separator operator"""
    parts, cur, d = [], [], 0
    for t in sg:
        if t[0] == "op" and t[1] in ("(", "[", "{", "'{"):
            d += 1
        elif t[0] == "op" and t[1] in (")", "]", "}"):
            d -= 1
        if d == 0 and t == ("op", sep):
            parts.append(cur)
            cur = []
        else:
            cur.append(t)
    parts.append(cur)
    return parts


O = lambda s: ("op", s)
ONE_B1 = [("num", "1"), ("num", "'b1")]      # the lexer splits a sized literal into size and based part
EXCL = ("mark", "excl")     # marker token inserted in front of `)-1]` printed for an exclusive range


def mark_exclusive(toks, src):
    """signature of a token list in which every `(hi)-1]` that the emitter printed for an exclusive
    range (text `)-1]` without blanks; a source expression `(hi) - 1` is printed with blanks) is
    preceded by an EXCL marker in front of the `-`."""
    out = []
    for i, t in enumerate(toks):
        if (t.k == "op" and t.t == "-" and i >= 1 and i + 2 < len(toks) and toks[i - 1].t == ")"
                and toks[i + 1].t == "1" and toks[i + 2].t == "]"
                and src[toks[i - 1].s:toks[i + 2].e] == ")-1]"):
            out.append(EXCL)
        out.append((t.k, t.t))
    return out


def unmark(sg):
    return [t for t in sg if t != EXCL]


def member_exp(x, item):
    """inside_element_operation on token lists (x and item already expanded)"""
    if item and item[0] == O("[") and match_close(item, 0) == len(item) - 1:
        inner = item[1:-1]
        parts = split_top(inner, ":")
        if len(parts) == 2:
            lo, hi = parts
            if len(hi) >= 4 and hi[-3] == EXCL and hi[0] == O("(") and match_close(hi, 0) == len(hi) - 4:
                hi2, opr = hi[1:-4], "<"
            else:
                hi2, opr = hi, "<="
            return ([O("("), O("(")] + x + [O(")"), O(">="), O("(")] + lo + [O(")"), O(")"), O("&&"),
                    O("("), O("(")] + x + [O(")"), O(opr), O("(")] + hi2 + [O(")"), O(")")]), ("range", opr)
    return [O("(")] + x + [O(")"), O("==?"), O("(")] + item + [O(")")], ("val", "==?")


def stmt_end(sg, i):
    """index just after the statement starting at sg[i] (subset of SV the emitter prints in case arms)"""
    t = sg[i]
    if t == ("id", "begin"):
        d = 0
        j = i
        while j < len(sg):
            if sg[j] == ("id", "begin"):
                d += 1
            elif sg[j] == ("id", "end"):
                d -= 1
                if d == 0:
                    return j + 1
            j += 1
        raise ValueError("begin without end")
    if t[0] == "id" and t[1] in ("unique", "unique0", "priority"):
        return stmt_end(sg, i + 1)
    if t[0] == "id" and t[1] in ("case", "casez", "casex"):
        d = 0
        j = i
        while j < len(sg):
            if sg[j][0] == "id" and sg[j][1] in ("case", "casez", "casex"):
                d += 1
            elif sg[j] == ("id", "endcase"):
                d -= 1
                if d == 0:
                    return j + 1
            j += 1
        raise ValueError("case without endcase")
    if t == ("id", "if"):
        j = match_close(sg, i + 1) + 1
        j = stmt_end(sg, j)
        if j < len(sg) and sg[j] == ("id", "else"):
            j = stmt_end(sg, j + 1)
        return j
    if t[0] == "id" and t[1] in ("for", "while", "repeat", "foreach"):
        j = match_close(sg, i + 1) + 1
        return stmt_end(sg, j)
    d = 0
    j = i
    while j < len(sg):
        if sg[j][0] == "op" and sg[j][1] in ("(", "[", "{", "'{"):
            d += 1
        elif sg[j][0] == "op" and sg[j][1] in (")", "]", "}"):
            d -= 1
        elif d == 0 and sg[j] == O(";"):
            return j + 1
        j += 1
    raise ValueError("statement without ;")


def expand_model(sg, stats=None):
    """Model of [build] expand_inside_operation = true as a rewriter on the token signature of the
    output emitted with expand_inside_operation = false (marked with mark_exclusive):
      ((X) inside {m1, ..., mn})        ->  (E1 || ... || En)            (also under a leading !)
      case (X) [inside] k1, k2: s ...   ->  case (1'b1) K1, K2: s ...    (switch = case (1'b1) untouched)
    with Ei / Ki = inside_element_operation(X, mi).  Applied innermost first."""
    if stats is None:
        stats = {}
    out = []
    i = 0
    n = len(sg)
    while i < n:
        t = sg[i]
        # ((X) inside {...})
        if t == O("(") and i + 1 < n and sg[i + 1] == O("("):
            try:
                j = match_close(sg, i + 1)
                k = match_close(sg, i)
            except ValueError:
                j = k = -1
            if j > 0 and j + 2 < n and sg[j + 1] == ("id", "inside") and sg[j + 2] == O("{"):
                b = match_close(sg, j + 2)
                if b == k - 1:
                    x = expand_model(sg[i + 2:j], stats)
                    items = [expand_model(p, stats) for p in split_top(sg[j + 3:b], ",")]
                    out.append(O("("))
                    for q, it in enumerate(items):
                        if q:
                            out.append(O("||"))
                        e, kind = member_exp(x, it)
                        stats["inside_%s%s" % kind] = stats.get("inside_%s%s" % kind, 0) + 1
                        out += e
                    out.append(O(")"))
                    stats["inside_expr"] = stats.get("inside_expr", 0) + 1
                    i = k + 1
                    continue
        # case (X) [inside] ... endcase
        if t == ("id", "case") and i + 1 < n and sg[i + 1] == O("("):
            j = match_close(sg, i + 1)
            xraw = sg[i + 2:j]
            if xraw != ONE_B1:
                x = expand_model(xraw, stats)
                p = j + 1
                if p < n and sg[p] == ("id", "inside"):
                    p += 1
                    stats["case_inside"] = stats.get("case_inside", 0) + 1
                else:
                    stats["case_plain"] = stats.get("case_plain", 0) + 1
                out += [("id", "case"), O("(")] + ONE_B1 + [O(")")]
                # items
                while sg[p] != ("id", "endcase"):
                    # comments between items stay where they are
                    if sg[p][0] in ("lc", "bc"):
                        out.append(sg[p])
                        p += 1
                        continue
                    # key list up to the top-level ':' (a ':' inside [lo:hi] is nested)
                    q = p
                    d = 0
                    while True:
                        tt = sg[q]
                        if tt[0] == "op" and tt[1] in ("(", "[", "{", "'{"):
                            d += 1
                        elif tt[0] == "op" and tt[1] in (")", "]", "}"):
                            d -= 1
                        elif d == 0 and tt == O(":"):
                            break
                        q += 1
                    keys = sg[p:q]
                    if [k_ for k_ in keys if k_[0] not in ("lc", "bc")] == [("id", "default")]:
                        out += keys
                    else:
                        for r, key in enumerate(split_top(keys, ",")):
                            if r:
                                out.append(O(","))
                            lead = [k_ for k_ in key if k_[0] in ("lc", "bc")]
                            core = [k_ for k_ in key if k_[0] not in ("lc", "bc")]
                            e, kind = member_exp(x, expand_model(core, stats))
                            stats["case_%s%s" % kind] = stats.get("case_%s%s" % kind, 0) + 1
                            out += e + lead
                    out.append(O(":"))
                    e = stmt_end_skipping_comments(sg, q + 1)
                    out += expand_model(sg[q + 1:e], stats)
                    p = e
                out.append(("id", "endcase"))
                i = p + 1
                continue
        out.append(t)
        i += 1
    return out


def stmt_end_skipping_comments(sg, i):
    while sg[i][0] in ("lc", "bc"):
        i += 1
    return stmt_end(sg, i)


# --- parse an expansion back with SystemVerilog precedence and compare with the proved shape

PREC = {"||": 1, "&&": 2, "==?": 6, ">=": 7, "<=": 7, "<": 7}


def parse_prec(sg):
    """precedence-climbing parse of  P (op P)*  where every P is a balanced (...) group; returns a tree
    ("bin", op, l, r) | ("paren", tokens-inside)."""
    pos = [0]

    def atom():
        i = pos[0]
        if i >= len(sg) or sg[i] != O("("):
            raise ValueError("atom")
        j = match_close(sg, i)
        pos[0] = j + 1
        return ("paren", sg[i + 1:j])

    def expr(minp):
        l = atom()
        while pos[0] < len(sg) and sg[pos[0]][0] == "op" and sg[pos[0]][1] in PREC and PREC[sg[pos[0]][1]] >= minp:
            op = sg[pos[0]][1]
            pos[0] += 1
            r = expr(PREC[op] + 1)
            l = ("bin", op, l, r)
        return l
    t = expr(1)
    if pos[0] != len(sg):
        raise ValueError("trailing tokens")
    return t


def shape_ok(tree):
    """the tree is  e1 || (e2 || ...) left-assoc  with  ei = P ==? P  |  (P >= P) && (P <|<= P)
    (Inside/InsideModel.v: inside_exp / element_exp)"""
    def elem(t):
        if t[0] == "bin" and t[1] == "==?":
            return t[2][0] == "paren" and t[3][0] == "paren"
        if t[0] == "bin" and t[1] == "&&":
            def rel(p, ops):
                if p[0] != "paren":
                    return False
                try:
                    q = parse_prec(p[1])
                except ValueError:
                    return False
                return q[0] == "bin" and q[1] in ops and q[2][0] == "paren" and q[3][0] == "paren"
            return rel(t[2], (">=",)) and rel(t[3], ("<=", "<"))
        return False
    while tree[0] == "bin" and tree[1] == "||":
        if not elem(tree[3]):
            return False
        tree = tree[2]
    return elem(tree)


# ------------------------------------------------------------------------------------ sources

def veryl_sources(repo):
    """[(name, [file texts])]: every testcase/std Veryl file as a one-file project, the std library
    additionally as one multi-file project."""
    out = []
    roots = [os.path.join(repo, "testcases"), os.path.join(repo, "crates", "std", "veryl", "src")]
    for root in roots:
        for dp, dn, fn in sorted(os.walk(root)):
            dn.sort()
            for f in sorted(fn):
                if f.endswith(".veryl"):
                    p = os.path.join(dp, f)
                    try:
                        txt = open(p, encoding="utf-8").read()
                    except (UnicodeDecodeError, OSError):
                        continue
                    out.append((os.path.relpath(p, repo), [txt]))
    std = [t[0] for (nm, t) in out if nm.startswith("crates/std/")]
    if std:
        out.append(("crates/std/veryl/src/*", std))
    return out


def veryl_scan(src):
    """offsets after ; , { } ( ) that are outside comments, strings and embed {{{ }}} blocks"""
    pts = []
    i, n = 0, len(src)
    while i < n:
        c = src[i]
        if src.startswith("//", i):
            j = src.find("\n", i)
            i = n if j < 0 else j + 1
        elif src.startswith("/*", i):
            j = src.find("*/", i + 2)
            i = n if j < 0 else j + 2
        elif c == '"':
            j = i + 1
            while j < n and src[j] != '"':
                j += 2 if src[j] == "\\" else 1
            i = j + 1
        elif src.startswith("{{{", i):
            j = src.find("}}}", i + 3)
            i = n if j < 0 else j + 3
        else:
            if c in ";,{}()":
                pts.append(i + 1)
            i += 1
    return pts


COMMENTS = ["// c%d\n", "/* c%d */", "/* c%d */ ", "\n// c%d\n", "\n\n// c%d\n", " /* a%d\n   b */ ", "// c%d //\n",
            "/* c%d */ /* d */", "// x%d\n// y\n", "\n/* c%d */\n"]


def add_comments(rng, src, k):
    """insert k comments at random token boundaries"""
    pts = veryl_scan(src)
    if not pts:
        return src
    chosen = sorted(set(rng.choice(pts) for _ in range(k)), reverse=True)
    for n_, p in enumerate(chosen):
        src = src[:p] + (rng.choice(COMMENTS) % n_) + src[p:]
    return src


def to_crlf(src):
    return src.replace("\r\n", "\n").replace("\n", "\r\n")


def to_mixed(rng, src):
    """every line ending independently LF or CRLF (newline_style = auto looks at the FIRST one only)"""
    parts = src.replace("\r\n", "\n").split("\n")
    return "".join(p + (rng.choice(["\n", "\r\n"]) if i + 1 < len(parts) else "") for i, p in enumerate(parts))


# ------------------------------------------------------------------------------------ generated designs

class Gen:
    """Small Veryl modules built from pieces that exercise the option-dependent emitter paths."""

    def __init__(self, rng):
        self.r = rng
        self.n = 0

    def cm(self, p=0.35):
        r = self.r
        if r.random() > p:
            return ""
        self.n += 1
        return r.choice([" // k%d\n" % self.n, " /* k%d */ " % self.n, "\n// k%d\n" % self.n,
                         " /* m%d\n * n */ " % self.n, "\n\n/* k%d */\n" % self.n, " // a%d\n// b\n" % self.n])

    def lit(self, w=None):
        r = self.r
        w = w or r.choice([1, 4, 8, 8, 16, 32])
        k = r.random()
        if k < 0.3:
            return str(r.randrange(0, 1 << min(w, 10)))
        if k < 0.6:
            return "%d'd%d" % (w, r.randrange(0, 1 << min(w, 16)))
        if k < 0.8:
            return "%d'h%x" % (w, r.randrange(0, 1 << min(w, 16)))
        if k < 0.9:
            return "%d'b%s" % (w, "".join(r.choice("01xz") for _ in range(min(w, 8))))
        return r.choice(["P0", "P1"])

    def expr(self, d=0, names=("a", "b", "c", "d")):
        r = self.r
        k = r.random()
        if d > 2 or k < 0.35:
            return r.choice(list(names) + [self.lit()])
        if k < 0.7:
            op = r.choice(["+", "-", "&", "|", "^", "<<", ">>", "==", "!=", "<:", ">=", "*", "&&", "||"])
            return "%s %s%s %s" % (self.expr(d + 1, names), op, self.cm(0.08), self.expr(d + 1, names))
        if k < 0.8:
            return "(%s)" % self.expr(d + 1, names)
        if k < 0.88:
            return "%s%s" % (r.choice(["~", "!", "-", "&", "|"]), r.choice(names))
        if k < 0.94:
            return "(if %s ? %s : %s)" % (r.choice(names), self.expr(d + 1, names), self.expr(d + 1, names))
        return "{%s, %s}" % (self.expr(d + 1, names), self.expr(d + 1, names))

    def rng_item(self, names):
        """a member of an inside set / a case key: elaboration-time constant value or range (lo < hi)"""
        r = self.r
        k = r.random()
        if k < 0.4:
            return self.lit(8) if r.random() < 0.8 else r.choice(["P0", "P0 + 1", "(P0) - 1", "P0 * 2"])
        lo = r.randrange(0, 100)
        hi = lo + r.randrange(1, 100)
        a = str(lo) if r.random() < 0.7 else "8'd%d" % lo
        b = str(hi) if r.random() < 0.6 else r.choice(["8'd%d" % hi, "(P0) + %d" % hi, "P0 + %d" % hi, "%d - 1" % (hi + 1)])
        return "%s%s%s" % (a, r.choice(["..", "..="]), b)

    def inside(self, names):
        r = self.r
        kw = r.choice(["inside", "inside", "outside"])
        items = [self.rng_item(names) for _ in range(r.choice([1, 1, 2, 3, 5, 9]))]
        sep = "," + self.cm(0.1) + " "
        return "%s %s {%s}" % (kw, self.expr(1, names), sep.join(items))

    def case_stmt(self, tgt, names, ind):
        r = self.r
        sel = r.choice(names)
        arms = []
        for _ in range(r.choice([1, 2, 3, 4])):
            keys = [self.rng_item(names) if r.random() < 0.5 else self.lit(8) for _ in range(r.choice([1, 1, 2, 3]))]
            if r.random() < 0.3 and len(keys) > 1:
                ks = (",\n" + ind + "    ").join(keys)
            else:
                ks = ", ".join(keys)
            if r.random() < 0.3:
                body = "{\n%s        %s = %s;%s\n%s    }" % (ind, tgt, self.expr(1, names), self.cm(0.2), ind)
            else:
                body = "%s = %s;" % (tgt, self.expr(1, names))
            arms.append("%s    %s: %s%s" % (ind, ks, body, self.cm(0.2)))
        arms.append("%s    default: %s = %s;" % (ind, tgt, self.lit(8)))
        return "%scase %s {%s\n%s\n%s}" % (ind, sel, self.cm(0.2), "\n".join(arms), ind)

    def case_expr(self, names):
        r = self.r
        arms = []
        for _ in range(r.choice([1, 2, 3])):
            keys = [self.rng_item(names) for _ in range(r.choice([1, 1, 2]))]
            arms.append("%s: %s" % (", ".join(keys), self.expr(1, names)))
        arms.append("default: %s" % self.lit(8))
        return "case %s {%s %s}" % (r.choice(names), self.cm(0.1), ", ".join(arms))

    def module(self, idx):
        r = self.r
        names = ["a", "b", "c", "d"]
        L = []
        nm = "Gm%d" % idx
        L.append("%smodule %s #(%s" % (self.cm(0.3), nm, self.cm(0.2)))
        L.append("    param P0: u32 = %d,%s" % (r.randrange(1, 40), self.cm(0.2)))
        L.append("    param P1: u32 = %d,%s" % (r.randrange(0, 3), self.cm(0.2)))
        L.append(") (%s" % self.cm(0.2))
        L.append("    i_clk: input clock,%s" % self.cm(0.2))
        L.append("    i_rst: input reset,%s" % self.cm(0.2))
        for n_ in names:
            L.append("    %s: input logic<%s>,%s" % (n_, r.choice(["8", "8", "16", "P0"]), self.cm(0.2)))
        L.append("    o_long_name: output logic<8>,%s" % self.cm(0.2))
        L.append("    o: output logic<8>%s" % self.cm(0.2))
        L.append(") {%s" % self.cm(0.3))
        nv = r.choice([2, 3, 5])
        vs = []
        for i in range(nv):
            v = r.choice(["v%d", "var_with_long_name%d", "w%d"]) % i
            vs.append(v)
            L.append("    var %s: logic<%s>;%s" % (v, r.choice(["8", "1", "16"]), self.cm(0.25)))
        L.append("    let t0: logic<8> = %s;%s" % (self.expr(0, names), self.cm(0.2)))
        for v in vs:
            k = r.random()
            if k < 0.3:
                L.append("    assign %s = %s;%s" % (v, self.inside(names), self.cm(0.2)))
            elif k < 0.5:
                L.append("    assign %s = %s;%s" % (v, self.case_expr(names), self.cm(0.2)))
            elif k < 0.7:
                L.append("    always_comb {%s" % self.cm(0.3))
                L.append(self.case_stmt(v, names, "        "))
                L.append("    }")
            elif k < 0.85:
                long = " + ".join(self.expr(1, names) for _ in range(r.choice([3, 6, 10])))
                L.append("    assign %s = %s;%s" % (v, long, self.cm(0.2)))
            else:
                L.append("    always_ff {%s" % self.cm(0.3))
                L.append("        if_reset {%s" % self.cm(0.2))
                L.append("            %s = 0;%s" % (v, self.cm(0.2)))
                L.append("        } else if %s {%s" % (self.inside(names), self.cm(0.2)))
                L.append("            %s = %s;" % (v, self.expr(1, names)))
                L.append("        } else {")
                L.append(self.case_stmt(v, names, "            "))
                L.append("        }")
                L.append("    }")
        L.append("    assign o_long_name = %s;%s" % (self.expr(0, names + vs[:1]), self.cm(0.2)))
        L.append("    assign o = if %s ? t0 : %s;%s" % (self.inside(names), self.expr(1, names), self.cm(0.2)))
        if idx > 0 and r.random() < 0.7:
            L.append("    var q%d: logic<8>;" % idx)
            L.append("    var qq%d: logic<8>;" % idx)
            L.append("    inst u%d: Gm%d #(%s" % (idx, idx - 1, self.cm(0.2)))
            L.append("        P0: %d,%s" % (r.randrange(1, 9), self.cm(0.2)))
            L.append("    ) (%s" % self.cm(0.2))
            L.append("        i_clk,%s" % self.cm(0.2))
            L.append("        i_rst,")
            L.append("        a: %s,%s" % (self.expr(1, names), self.cm(0.2)))
            L.append("        b, c,")
            L.append("        d: %s,%s" % (self.inside(names) if r.random() < 0.4 else "d", self.cm(0.2)))
            L.append("        o_long_name: q%d,%s" % (idx, self.cm(0.2)))
            L.append("        o: qq%d%s" % (idx, self.cm(0.2)))
            L.append("    );")
        L.append("}%s" % self.cm(0.3))
        return "\n".join(L) + "\n"

    def design(self):
        self.n = 0
        k = self.r.choice([1, 1, 2, 3])
        return "".join(self.module(i) for i in range(k))


def corpus_designs():
    """hand-written seeds + minimised failures: corpus/C26/*.veryl"""
    d = os.path.join(C.VERIF, "corpus", "C26")
    out = []
    if os.path.isdir(d):
        for f in sorted(os.listdir(d)):
            if f.endswith(".veryl"):
                out.append(("corpus/C26/" + f, [open(os.path.join(d, f), encoding="utf-8").read()]))
    return out
