"""Generator of language-server histories for C07 (seeded; every history is a plain JSON value).

A *history* is {"incremental": bool, "files": {rel: text} (initial disk contents), "steps": [step...]}
  step = ["open", rel, text] | ["change", rel, text] | ["save", rel] | ["close", rel]
       | ["rename", old, new] | ["delete", rel] | ["wait"]
Texts are complete buffer contents (the server uses FULL sync).  The generator works on a small
block-structured world (packages / modules / interfaces with cross-file references drawn from small name
pools so that references, duplicates, cycles and dangling names occur), plus line-level and syntax-breaking
text mutations, plus whole files of /repo/testcases/veryl as foreign material.
"""
import os
import re

PKGS = ["PkgA", "PkgB", "PkgC"]
MODS = ["ModA", "ModB", "ModC", "ModD"]
IFS = ["IfA", "IfB"]
GMODS = ["GenM", "GenN"]
GPKGS = ["GenP"]
FILES = ["a.veryl", "b.veryl", "c.veryl", "d.veryl", "e.veryl"]


def pick(rng, xs):
    return xs[rng.randrange(len(xs))]


def chance(rng, p):
    return rng.random() < p


# ----------------------------------------------------------------------------- blocks

def width_expr(rng):
    r = rng.random()
    if r < 0.35:
        return str(pick(rng, [1, 2, 4, 8]))
    if r < 0.9:
        return "%s::C%d" % (pick(rng, PKGS), rng.randrange(2))
    return "GenP::<%d>::C0" % pick(rng, [2, 4])


def gen_pkg(rng, name=None):
    name = name or pick(rng, PKGS)
    others = [p for p in PKGS if p != name]
    lines = ["package %s {" % name]
    if chance(rng, 0.15):
        lines.append("    import %s::*;" % pick(rng, others))
    for i in range(2 if chance(rng, 0.9) else 1):
        if chance(rng, 0.2):
            e = "%s::C%d + 1" % (pick(rng, others), rng.randrange(2))
        else:
            e = str(pick(rng, [1, 2, 3, 4, 8]))
        lines.append("    const C%d: u32 = %s;" % (i, e))
    lines.append("    const K%s: u32 = %d;" % (name[-1], pick(rng, [5, 6])))
    if chance(rng, 0.85):
        f2 = "logic<4>" if chance(rng, 0.75) else "%s::S0" % pick(rng, others)
        lines += ["    struct S0 {", "        a: logic<C0>,", "        b: %s," % f2, "    }"]
    if chance(rng, 0.8):
        lines += ["    enum E0: logic<2> {", "        E0_X,", "        E0_Y,", "    }"]
    if chance(rng, 0.7):
        lines.append("    type T0 = %s;" % ("logic<C0>" if chance(rng, 0.7) else "%s::S0" % pick(rng, others)))
    if chance(rng, 0.8):
        lines += ["    function f0 (", "        a: input logic<8>,", "    ) -> logic<8> {", "        return a + C0;", "    }"]
    lines.append("}")
    return {"kind": "pkg", "name": name, "text": "\n".join(lines)}


def gen_gpkg(rng, name=None):
    name = name or pick(rng, GPKGS)
    lines = ["package %s::<W: u32> {" % name, "    const C0: u32 = W;", "    struct S0 {", "        a: logic<W>,", "    }", "}"]
    return {"kind": "gpkg", "name": name, "text": "\n".join(lines)}


def gen_if(rng, name=None):
    name = name or pick(rng, IFS)
    lines = ["interface %s {" % name, "    var a: logic<%s>;" % width_expr(rng), "    var b: logic;"]
    if chance(rng, 0.3):
        lines += ["    function get_b () -> logic {", "        return b;", "    }"]
    lines += ["    modport mp {", "        a: output,", "        b: input ,", "    }",
              "    modport sp {", "        a: input ,", "        b: output,", "    }", "}"]
    return {"kind": "if", "name": name, "text": "\n".join(lines)}


def gen_gmod(rng, name=None):
    name = name or pick(rng, GMODS)
    lines = ["module %s::<W: u32> (" % name, "    i_a: input  logic<W>,", "    o_a: output logic<W>,", ") {",
             "    assign o_a = i_a;", "}"]
    return {"kind": "gmod", "name": name, "text": "\n".join(lines)}


WAVEDROM_GOOD = ["/// ```wavedrom", "/// {signal: [{name: 'i_a', wave: '01.0'}]}", "/// ```"]
WAVEDROM_BAD = ["/// ```wavedrom", "/// {signal: [{name: 'nosuch', wave: '01.0'}, {name: 'i_a', wave: '0'}]}", "/// ```"]
WAVEDROM_SYNTAX = ["/// ```wavedrom", "/// {signal: [{name: 'i_a' wave '01.0'}", "/// ```"]


def gen_mod(rng, name=None):
    name = name or pick(rng, MODS)
    others = [m for m in MODS if m != name]
    w = width_expr(rng)
    dom = pick(rng, ["", "", "", "'a "])
    lines = []
    r = rng.random()
    if r < 0.12:
        lines += ["/// module %s" % name] + WAVEDROM_GOOD
    elif r < 0.24:
        lines += WAVEDROM_BAD
    elif r < 0.28:
        lines += WAVEDROM_SYNTAX
    elif r < 0.4:
        lines += ["/// plain doc of %s" % name]
    lines.append("%smodule %s (" % ("pub " if chance(rng, 0.2) else "", name))
    lines += ["    i_clk: input  %sclock," % dom, "    i_rst: input  %sreset," % dom,
              "    i_a  : input  %slogic<%s>," % (dom, w), "    o_a  : output %slogic<%s>," % (dom, w)]
    cdc = chance(rng, 0.15)
    if cdc:
        lines += ["    i_clk_b: input  'b clock,", "    i_b    : input  'b logic<%s>," % w]
    ifport = chance(rng, 0.2)
    if ifport:
        lines.append("    p_if : modport %s::%s," % (pick(rng, IFS), pick(rng, ["mp", "sp", "mp"])))
    lines.append(") {")
    r = rng.random()
    if r < 0.2:
        p = pick(rng, PKGS)
        lines.append("    import %s::*;" % p)
        if chance(rng, 0.7):
            lines.append("    let _w: u32 = K%s;" % p[-1])
    elif r < 0.35:
        p = pick(rng, PKGS)
        lines.append("    import %s::K%s;" % (p, p[-1]))
        lines.append("    let _k: u32 = K%s;" % p[-1])
    elif r < 0.42:
        lines.append("    let _k: u32 = K%s;" % pick(rng, PKGS)[-1])     # relies on a file-level import
    lines.append("    var r: %slogic<%s>;" % (dom, w))
    if chance(rng, 0.3):
        if chance(rng, 0.6):
            lines.append("    #[allow(unused_variable)]")      # attribute_table: must stop applying once removed
        lines.append("    var unused_v: logic;")
    if chance(rng, 0.12):
        lines.append("    var unassigned_v: logic;")
        lines.append("    let _ua: logic = unassigned_v;")
    if chance(rng, 0.3):
        p = pick(rng, PKGS)
        lines += ["    var s: %s::S0;" % p, "    assign s.a = 0;", "    assign s.b = 0;"]
    if chance(rng, 0.15):
        p = pick(rng, PKGS)
        lines += ["    var t: %s::T0;" % p, "    assign t = 0;"]
    if chance(rng, 0.25):
        p = pick(rng, PKGS)
        lines.append("    let _e: %s::E0 = %s::E0::E0_X;" % (p, p))
    if chance(rng, 0.2):
        lines.append("    let _m: logic = i_a[msb];")
    if chance(rng, 0.25):
        lines.append("    let _c: logic<8> = %s::f0(8'd1);" % pick(rng, PKGS))
    if chance(rng, 0.15):
        lines.append("    const LC: u32 = %s::C0 + %s::C1;" % (pick(rng, PKGS), pick(rng, PKGS)))
    if chance(rng, 0.2):
        lines += ["    var gs: GenP::<%d>::S0;" % pick(rng, [2, 4]), "    assign gs.a = 0;"]
    if chance(rng, 0.4):
        t = pick(rng, others)
        lines += ["    var w0: %slogic<%s>;" % (dom, w), "    inst u0: %s (" % t, "        i_clk     ,", "        i_rst     ,",
                  "        i_a  : r  ,", "        o_a  : w0 ,", "    );"]
    if chance(rng, 0.2):
        g = pick(rng, GMODS)
        lines += ["    var g0: logic<8>;", "    inst ug: %s::<8> (" % g, "        i_a: 8'd0,", "        o_a: g0  ,", "    );"]
    if chance(rng, 0.15):
        i = pick(rng, IFS)
        lines += ["    inst bus: %s;" % i, "    assign bus.a = 0;", "    assign bus.b = 0;"]
    if ifport:
        lines.append("    assign p_if.a = 0;")
    lines += ["    always_ff (i_clk, i_rst) {", "        if_reset {", "            r = 0;", "        } else {", "            r = i_a;",
              "        }", "    }"]
    if cdc and chance(rng, 0.7):
        if chance(rng, 0.4):
            lines += ["    unsafe (cdc) {", "        assign o_a = r | i_b;", "    }"]      # unsafe_table
        else:
            lines.append("    assign o_a = r | i_b;")
    else:
        lines.append("    assign o_a = r;")
    lines.append("}")
    return {"kind": "mod", "name": name, "text": "\n".join(lines)}


def gen_misc(rng):
    r = rng.random()
    if r < 0.2:
        return {"kind": "misc", "name": "", "text": "import %s::*;" % pick(rng, PKGS)}
    if r < 0.3:
        p = pick(rng, PKGS)
        return {"kind": "misc", "name": "", "text": "import %s::K%s;" % (p, p[-1])}
    if r < 0.5:
        m, n = pick(rng, MODS), pick(rng, MODS)
        return {"kind": "misc", "name": "", "text": "bind %s <- ub: %s (\n    i_clk     ,\n    i_rst     ,\n    i_a  : r  ,\n    o_a  : _  ,\n);" % (m, n)}
    if r < 0.7:
        return {"kind": "misc", "name": "", "text": "// comment line\n/* block\n comment */"}
    if r < 0.85:
        return {"kind": "misc", "name": "", "text": "alias module Ali%d = %s;" % (rng.randrange(1000), pick(rng, MODS))}
    return {"kind": "misc", "name": "", "text": "#[test(t_%d)]\nembed (inline) sv{{{\nmodule t_x; endmodule\n}}}" % rng.randrange(1000)}


BLOCK_GENS = [(gen_pkg, 30), (gen_mod, 40), (gen_if, 10), (gen_gmod, 7), (gen_gpkg, 5), (gen_misc, 8)]


def gen_block(rng):
    if rng.random() < 0.0:
        return gen_misc(rng)
    tot = sum(w for _, w in BLOCK_GENS)
    x = rng.randrange(tot)
    for g, w in BLOCK_GENS:
        if x < w:
            return g(rng)
        x -= w
    return gen_mod(rng)


def render(blocks):
    return "\n\n".join(b["text"] for b in blocks) + "\n"


_corpus_cache = {}


def corpus_texts(repo):
    if repo in _corpus_cache:
        return _corpus_cache[repo]
    d = os.path.join(repo, "testcases", "veryl")
    out = []
    try:
        for f in sorted(os.listdir(d)):
            if f.endswith(".veryl"):
                t = open(os.path.join(d, f), encoding="utf8").read()
                if len(t) < 3000 and "include(" not in t and "$std" not in t:
                    out.append((f, t))
    except OSError:
        pass
    _corpus_cache[repo] = out
    return out


# ----------------------------------------------------------------------------- text mutations

def break_syntax(rng, text):
    """make the text unparsable (most of the time)"""
    r = rng.random()
    if r < 0.3:
        idx = [m.start() for m in re.finditer(r"\}", text)]
        if idx:
            i = pick(rng, idx)
            return text[:i] + text[i + 1:]
    if r < 0.5:
        idx = [m.start() for m in re.finditer(r";", text)]
        if idx:
            i = pick(rng, idx)
            return text[:i] + text[i + 1:]
    if r < 0.7:
        i = rng.randrange(len(text) + 1)
        return text[:i] + pick(rng, [" @@ ", " module ", " ) ", "\"", " /* "]) + text[i:]
    if r < 0.85:
        return text[:rng.randrange(len(text) + 1)]   # truncated while typing
    lines = text.split("\n")
    if len(lines) > 2:
        i = rng.randrange(len(lines))
        return "\n".join(lines[:i] + lines[i + 1:])
    return text + "}"


def line_mutation(rng, text):
    lines = text.split("\n")
    if len(lines) < 3:
        return text + "\n// x\n"
    r = rng.random()
    i = rng.randrange(len(lines))
    if r < 0.35:
        return "\n".join(lines[:i] + lines[i + 1:])
    if r < 0.55:
        return "\n".join(lines[:i] + [lines[i]] + lines[i:])
    if r < 0.75:
        return "\n".join(lines[:i] + ["// " + lines[i]] + lines[i + 1:])      # comment out, keeps line numbers
    if r < 0.9:
        return "\n".join(lines[:i] + [""] + lines[i:])                          # shifts the rest down
    return "\n".join(lines[:i] + ["    var extra_%d: logic;" % rng.randrange(3)] + lines[i:])


_NAME_POOL = PKGS + MODS + IFS + GMODS + GPKGS + ["KA", "KB", "KC", "C0", "C1", "S0", "E0", "T0", "f0", "r", "i_a", "o_a", "E0_X", "mp", "sp"]


def rename_in_text(rng, text, old=None, new=None):
    present = [n for n in _NAME_POOL if re.search(r"\b%s\b" % re.escape(n), text)]
    if not present:
        return text, None, None
    old = old or pick(rng, present)
    if new is None:
        same = [x for x in (PKGS, MODS, IFS, GMODS, GPKGS) if old in x]
        if same and chance(rng, 0.6):
            new = pick(rng, [n for n in same[0] if n != old] or [old + "X"])
        else:
            new = old + pick(rng, ["X", "2", "_n"])
    if chance(rng, 0.5):
        # only the declaration (first occurrence) is renamed
        m = re.search(r"\b%s\b" % re.escape(old), text)
        return text[:m.start()] + new + text[m.end():], old, new
    return re.sub(r"\b%s\b" % re.escape(old), new, text), old, new


def strip_attrs_keep_lines(text):
    out = []
    for l in text.split("\n"):
        st = l.strip()
        if st.startswith("#[allow("):
            out.append("    // " + st)
        elif st == "unsafe (cdc) {":
            out.append("    :blk {")
        else:
            out.append(l)
    return "\n".join(out)


def strip_docs_keep_lines(text):
    return "\n".join(("//" + l[3:] if l.lstrip().startswith("///") else l) for l in text.split("\n"))


def strip_docs_remove_lines(text):
    return "\n".join(l for l in text.split("\n") if not l.lstrip().startswith("///"))


# ----------------------------------------------------------------------------- histories

class World:
    """client-side view while generating: disk contents, open buffers, block lists per file"""

    def __init__(self):
        self.disk = {}
        self.open = {}
        self.blocks = {}      # rel -> list of blocks (None when the text was mutated at text level)
        self.versions = {}    # rel -> earlier texts
        self.owner = {}       # top-level name -> file that may define it (keeps definitions unique unless shape == "dup")

    def text(self, f):
        return self.open[f] if f in self.open else self.disk.get(f)


def gen_file_blocks(rng, nblocks=None):
    n = nblocks or pick(rng, [1, 1, 2, 2, 3])
    return [gen_block(rng) for _ in range(n)]


_KIND_OF = {}
for _n in PKGS:
    _KIND_OF[_n] = gen_pkg
for _n in MODS:
    _KIND_OF[_n] = gen_mod
for _n in IFS:
    _KIND_OF[_n] = gen_if
for _n in GMODS:
    _KIND_OF[_n] = gen_gmod
for _n in GPKGS:
    _KIND_OF[_n] = gen_gpkg
TOP_NAMES = PKGS + MODS + IFS + GMODS + GPKGS
_TOP_DECL = re.compile(r"^(?:pub\s+)?(?:proto\s+)?(?:alias\s+)?(?:module|package|interface)\s+([A-Za-z_]\w*)|^#\[test\(([A-Za-z_]\w*)", re.M)


def declared(text):
    """top-level names a text declares (modules, packages, interfaces, aliases, embedded tests)"""
    return [a or b for a, b in _TOP_DECL.findall(text or "")]


def owned_block(rng, w, f):
    """a block declaring a name that file f owns and that no file currently declares; else a misc block"""
    everywhere = set()
    for g in set(w.disk) | set(w.open):
        everywhere.update(declared(w.text(g)))
    cands = [n for n in TOP_NAMES if w.owner.get(n) == f and n not in everywhere]
    if not cands or rng.random() < 0.08:
        return gen_misc(rng)
    n = pick(rng, cands)
    return _KIND_OF[n](rng, n)


def gen_history(rng, repo=None, shape=None):
    """shape in (None, 'edit', 'rename', 'close', 'cycle', 'dup', 'doc', 'corpus') biases the history"""
    shape = shape or pick(rng, ["edit", "edit", "edit", "rename", "close", "cycle", "dup", "doc", "corpus", "break"])
    w = World()
    nfiles = rng.randrange(2, 6)
    files = FILES[:nfiles]
    corpus = corpus_texts(repo) if repo else []
    names = list(TOP_NAMES)
    rng.shuffle(names)
    for i, n in enumerate(names):
        w.owner[n] = files[i % nfiles]
    used_corpus = set()
    for f in files:
        if shape == "corpus" and corpus and chance(rng, 0.5):
            w.blocks[f] = None
            cf, ct = pick(rng, [c for c in corpus if c[0] not in used_corpus] or corpus)
            used_corpus.add(cf)
            w.disk[f] = ct
        else:
            w.blocks[f] = []
            w.disk[f] = ""
            for _ in range(pick(rng, [1, 1, 2, 2, 3])):
                w.blocks[f].append(owned_block(rng, w, f) if shape != "dup" or chance(rng, 0.7) else gen_block(rng))
                w.disk[f] = render(w.blocks[f])
    if shape == "cycle":
        # two packages referring to each other's constants / structs across files appear and disappear
        for g in files:
            w.blocks[g] = [b for b in (w.blocks[g] or []) if b["name"] not in ("PkgA", "PkgB")]
        w.owner["PkgA"], w.owner["PkgB"] = files[0], files[1]
        w.blocks[files[0]] = [{"kind": "pkg", "name": "PkgA", "text": "package PkgA {\n    const C0: u32 = 1;\n    const C1: u32 = 2;\n    const KA: u32 = 5;\n    struct S0 {\n        a: logic<C0>,\n        b: logic<4>,\n    }\n}"}] + w.blocks[files[0]]
        w.blocks[files[1]] = [{"kind": "pkg", "name": "PkgB", "text": "package PkgB {\n    const C0: u32 = PkgA::C0 + 1;\n    const C1: u32 = 2;\n    const KB: u32 = 5;\n    struct S0 {\n        a: logic<C0>,\n        b: PkgA::S0,\n    }\n}"}] + w.blocks[files[1]]
        for f in files:
            w.disk[f] = render(w.blocks[f])
    if shape == "bgopen":
        # filler files keep the background task busy so that a second didOpen can land in the middle of it
        for i in range(24):
            body = "\n".join("    let _f%d: logic<8> = %d + %d;" % (j, i, j) for j in range(40))
            fn = ("0m%02d.veryl" if i % 2 else "zm%02d.veryl") % i      # before and after a..e in any path order
            w.disk[fn] = "module Fill%02d {\n%s\n}\n" % (i, body)
            w.blocks[fn] = None
    hist = {"incremental": chance(rng, 0.5), "shape": shape, "files": dict(w.disk), "steps": []}
    steps = hist["steps"]
    nsteps = rng.randrange(3, 13)
    spare = [f for f in FILES + ["f.veryl", "g.veryl"] if f not in files]

    def remember(f):
        t = w.text(f)
        if t is not None:
            w.versions.setdefault(f, []).append(t)

    def do_open(f):
        t = w.disk.get(f)
        if t is None:
            return
        w.open[f] = t
        steps.append(["open", f, t])

    def set_text(f, t, blocks=None):
        remember(f)
        w.open[f] = t
        w.blocks[f] = blocks
        steps.append(["change", f, t])

    def mutate(f):
        t = w.open[f]
        bl = w.blocks.get(f)
        if ("#[allow(" in t or "unsafe (cdc) {" in t) and chance(rng, 0.2):
            set_text(f, strip_attrs_keep_lines(t))
            return
        if chance(rng, 0.5 if shape == "import" else 0.08):
            lines = t.split("\n")
            idx = [i for i, l in enumerate(lines) if l.strip().startswith("import ")]
            if idx and chance(rng, 0.7):
                i = pick(rng, idx)
                # remove the import (keeping or not keeping the line count)
                nl = lines[:i] + ([""] if chance(rng, 0.5) else []) + lines[i + 1:]
                set_text(f, "\n".join(nl))
                return
            hdr = [i for i, l in enumerate(lines) if l.rstrip().endswith(") {") or re.match(r"^(module|package|interface) \w+ \{$", l)]
            if hdr:
                i = pick(rng, hdr)
                p = pick(rng, PKGS)
                imp = "    import %s::*;" % p if chance(rng, 0.5) else "    import %s::K%s;" % (p, p[-1])
                set_text(f, "\n".join(lines[:i + 1] + [imp] + lines[i + 1:]))
                return
        r = rng.random()
        if shape == "break":
            r = r * 0.6
        if shape == "doc":
            r = 0.6 + r * 0.4 if chance(rng, 0.6) else r
        if r < 0.22:
            set_text(f, break_syntax(rng, t))
            return
        if r < 0.36 and w.versions.get(f):
            old = pick(rng, w.versions[f])
            set_text(f, old)          # undo / repair
            return
        if r < 0.5:
            everywhere = set()
            for g in set(w.disk) | set(w.open):
                everywhere.update(declared(w.text(g)))
            present = [n for n in _NAME_POOL if re.search(r"\b%s\b" % re.escape(n), t)]
            if present:
                old = pick(rng, present)
                if old in TOP_NAMES and shape != "dup":
                    free = [n for n in TOP_NAMES if _KIND_OF[n] is _KIND_OF[old] and n not in everywhere and n != old]
                    new = pick(rng, free) if free and chance(rng, 0.6) else old + pick(rng, ["X", "2", "_n"])
                    if new in w.owner:
                        w.owner[new] = f
                    nt, _, _ = rename_in_text(rng, t, old, new)
                else:
                    nt, _, _ = rename_in_text(rng, t, old)
                set_text(f, nt)
            return
        if r < 0.62:
            set_text(f, line_mutation(rng, t))
            return
        if r < 0.70:
            if ("#[allow(" in t or "unsafe (cdc)" in t) and chance(rng, 0.5):
                set_text(f, strip_attrs_keep_lines(t))
            else:
                set_text(f, strip_docs_keep_lines(t) if chance(rng, 0.6) else strip_docs_remove_lines(t))
            return
        if bl is None:
            bl = [{"kind": "raw", "name": "", "text": t.rstrip("\n")}]
        bl = list(bl)
        r2 = rng.random()
        if r2 < 0.35 or not bl:
            bl.insert(rng.randrange(len(bl) + 1), owned_block(rng, w, f) if shape != "dup" else gen_block(rng))
        elif r2 < 0.6:
            del bl[rng.randrange(len(bl))]
        elif r2 < 0.8:
            i = rng.randrange(len(bl))
            b = bl[i]
            g = {"pkg": gen_pkg, "mod": gen_mod, "if": gen_if, "gmod": gen_gmod, "gpkg": gen_gpkg}.get(b["kind"])
            bl[i] = g(rng, b["name"]) if g else owned_block(rng, w, f)
        elif shape == "dup":
            # copy a block from another file (duplicate definition)
            others = [g for g in w.blocks if g != f and w.blocks[g]]
            if others:
                g = pick(rng, others)
                bl.append(pick(rng, w.blocks[g]))
            else:
                bl.append(gen_block(rng))
        else:
            # move a declaration here: it leaves its file first (the buffer of that file must be open), then appears here
            others = [g for g in w.open if g != f and w.blocks.get(g)]
            movable = [(g, b) for g in others for b in w.blocks[g] if b["name"] in w.owner]
            if movable:
                g, b = pick(rng, movable)
                gl = [x for x in w.blocks[g] if x is not b]
                set_text(g, render(gl) if gl else "// moved away\n", gl)
                w.owner[b["name"]] = f
                bl.append(b)
            else:
                bl.append(owned_block(rng, w, f))
        set_text(f, render(bl), bl)

    # most histories start by opening one or two files
    order = list(files)
    rng.shuffle(order)
    if shape == "bgopen":
        steps.append(["open_bg", order[0], order[1]])
        w.open[order[0]] = w.disk[order[0]]
        w.open[order[1]] = w.disk[order[1]]
    else:
        do_open(order[0])
        if chance(rng, 0.5) and len(order) > 1:
            do_open(order[1])
    for _ in range(nsteps):
        live = sorted(w.open)
        closed = sorted(f for f in w.disk if f not in w.open)
        r = rng.random()
        if shape == "rename" and chance(rng, 0.35):
            r = 0.9
        if shape == "close" and chance(rng, 0.35):
            r = 0.8
        if r < 0.62 and live:
            mutate(pick(rng, live))
        elif r < 0.72 and closed:
            do_open(pick(rng, closed))
        elif r < 0.80 and live:
            f = pick(rng, live)
            steps.append(["save", f])
            w.disk[f] = w.open[f]
        elif r < 0.87 and live:
            f = pick(rng, live)
            if chance(rng, 0.85):
                steps.append(["save", f])
                w.disk[f] = w.open[f]
            steps.append(["close", f])
            del w.open[f]
        elif r < 0.96 and w.disk:
            old = pick(rng, sorted(w.disk))
            cands = spare + ([x for x in FILES if x not in w.disk])
            new = pick(rng, cands) if cands else None
            if new and new not in w.disk:
                if old in w.open:
                    steps.append(["save", old])
                    w.disk[old] = w.open[old]
                steps.append(["rename", old, new])
                w.disk[new] = w.disk.pop(old)
                w.blocks[new] = w.blocks.pop(old, None)
                if old in w.open:
                    w.open[new] = w.open.pop(old)
                if old not in spare:
                    spare.append(old)     # the old name may be taken again later
                if new in spare:
                    spare.remove(new)
        elif len(w.disk) > 2:
            f = pick(rng, sorted(w.disk))
            steps.append(["delete", f])
            w.disk.pop(f)
            w.open.pop(f, None)
            w.blocks.pop(f, None)
        elif live:
            mutate(pick(rng, live))
    if not w.open and w.disk:
        # a server with no open buffer publishes nothing (and a fresh one would not even analyse): end with one open
        do_open(pick(rng, sorted(w.disk)))
    return hist


def final_state(hist):
    """(disk, open, discarded) after the history: disk contents, open buffers, and files closed with unsaved edits"""
    disk = dict(hist["files"])
    opened = {}
    discarded = set()
    for st in hist["steps"]:
        k = st[0]
        if k == "open":
            opened[st[1]] = st[2]
            discarded.discard(st[1])
        elif k == "change":
            if st[1] in opened:
                opened[st[1]] = st[2]
        elif k == "save":
            if st[1] in opened:
                disk[st[1]] = opened[st[1]]
        elif k == "close":
            if st[1] in opened:
                if disk.get(st[1]) != opened[st[1]]:
                    discarded.add(st[1])
                del opened[st[1]]
        elif k == "open_bg":
            for f in (st[1], st[2]):
                if f in disk:
                    opened[f] = disk[f]
        elif k == "rename":
            if st[1] in disk:
                disk[st[2]] = disk.pop(st[1])
            if st[1] in opened:
                opened[st[2]] = opened.pop(st[1])
            discarded.discard(st[2])
        elif k == "delete":
            disk.pop(st[1], None)
            opened.pop(st[1], None)
            discarded.discard(st[1])
    return disk, opened, discarded


def ever_duplicate(hist):
    """does some state along the history define a top-level name twice (within a file or across files)?
    (what the analyzer keeps then depends on the order of analysis: known finding `duplicate-definition-order`)"""
    disk = dict(hist["files"])
    op = {}

    def check():
        seen = set()
        for f in set(disk) | set(op):
            for n in declared(op.get(f, disk.get(f))):
                if n in seen:
                    return True
                seen.add(n)
        return False

    if check():
        return True
    for st in hist["steps"]:
        k = st[0]
        if k == "open" and st[1] in disk:
            op[st[1]] = disk[st[1]]
        elif k == "open_bg":
            for f in st[1:3]:
                if f in disk:
                    op[f] = disk[f]
        elif k == "change" and st[1] in op:
            op[st[1]] = st[2]
        elif k == "save" and st[1] in op:
            disk[st[1]] = op[st[1]]
        elif k == "close":
            op.pop(st[1], None)
        elif k == "rename" and st[1] in disk and st[2] not in disk:
            if st[1] in op:
                disk[st[1]] = op[st[1]]
                op[st[2]] = op.pop(st[1])
            disk[st[2]] = disk.pop(st[1])
        elif k == "delete":
            disk.pop(st[1], None)
            op.pop(st[1], None)
        if check():
            return True
    return False


def shape_tags(hist):
    tags = set()
    kinds = [s[0] for s in hist["steps"]]
    for k in set(kinds):
        tags.add(k)
    if hist.get("incremental"):
        tags.add("cache-ls")
    seen_close = set()
    for s in hist["steps"]:
        if s[0] == "close":
            seen_close.add(s[1])
        if s[0] == "open" and s[1] in seen_close:
            tags.add("reopen")
    return sorted(tags)
