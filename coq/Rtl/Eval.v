(* L9 µRTL — typing (self-determined width/sign, context propagation) and expression evaluation.

   Typing follows IEEE 1800-2017 11.6 / 11.8 as veryl implements it:
     gather  = Expression::gather_context  (crates/analyzer/src/ir/expression.rs) with
               Op::eval_context_unary/binary (crates/analyzer/src/ir/op.rs)
     the context handed to each operand = Expression::apply_context
   Values are computed with the IEEE reference operators of BV/Ops1800.v on (payload, mask) vectors.

   Two value modes (crates/simulator Config::use_4state):
     M4  4-state: results are exactly the Ops1800 results
     M2  2-state: every operator result and every stored value has its x/z mask dropped
         (an all-x result has payload 0, so "unknown" reads as 0: division by zero gives 0)

   Definitions only (this file must evaluate even when a proof breaks). *)
From VV Require Export Rtl.Syntax.
Open Scope N_scope.

Record ctx := mkCtx { cw : N; cs : bool }.
Definition cmerge (a b : ctx) : ctx := mkCtx (N.max (cw a) (cw b)) (cs a && cs b).

Inductive mode := M2 | M4.

Definition decls := N -> vdecl.
Definition state := N -> vec.

Definition dflt_decl := mkDecl 1 false false KVar.
Definition decls_of (l : list vdecl) : decls := fun x => nth (N.to_nat x) l dflt_decl.

(* drop the x/z mask (2-state view of a value) *)
Definition drop (v : vec) : vec := mkVec (vp v) 0.
Definition nz (md : mode) (v : vec) : vec := match md with M2 => drop v | M4 => v end.
Definition trunc (w : N) (v : vec) : vec := mkVec (vp v mod 2 ^ w) (vm v mod 2 ^ w).

Definition un_selfdet (o : unop) : bool :=
  match o with UPlus | UMinus | UBitNot => false | _ => true end.

(* ------------------------------------------------------------------ self-determined type *)
Fixpoint gather (D : decls) (e : expr) {struct e} : ctx :=
  match e with
  | ELit w sg _ _ => mkCtx w sg
  | EVar x => mkCtx (d_width (D x)) (d_signed (D x))
  | ESel x hi lo => mkCtx (hi - lo + 1) (d_signed (D x))   (* veryl keeps the variable's signedness *)
  | EUn o a => if un_selfdet o then mkCtx 1 false else gather D a
  | EBin o a b =>
      let ga := gather D a in
      let gb := gather D b in
      match o with
      | BAdd | BSub | BMul | BDiv | BRem | BAnd | BOr | BXor | BXnor => cmerge ga gb
      | BShl | BShr | BAshl | BAshr | BPow => ga
      | BLt | BLe | BGt | BGe => mkCtx 1 (cs ga && cs gb)
      | BEq | BNe | BWeq | BWne | BLand | BLor => mkCtx 1 false
      end
  | ETern _ a b => cmerge (gather D a) (gather D b)
  | ECat items =>
      mkCtx ((fix go (l : list (expr * N)) : N :=
                match l with
                | [] => 0
                | (a, n) :: t => cw (gather D a) * n + go t
                end) items) false
  | ECast w _ => mkCtx w false
  | ESign sg a => mkCtx (cw (gather D a)) sg
  end.

(* ------------------------------------------------------------------ helpers over Ops1800 *)
(* shift amount: None when it holds x/z; clamped to the operand width w (shifting a w-bit value by w or
   by more gives the same result, and the clamp keeps the evaluation cost bounded) *)
Definition amount (w : N) (v : vec) : option N := if known v then Some (N.min w (vp v)) else None.

Definition is_true (v : vec) : bool := match truth v with TT => true | _ => false end.

(* replicate a w-bit value n times: {v repeat n} *)
Fixpoint repl_nat (w : N) (v : vec) (n : nat) : vec :=
  match n with
  | O => mkVec 0 0
  | S n' => let r := repl_nat w v n' in
            mkVec (N.lor (N.shiftl (vp r) w) (vp v)) (N.lor (N.shiftl (vm r) w) (vm v))
  end.
Definition cat2 (hi : vec) (wlo : N) (lo : vec) : vec :=
  mkVec (N.lor (N.shiftl (vp hi) wlo) (vp lo)) (N.lor (N.shiftl (vm hi) wlo) (vm lo)).

Definition select (hi lo : N) (v : vec) : vec :=
  trunc (hi - lo + 1) (mkVec (N.shiftr (vp v) lo) (N.shiftr (vm v) lo)).

Definition rel_fn (o : binop) : Z -> Z -> bool :=
  match o with
  | BLt => Z.ltb | BLe => Z.leb | BGt => Z.gtb | _ => Z.geb
  end.

(* ------------------------------------------------------------------ evaluation *)
(* [ev c e]: value of e in a context of width [cw c] and signedness [cs c]; the result is already
   extended to [cw c] bits (IEEE: the operand is converted to the propagated type and size). *)
Fixpoint ev (md : mode) (D : decls) (st : state) (c : ctx) (e : expr) {struct e} : vec :=
  match e with
  | ELit w sg p m => ext (sg && cs c) w (cw c) (nz md (mkVec p m))
  | EVar x => ext (d_signed (D x) && cs c) (d_width (D x)) (cw c) (st x)
  | ESel x hi lo => select hi lo (st x)
  | EUn o a =>
      match o with
      | UPlus => ev md D st c a
      | UMinus => nz md (s_neg (cw c) (ev md D st c a))
      | UBitNot => nz md (s_not (cw c) (ev md D st c a))
      | _ =>
          let g := gather D a in
          let v := ev md D st g a in
          nz md (match o with
                 | ULogNot => s_lnot v
                 | URAnd => s_red_and (cw g) v
                 | URNand => s_red_nand (cw g) v
                 | UROr => s_red_or (cw g) v
                 | URNor => s_red_nor (cw g) v
                 | URXor => s_red_xor (cw g) v
                 | _ => s_red_xnor (cw g) v
                 end)
      end
  | EBin o a b =>
      match o with
      | BAdd => nz md (s_add (cw c) (ev md D st c a) (ev md D st c b))
      | BSub => nz md (s_sub (cw c) (ev md D st c a) (ev md D st c b))
      | BMul => nz md (s_mul (cw c) (ev md D st c a) (ev md D st c b))
      | BDiv => nz md (s_div (cs c) (cw c) (ev md D st c a) (ev md D st c b))
      | BRem => nz md (s_rem (cs c) (cw c) (ev md D st c a) (ev md D st c b))
      | BAnd => nz md (s_and (cw c) (ev md D st c a) (ev md D st c b))
      | BOr => nz md (s_or (cw c) (ev md D st c a) (ev md D st c b))
      | BXor => nz md (s_xor (cw c) (ev md D st c a) (ev md D st c b))
      | BXnor => nz md (s_xnor (cw c) (ev md D st c a) (ev md D st c b))
      | BShl | BAshl =>
          nz md (s_shl (cw c) (ev md D st c a) (amount (cw c) (ev md D st (gather D b) b)))
      | BShr => nz md (s_shr (cw c) (ev md D st c a) (amount (cw c) (ev md D st (gather D b) b)))
      | BAshr => nz md (s_ashr (cs c) (cw c) (ev md D st c a) (amount (cw c) (ev md D st (gather D b) b)))
      | BPow =>
          let gb := gather D b in
          let vb := ev md D st gb b in
          nz md (s_pow (cs c) (cw c) (ev md D st c a)
                       (if known vb then Some (if cs gb then sval (cw gb) (vp vb) else Z.of_N (vp vb))
                        else None))
      | BLt | BLe | BGt | BGe =>
          let m := cmerge (gather D a) (gather D b) in
          nz md (s_rel (cs m) (cw m) (ev md D st m a) (ev md D st m b) (rel_fn o))
      | BEq | BNe | BWeq | BWne =>
          let m := cmerge (gather D a) (gather D b) in
          let va := ev md D st m a in
          let vb := ev md D st m b in
          nz md (match o with
                 | BEq => s_eq va vb | BNe => s_ne va vb | BWeq => s_weq va vb | _ => s_wne va vb
                 end)
      | BLand => nz md (s_land (ev md D st (gather D a) a) (ev md D st (gather D b) b))
      | BLor => nz md (s_lor (ev md D st (gather D a) a) (ev md D st (gather D b) b))
      end
  | ETern c0 a b =>
      if is_true (ev md D st (gather D c0) c0) then ev md D st c a else ev md D st c b
  | ECat items =>
      (fix go (l : list (expr * N)) (acc : vec) : vec :=
         match l with
         | [] => acc
         | (a, n) :: t =>
             let g := gather D a in
             let v := ev md D st g a in
             go t (cat2 acc (cw g * n) (repl_nat (cw g) v (N.to_nat n)))
         end) items (mkVec 0 0)
  | ECast w a =>
      let g := gather D a in
      trunc w (ev md D st (mkCtx (N.max (cw g) w) (cs g)) a)
  | ESign sg a =>
      let g := gather D a in
      ext (sg && cs c) (cw g) (cw c) (ev md D st g a)
  end.

(* ------------------------------------------------------------------ validated fragment *)
(* The simulator's engines disagree with each other (findings, design/C02.md) on: part selects of signed
   variables, $signed/$unsigned applied to anything but a variable, `e as w` on a signed operand or
   with w not smaller than the operand's width.  The reference is validated
   only on programs avoiding these forms; [supported] is checked by the driver on every program. *)
(* signedness of the analyzer's Comptime TYPE (Op::eval_type_*: binary and ternary nodes clone the type of
   their first operand); a narrowing cast sign-extends when it is true *)
Fixpoint tsigned (D : decls) (e : expr) {struct e} : bool :=
  match e with
  | ELit _ sg _ _ => sg
  | EVar x => d_signed (D x)
  | ESel x _ _ => d_signed (D x)
  | EUn o a => match o with UPlus | UMinus => tsigned D a | _ => false end
  | EBin _ a _ => tsigned D a
  | ETern c _ _ => tsigned D c
  | ECat _ => false
  | ECast _ a => tsigned D a
  | ESign sg _ => sg
  end.

Definition leaflike (e : expr) : bool :=
  match e with ELit _ _ _ _ | EVar _ | ESel _ _ _ | ECat _ => true | _ => false end.

Fixpoint supported (D : decls) (e : expr) {struct e} : bool :=
  match e with
  | ELit _ _ _ _ => true
  | EVar _ => true
  | ESel x _ _ => negb (d_signed (D x))
  | EUn _ a => supported D a
  | EBin o a b => match o with BPow => false | _ => supported D a && supported D b end
  | ETern c a b =>
      supported D c && supported D a && supported D b &&
      negb (match a, b with ESign _ _, ESign _ _ => true | _, _ => false end)
      (* both branches $signed/$unsigned calls: all engines sign-extend in an unsigned context (C01 finding) *)
  | ECat items =>
      (fix go (l : list (expr * N)) : bool :=
         match l with [] => true | (a, _) :: t => supported D a && go t end) items
  | ECast w a =>
      (* only a real narrowing of an unsigned operand: a widening cast of a variable is a no-op in the
         simulator (the operand keeps its own width in concatenations and reductions) *)
      supported D a && negb (cs (gather D a)) && negb (tsigned D a) && (w <? cw (gather D a))
  | ESign _ a => match a with EVar _ => true | _ => false end
  end.

(* variables read by an expression *)
Fixpoint ereads (e : expr) : list N :=
  match e with
  | ELit _ _ _ _ => []
  | EVar x => [x]
  | ESel x _ _ => [x]
  | EUn _ a => ereads a
  | EBin _ a b => ereads a ++ ereads b
  | ETern c a b => ereads c ++ ereads a ++ ereads b
  | ECat items => (fix go (l : list (expr * N)) : list N :=
                     match l with [] => [] | (a, _) :: t => ereads a ++ go t end) items
  | ECast _ a => ereads a
  | ESign _ a => ereads a
  end.
