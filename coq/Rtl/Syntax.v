(* L9 µRTL — abstract syntax of the core of Veryl covered by the reference semantics.

   A program is one module: declarations (ports and vars, each a packed vector of width 1..N, signed
   or unsigned, `logic` (4-state) or `bit` (2-state)), one implicit clock and one implicit reset of the
   default types, and a list of items (assign / always_comb / always_ff).  Variables are numbered;
   the python generator (vp/gen/rtl.py) prints the same AST as Veryl text for the real tools and as an
   S-expression for the extracted reference (vp/rtl_ref.py). *)
From VV Require Export BV.Ops1800.

Inductive unop :=
| UPlus | UMinus | UBitNot                     (* operand context-determined *)
| ULogNot | URAnd | URNand | UROr | URNor | URXor | URXnor.   (* operand self-determined, 1-bit result *)

Inductive binop :=
| BAdd | BSub | BMul | BDiv | BRem             (* + - * / %          context-determined operands *)
| BAnd | BOr | BXor | BXnor                    (* & | ^ ~^           context-determined operands *)
| BShl | BShr | BAshl | BAshr | BPow           (* << >> <<< >>> **   right operand self-determined *)
| BLt | BLe | BGt | BGe                        (* <: <= >: >=        operands sized to each other *)
| BEq | BNe | BWeq | BWne                      (* == != ==? !=?      operands sized to each other *)
| BLand | BLor.                                (* && ||              operands self-determined *)

Inductive expr :=
| ELit (w : N) (sg : bool) (p m : N)           (* sized literal  w'[s]h...: payload p, x/z mask m *)
| EVar (x : N)
| ESel (x : N) (hi lo : N)                     (* x[hi:lo] with constant bounds, hi >= lo *)
| EUn (o : unop) (e : expr)
| EBin (o : binop) (a b : expr)
| ETern (c a b : expr)                         (* if c ? a : b *)
| ECat (items : list (expr * N))               (* {e1 repeat n1, e2 repeat n2, ...}, n >= 1 *)
| ECast (w : N) (e : expr)                     (* e as w   (numeric width cast) *)
| ESign (sg : bool) (e : expr).                (* $signed(e) / $unsigned(e) *)

Inductive stmt :=
| SAssign (x : N) (e : expr)                   (* x = e;        whole variable *)
| SAssignSel (x : N) (hi lo : N) (e : expr)    (* x[hi:lo] = e; constant bounds *)
| SIf (c : expr) (t f : list stmt)
| SCase (sel : expr) (arms : list (list expr * list stmt)) (dflt : list stmt).

Inductive item :=
| IAssign (x : N) (e : expr)                   (* assign x = e; *)
| IComb (body : list stmt)                     (* always_comb { body } *)
| IFf (rst : option (list stmt)) (body : list stmt).
      (* always_ff { if_reset { rst } else { body } }   or   always_ff { body } *)

Inductive vkind := KIn | KOut | KVar.
Record vdecl := mkDecl { d_width : N; d_signed : bool; d_2state : bool; d_kind : vkind }.

Record module := mkModule { m_decls : list vdecl; m_items : list item }.

(* a nested-list induction principle for expr (ECat holds a list of sub-expressions) *)
Section ExprInd.
  Variable P : expr -> Prop.
  Hypothesis HLit : forall w sg p m, P (ELit w sg p m).
  Hypothesis HVar : forall x, P (EVar x).
  Hypothesis HSel : forall x hi lo, P (ESel x hi lo).
  Hypothesis HUn : forall o e, P e -> P (EUn o e).
  Hypothesis HBin : forall o a b, P a -> P b -> P (EBin o a b).
  Hypothesis HTern : forall c a b, P c -> P a -> P b -> P (ETern c a b).
  Hypothesis HCat : forall items, Forall (fun it => P (fst it)) items -> P (ECat items).
  Hypothesis HCast : forall w e, P e -> P (ECast w e).
  Hypothesis HSign : forall sg e, P e -> P (ESign sg e).

  Fixpoint expr_ind' (e : expr) : P e :=
    match e with
    | ELit w sg p m => HLit w sg p m
    | EVar x => HVar x
    | ESel x hi lo => HSel x hi lo
    | EUn o e => HUn o e (expr_ind' e)
    | EBin o a b => HBin o a b (expr_ind' a) (expr_ind' b)
    | ETern c a b => HTern c a b (expr_ind' c) (expr_ind' a) (expr_ind' b)
    | ECat items =>
        HCat items ((fix go (l : list (expr * N)) : Forall (fun it => P (fst it)) l :=
                       match l with
                       | [] => Forall_nil _
                       | it :: t => Forall_cons it (expr_ind' (fst it)) (go t)
                       end) items)
    | ECast w e => HCast w e (expr_ind' e)
    | ESign sg e => HSign sg e (expr_ind' e)
    end.
End ExprInd.
