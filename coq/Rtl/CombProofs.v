(* L9 µRTL — the concrete comb items (assign / always_comb of Rtl/Cycle.v) satisfy the two frame
   hypotheses of Rtl/Frame.v; hence every theorem of Frame.v holds for the reference semantics:
   the settled state does not depend on which topological order is used, independent items may be
   exchanged, dead writes may be dropped, an unchanged cone may be skipped. *)
From VV Require Import Rtl.Cycle Rtl.Frame.
From Coq Require Import Permutation.
Open Scope N_scope.

(* ------------------------------------------------------------------ stmt induction *)
Section StmtInd.
  Variable P : stmt -> Prop.
  Hypothesis HA : forall x e, P (SAssign x e).
  Hypothesis HS : forall x hi lo e, P (SAssignSel x hi lo e).
  Hypothesis HIf : forall c t f, Forall P t -> Forall P f -> P (SIf c t f).
  Hypothesis HCase : forall sel arms dflt,
      Forall (fun arm => Forall P (snd arm)) arms -> Forall P dflt -> P (SCase sel arms dflt).

  Fixpoint stmt_ind' (s : stmt) : P s :=
    match s with
    | SAssign x e => HA x e
    | SAssignSel x hi lo e => HS x hi lo e
    | SIf c t f =>
        HIf c t f
            ((fix go (l : list stmt) : Forall P l :=
                match l with [] => Forall_nil _ | a :: r => Forall_cons a (stmt_ind' a) (go r) end) t)
            ((fix go (l : list stmt) : Forall P l :=
                match l with [] => Forall_nil _ | a :: r => Forall_cons a (stmt_ind' a) (go r) end) f)
    | SCase sel arms dflt =>
        HCase sel arms dflt
              ((fix pick (l : list (list expr * list stmt)) : Forall (fun arm => Forall P (snd arm)) l :=
                  match l with
                  | [] => Forall_nil _
                  | arm :: r =>
                      Forall_cons arm
                        ((fix go (l : list stmt) : Forall P l :=
                            match l with [] => Forall_nil _ | a :: r => Forall_cons a (stmt_ind' a) (go r) end)
                           (snd arm))
                        (pick r)
                  end) arms)
              ((fix go (l : list stmt) : Forall P l :=
                  match l with [] => Forall_nil _ | a :: r => Forall_cons a (stmt_ind' a) (go r) end) dflt)
    end.
End StmtInd.

(* ------------------------------------------------------------------ unfolding lemmas *)
Definition pick_arm (md : mode) (D : decls) (st : state) (sel : expr)
           (arms : list (list expr * list stmt)) (dflt : list stmt) : list stmt :=
  (fix pick (l : list (list expr * list stmt)) : list stmt :=
     match l with
     | [] => dflt
     | (pats, body) :: r => if arm_match md D st sel pats then body else pick r
     end) arms.

Lemma exec_list_cons md D s l st : exec_list md D (s :: l) st = exec_list md D l (exec_stmt md D s st).
Proof. reflexivity. Qed.

Lemma go_exec_list md D l : forall st,
    (fix go (l : list stmt) (st : state) : state :=
       match l with [] => st | s' :: r => go r (exec_stmt md D s' st) end) l st = exec_list md D l st.
Proof. induction l as [|a l IH]; intros st; [reflexivity|]. rewrite exec_list_cons. apply IH. Qed.

Lemma exec_if md D c t f st :
  exec_stmt md D (SIf c t f) st = exec_list md D (if cond_true md D st c then t else f) st.
Proof. simpl. apply go_exec_list. Qed.

Lemma exec_case md D sel arms dflt st :
  exec_stmt md D (SCase sel arms dflt) st = exec_list md D (pick_arm md D st sel arms dflt) st.
Proof.
  simpl. unfold pick_arm. induction arms as [|[pats body] r IH].
  - apply go_exec_list.
  - destruct (arm_match md D st sel pats); [apply go_exec_list | apply IH].
Qed.

Definition arms_writes (arms : list (list expr * list stmt)) : list N :=
  flat_map (fun arm => lwrites (snd arm)) arms.
Definition arms_reads (arms : list (list expr * list stmt)) : list N :=
  flat_map (fun arm => flat_map ereads (fst arm) ++ lreads (snd arm)) arms.

Lemma go_lwrites l :
  (fix go (l : list stmt) : list N := match l with [] => [] | s' :: r => swrites s' ++ go r end) l = lwrites l.
Proof. induction l as [|a l IH]; [reflexivity|]. simpl. rewrite IH. reflexivity. Qed.
Lemma go_lreads l :
  (fix go (l : list stmt) : list N := match l with [] => [] | s' :: r => sreads s' ++ go r end) l = lreads l.
Proof. induction l as [|a l IH]; [reflexivity|]. simpl. rewrite IH. reflexivity. Qed.
Lemma pe_reads l :
  (fix pe (l : list expr) : list N := match l with [] => [] | p :: q => ereads p ++ pe q end) l = flat_map ereads l.
Proof. induction l as [|a l IH]; [reflexivity|]. simpl. rewrite IH. reflexivity. Qed.

Lemma swrites_if c t f : swrites (SIf c t f) = lwrites t ++ lwrites f.
Proof. simpl. rewrite !go_lwrites. reflexivity. Qed.
Lemma swrites_case sel arms dflt : swrites (SCase sel arms dflt) = arms_writes arms ++ lwrites dflt.
Proof.
  simpl. rewrite go_lwrites. f_equal. unfold arms_writes.
  induction arms as [|[pats body] r IH]; [reflexivity|]. simpl. rewrite go_lwrites, IH. reflexivity.
Qed.
Lemma sreads_if c t f :
  sreads (SIf c t f) = ereads c ++ lreads t ++ lreads f ++ swrites (SIf c t f).
Proof. simpl. rewrite !go_lreads. reflexivity. Qed.
Lemma sreads_case sel arms dflt :
  sreads (SCase sel arms dflt) = ereads sel ++ arms_reads arms ++ lreads dflt ++ swrites (SCase sel arms dflt).
Proof.
  cbn [sreads]. rewrite go_lreads. f_equal. f_equal.
  unfold arms_reads. induction arms as [|[pats body] r IH]; [reflexivity|].
  simpl. rewrite go_lreads, pe_reads, IH, <- app_assoc. reflexivity.
Qed.

(* ------------------------------------------------------------------ expressions read only their reads *)
Definition agree (xs : list N) (s s' : state) : Prop := forall x, In x xs -> s x = s' x.

Lemma agree_app_l a b s s' : agree (a ++ b) s s' -> agree a s s'.
Proof. intros H x Hx; apply H, in_or_app; left; exact Hx. Qed.
Lemma agree_app_r a b s s' : agree (a ++ b) s s' -> agree b s s'.
Proof. intros H x Hx; apply H, in_or_app; right; exact Hx. Qed.
Lemma agree_incl a b s s' : incl a b -> agree b s s' -> agree a s s'.
Proof. intros I H x Hx; apply H, I, Hx. Qed.

Lemma ev_ext md D e : forall c st st', agree (ereads e) st st' -> ev md D st c e = ev md D st' c e.
Proof.
  induction e as [w sg p m | x | x hi lo | o e IHe | o e1 e2 IHe1 IHe2 | e1 e2 e3 IHe1 IHe2 IHe3
                  | items IHitems | w e IHe | sg e IHe] using expr_ind'; intros c0 st st' Hag; simpl in *.
  - reflexivity.
  - rewrite (Hag x) by (left; reflexivity). reflexivity.
  - rewrite (Hag x) by (left; reflexivity). reflexivity.
  - destruct o; try (rewrite (IHe _ st st' Hag); reflexivity).
  - pose proof (agree_app_l _ _ _ _ Hag) as Ha. pose proof (agree_app_r _ _ _ _ Hag) as Hb.
    destruct o;
      repeat rewrite (IHe1 _ st st' Ha); repeat rewrite (IHe2 _ st st' Hb); reflexivity.
  - pose proof (agree_app_l _ _ _ _ Hag) as Hc. pose proof (agree_app_r _ _ _ _ Hag) as Hab.
    pose proof (agree_app_l _ _ _ _ Hab) as Ha. pose proof (agree_app_r _ _ _ _ Hab) as Hb.
    rewrite (IHe1 _ st st' Hc), (IHe2 _ st st' Ha), (IHe3 _ st st' Hb). reflexivity.
  - generalize (mkVec 0 0). induction items as [|[a n] t IHt]; intros acc; [reflexivity|].
    inversion IHitems as [|? ? Pa Pt]; subst. simpl in Pa.
    rewrite (Pa _ st st' (agree_app_l _ _ _ _ Hag)).
    apply IHt; [exact Pt | exact (agree_app_r _ _ _ _ Hag)].
  - rewrite (IHe _ st st' Hag). reflexivity.
  - rewrite (IHe _ st st' Hag). reflexivity.
Qed.

Lemma cond_true_ext md D c st st' : agree (ereads c) st st' -> cond_true md D st c = cond_true md D st' c.
Proof. intros H; unfold cond_true; rewrite (ev_ext md D c _ st st' H); reflexivity. Qed.

Lemma arm_match_ext md D sel pats st st' :
  agree (ereads sel ++ flat_map ereads pats) st st' -> arm_match md D st sel pats = arm_match md D st' sel pats.
Proof.
  intros H. unfold arm_match. induction pats as [|p q IH]; [reflexivity|]. simpl in *.
  rewrite (cond_true_ext md D (EBin BWeq sel p) st st').
  - f_equal. apply IH. intros x Hx. apply H. apply in_app_or in Hx. apply in_or_app.
    destruct Hx; [left | right; apply in_or_app; right]; assumption.
  - simpl. intros x Hx. apply H. apply in_app_or in Hx. apply in_or_app.
    destruct Hx; [left | right; apply in_or_app; left]; assumption.
Qed.

(* ------------------------------------------------------------------ frame: writes *)
Lemma upd_other st x v y : y <> x -> upd st x v y = st y.
Proof. intros H; unfold upd. destruct (N.eqb_spec y x); [contradiction | reflexivity]. Qed.
Lemma upd_same st x v : upd st x v x = v.
Proof. unfold upd. rewrite N.eqb_refl. reflexivity. Qed.

Lemma exec_list_frame_write_gen md D l :
  Forall (fun s => forall st x, ~ In x (swrites s) -> exec_stmt md D s st x = st x) l ->
  forall st x, ~ In x (lwrites l) -> exec_list md D l st x = st x.
Proof.
  induction 1 as [|s l Hs Hl IH]; intros st x nx; [reflexivity|].
  rewrite exec_list_cons. simpl in nx. rewrite IH by (intro; apply nx, in_or_app; right; assumption).
  apply Hs. intro; apply nx, in_or_app; left; assumption.
Qed.

Lemma in_arms_writes body arms pats : In (pats, body) arms -> incl (lwrites body) (arms_writes arms).
Proof.
  intros Hin x Hx. unfold arms_writes. apply in_flat_map. exists (pats, body). split; assumption.
Qed.

Lemma pick_arm_cases md D st sel arms dflt :
  pick_arm md D st sel arms dflt = dflt \/ exists pats, In (pats, pick_arm md D st sel arms dflt) arms.
Proof.
  unfold pick_arm. induction arms as [|[pats body] r IH]; [left; reflexivity|].
  destruct (arm_match md D st sel pats).
  - right. exists pats. left. reflexivity.
  - destruct IH as [IH | (p & IH)]; [left; exact IH | right; exists p; right; exact IH].
Qed.

Lemma exec_stmt_frame_write md D s : forall st x, ~ In x (swrites s) -> exec_stmt md D s st x = st x.
Proof.
  induction s as [x e | x hi lo e | c t f IHt IHf | sel arms dflt IHarms IHdflt] using stmt_ind'; intros st y ny.
  - simpl in *. apply upd_other. intro; apply ny; left; congruence.
  - simpl in *. apply upd_other. intro; apply ny; left; congruence.
  - rewrite exec_if. rewrite swrites_if in ny.
    destruct (cond_true md D st c).
    + apply exec_list_frame_write_gen; [assumption|]. intro; apply ny, in_or_app; left; assumption.
    + apply exec_list_frame_write_gen; [assumption|]. intro; apply ny, in_or_app; right; assumption.
  - rewrite exec_case. rewrite swrites_case in ny.
    destruct (pick_arm_cases md D st sel arms dflt) as [E | (pats & Hin)].
    + rewrite E. apply exec_list_frame_write_gen; [assumption|]. intro; apply ny, in_or_app; right; assumption.
    + apply exec_list_frame_write_gen.
      * rewrite Forall_forall in IHarms. exact (IHarms _ Hin).
      * intro Hy. apply ny, in_or_app. left. eapply in_arms_writes; eassumption.
Qed.

Lemma exec_list_frame_write md D l st x : ~ In x (lwrites l) -> exec_list md D l st x = st x.
Proof.
  apply exec_list_frame_write_gen. apply Forall_forall. intros s _. apply exec_stmt_frame_write.
Qed.

(* ------------------------------------------------------------------ frame: reads *)
(* states agreeing on a set A that contains everything the statement reads give results agreeing
   on A and on everything the statement writes *)
Definition read_frame md D (s : stmt) : Prop :=
  forall A st st', incl (sreads s) A -> agree A st st' ->
                   agree (A ++ swrites s) (exec_stmt md D s st) (exec_stmt md D s st').

Lemma exec_list_read_frame_gen md D l :
  Forall (read_frame md D) l ->
  forall A st st', incl (lreads l) A -> agree A st st' ->
                   agree (A ++ lwrites l) (exec_list md D l st) (exec_list md D l st').
Proof.
  induction 1 as [|s l Hs Hl IH]; intros A st st' I H.
  - simpl. rewrite app_nil_r. exact H.
  - rewrite !exec_list_cons. simpl in I.
    assert (Is : incl (sreads s) A) by (intros x Hx; apply I, in_or_app; left; exact Hx).
    assert (Il : incl (lreads l) (A ++ swrites s)).
    { intros x Hx. apply in_or_app. left. apply I, in_or_app. right. exact Hx. }
    specialize (IH (A ++ swrites s) _ _ Il (Hs A st st' Is H)).
    intros x Hx. apply IH. simpl in Hx. rewrite <- app_assoc. exact Hx.
Qed.

Lemma agree_weaken_writes A W W' s s' : incl W' W -> agree (A ++ W) s s' -> agree (A ++ W') s s'.
Proof.
  intros I H x Hx. apply H. apply in_app_or in Hx. apply in_or_app.
  destruct Hx; [left | right; apply I]; assumption.
Qed.

Lemma exec_stmt_read_frame md D s : read_frame md D s.
Proof.
  induction s as [x e | x hi lo e | c t f IHt IHf | sel arms dflt IHarms IHdflt] using stmt_ind'; intros A st st' I Hag.
  - (* SAssign *)
    simpl in *. intros y Hy.
    destruct (N.eq_dec y x) as [->|ne].
    + rewrite !upd_same. f_equal. apply ev_ext. eapply agree_incl; [exact I | exact Hag].
    + rewrite !upd_other by exact ne. apply Hag.
      apply in_app_or in Hy. destruct Hy as [Hy|[Hy|[]]]; [exact Hy | congruence].
  - (* SAssignSel *)
    simpl in *. intros y Hy.
    destruct (N.eq_dec y x) as [->|ne].
    + rewrite !upd_same. f_equal. f_equal.
      * apply ev_ext. eapply agree_incl; [|exact Hag]. intros z Hz. apply I. right. exact Hz.
      * apply Hag, I. left. reflexivity.
    + rewrite !upd_other by exact ne. apply Hag.
      apply in_app_or in Hy. destruct Hy as [Hy|[Hy|[]]]; [exact Hy | congruence].
  - (* SIf *)
    rewrite !exec_if. rewrite sreads_if in I.
    assert (Ic : agree (ereads c) st st').
    { eapply agree_incl; [|exact Hag]. intros x Hx. apply I, in_or_app. left. exact Hx. }
    rewrite <- (cond_true_ext md D c st st' Ic).
    assert (Iw : incl (swrites (SIf c t f)) A).
    { intros x Hx. apply I. apply in_or_app; right. apply in_or_app; right. apply in_or_app; right. exact Hx. }
    assert (AW : forall s1 s2, agree A s1 s2 -> agree (A ++ swrites (SIf c t f)) s1 s2).
    { intros s1 s2 Hs x Hx. apply Hs. apply in_app_or in Hx. destruct Hx; [assumption | apply Iw; assumption]. }
    apply AW.
    destruct (cond_true md D st c).
    + eapply agree_app_l. apply exec_list_read_frame_gen; [assumption | | exact Hag].
      intros x Hx. apply I. apply in_or_app; right. apply in_or_app; left. exact Hx.
    + eapply agree_app_l. apply exec_list_read_frame_gen; [assumption | | exact Hag].
      intros x Hx. apply I. apply in_or_app; right. apply in_or_app; right. apply in_or_app; left. exact Hx.
  - (* SCase *)
    rewrite !exec_case. rewrite sreads_case in I.
    assert (Iw : incl (swrites (SCase sel arms dflt)) A).
    { intros x Hx. apply I. apply in_or_app; right. apply in_or_app; right. apply in_or_app; right. exact Hx. }
    assert (AW : forall s1 s2, agree A s1 s2 -> agree (A ++ swrites (SCase sel arms dflt)) s1 s2).
    { intros s1 s2 Hs x Hx. apply Hs. apply in_app_or in Hx. destruct Hx; [assumption | apply Iw; assumption]. }
    apply AW.
    assert (Isel : incl (ereads sel) A) by (intros x Hx; apply I, in_or_app; left; exact Hx).
    assert (Iarms : incl (arms_reads arms) A).
    { intros x Hx. apply I. apply in_or_app; right. apply in_or_app; left. exact Hx. }
    assert (Idf : incl (lreads dflt) A).
    { intros x Hx. apply I. apply in_or_app; right. apply in_or_app; right. apply in_or_app; left. exact Hx. }
    (* the same arm is picked in both states *)
    assert (Epick : pick_arm md D st sel arms dflt = pick_arm md D st' sel arms dflt).
    { unfold pick_arm. clear IHarms IHdflt Iw AW I.
      induction arms as [|[pats body] r IH]; [reflexivity|].
      assert (Em : arm_match md D st sel pats = arm_match md D st' sel pats).
      { apply arm_match_ext. intros x Hx. apply Hag. apply in_app_or in Hx.
        destruct Hx as [Hx|Hx]; [apply Isel, Hx|].
        apply Iarms. unfold arms_reads. simpl. apply in_or_app. left. apply in_or_app. left. exact Hx. }
      rewrite Em. destruct (arm_match md D st' sel pats); [reflexivity|].
      apply IH. intros x Hx. apply Iarms. unfold arms_reads in *. simpl. apply in_or_app. right. exact Hx. }
    rewrite <- Epick.
    destruct (pick_arm_cases md D st sel arms dflt) as [E | (pats & Hin)].
    + rewrite E. eapply agree_app_l. apply exec_list_read_frame_gen; [assumption | exact Idf | exact Hag].
    + eapply agree_app_l. apply exec_list_read_frame_gen; [| | exact Hag].
      * rewrite Forall_forall in IHarms. exact (IHarms _ Hin).
      * intros x Hx. apply Iarms. unfold arms_reads. apply in_flat_map.
        exists (pats, pick_arm md D st sel arms dflt). split; [exact Hin|].
        simpl. apply in_or_app. right. exact Hx.
Qed.

Lemma exec_list_read_frame md D l A st st' :
  incl (lreads l) A -> agree A st st' ->
  agree (A ++ lwrites l) (exec_list md D l st) (exec_list md D l st').
Proof.
  apply exec_list_read_frame_gen. apply Forall_forall. intros s _. apply exec_stmt_read_frame.
Qed.

(* ------------------------------------------------------------------ the two frame hypotheses for items *)
Lemma item_frame_write md D it st x : ~ In x (iwrites it) -> exec_item md D it st x = st x.
Proof.
  destruct it as [y e | body | r body]; simpl; intros nx.
  - apply upd_other. intro; apply nx; left; congruence.
  - apply exec_list_frame_write, nx.
  - reflexivity.
Qed.

Lemma item_frame_read md D it st st' :
  agree_on vec (ireads it) st st' -> forall x, In x (iwrites it) -> exec_item md D it st x = exec_item md D it st' x.
Proof.
  intros H x Hx. destruct it as [y e | body | r body].
  - apply (exec_stmt_read_frame md D (SAssign y e) (ereads e) st st'); [apply incl_refl | exact H|].
    apply in_or_app. right. exact Hx.
  - apply (exec_list_read_frame md D body (lreads body) st st'); [apply incl_refl | exact H|].
    apply in_or_app. right. exact Hx.
  - destruct Hx.
Qed.

Lemma settle_is_run md D l st : settle md D l st = frun vec item (exec_item md D) l st.
Proof. reflexivity. Qed.

(* ------------------------------------------------------------------ instantiated theorems *)
Definition topo_items := topo item ireads iwrites.
Definition single_driver_items := single_driver item iwrites.

(* C02: the settled state is the same for every topological order of the comb items *)
Theorem settle_order_irrelevant md D (l l' : list item) :
  Permutation l l' -> single_driver_items l -> topo_items l -> topo_items l' ->
  forall st x, settle md D l st x = settle md D l' st x.
Proof.
  intros P SD T T' st. rewrite !settle_is_run.
  exact (comb_order_irrelevant vec item (exec_item md D) ireads iwrites
                               (item_frame_write md D) (item_frame_read md D) l l' P SD T T' st).
Qed.

(* the executable checks used by the reference driver imply the propositional side conditions *)
Lemma mem_In x l : mem x l = true <-> In x l.
Proof.
  unfold mem. rewrite existsb_exists. split.
  - intros (y & Hy & E). apply N.eqb_eq in E. subst. exact Hy.
  - intros H. exists x. split; [exact H | apply N.eqb_refl].
Qed.
Lemma disjointb_spec a b : disjointb a b = true -> disjoint a b.
Proof.
  unfold disjointb. rewrite forallb_forall. intros H x Hx Hb.
  specialize (H x Hx). apply negb_true_iff in H. apply mem_In in Hb. congruence.
Qed.

Lemma topo_ok_sound l : topo_ok l = true -> topo_items l.
Proof.
  induction l as [|a t IH]; intros H l1 b l2 E c Hc.
  - destruct l1; discriminate.
  - simpl in H. apply andb_true_iff in H. destruct H as [Ha Ht].
    destruct l1 as [|x l1]; simpl in E; injection E as -> E.
    + subst t. rewrite forallb_forall in Ha. apply disjointb_spec, Ha, Hc.
    + exact (IH Ht l1 b l2 E c Hc).
Qed.

Lemma single_driver_ok_sound l : single_driver_ok l = true -> single_driver_items l.
Proof.
  induction l as [|a t IH]; intros H l1 b l2 E c Hc.
  - destruct l1; discriminate.
  - simpl in H. apply andb_true_iff in H. destruct H as [Ha Ht].
    rewrite forallb_forall in Ha.
    destruct l1 as [|x l1]; simpl in E; injection E as -> E.
    + subst t. simpl in Hc. apply disjointb_spec, Ha, Hc.
    + simpl in Hc. destruct Hc as [<- | Hc].
      * (* c is the head a, b is later: symmetric *)
        intros y Hy Hya. assert (Hb : In b t) by (rewrite E; apply in_or_app; right; left; reflexivity).
        exact (disjointb_spec _ _ (Ha b Hb) y Hya Hy).
      * exact (IH Ht l1 b l2 E c Hc).
Qed.

Corollary settle_order_irrelevant_checked md D (l l' : list item) :
  Permutation l l' -> single_driver_ok l = true -> topo_ok l = true -> topo_ok l' = true ->
  forall st x, settle md D l st x = settle md D l' st x.
Proof.
  intros P SD T T'. apply settle_order_irrelevant; auto using topo_ok_sound, single_driver_ok_sound.
Qed.

