(* L9 µRTL — whole-step and whole-trace consequences of the comb-order theorem:
   the reference trace is a function of program, configuration and stimulus alone; it does not depend
   on which topological order of the comb items is used for settling.  (No functional extensionality:
   states are compared pointwise.) *)
From VV Require Import Rtl.Cycle Rtl.Frame Rtl.CombProofs.
From Coq Require Import Permutation.
Open Scope N_scope.

Definition peq (s s' : state) : Prop := forall x, s x = s' x.

Lemma peq_agree xs s s' : peq s s' -> agree xs s s'.
Proof. intros H x _; apply H. Qed.

(* ------------------------------------------------------------------ non-blocking evaluation *)
Lemma nb_list_cons md D pre s l log :
  nb_list md D pre (s :: l) log = nb_list md D pre l (nb_stmt md D pre s log).
Proof. reflexivity. Qed.

Lemma go_nb_list md D pre l : forall log,
    (fix go (l : list stmt) (log : list wentry) : list wentry :=
       match l with [] => log | s' :: r => go r (nb_stmt md D pre s' log) end) l log = nb_list md D pre l log.
Proof. induction l as [|a l IH]; intros log; [reflexivity|]. rewrite nb_list_cons. apply IH. Qed.

Lemma nb_if md D pre c t f log :
  nb_stmt md D pre (SIf c t f) log = nb_list md D pre (if cond_true md D pre c then t else f) log.
Proof. simpl. apply go_nb_list. Qed.

Lemma nb_case md D pre sel arms dflt log :
  nb_stmt md D pre (SCase sel arms dflt) log = nb_list md D pre (pick_arm md D pre sel arms dflt) log.
Proof.
  simpl. unfold pick_arm. induction arms as [|[pats body] r IH].
  - apply go_nb_list.
  - destruct (arm_match md D pre sel pats); [apply go_nb_list | apply IH].
Qed.

Lemma pick_arm_ext md D sel arms dflt st st' :
  peq st st' -> pick_arm md D st sel arms dflt = pick_arm md D st' sel arms dflt.
Proof.
  intros H. unfold pick_arm. induction arms as [|[pats body] r IH]; [reflexivity|].
  rewrite (arm_match_ext md D sel pats st st' (peq_agree _ _ _ H)). rewrite IH. reflexivity.
Qed.

Lemma nb_list_ext_gen md D pre pre' l :
  Forall (fun s => forall log, nb_stmt md D pre s log = nb_stmt md D pre' s log) l ->
  forall log, nb_list md D pre l log = nb_list md D pre' l log.
Proof.
  induction 1 as [|s l Hs Hl IH]; intros log; [reflexivity|].
  rewrite !nb_list_cons, Hs. apply IH.
Qed.

Lemma nb_stmt_ext md D pre pre' s : peq pre pre' -> forall log, nb_stmt md D pre s log = nb_stmt md D pre' s log.
Proof.
  intros H.
  induction s as [x e | x hi lo e | c t f IHt IHf | sel arms dflt IHarms IHdflt] using stmt_ind'; intros log.
  - simpl. rewrite (ev_ext md D e _ pre pre' (peq_agree _ _ _ H)). reflexivity.
  - simpl. rewrite (ev_ext md D e _ pre pre' (peq_agree _ _ _ H)). reflexivity.
  - rewrite !nb_if. rewrite (cond_true_ext md D c pre pre' (peq_agree _ _ _ H)).
    destruct (cond_true md D pre' c); apply nb_list_ext_gen; assumption.
  - rewrite !nb_case. rewrite <- (pick_arm_ext md D sel arms dflt pre pre' H).
    destruct (pick_arm_cases md D pre sel arms dflt) as [E | (pats & Hin)].
    + rewrite E. apply nb_list_ext_gen; assumption.
    + apply nb_list_ext_gen. rewrite Forall_forall in IHarms. exact (IHarms _ Hin).
Qed.

Lemma nb_list_ext md D pre pre' l log : peq pre pre' -> nb_list md D pre l log = nb_list md D pre' l log.
Proof.
  intros H. apply nb_list_ext_gen. apply Forall_forall. intros s _. apply nb_stmt_ext, H.
Qed.

Lemma ff_item_ext md D rst pre pre' it log : peq pre pre' -> ff_item md D rst pre it log = ff_item md D rst pre' it log.
Proof.
  intros H. destruct it as [| |[r|] body]; simpl; try reflexivity; apply nb_list_ext, H.
Qed.

Lemma ff_log_ext md D rst pre pre' ffs : peq pre pre' -> forall log,
  fold_left (fun log it => ff_item md D rst pre it log) ffs log =
  fold_left (fun log it => ff_item md D rst pre' it log) ffs log.
Proof.
  intros H. induction ffs as [|it r IH]; intros log; [reflexivity|].
  simpl. rewrite (ff_item_ext md D rst pre pre' it log H). apply IH.
Qed.

(* ------------------------------------------------------------------ pointwise congruences *)
Lemma upd_peq st st' x v : peq st st' -> peq (upd st x v) (upd st' x v).
Proof. intros H y. unfold upd. destruct (y =? x); [reflexivity | apply H]. Qed.

Lemma commit_peq md D log : forall st st', peq st st' -> peq (commit md D log st) (commit md D log st').
Proof.
  induction log as [|[[x [hi lo]] v] r IH]; intros st st' H; [exact H|].
  simpl. apply IH. rewrite (H x). apply upd_peq, H.
Qed.

Lemma set_inputs_peq md D ins : forall st st', peq st st' -> peq (set_inputs md D ins st) (set_inputs md D ins st').
Proof.
  induction ins as [|[x v] r IH]; intros st st' H; [exact H|].
  simpl. apply IH. apply upd_peq, H.
Qed.

Lemma settle_peq md D l st st' : peq st st' -> peq (settle md D l st) (settle md D l st').
Proof.
  intros H. rewrite !settle_is_run.
  exact (run_seq vec item (exec_item md D) ireads iwrites (item_frame_write md D) (item_frame_read md D) l st st' H).
Qed.

(* ------------------------------------------------------------------ the step and the trace *)
Theorem step_order_irrelevant md D (l l' ffs : list item) rst ins :
  Permutation l l' -> single_driver_ok l = true -> topo_ok l = true -> topo_ok l' = true ->
  forall st st', peq st st' -> peq (step md D l ffs rst ins st) (step md D l' ffs rst ins st').
Proof.
  intros P SD T T' st st' H. unfold step.
  set (a := set_inputs md D ins st). set (a' := set_inputs md D ins st').
  assert (Ha : peq a a') by (apply set_inputs_peq, H).
  assert (Hb : peq (settle md D l a) (settle md D l' a')).
  { intro x. rewrite (settle_order_irrelevant_checked md D l l' P SD T T' a x).
    apply settle_peq, Ha. }
  rewrite (ff_log_ext md D rst _ _ ffs Hb []).
  set (log := fold_left _ ffs []).
  assert (Hc : peq (commit md D log (settle md D l a)) (commit md D log (settle md D l' a')))
    by (apply commit_peq, Hb).
  intro x. rewrite (settle_order_irrelevant_checked md D l l' P SD T T' _ x).
  apply settle_peq, Hc.
Qed.

Lemma observe_peq outs st st' : peq st st' -> observe outs st = observe outs st'.
Proof. intros H. unfold observe. apply map_ext. intro; apply H. Qed.

(* ref_sem_deterministic / order independence of the whole trace *)
Theorem run_order_irrelevant md D (l l' ffs : list item) outs :
  Permutation l l' -> single_driver_ok l = true -> topo_ok l = true -> topo_ok l' = true ->
  forall stim st st', peq st st' ->
                      run md D l ffs outs stim st = run md D l' ffs outs stim st'.
Proof.
  intros P SD T T'. induction stim as [|[r ins] t IH]; intros st st' H; [reflexivity|].
  simpl. pose proof (step_order_irrelevant md D l l' ffs r ins P SD T T' st st' H) as Hs.
  f_equal; [apply observe_peq, Hs | apply IH, Hs].
Qed.
