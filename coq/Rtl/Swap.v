(* L9 µRTL — hot-swap of the step function (C33).

   crates/simulator/src/backend/aot_c.rs: with `aot_c_async` the simulation starts on the Cranelift
   JIT (step function A) and every settle/event asks `CompiledWhole::try_dispatch`; from the moment the
   background `cc` has published the `.so` the compiled C code (step function B) runs instead — on the
   SAME buffers (ff_values, comb_values, write log).  The moment is not under the program's control.

   The theorem says what makes the swap invisible: not that the two engines show the same observables
   step by step, but that B, started from whatever state A leaves behind, stays in a *state relation* R
   with what A would have done.  R is the layout/contents contract of everything B reads.  *)
From Coq Require Import List Arith Lia.
Import ListNotations.

Section Swap.
  Variables (St Inp Ob : Type).
  Variables (stepA stepB : St -> Inp -> St).
  Variable obs : St -> Ob.
  Variable R : St -> St -> Prop.

  (* trace of observables, one entry per step *)
  Fixpoint runA (ins : list Inp) (s : St) : list Ob :=
    match ins with [] => [] | i :: t => let s' := stepA s i in obs s' :: runA t s' end.
  Fixpoint runB (ins : list Inp) (s : St) : list Ob :=
    match ins with [] => [] | i :: t => let s' := stepB s i in obs s' :: runB t s' end.
  (* the first n steps are taken by A, all later ones by B, on the same state *)
  Fixpoint run_swapped (n : nat) (ins : list Inp) (s : St) : list Ob :=
    match n, ins with
    | _, [] => []
    | O, _ => runB ins s
    | S n', i :: t => let s' := stepA s i in obs s' :: run_swapped n' t s'
    end.

  Hypothesis R_refl : forall s, R s s.
  Hypothesis sim : forall s s' i, R s s' ->
                                  R (stepA s i) (stepB s' i) /\ obs (stepA s i) = obs (stepB s' i).

  Lemma runA_runB ins : forall s s', R s s' -> runA ins s = runB ins s'.
  Proof.
    induction ins as [|i t IH]; intros s s' H; simpl; [reflexivity|].
    destruct (sim s s' i H) as [HR Ho]. rewrite Ho. f_equal. apply IH, HR.
  Qed.

  (* switching at ANY step n yields the trace of never switching *)
  Theorem swap_invisible : forall n ins s, run_swapped n ins s = runA ins s.
  Proof.
    induction n as [|n IH]; intros ins s.
    - destruct ins; simpl; [reflexivity|]. symmetry. apply (runA_runB (i :: ins) s s), R_refl.
    - destruct ins as [|i t]; simpl; [reflexivity|]. f_equal. apply IH.
  Qed.

  (* never = a swap point beyond the end of the run *)
  Lemma swap_never : forall ins n s, length ins <= n -> run_swapped n ins s = runA ins s.
  Proof. intros; apply swap_invisible. Qed.

  Corollary swap_point_irrelevant n m ins s : run_swapped n ins s = run_swapped m ins s.
  Proof. rewrite !swap_invisible; reflexivity. Qed.
End Swap.

(* Why observable agreement alone is not enough: engines that show the same observable on every
   single step from EQUAL states, but B keeps part of its state where A does not look.  A: counter in
   the first component.  B: counts in the second component and shows it; started from A's state after
   n steps it restarts from a stale second component. *)
Module SwapCounterexample.
  Definition St := (nat * nat)%type.
  Definition stepA (s : St) (_ : unit) : St := (S (fst s), snd s).
  Definition stepB (s : St) (_ : unit) : St := (fst s, S (snd s)).
  Definition obsA (s : St) := fst s.
  (* B's observable is its own counter; on the diagonal (fst = snd) both engines agree step by step *)
  Definition obsAB (s : St) := Nat.max (fst s) (snd s).

  Lemma one_step_agree : forall s u, fst s = snd s -> obsAB (stepA s u) = obsAB (stepB s u).
  Proof. intros [a b] u H; unfold obsAB, stepA, stepB; cbn [fst snd] in *; subst; lia. Qed.

  (* ... yet swapping after 2 steps is visible: *)
  Lemma swap_visible :
    run_swapped St unit nat stepA stepB obsAB 2 [tt; tt; tt; tt] (0, 0)
    <> runA St unit nat stepA obsAB [tt; tt; tt; tt] (0, 0).
  Proof. vm_compute. discriminate. Qed.
End SwapCounterexample.

(* Non-vacuity: two different step functions related by a non-trivial R. A keeps a counter, B keeps the
   counter plus a scratch word it overwrites before use; R ignores the scratch word. *)
Module SwapExample.
  Definition St := (nat * nat)%type.
  Definition stepA (s : St) (i : nat) : St := (fst s + i, snd s).
  Definition stepB (s : St) (i : nat) : St := (fst s + i, i).
  Definition obs (s : St) := fst s.
  Definition R (s s' : St) := fst s = fst s'.
  Lemma R_refl s : R s s. Proof. reflexivity. Qed.
  Lemma sim s s' i : R s s' -> R (stepA s i) (stepB s' i) /\ obs (stepA s i) = obs (stepB s' i).
  Proof. unfold R, stepA, stepB, obs; simpl; intros ->; split; reflexivity. Qed.
  Lemma example : forall n ins s,
      run_swapped St nat nat stepA stepB obs n ins s = runA St nat nat stepA obs ins s.
  Proof. intros; apply (swap_invisible St nat nat stepA stepB obs R R_refl sim). Qed.
End SwapExample.
