(* L9 µRTL — statements, comb settle, always_ff with non-blocking commit, clock step, traces.

   step (one call of Simulator::step / step_reset after Simulator::set of every input):
     1. inputs are written                                   (Simulator::set)
     2. comb settles: comb items run in dependency order      (do_settle_comb)
     3. every always_ff body runs against the settled pre-edge state; its assignments go to a
        write log (non-blocking)                              (eval_event_stmts)
     4. the log is committed in order                         (commit_event_log / ff_commit_from_log)
     5. comb settles again before outputs are read            (Simulator::get -> ensure_comb_updated)
   A reset step (Simulator::step_reset) is the same edge with the reset asserted: an always_ff with
   if_reset runs its reset branch, one without runs its body.

   Definitions only. *)
From VV Require Export Rtl.Eval.
Open Scope N_scope.

Definition upd (st : state) (x : N) (v : vec) : state := fun y => if y =? x then v else st y.

Definition two_state (md : mode) (D : decls) (x : N) : bool :=
  match md with M2 => true | M4 => d_2state (D x) end.

(* value as stored in variable x *)
Definition stored (md : mode) (D : decls) (x : N) (v : vec) : vec :=
  let t := trunc (d_width (D x)) v in if two_state md D x then drop t else t.

(* replace bits hi..lo of old by the low hi-lo+1 bits of v *)
Definition insert (hi lo : N) (v old : vec) : vec :=
  let w := hi - lo + 1 in
  let msk := N.shiftl (ones w) lo in
  mkVec (N.lor (N.ldiff (vp old) msk) (N.shiftl (vp v mod 2 ^ w) lo))
        (N.lor (N.ldiff (vm old) msk) (N.shiftl (vm v mod 2 ^ w) lo)).

(* context of the right-hand side of an assignment to a target of width wl:
   Expression::eval_comptime: gather, then width := max(width, target width) *)
Definition actx (D : decls) (wl : N) (e : expr) : ctx :=
  let g := gather D e in mkCtx (N.max (cw g) wl) (cs g).

Definition cond_true (md : mode) (D : decls) (st : state) (c : expr) : bool :=
  is_true (ev md D st (gather D c) c).

(* case arm: sel ==? p for one of the patterns (conv/utils.rs range_item) *)
Definition arm_match (md : mode) (D : decls) (st : state) (sel : expr) (pats : list expr) : bool :=
  existsb (fun p => cond_true md D st (EBin BWeq sel p)) pats.

(* ------------------------------------------------------------------ blocking (always_comb, assign) *)
Fixpoint exec_stmt (md : mode) (D : decls) (s : stmt) (st : state) {struct s} : state :=
  match s with
  | SAssign x e => upd st x (stored md D x (ev md D st (actx D (d_width (D x)) e) e))
  | SAssignSel x hi lo e =>
      upd st x (stored md D x (insert hi lo (ev md D st (actx D (hi - lo + 1) e) e) (st x)))
  | SIf c t f =>
      (fix go (l : list stmt) (st : state) : state :=
         match l with [] => st | s' :: r => go r (exec_stmt md D s' st) end)
        (if cond_true md D st c then t else f) st
  | SCase sel arms dflt =>
      (fix pick (l : list (list expr * list stmt)) : state :=
         match l with
         | [] => (fix go (l : list stmt) (st : state) : state :=
                    match l with [] => st | s' :: r => go r (exec_stmt md D s' st) end) dflt st
         | (pats, body) :: r =>
             if arm_match md D st sel pats
             then (fix go (l : list stmt) (st : state) : state :=
                     match l with [] => st | s' :: r => go r (exec_stmt md D s' st) end) body st
             else pick r
         end) arms
  end.

Definition exec_list (md : mode) (D : decls) (l : list stmt) (st : state) : state :=
  fold_left (fun st s => exec_stmt md D s st) l st.

(* ------------------------------------------------------------------ non-blocking (always_ff) *)
Definition wentry := (N * (N * N) * vec)%type.       (* target, (hi, lo), value *)

Fixpoint nb_stmt (md : mode) (D : decls) (pre : state) (s : stmt) (log : list wentry) {struct s}
  : list wentry :=
  match s with
  | SAssign x e =>
      log ++ [(x, (d_width (D x) - 1, 0), ev md D pre (actx D (d_width (D x)) e) e)]
  | SAssignSel x hi lo e => log ++ [(x, (hi, lo), ev md D pre (actx D (hi - lo + 1) e) e)]
  | SIf c t f =>
      (fix go (l : list stmt) (log : list wentry) : list wentry :=
         match l with [] => log | s' :: r => go r (nb_stmt md D pre s' log) end)
        (if cond_true md D pre c then t else f) log
  | SCase sel arms dflt =>
      (fix pick (l : list (list expr * list stmt)) : list wentry :=
         match l with
         | [] => (fix go (l : list stmt) (log : list wentry) : list wentry :=
                    match l with [] => log | s' :: r => go r (nb_stmt md D pre s' log) end) dflt log
         | (pats, body) :: r =>
             if arm_match md D pre sel pats
             then (fix go (l : list stmt) (log : list wentry) : list wentry :=
                     match l with [] => log | s' :: r => go r (nb_stmt md D pre s' log) end) body log
             else pick r
         end) arms
  end.

Definition nb_list (md : mode) (D : decls) (pre : state) (l : list stmt) (log : list wentry) :=
  fold_left (fun log s => nb_stmt md D pre s log) l log.

Definition commit (md : mode) (D : decls) (log : list wentry) (st : state) : state :=
  fold_left (fun st (w : wentry) =>
               let '(x, (hi, lo), v) := w in upd st x (stored md D x (insert hi lo v (st x))))
            log st.

(* ------------------------------------------------------------------ items *)
Definition exec_item (md : mode) (D : decls) (it : item) (st : state) : state :=
  match it with
  | IAssign x e => exec_stmt md D (SAssign x e) st
  | IComb body => exec_list md D body st
  | IFf _ _ => st
  end.

Definition ff_item (md : mode) (D : decls) (rst : bool) (pre : state) (it : item) (log : list wentry)
  : list wentry :=
  match it with
  | IFf (Some r) body => nb_list md D pre (if rst then r else body) log
  | IFf None body => nb_list md D pre body log
  | _ => log
  end.

Definition is_ff (it : item) : bool := match it with IFf _ _ => true | _ => false end.

(* comb items in the order given *)
Definition settle (md : mode) (D : decls) (order : list item) (st : state) : state :=
  fold_left (fun st it => exec_item md D it st) order st.

Definition set_inputs (md : mode) (D : decls) (ins : list (N * vec)) (st : state) : state :=
  fold_left (fun st (xv : N * vec) => upd st (fst xv) (stored md D (fst xv) (snd xv))) ins st.

(* [comb]: the comb items in a dependency (topological) order; [ffs]: the always_ff items *)
Definition step (md : mode) (D : decls) (comb ffs : list item) (rst : bool)
           (ins : list (N * vec)) (st : state) : state :=
  let st1 := set_inputs md D ins st in
  let st2 := settle md D comb st1 in
  let log := fold_left (fun log it => ff_item md D rst st2 it log) ffs [] in
  let st3 := commit md D log st2 in
  settle md D comb st3.

(* power-up: 4-state `logic` variables are x, everything else 0 *)
Definition init_state (md : mode) (D : decls) : state :=
  fun x => if two_state md D x then mkVec 0 0 else allx (d_width (D x)).

Definition observe (outs : list N) (st : state) : list vec := map st outs.

(* one trace row per stimulus cycle: (reset?, input values) *)
Fixpoint run (md : mode) (D : decls) (comb ffs : list item) (outs : list N)
         (stim : list (bool * list (N * vec))) (st : state) : list (list vec) :=
  match stim with
  | [] => []
  | (r, ins) :: t =>
      let st' := step md D comb ffs r ins st in
      observe outs st' :: run md D comb ffs outs t st'
  end.

(* ------------------------------------------------------------------ read / write sets *)
(* syntactic write set *)
Fixpoint swrites (s : stmt) : list N :=
  match s with
  | SAssign x _ => [x]
  | SAssignSel x _ _ _ => [x]
  | SIf _ t f =>
      (fix go (l : list stmt) : list N := match l with [] => [] | s' :: r => swrites s' ++ go r end) t ++
      (fix go (l : list stmt) : list N := match l with [] => [] | s' :: r => swrites s' ++ go r end) f
  | SCase _ arms dflt =>
      (fix pick (l : list (list expr * list stmt)) : list N :=
         match l with
         | [] => []
         | (_, body) :: r =>
             (fix go (l : list stmt) : list N := match l with [] => [] | s' :: r => swrites s' ++ go r end) body ++
             pick r
         end) arms ++
      (fix go (l : list stmt) : list N := match l with [] => [] | s' :: r => swrites s' ++ go r end) dflt
  end.

(* read set: every variable occurring in an expression, plus the old value of every variable that is
   written partially (part select) or only conditionally (a branch not taken keeps the old value) *)
Fixpoint sreads (s : stmt) : list N :=
  match s with
  | SAssign _ e => ereads e
  | SAssignSel x _ _ e => x :: ereads e
  | SIf c t f =>
      ereads c ++
      (fix go (l : list stmt) : list N := match l with [] => [] | s' :: r => sreads s' ++ go r end) t ++
      (fix go (l : list stmt) : list N := match l with [] => [] | s' :: r => sreads s' ++ go r end) f ++
      swrites s
  | SCase sel arms dflt =>
      ereads sel ++
      (fix pick (l : list (list expr * list stmt)) : list N :=
         match l with
         | [] => []
         | (pats, body) :: r =>
             (fix pe (l : list expr) : list N := match l with [] => [] | p :: q => ereads p ++ pe q end) pats ++
             (fix go (l : list stmt) : list N := match l with [] => [] | s' :: r => sreads s' ++ go r end) body ++
             pick r
         end) arms ++
      (fix go (l : list stmt) : list N := match l with [] => [] | s' :: r => sreads s' ++ go r end) dflt ++
      swrites s
  end.

Definition lreads (l : list stmt) : list N := flat_map sreads l.
Definition lwrites (l : list stmt) : list N := flat_map swrites l.

Definition ireads (it : item) : list N :=
  match it with
  | IAssign _ e => ereads e
  | IComb body => lreads body
  | IFf _ _ => []
  end.
Definition iwrites (it : item) : list N :=
  match it with
  | IAssign x _ => [x]
  | IComb body => lwrites body
  | IFf _ _ => []
  end.

(* `q = q;` (possibly through $signed/$unsigned/+): ff-opt engines drop it, --disable-ff-opt keeps the
   non-blocking meaning (finding ff-self-assignment) *)
Fixpoint strip_wrappers (e : expr) : expr :=
  match e with
  | ESign _ a => strip_wrappers a
  | EUn UPlus a => strip_wrappers a
  | _ => e
  end.
Definition self_assign (x : N) (e : expr) : bool :=
  match strip_wrappers e with EVar y => y =? x | _ => false end.

Fixpoint ssupported (D : decls) (s : stmt) {struct s} : bool :=
  match s with
  | SAssign x e => supported D e && negb (self_assign x e)
  | SAssignSel _ _ _ e => supported D e
  | SIf c t f =>
      supported D c &&
      (fix go (l : list stmt) : bool := match l with [] => true | s' :: r => ssupported D s' && go r end) t &&
      (fix go (l : list stmt) : bool := match l with [] => true | s' :: r => ssupported D s' && go r end) f
  | SCase sel arms dflt =>
      supported D sel &&
      (fix pick (l : list (list expr * list stmt)) : bool :=
         match l with
         | [] => true
         | (pats, body) :: r =>
             forallb (supported D) pats &&
             (fix go (l : list stmt) : bool := match l with [] => true | s' :: r => ssupported D s' && go r end) body &&
             pick r
         end) arms &&
      (fix go (l : list stmt) : bool := match l with [] => true | s' :: r => ssupported D s' && go r end) dflt
  end.

Definition isupported (D : decls) (it : item) : bool :=
  match it with
  | IAssign _ e => supported D e
  | IComb body => forallb (ssupported D) body
  | IFf r body => match r with Some l => forallb (ssupported D) l | None => true end && forallb (ssupported D) body
  end.

(* executable well-formedness of a comb order (what the generator promises; checked by the reference
   driver before a program is used): no item writes what an earlier item reads, and no variable has
   two drivers *)
Definition mem (x : N) (l : list N) : bool := existsb (N.eqb x) l.
Definition disjointb (a b : list N) : bool := forallb (fun x => negb (mem x b)) a.
Fixpoint topo_ok (l : list item) : bool :=
  match l with
  | [] => true
  | a :: t => forallb (fun b => disjointb (iwrites b) (ireads a)) t && topo_ok t
  end.
Fixpoint single_driver_ok (l : list item) : bool :=
  match l with
  | [] => true
  | a :: t => forallb (fun b => disjointb (iwrites a) (iwrites b)) t && single_driver_ok t
  end.
