(* L9 µRTL — 4-state refines 2-state.

   The 2-state mode M2 drops the x/z mask after every operator and at every store; the 4-state mode M4
   keeps it.  If, during the 4-state evaluation of an expression, every leaf value and every operator
   result is known (no x/z bit anywhere — predicate [clean]), both modes compute the same value.
   Hence a 4-state run in which no x/z ever ARISES equals the 2-state run; x/z that arises and is
   absorbed again (a division by zero feeding a comparison, say) is exactly where the two may differ
   without any x/z being visible at an output. *)
From VV Require Import Rtl.Cycle.
Open Scope N_scope.

Definition kn (v : vec) : Prop := vm v = 0.

Lemma drop_kn v : kn v -> drop v = v.
Proof. destruct v as [p m]; unfold kn, drop; simpl; intros ->; reflexivity. Qed.

Lemma nz_kn v : kn v -> nz M2 v = nz M4 v.
Proof. intros H; simpl; apply drop_kn, H. Qed.

(* every leaf and every operator result of the M4 evaluation of e in context c is known *)
Fixpoint clean (D : decls) (st : state) (c : ctx) (e : expr) {struct e} : Prop :=
  match e with
  | ELit _ _ _ m => m = 0
  | EVar x => True
  | ESel x _ _ => True
  | EUn o a =>
      (if un_selfdet o then clean D st (gather D a) a else clean D st c a) /\
      kn (ev M4 D st c (EUn o a))
  | EBin o a b =>
      (match o with
       | BAdd | BSub | BMul | BDiv | BRem | BAnd | BOr | BXor | BXnor =>
           clean D st c a /\ clean D st c b
       | BShl | BShr | BAshl | BAshr | BPow => clean D st c a /\ clean D st (gather D b) b
       | BLt | BLe | BGt | BGe | BEq | BNe | BWeq | BWne =>
           let m := cmerge (gather D a) (gather D b) in clean D st m a /\ clean D st m b
       | BLand | BLor => clean D st (gather D a) a /\ clean D st (gather D b) b
       end) /\ kn (ev M4 D st c (EBin o a b))
  | ETern c0 a b =>
      clean D st (gather D c0) c0 /\
      (if is_true (ev M4 D st (gather D c0) c0) then clean D st c a else clean D st c b)
  | ECat items =>
      (fix go (l : list (expr * N)) : Prop :=
         match l with
         | [] => True
         | (a, _) :: t => clean D st (gather D a) a /\ go t
         end) items
  | ECast w a => let g := gather D a in clean D st (mkCtx (N.max (cw g) w) (cs g)) a
  | ESign _ a => clean D st (gather D a) a
  end.

Theorem ev_M2_eq_M4 D st e : forall c, clean D st c e -> ev M2 D st c e = ev M4 D st c e.
Proof.
  induction e as [w sg p m | x | x hi lo | o e IHe | o e1 e2 IHe1 IHe2 | e1 e2 e3 IHe1 IHe2 IHe3
                  | items IHitems | w e IHe | sg e IHe] using expr_ind'; intros c H.
  - simpl in *. subst. reflexivity.
  - reflexivity.
  - reflexivity.
  - destruct H as [Ha Hk].
    destruct o; simpl in Ha; cbn [ev] in *;
      try (rewrite (IHe _ Ha)); try (apply nz_kn, Hk); try reflexivity.
  - destruct H as [Ha Hk].
    destruct o; cbn [ev] in *; destruct Ha as [Ha Hb];
      rewrite ?(IHe1 _ Ha), ?(IHe2 _ Hb); apply nz_kn, Hk.
  - destruct H as [Hc Hab]. cbn [ev].
    rewrite (IHe1 _ Hc).
    destruct (is_true (ev M4 D st (gather D e1) e1)); [apply IHe2 | apply IHe3]; exact Hab.
  - cbn [ev]. generalize (mkVec 0 0). cbn [clean] in H.
    induction items as [|[a n] t IHt]; intros acc; [reflexivity|].
    inversion IHitems as [|? ? Pa Pt]; subst. simpl in Pa. destruct H as [Ha Ht].
    rewrite (Pa _ Ha). apply IHt; assumption.
  - cbn [ev]. simpl in H. rewrite (IHe _ H). reflexivity.
  - cbn [ev]. simpl in H. rewrite (IHe _ H). reflexivity.
Qed.

(* non-vacuity: a clean expression; and an unclean one on which the two modes really differ
   (x arises from the division by zero and is absorbed by the comparison) *)
Definition ex_D := decls_of [mkDecl 8 false false KIn; mkDecl 8 false false KIn].
Definition ex_st : state := fun x => if x =? 0 then mkVec 200 0 else mkVec 0 0.
Example clean_example :
  clean ex_D ex_st (mkCtx 9 false) (EBin BAdd (EVar 0) (EUn UBitNot (EVar 1))).
Proof. simpl. unfold kn. repeat split; vm_compute; reflexivity. Qed.

Example absorbed_x_differs :
  let e := EBin BEq (EBin BDiv (EVar 0) (EVar 1)) (ELit 8 false 0 0) in
  ev M2 ex_D ex_st (mkCtx 1 false) e = mkVec 1 0 /\
  ev M4 ex_D ex_st (mkCtx 1 false) e = mkVec 0 1.
Proof. split; vm_compute; reflexivity. Qed.
