(* L9 µRTL — abstract statement-list model with read/write sets ("frame" model).

   A comb program is a list of items; an item is frun by [exec] and comes with a set of variables it
   may read and a set it may write.  Everything in this file is proved from just two frame
   hypotheses (an item changes only what it writes; what it writes depends only on what it reads).
   Rtl/CombProofs.v proves the two hypotheses for the concrete µRTL items (assign / always_comb),
   so every theorem here holds for the reference semantics; the simulator's passes
   (crates/simulator/src/ir/opt/*.rs, analyze_dependency in ir/module.rs) are obliged to stay
   within these contracts — that is what C03's end-to-end check tests.

   Used by: C02 (comb_order_irrelevant), C03 (reorder / dead-write / cone-gate contracts). *)
From Coq Require Import List NArith Bool Lia Permutation.
Import ListNotations.

Section Frame.
  Variable V : Type.                     (* values held by variables *)
  Definition fstate := N -> V.
  Definition steq (s s' : fstate) : Prop := forall x, s x = s' x.
  Definition agree_on (xs : list N) (s s' : fstate) : Prop := forall x, In x xs -> s x = s' x.
  Definition agree_off (xs : list N) (s s' : fstate) : Prop := forall x, ~ In x xs -> s x = s' x.
  Definition disjoint (a b : list N) : Prop := forall x, In x a -> ~ In x b.

  Variable item : Type.
  Variable exec : item -> fstate -> fstate.
  Variable reads writes : item -> list N.

  Hypothesis frame_write : forall it s x, ~ In x (writes it) -> exec it s x = s x.
  Hypothesis frame_read : forall it s s', agree_on (reads it) s s' ->
                                         forall x, In x (writes it) -> exec it s x = exec it s' x.

  Definition frun (l : list item) (s : fstate) : fstate := fold_left (fun s it => exec it s) l s.

  Lemma steq_refl s : steq s s. Proof. intro; reflexivity. Qed.
  Lemma steq_sym s s' : steq s s' -> steq s' s. Proof. intros H x; symmetry; apply H. Qed.
  Lemma steq_trans s1 s2 s3 : steq s1 s2 -> steq s2 s3 -> steq s1 s3.
  Proof. intros H1 H2 x; rewrite H1; apply H2. Qed.

  Lemma in_dec_N (x : N) (l : list N) : {In x l} + {~ In x l}.
  Proof. apply in_dec, N.eq_dec. Qed.

  Lemma exec_seq it s s' : steq s s' -> steq (exec it s) (exec it s').
  Proof.
    intros H x. destruct (in_dec_N x (writes it)) as [i|n].
    - apply frame_read; [intros y _; apply H | exact i].
    - rewrite !frame_write by exact n. apply H.
  Qed.

  Lemma run_seq l : forall s s', steq s s' -> steq (frun l s) (frun l s').
  Proof.
    induction l as [|a l IH]; intros s s' H; simpl; [exact H|].
    apply IH, exec_seq, H.
  Qed.

  Lemma run_app l1 l2 s : frun (l1 ++ l2) s = frun l2 (frun l1 s).
  Proof. unfold frun; apply fold_left_app. Qed.

  (* ------------------------------------------------------------------ independence *)
  Definition indep (a b : item) : Prop :=
    disjoint (writes a) (reads b) /\ disjoint (writes b) (reads a) /\ disjoint (writes a) (writes b).

  Lemma indep_sym a b : indep a b -> indep b a.
  Proof.
    intros (H1 & H2 & H3); repeat split; auto.
    intros x Hb Ha; exact (H3 x Ha Hb).
  Qed.

  Lemma exec_commute a b s : indep a b -> steq (exec a (exec b s)) (exec b (exec a s)).
  Proof.
    intros (Hab & Hba & Hww) x.
    destruct (in_dec_N x (writes a)) as [ia|na].
    - assert (nb : ~ In x (writes b)) by (apply Hww; exact ia).
      rewrite (frame_write b) by exact nb.
      apply frame_read; [|exact ia].
      intros y Hy. apply frame_write. intro Hyb. exact (Hba y Hyb Hy).
    - rewrite (frame_write a) by exact na.
      destruct (in_dec_N x (writes b)) as [ib|nb].
      + apply frame_read; [|exact ib].
        intros y Hy. symmetry. apply frame_write. intro Hya. exact (Hab y Hya Hy).
      + rewrite !frame_write by assumption. reflexivity.
  Qed.

  (* moving an item leftwards across items it is independent of *)
  Lemma run_move_front a : forall l1 l2 s,
      (forall b, In b l1 -> indep a b) ->
      steq (frun (l1 ++ a :: l2) s) (frun (a :: l1 ++ l2) s).
  Proof.
    induction l1 as [|b l1 IH]; intros l2 s H; [apply steq_refl|].
    simpl. eapply steq_trans; [apply IH; intros; apply H; right; assumption|].
    simpl. apply run_seq. apply exec_commute. apply H. left; reflexivity.
  Qed.

  (* ------------------------------------------------------------------ evaluation orders *)
  (* position based, so equal items occurring twice need no special treatment *)
  (* [topo l]: no item writes a variable that an EARLIER item reads (every item runs after all of
     its producers) *)
  Definition topo (l : list item) : Prop :=
    forall l1 a l2, l = l1 ++ a :: l2 -> forall b, In b l2 -> disjoint (writes b) (reads a).
  (* [single_driver l]: two different positions never write the same variable *)
  Definition single_driver (l : list item) : Prop :=
    forall l1 a l2, l = l1 ++ a :: l2 -> forall b, In b (l1 ++ l2) -> disjoint (writes a) (writes b).

  Lemma topo_tail a l : topo (a :: l) -> topo l.
  Proof. intros H l1 b l2 E; apply (H (a :: l1) b l2); simpl; congruence. Qed.

  Lemma topo_remove l1 a l2 : topo (l1 ++ a :: l2) -> topo (l1 ++ l2).
  Proof.
    intros H m1 b m2 E c Hc.
    (* b sits either in l1 or in l2 *)
    revert m1 E. induction l1 as [|x l1 IH] in H |- *; intros m1 E; simpl in *.
    - apply (H (a :: m1) b m2); [simpl; congruence | exact Hc].
    - destruct m1 as [|y m1]; simpl in E; injection E as -> E.
      + apply (H [] b (l1 ++ a :: l2)); [reflexivity|].
        rewrite <- E in Hc. apply in_app_or in Hc. apply in_or_app. destruct Hc; [left|right; right]; assumption.
      + apply (IH (topo_tail _ _ H) m1 E).
  Qed.

  Lemma single_driver_tail a l : single_driver (a :: l) -> single_driver l.
  Proof.
    intros H l1 b l2 E c Hc. apply (H (a :: l1) b l2); [simpl; congruence|].
    simpl. right. exact Hc.
  Qed.

  Lemma single_driver_head a l b : single_driver (a :: l) -> In b l -> disjoint (writes a) (writes b).
  Proof. intros H Hb. apply (H [] a l); [reflexivity | exact Hb]. Qed.

  (* THE order theorem: any two topological orders of the same single-driver item set settle to
     the same fstate. *)
  Theorem comb_order_irrelevant : forall l l',
      Permutation l l' -> single_driver l -> topo l -> topo l' ->
      forall s, steq (frun l s) (frun l' s).
  Proof.
    induction l as [|a l IH]; intros l' P SD T T' s.
    - apply Permutation_nil in P; subst; apply steq_refl.
    - assert (Ha : In a l') by (eapply Permutation_in; [exact P | left; reflexivity]).
      apply in_split in Ha. destruct Ha as (l1 & l2 & ->).
      assert (P' : Permutation l (l1 ++ l2)) by (eapply Permutation_cons_app_inv; exact P).
      assert (Hind : forall b, In b l1 -> indep a b).
      { intros b Hb.
        assert (Hbl : In b l).
        { eapply Permutation_in; [apply Permutation_sym; exact P'|]. apply in_or_app; left; exact Hb. }
        repeat split.
        - (* a is later than b in l' : a must not write what b reads *)
          apply in_split in Hb. destruct Hb as (m1 & m2 & ->).
          apply (T' m1 b (m2 ++ a :: l2)); [rewrite <- app_assoc; reflexivity|].
          apply in_or_app; right; left; reflexivity.
        - (* b is later than a in l : b must not write what a reads *)
          apply (T [] a l); [reflexivity | exact Hbl].
        - apply (single_driver_head a l b SD Hbl). }
      eapply steq_trans; [|apply steq_sym, run_move_front; exact Hind].
      simpl. apply IH; [exact P' | eapply single_driver_tail; exact SD | eapply topo_tail; exact T
                        | eapply topo_remove; exact T'].
  Qed.

  (* determinism is definitional (frun is a function); stated for completeness *)
  Lemma run_deterministic l s s1 s2 : s1 = frun l s -> s2 = frun l s -> s1 = s2.
  Proof. congruence. Qed.

  (* ------------------------------------------------------------------ C03: reordering *)
  (* a pass may exchange adjacent independent statements, any number of times *)
  Inductive reorder : list item -> list item -> Prop :=
  | ro_refl l : reorder l l
  | ro_swap l1 a b l2 : indep a b -> reorder (l1 ++ a :: b :: l2) (l1 ++ b :: a :: l2)
  | ro_trans l1 l2 l3 : reorder l1 l2 -> reorder l2 l3 -> reorder l1 l3.

  Theorem reorder_preserves l l' : reorder l l' -> forall s, steq (frun l s) (frun l' s).
  Proof.
    induction 1; intros s.
    - apply steq_refl.
    - rewrite !run_app. simpl. apply run_seq. apply steq_sym. apply exec_commute. exact H.
    - eapply steq_trans; [apply IHreorder1 | apply IHreorder2].
  Qed.

  (* ------------------------------------------------------------------ C03: dead writes *)
  Lemma exec_agree_off W it s s' :
    disjoint W (reads it) -> agree_off W s s' -> agree_off W (exec it s) (exec it s').
  Proof.
    intros D H x nx. destruct (in_dec_N x (writes it)) as [i|n].
    - apply frame_read; [|exact i]. intros y Hy. apply H. intro Hw. exact (D y Hw Hy).
    - rewrite !frame_write by exact n. apply H, nx.
  Qed.

  Lemma run_agree_off W l : forall s s',
      (forall b, In b l -> disjoint W (reads b)) -> agree_off W s s' ->
      agree_off W (frun l s) (frun l s').
  Proof.
    induction l as [|b l IH]; intros s s' D H; simpl; [exact H|].
    apply IH; [intros; apply D; right; assumption|].
    apply exec_agree_off; [apply D; left; reflexivity | exact H].
  Qed.

  (* removing an item whose writes are never read afterwards changes nothing outside its writes
     (in particular no observable, when the observables are disjoint from its writes) *)
  Theorem dce_preserves l1 d l2 :
    (forall b, In b l2 -> disjoint (writes d) (reads b)) ->
    forall s, agree_off (writes d) (frun (l1 ++ d :: l2) s) (frun (l1 ++ l2) s).
  Proof.
    intros D s. rewrite !run_app. simpl.
    apply run_agree_off; [exact D|].
    intros x nx. apply frame_write. exact nx.
  Qed.

  Corollary dce_preserves_observables l1 d l2 (obs : list N) :
    (forall b, In b l2 -> disjoint (writes d) (reads b)) -> disjoint obs (writes d) ->
    forall s, agree_on obs (frun (l1 ++ d :: l2) s) (frun (l1 ++ l2) s).
  Proof.
    intros D O s x Hx. apply dce_preserves; [exact D|]. apply O, Hx.
  Qed.

  (* a write that is overwritten before anybody reads it: item [o] later rewrites everything [d]
     wrote, without reading it, and nothing in between reads it *)
  Theorem overwritten_write_dead l1 d m o l2 :
    (forall b, In b m -> disjoint (writes d) (reads b)) ->
    disjoint (writes d) (reads o) ->
    (forall x, In x (writes d) -> In x (writes o)) ->
    forall s, steq (frun (l1 ++ d :: m ++ o :: l2) s) (frun (l1 ++ m ++ o :: l2) s).
  Proof.
    intros Dm Do Sub s. rewrite !run_app. simpl. rewrite !run_app. simpl.
    apply run_seq.
    set (sa := frun m (exec d (frun l1 s))). set (sb := frun m (frun l1 s)).
    assert (A : agree_off (writes d) sa sb).
    { apply run_agree_off; [exact Dm|]. intros x nx. apply frame_write, nx. }
    intro x. destruct (in_dec_N x (writes o)) as [i|n].
    - apply frame_read; [|exact i]. intros y Hy. apply A. intro Hw. exact (Do y Hw Hy).
    - rewrite !frame_write by exact n. apply A. intro Hw. apply n, Sub, Hw.
  Qed.

  (* ------------------------------------------------------------------ C03: cone gating *)
  Fixpoint reads_all (l : list item) : list N :=
    match l with [] => [] | a :: t => reads a ++ reads_all t end.
  Fixpoint writes_all (l : list item) : list N :=
    match l with [] => [] | a :: t => writes a ++ writes_all t end.

  Lemma in_reads_all l x : In x (reads_all l) <-> exists a, In a l /\ In x (reads a).
  Proof.
    induction l as [|b l IH]; simpl.
    - split; [tauto | intros (a & [] & _)].
    - rewrite in_app_iff, IH. split.
      + intros [H | (a & Ha & Hx)]; [exists b | exists a]; auto.
      + intros (a & [-> | Ha] & Hx); [left | right; exists a]; auto.
  Qed.
  Lemma in_writes_all l x : In x (writes_all l) <-> exists a, In a l /\ In x (writes a).
  Proof.
    induction l as [|b l IH]; simpl.
    - split; [tauto | intros (a & [] & _)].
    - rewrite in_app_iff, IH. split.
      + intros [H | (a & Ha & Hx)]; [exists b | exists a]; auto.
      + intros (a & [-> | Ha] & Hx); [left | right; exists a]; auto.
  Qed.

  Lemma run_frame_write l : forall s x, ~ In x (writes_all l) -> frun l s x = s x.
  Proof.
    induction l as [|a l IH]; intros s x nx; simpl; [reflexivity|].
    simpl in nx. rewrite IH by (intro; apply nx, in_or_app; right; assumption).
    apply frame_write. intro; apply nx, in_or_app; left; assumption.
  Qed.


  (* The cone C was last evaluated in fstate s0 giving s1 = frun C s0.  Now the fstate is s:
     every variable C reads or writes still has the value it had in s1 (inputs unchanged since,
     outputs retained).  If C is idempotent — re-evaluating it on its own result changes nothing,
     as holds for an acyclic single-driver cone — then evaluating C on s changes nothing, i.e.
     skipping C is sound. *)
  Lemma run_agree_on_written l : forall s s',
      agree_on (reads_all l) s s' -> agree_on (writes_all l) s s' ->
      agree_on (writes_all l) (frun l s) (frun l s').
  Proof.
    induction l as [|a l IH]; intros s s' R W x Hx; simpl in *; [contradiction|].
    assert (Ra : agree_on (reads a) s s') by (intros y Hy; apply R, in_or_app; left; exact Hy).
    (* after the first item the two states agree on reads_all l and writes_all (a::l) *)
    assert (Step : forall y, In y (reads_all l ++ writes a ++ writes_all l) -> exec a s y = exec a s' y).
    { intros y Hy. destruct (in_dec_N y (writes a)) as [i|n].
      - apply frame_read; assumption.
      - rewrite !frame_write by exact n.
        apply in_app_or in Hy. destruct Hy as [Hy|Hy]; [apply R, in_or_app; right; exact Hy|].
        apply in_app_or in Hy. destruct Hy as [Hy|Hy]; [contradiction|].
        apply W, in_or_app; right; exact Hy. }
    destruct (in_dec_N x (writes_all l)) as [i|n].
    - apply IH; [| |exact i].
      + intros y Hy. apply Step, in_or_app; left; exact Hy.
      + intros y Hy. apply Step, in_or_app; right; apply in_or_app; right; exact Hy.
    - rewrite !run_frame_write by exact n.
      apply Step, in_or_app; right. exact Hx.
  Qed.

  Theorem cone_gate_preserves C s0 s :
    let s1 := frun C s0 in
    steq (frun C s1) s1 ->                                   (* cone idempotent on its own result *)
    agree_on (reads_all C) s s1 -> agree_on (writes_all C) s s1 ->   (* nothing it touches changed *)
    steq (frun C s) s.
  Proof.
    intros s1 Idem R W x.
    destruct (in_dec_N x (writes_all C)) as [i|n].
    - rewrite (run_agree_on_written C s s1 R W x i). rewrite Idem. symmetry. apply W, i.
    - apply run_frame_write, n.
  Qed.

  (* idempotence of an acyclic single-driver cone whose items are idempotent *)
  Definition idem (a : item) : Prop := forall s, steq (exec a (exec a s)) (exec a s).

  Lemma run_idem : forall C, topo C -> single_driver C -> (forall a, In a C -> idem a) ->
                              forall s, steq (frun C (frun C s)) (frun C s).
  Proof.
    intros C T SD I s x.
    destruct (in_dec_N x (writes_all C)) as [i|n]; [|rewrite !run_frame_write by exact n; reflexivity].
    (* generalise: running C from any fstate that agrees with [frun C s] on what C reads or writes
       reproduces [frun C s] on the written variables *)
    revert s x i.
    induction C as [|a C IH]; intros s x Hx; simpl in *; [contradiction|].
    set (t := frun C (exec a s)).
    assert (Ha : forall y, In y (writes a) -> t y = exec a s y).
    { intros y Hy. unfold t. apply run_frame_write. intro Hc.
      apply in_writes_all in Hc. destruct Hc as (b & Hb & Hyb).
      exact (single_driver_head a C b SD Hb y Hy Hyb). }
    assert (Hr : forall y, In y (reads a) -> t y = exec a s y).
    { intros y Hy. unfold t. apply run_frame_write. intro Hc.
      apply in_writes_all in Hc. destruct Hc as (b & Hb & Hyb).
      exact (T [] a C eq_refl b Hb y Hyb Hy). }
    (* exec a t agrees with t on writes a, and equals t elsewhere *)
    assert (E : steq (exec a t) t).
    { intro y. destruct (in_dec_N y (writes a)) as [iy|ny].
      - rewrite (frame_read a t (exec a s)) by (exact Hr || exact iy).
        rewrite I by (left; reflexivity). symmetry. apply Ha, iy.
      - apply frame_write, ny. }
    rewrite (run_seq C _ _ E x).
    destruct (in_dec_N x (writes_all C)) as [ic|nc].
    - unfold t. apply (IH (topo_tail _ _ T) (single_driver_tail _ _ SD)
                         (fun b Hb => I b (or_intror Hb)) (exec a s) x ic).
    - apply run_frame_write, nc.
  Qed.
End Frame.
