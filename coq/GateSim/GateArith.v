(* GateSim.GateArith — correctness of the arithmetic / restructuring building blocks the synthesizer
   emits, for ALL widths / lengths (induction, no bounds):

     ripple_add_correct     ripple-carry adder (arith::ripple_add_core)  = a + b + cin  (mod 2^n)
     ks_add_is_ripple       Kogge-Stone prefix adder (arith::kogge_stone_add) = ripple adder
     sklansky_is_scan       prefix::sklansky network = linear scan, for any associative op
     tree_eval_perm         balance.rs: any tree over the same leaf multiset computes the same value
     mux_tree_decodes       arith::dynamic_mux_tree selects element number (sel) ; mux_chain_first
     rebuilt_count_correct  counter.rs: seed + popcount(conds) = serial conditional increments
     absorb_*               prefix::absorb_complement Boolean identities                          *)
From Coq Require Import List NArith PArith Bool Permutation Lia Arith.
From VV Require Import GateSim.GeneratedCells GateSim.GateModel.
Import ListNotations.
Open Scope bool_scope.

Definition b2n (b : bool) : N := if b then 1%N else 0%N.

(* ------------------------------------------------------------------ ripple-carry adder *)
Fixpoint ripple_cout (a b : list bool) (cin : bool) : bool :=
  match a, b with
  | x :: a', y :: b' => ripple_cout a' b' (snd (full_adder x y cin))
  | _, _ => cin
  end.

Lemma full_adder_spec : forall a b c,
  (b2n (fst (full_adder a b c)) + 2 * b2n (snd (full_adder a b c)) = b2n a + b2n b + b2n c)%N.
Proof. destruct a, b, c; reflexivity. Qed.

Lemma ripple_add_length : forall a b cin, length a = length b -> length (ripple_add a b cin) = length a.
Proof.
  induction a as [|x a IH]; destruct b as [|y b]; intros cin Hl; try discriminate; [reflexivity|].
  simpl in Hl. injection Hl as Hl. cbn [ripple_add].
  destruct (full_adder x y cin) as [s c]. cbn [length]. f_equal. apply IH. exact Hl.
Qed.

Lemma ripple_add_exact : forall a b cin, length a = length b ->
  (bits_to_N (ripple_add a b cin) + 2 ^ N.of_nat (length a) * b2n (ripple_cout a b cin)
   = bits_to_N a + bits_to_N b + b2n cin)%N.
Proof.
  induction a as [|x a IH]; destruct b as [|y b]; intros cin Hl; try discriminate.
  - cbn [ripple_add ripple_cout bits_to_N length]. change (N.of_nat 0) with 0%N.
    rewrite N.pow_0_r. lia.
  - simpl in Hl. injection Hl as Hl.
    pose proof (full_adder_spec x y cin) as FA.
    cbn [ripple_add ripple_cout].
    destruct (full_adder x y cin) as [s c] eqn:E. cbn [fst snd] in *.
    specialize (IH b c Hl).
    change (length (x :: a)) with (S (length a)).
    rewrite Nat2N.inj_succ, N.pow_succ_r'.
    cbn [bits_to_N].
    fold (b2n s). fold (b2n x). fold (b2n y).
    lia.
Qed.

Lemma bits_to_N_bound : forall l, (bits_to_N l < 2 ^ N.of_nat (length l))%N.
Proof.
  induction l as [|b l IH]; simpl length.
  - simpl. lia.
  - rewrite Nat2N.inj_succ, N.pow_succ_r'. cbn [bits_to_N]. destruct b; lia.
Qed.

(* the sum bits are a + b + cin modulo 2^width, for every width *)
Theorem ripple_add_correct : forall a b cin, length a = length b ->
  bits_to_N (ripple_add a b cin) = ((bits_to_N a + bits_to_N b + b2n cin) mod 2 ^ N.of_nat (length a))%N.
Proof.
  intros a b cin Hl.
  pose proof (ripple_add_exact a b cin Hl) as E.
  pose proof (bits_to_N_bound (ripple_add a b cin)) as B.
  rewrite ripple_add_length in B by auto.
  rewrite <- E.
  rewrite N.mul_comm, N.mod_add by (apply N.pow_nonzero; lia).
  symmetry. apply N.mod_small. exact B.
Qed.

(* ------------------------------------------------------------------ Kogge-Stone = ripple *)
Definition pg0 : pg := (false, false).
Definition pg_apply (x : pg) (c : bool) : bool := cell_fn Or2 [snd x; cell_fn And2 [fst x; c]].

Lemma pg_comb_assoc : forall x y z, pg_comb x (pg_comb y z) = pg_comb (pg_comb x y) z.
Proof. intros [[] []] [[] []] [[] []]; reflexivity. Qed.

Lemma pg_apply_comb : forall x y c, pg_apply (pg_comb x y) c = pg_apply x (pg_apply y c).
Proof. intros [[] []] [[] []] []; reflexivity. Qed.

Lemma full_adder_pg : forall a b c,
  full_adder a b c = (cell_fn Xor2 [fst (pg_seed a b); c], pg_apply (pg_seed a b) c).
Proof. destruct a, b, c; reflexivity. Qed.

Section KS.
  Variable s : nat -> pg.        (* seeds, by bit position *)

  (* window of k+1 seeds ending (most significant) at i:  s i o s (i-1) o ... o s (i-k) *)
  Fixpoint win (i k : nat) : pg :=
    match k with
    | O => s i
    | S k' => pg_comb (s i) (win (i - 1) k')
    end.

  Lemma win_concat : forall a i b, win i (a + b + 1) = pg_comb (win i a) (win (i - a - 1) b).
  Proof.
    induction a as [|a IH]; intros i b.
    - simpl. replace (b + 1) with (S b) by lia. simpl. rewrite Nat.sub_0_r. reflexivity.
    - replace (S a + b + 1) with (S (a + b + 1)) by lia. simpl.
      rewrite IH. rewrite pg_comb_assoc.
      replace (i - 1 - a - 1) with (i - S a - 1) by lia. reflexivity.
  Qed.

  (* ripple carry into position i *)
  Fixpoint rc (cin : bool) (i : nat) : bool :=
    match i with
    | O => cin
    | S j => pg_apply (s j) (rc cin j)
    end.

  Lemma rc_win : forall cin j, rc cin (S j) = pg_apply (win j j) cin.
  Proof.
    induction j as [|j IH].
    - reflexivity.
    - change (rc cin (S (S j))) with (pg_apply (s (S j)) (rc cin (S j))).
      rewrite IH. simpl win. rewrite pg_apply_comb. rewrite Nat.sub_0_r. reflexivity.
  Qed.
End KS.

Lemma nth_map_seq : forall (A : Type) (f : nat -> A) n i d, i < n -> nth i (map f (seq 0 n)) d = f i.
Proof.
  intros. rewrite (nth_indep _ d (f 0)) by (rewrite map_length, seq_length; auto).
  rewrite (map_nth f (seq 0 n) 0 i). rewrite seq_nth by auto. reflexivity.
Qed.

Lemma ks_stage_length : forall d x, length (ks_stage d x) = length x.
Proof. intros. unfold ks_stage. rewrite map_length, seq_length. reflexivity. Qed.

Definition ks_inv (s : nat -> pg) (n d : nat) (x : list pg) : Prop :=
  length x = n /\ forall i, i < n -> nth i x pg0 = win s i (Nat.min (d - 1) i).

Lemma ks_stage_inv : forall s n d x, 1 <= d -> ks_inv s n d x -> ks_inv s n (d * 2) (ks_stage d x).
Proof.
  intros s n d x Hd [Hl Hi]. split.
  - rewrite ks_stage_length. exact Hl.
  - intros i Hin. unfold ks_stage. rewrite Hl.
    rewrite nth_map_seq by auto.
    destruct (Nat.leb_spec d i) as [Hle|Hgt].
    + fold pg0. rewrite (Hi i Hin), (Hi (i - d)) by lia.
      replace (Nat.min (d - 1) i) with (d - 1) by lia.
      replace (Nat.min (d * 2 - 1) i) with ((d - 1) + Nat.min (d - 1) (i - d) + 1) by lia.
      rewrite win_concat. replace (i - (d - 1) - 1) with (i - d) by lia. reflexivity.
    + fold pg0. rewrite (Hi i Hin). f_equal. lia.
Qed.

Lemma ks_stages_inv : forall s n fuel d x,
  1 <= d -> ks_inv s n d x -> n <= d * 2 ^ fuel ->
  ks_inv s n n (ks_stages fuel d x) /\ (forall i, i < n -> nth i (ks_stages fuel d x) pg0 = win s i i).
Proof.
  intros s n. induction fuel as [|f IH]; intros d x Hd Hinv Hn.
  - simpl in *. assert (n <= d) by lia.
    destruct Hinv as [Hl Hi].
    split; [split; auto|].
    + intros i Hin. rewrite (Hi i Hin). f_equal. lia.
    + intros i Hin. rewrite (Hi i Hin). f_equal. lia.
  - simpl ks_stages. destruct Hinv as [Hl Hi]. rewrite Hl.
    destruct (Nat.ltb_spec d n) as [Hlt|Hge].
    + apply IH; [lia| apply ks_stage_inv; auto; split; auto |].
      simpl in Hn. lia.
    + split; [split; auto|].
      * intros i Hin. rewrite (Hi i Hin). f_equal. lia.
      * intros i Hin. rewrite (Hi i Hin). f_equal. lia.
Qed.

Definition seeds_of (a b : list bool) : list pg := map (fun ab => pg_seed (fst ab) (snd ab)) (combine a b).
Definition seedf (a b : list bool) (i : nat) : pg := nth i (seeds_of a b) pg0.

Lemma seeds_length : forall a b, length a = length b -> length (seeds_of a b) = length a.
Proof. intros. unfold seeds_of. rewrite map_length, combine_length. lia. Qed.

Lemma rc_shift : forall x y a b cin i,
  rc (seedf (x :: a) (y :: b)) cin (S i) = rc (seedf a b) (pg_apply (pg_seed x y) cin) i.
Proof.
  induction i as [|i IH].
  - reflexivity.
  - change (rc (seedf (x :: a) (y :: b)) cin (S (S i)))
      with (pg_apply (seedf (x :: a) (y :: b) (S i)) (rc (seedf (x :: a) (y :: b)) cin (S i))).
    rewrite IH. reflexivity.
Qed.

(* the ripple adder, bit by bit: sum_i = p_i xor carry_i *)
Lemma ripple_add_nth : forall a b cin, length a = length b ->
  ripple_add a b cin =
  map (fun i => cell_fn Xor2 [fst (seedf a b i); rc (seedf a b) cin i]) (seq 0 (length a)).
Proof.
  induction a as [|x a IH]; destruct b as [|y b]; intros cin Hl; try discriminate.
  - reflexivity.
  - simpl in Hl. injection Hl as Hl.
    cbn [ripple_add]. rewrite full_adder_pg. cbv beta iota.
    cbn [length]. rewrite <- cons_seq, <- seq_shift, map_cons, map_map.
    f_equal.
    rewrite IH by auto. apply map_ext. intros i.
    rewrite rc_shift. reflexivity.
Qed.

(* Kogge-Stone prefix adder = ripple-carry adder, for every width *)
Theorem ks_add_is_ripple : forall a b cin, length a = length b ->
  ks_add a b cin = ripple_add a b cin.
Proof.
  intros a b cin Hl.
  rewrite ripple_add_nth by auto.
  unfold ks_add. fold (seeds_of a b).
  rewrite seeds_length by auto.
  set (n := length a).
  assert (Hinv : ks_inv (seedf a b) n 1 (seeds_of a b)).
  { split; [apply seeds_length; auto|]. intros i Hi. reflexivity. }
  destruct (ks_stages_inv (seedf a b) n n 1 (seeds_of a b)) as [_ Hfin]; auto.
  { pose proof (Nat.pow_gt_lin_r 2 n). lia. }
  apply map_ext_in. intros i Hi. apply in_seq in Hi.
  fold pg0. fold (seedf a b i).
  destruct i as [|j].
  - reflexivity.
  - rewrite (Hfin j) by lia. rewrite rc_win. reflexivity.
Qed.

Corollary ks_add_correct : forall a b cin, length a = length b ->
  bits_to_N (ks_add a b cin) = ((bits_to_N a + bits_to_N b + b2n cin) mod 2 ^ N.of_nat (length a))%N.
Proof. intros. rewrite ks_add_is_ripple by auto. apply ripple_add_correct; auto. Qed.

(* ------------------------------------------------------------------ Sklansky network = linear scan *)
Section ScanProofs.
  Variable A : Type.
  Variable op : A -> A -> A.
  Hypothesis op_assoc : forall x y z, op x (op y z) = op (op x y) z.

  Lemma scan_from_app : forall l1 l2 acc,
    scan_from op acc (l1 ++ l2) = scan_from op acc l1 ++ scan_from op (fold_left op l1 acc) l2.
  Proof. induction l1; simpl; intros; auto. rewrite IHl1. reflexivity. Qed.

  Lemma scan_from_op : forall r c x, scan_from op (op c x) r = map (op c) (scan_from op x r).
  Proof.
    induction r as [|y r IH]; simpl; intros; auto.
    rewrite <- op_assoc. rewrite IH. reflexivity.
  Qed.

  Lemma scan_from_last : forall l acc d, last (acc :: scan_from op acc l) d = fold_left op l acc.
  Proof.
    induction l as [|x r IH]; intros; [reflexivity|].
    change (scan_from op acc (x :: r)) with (op acc x :: scan_from op (op acc x) r).
    change (last (acc :: op acc x :: scan_from op (op acc x) r) d)
      with (last (op acc x :: scan_from op (op acc x) r) d).
    rewrite IH. reflexivity.
  Qed.

  Lemma rev_head_last : forall (l : list A) d, match rev l with [] => d | c :: _ => c end = last l d.
  Proof.
    intros l d. destruct l as [|x r] using rev_ind; [reflexivity|].
    rewrite rev_app_distr. simpl. rewrite last_last. reflexivity.
  Qed.

  Lemma scan_app : forall x l1 y l2,
    scan op ((x :: l1) ++ (y :: l2)) =
    scan op (x :: l1) ++ map (op (fold_left op l1 x)) (scan op (y :: l2)).
  Proof.
    intros. simpl. f_equal. rewrite scan_from_app. f_equal.
    simpl. f_equal. apply scan_from_op.
  Qed.

  Lemma div2_bounds : forall n, 2 <= n -> 1 <= Nat.div2 n /\ Nat.div2 n < n.
  Proof.
    intros n H. destruct n as [|[|n]]; try lia. simpl.
    assert (Nat.div2 n <= n) by (apply Nat.div2_decr; lia). split; lia.
  Qed.

  Theorem sklansky_is_scan : forall fuel l, length l <= fuel -> sklansky op fuel l = scan op l.
  Proof.
    induction fuel as [|f IH]; intros l Hl.
    - destruct l; [reflexivity | simpl in Hl; lia].
    - destruct l as [|x [|y r]]; [reflexivity | reflexivity |].
      set (l := x :: y :: r) in *.
      change (sklansky op (S f) l) with
        (let half := Nat.div2 (length l) in
         let left := sklansky op f (firstn half l) in
         let right := sklansky op f (skipn half l) in
         match rev left with [] => right | carry :: _ => left ++ map (op carry) right end).
      cbv zeta.
      destruct (div2_bounds (length l)) as [Hh1 Hh2]; [simpl; lia|].
      set (half := Nat.div2 (length l)) in *.
      assert (Hf : length (firstn half l) = half) by (apply firstn_length_le; lia).
      assert (Hs : length (skipn half l) = length l - half) by apply skipn_length.
      rewrite !IH by lia.
      destruct (firstn half l) as [|a l1] eqn:E1; [simpl in Hf; lia|].
      destruct (skipn half l) as [|b l2] eqn:E2; [exfalso; change (length (@nil A)) with 0 in Hs; lia|].
      pose proof (rev_head_last (scan op (a :: l1)) a) as RH.
      destruct (rev (scan op (a :: l1))) as [|carry rest] eqn:ER.
      + exfalso. apply (f_equal (@length A)) in ER. rewrite rev_length in ER. simpl in ER. lia.
      + rewrite RH. change (scan op (a :: l1)) with (a :: scan_from op a l1) at 2.
        rewrite scan_from_last.
        rewrite <- scan_app. rewrite <- E1, <- E2, firstn_skipn. reflexivity.
  Qed.
End ScanProofs.

(* ------------------------------------------------------------------ balance.rs: re-association *)
Section Balance.
  Variable A : Type.
  Variable op : A -> A -> A.
  Variable u : A.
  Hypothesis op_assoc : forall x y z, op x (op y z) = op (op x y) z.
  Hypothesis op_comm : forall x y, op x y = op y x.
  Hypothesis op_unit : forall x, op u x = x.

  Lemma fold_right_app_op : forall l1 l2,
    fold_right op u (l1 ++ l2) = op (fold_right op u l1) (fold_right op u l2).
  Proof.
    induction l1; simpl; intros.
    - rewrite op_unit. reflexivity.
    - rewrite IHl1. apply op_assoc.
  Qed.

  Lemma tree_eval_leaves : forall t, tree_eval op t = fold_right op u (leaves t).
  Proof.
    induction t; simpl.
    - rewrite op_comm, op_unit. reflexivity.
    - rewrite fold_right_app_op, IHt1, IHt2. reflexivity.
  Qed.

  Lemma fold_right_perm : forall l1 l2, Permutation l1 l2 -> fold_right op u l1 = fold_right op u l2.
  Proof.
    induction 1; simpl; auto.
    - rewrite IHPermutation. reflexivity.
    - rewrite !op_assoc. rewrite (op_comm y x). reflexivity.
    - congruence.
  Qed.

  Theorem tree_eval_perm : forall t1 t2,
    Permutation (leaves t1) (leaves t2) -> tree_eval op t1 = tree_eval op t2.
  Proof. intros. rewrite !tree_eval_leaves. apply fold_right_perm. auto. Qed.
End Balance.

Definition and2 (a b : bool) := cell_fn And2 [a; b].
Definition or2 (a b : bool) := cell_fn Or2 [a; b].
Definition xor2 (a b : bool) := cell_fn Xor2 [a; b].

(* is_assoc kinds of balance.rs / prefix.rs: And2, Or2, Xor2 *)
Theorem balance_preserves_and : forall t1 t2 : tree bool,
  Permutation (leaves t1) (leaves t2) -> tree_eval and2 t1 = tree_eval and2 t2.
Proof. apply (tree_eval_perm bool and2 true); intros; destruct x; try destruct y; try destruct z; reflexivity. Qed.
Theorem balance_preserves_or : forall t1 t2 : tree bool,
  Permutation (leaves t1) (leaves t2) -> tree_eval or2 t1 = tree_eval or2 t2.
Proof. apply (tree_eval_perm bool or2 false); intros; destruct x; try destruct y; try destruct z; reflexivity. Qed.
Theorem balance_preserves_xor : forall t1 t2 : tree bool,
  Permutation (leaves t1) (leaves t2) -> tree_eval xor2 t1 = tree_eval xor2 t2.
Proof. apply (tree_eval_perm bool xor2 false); intros; destruct x; try destruct y; try destruct z; reflexivity. Qed.

Theorem sklansky_and : forall l, sklansky and2 (length l) l = scan and2 l.
Proof. intros. apply sklansky_is_scan; auto. intros [] [] []; reflexivity. Qed.
Theorem sklansky_or : forall l, sklansky or2 (length l) l = scan or2 l.
Proof. intros. apply sklansky_is_scan; auto. intros [] [] []; reflexivity. Qed.
Theorem sklansky_xor : forall l, sklansky xor2 (length l) l = scan xor2 l.
Proof. intros. apply sklansky_is_scan; auto. intros [] [] []; reflexivity. Qed.

(* ------------------------------------------------------------------ mux decoding *)
Lemma mux_pairs_nth : forall s l j,
  nthb (mux_pairs s l) j = nthb l (2 * j + (if s then 1 else 0)).
Proof.
  intros s l.
  assert (G : forall n l, length l <= n -> forall j,
             nthb (mux_pairs s l) j = nthb l (2 * j + (if s then 1 else 0))).
  { induction n as [|n IH]; intros l0 Hl j.
    - destruct l0; [|simpl in Hl; lia]. unfold nthb. simpl. destruct j, s; reflexivity.
    - destruct l0 as [|x [|y r]].
      + unfold nthb. simpl. destruct j, s; reflexivity.
      + unfold nthb. destruct j as [|j].
        * destruct s; reflexivity.
        * simpl. destruct s, j; reflexivity.
      + destruct j as [|j].
        * unfold nthb. destruct s; reflexivity.
        * change (mux_pairs s (x :: y :: r)) with (cell_fn Mux2 [s; x; y] :: mux_pairs s r).
          change (nthb (cell_fn Mux2 [s; x; y] :: mux_pairs s r) (S j)) with (nthb (mux_pairs s r) j).
          rewrite IH by (simpl in Hl; lia). unfold nthb.
          replace (2 * S j + (if s then 1 else 0)) with (S (S (2 * j + (if s then 1 else 0)))) by lia.
          reflexivity. }
  apply (G (length l)). lia.
Qed.

(* the log-stage mux tree returns element number (sel) — out-of-range selects read the 0 padding *)
Theorem mux_tree_decodes : forall sel l,
  nthb (mux_tree sel l) 0 = nthb l (N.to_nat (bits_to_N sel)).
Proof.
  assert (G : forall sel l j, nthb (mux_tree sel l) j =
                              nthb l (j * 2 ^ length sel + N.to_nat (bits_to_N sel))).
  { induction sel as [|s sr IH]; intros l j.
    - simpl. f_equal. lia.
    - simpl mux_tree. rewrite IH, mux_pairs_nth. f_equal.
      cbn [bits_to_N length]. rewrite Nat.pow_succ_r'.
      rewrite N2Nat.inj_add, N2Nat.inj_mul. destruct s; simpl N.to_nat; lia. }
  intros. rewrite G. f_equal.
Qed.

(* if / else-if / case priority chains: the first arm whose condition holds decides *)
Theorem mux_chain_first : forall arms d,
  mux_chain arms d = match find (fun a => fst a) arms with Some a => snd a | None => d end.
Proof.
  induction arms as [|[c v] r IH]; intros; [reflexivity|].
  simpl. rewrite IH. destruct c; reflexivity.
Qed.

(* ------------------------------------------------------------------ counter.rs: popcount rebuild *)
Lemma popcount_cons : forall c l, popcount (c :: l) = (b2n c + popcount l)%N.
Proof.
  intros. unfold popcount. simpl.
  assert (G : forall l a, fold_left (fun a (c : bool) => if c then N.succ a else a) l a
                          = (a + fold_left (fun a (c : bool) => if c then N.succ a else a) l 0)%N).
  { induction l0 as [|x r IH]; intros a; cbn [fold_left]; [lia|].
    destruct x.
    - rewrite (IH (N.succ a)), (IH (N.succ 0)). lia.
    - apply IH. }
  destruct c; cbn [b2n]; [rewrite G|]; lia.
Qed.

Theorem rebuilt_count_correct : forall w conds seed, (seed < 2 ^ w)%N ->
  serial_count w seed conds = rebuilt_count w seed conds.
Proof.
  intros w. assert (Hnz : (2 ^ w <> 0)%N) by (apply N.pow_nonzero; lia).
  induction conds as [|c r IH]; intros seed Hs.
  - unfold serial_count, rebuilt_count, popcount. simpl. rewrite N.add_0_r, N.mod_small; auto.
  - unfold serial_count. simpl fold_left. fold (serial_count w (cond_inc w seed c) r).
    rewrite IH.
    + unfold rebuilt_count. rewrite popcount_cons. unfold cond_inc. destruct c; simpl b2n.
      * rewrite N.add_mod_idemp_l by auto. f_equal. lia.
      * f_equal.
    + unfold cond_inc. destruct c; auto. apply N.mod_lt; auto.
Qed.

(* ------------------------------------------------------------------ absorb_complement identities *)
Lemma absorb_or_and : forall a b, or2 a (and2 a b) = a.
Proof. destruct a, b; reflexivity. Qed.
Lemma absorb_and_or : forall a b, and2 a (or2 a b) = a.
Proof. destruct a, b; reflexivity. Qed.
Lemma absorb_or_notand : forall a b, or2 a (and2 (cell_fn Not [a]) b) = or2 a b.
Proof. destruct a, b; reflexivity. Qed.
Lemma absorb_and_notor : forall a b, and2 a (or2 (cell_fn Not [a]) b) = and2 a b.
Proof. destruct a, b; reflexivity. Qed.

(* ------------------------------------------------------------------ packaged statements for Props/C19.v *)
Theorem sklansky_is_scan_len :
  forall (A : Type) (op : A -> A -> A), (forall x y z, op x (op y z) = op (op x y) z) ->
  forall l, sklansky op (length l) l = scan op l.
Proof. intros A op H l. apply sklansky_is_scan; auto. Qed.

Theorem sklansky_cells :
  (forall l, sklansky and2 (length l) l = scan and2 l) /\
  (forall l, sklansky or2 (length l) l = scan or2 l) /\
  (forall l, sklansky xor2 (length l) l = scan xor2 l).
Proof. exact (conj sklansky_and (conj sklansky_or sklansky_xor)). Qed.

Theorem balance_preserves :
  (forall t1 t2 : tree bool, Permutation (leaves t1) (leaves t2) -> tree_eval and2 t1 = tree_eval and2 t2) /\
  (forall t1 t2 : tree bool, Permutation (leaves t1) (leaves t2) -> tree_eval or2 t1 = tree_eval or2 t2) /\
  (forall t1 t2 : tree bool, Permutation (leaves t1) (leaves t2) -> tree_eval xor2 t1 = tree_eval xor2 t2).
Proof. exact (conj balance_preserves_and (conj balance_preserves_or balance_preserves_xor)). Qed.

Lemma adder_example :
  ks_add [true; false; true; true; false] [true; true; false; true; false] true
  = [true; false; false; true; true]
  /\ bits_to_N [true; false; false; true; true] = ((13 + 11 + 1) mod 2 ^ 5)%N.
Proof. split; reflexivity. Qed.

Lemma count_example : (5 < 2 ^ 3)%N /\ serial_count 3 5 [true; true; false; true; true] = 1%N.
Proof. split; reflexivity. Qed.

Lemma balance_example :
  Permutation (leaves (Node (Node (Leaf true) (Leaf false)) (Leaf true)))
              (leaves (Node (Leaf false) (Node (Leaf true) (Leaf true)))).
Proof. simpl. apply perm_swap. Qed.
