(* GateSim.GateProofs — proofs about the gate-level semantics of GateModel.v.

   1. cell functions = documented formulas (finite truth tables)
   2. evaluation computes THE solution of the netlist equations; hence evaluation-order irrelevance
      (any two topological orders of the same node set give the same value on every net, the same
      outputs and the same next state); check_netlist is a sound decision procedure for topo_ok
   3. (GateArith.v) adders, prefix networks, re-association, mux decoding, count rebuild            *)
From Coq Require Import List NArith PArith Bool FMapPositive Permutation Lia.
From VV Require Import GateSim.GeneratedCells GateSim.GateModel.
Import ListNotations.
Open Scope bool_scope.

(* ------------------------------------------------------------------ 1. cells *)
Lemma cell_fn_matches_doc :
  forall k a b c d, cell_fn k (firstn (arity k) [a; b; c; d]) = doc_formula k a b c d.
Proof. destruct k, a, b, c, d; reflexivity. Qed.

Lemma doc_vars_is_arity : forall k, doc_vars k = arity k.
Proof. destruct k; reflexivity. Qed.

(* inputs beyond the arity are never looked at *)
Lemma cell_fn_arity_irrelevant :
  forall k x, cell_fn k x = cell_fn k (firstn (arity k) x).
Proof.
  intros k x.
  destruct x as [|a [|b [|c [|d r]]]]; destruct k; reflexivity.
Qed.

(* complete truth tables, row index = A + 2B + 4C + 8D *)
Definition truth_table (k : cell_kind) : list bool :=
  map (fun i => cell_fn k (firstn (arity k) [N.testbit i 0; N.testbit i 1; N.testbit i 2; N.testbit i 3]))
      (map N.of_nat (seq 0 (Nat.pow 2 (arity k)))).

Lemma truth_tables :
  map truth_table all_kinds =
  map (fun k => map (fun i => doc_formula k (N.testbit i 0) (N.testbit i 1) (N.testbit i 2) (N.testbit i 3))
                    (map N.of_nat (seq 0 (Nat.pow 2 (arity k))))) all_kinds.
Proof. vm_compute. reflexivity. Qed.

(* ------------------------------------------------------------------ valuations *)
Lemma key_inj : forall a b, key a = key b -> a = b.
Proof.
  unfold key. intros a b H.
  apply (f_equal Pos.pred_N) in H. rewrite !N.pos_pred_succ in H. exact H.
Qed.

Lemma get_set_same : forall e n b, get (set e n b) n = b.
Proof. intros. unfold get, set. rewrite PositiveMap.gss. reflexivity. Qed.

Lemma get_set_other : forall e n m b, n <> m -> get (set e n b) m = get e m.
Proof.
  intros. unfold get, set. rewrite PositiveMap.gso; auto.
  intro K. apply H. symmetry. apply key_inj. exact K.
Qed.

Lemma get_set : forall e n m b, get (set e n b) m = if N.eqb n m then b else get e m.
Proof.
  intros. destruct (N.eqb_spec n m).
  - subst. apply get_set_same.
  - apply get_set_other; auto.
Qed.

Definition agree_on (l : list net) (e1 e2 : env) : Prop :=
  forall n, In n l -> get e1 n = get e2 n.

Lemma map_get_agree : forall l e1 e2, agree_on l e1 e2 -> map (get e1) l = map (get e2) l.
Proof. intros. apply map_ext_in. exact H. Qed.

(* ------------------------------------------------------------------ one node *)
Lemma read_word_frame : forall m base data i e n,
  ~ In n data -> get (read_word m base i data e) n = get e n.
Proof.
  induction data as [|x r IH]; simpl; intros; auto.
  rewrite IH by tauto. apply get_set_other. tauto.
Qed.

Lemma zero_word_frame : forall data e n, ~ In n data -> get (zero_word data e) n = get e n.
Proof.
  induction data as [|x r IH]; simpl; intros; auto.
  rewrite IH by tauto. apply get_set_other. tauto.
Qed.

Lemma read_word_indep : forall m base data i e1 e2 n,
  In n data -> get (read_word m base i data e1) n = get (read_word m base i data e2) n.
Proof.
  induction data as [|x r IH]; simpl; intros; [tauto|].
  destruct (in_dec N.eq_dec n r) as [Hin|Hnin].
  - apply IH; auto.
  - destruct H as [->|]; [|tauto].
    rewrite !read_word_frame by auto. rewrite !get_set_same. reflexivity.
Qed.

Lemma zero_word_indep : forall data e1 e2 n,
  In n data -> get (zero_word data e1) n = get (zero_word data e2) n.
Proof.
  induction data as [|x r IH]; simpl; intros; [tauto|].
  destruct (in_dec N.eq_dec n r) as [Hin|Hnin].
  - apply IH; auto.
  - destruct H as [->|]; [|tauto].
    rewrite !zero_word_frame by auto. rewrite !get_set_same. reflexivity.
Qed.

(* a node only writes its outputs ... *)
Lemma node_eval_frame : forall ms nd e n,
  ~ In n (node_outs nd) -> get (node_eval ms nd e) n = get e n.
Proof.
  intros ms [c | i d w rp] e n H; simpl in *.
  - apply get_set_other. tauto.
  - destruct (_ <? _)%N; [apply read_word_frame | apply zero_word_frame]; auto.
Qed.

(* ... and what it writes depends only on its inputs *)
Lemma node_eval_dep : forall ms nd e1 e2,
  agree_on (node_ins nd) e1 e2 ->
  forall n, In n (node_outs nd) -> get (node_eval ms nd e1) n = get (node_eval ms nd e2) n.
Proof.
  intros ms [c | i d w rp] e1 e2 H n Hn; simpl in *.
  - destruct Hn as [<-|[]]. rewrite !get_set_same. rewrite (map_get_agree _ _ _ H). reflexivity.
  - rewrite (map_get_agree _ _ _ H).
    destruct (_ <? _)%N; [apply read_word_indep | apply zero_word_indep]; auto.
Qed.

(* ------------------------------------------------------------------ 2. topological orders *)
Definition outs_of (l : list node) : list net := flat_map node_outs l.

(* the list order is topological and no net has two combinational drivers *)
Inductive topo_ok : list node -> Prop :=
| topo_nil : topo_ok []
| topo_cons : forall nd r,
    topo_ok r ->
    (forall n, In n (node_ins nd) -> ~ In n (node_outs nd) /\ ~ In n (outs_of r)) ->
    (forall n, In n (node_outs nd) -> ~ In n (outs_of r)) ->
    topo_ok (nd :: r).

(* e solves the netlist equations over base valuation e0 *)
Definition is_sol (ms : list mem) (nodes : list node) (e0 e : env) : Prop :=
  (forall n, ~ In n (outs_of nodes) -> get e n = get e0 n) /\
  (forall nd, In nd nodes -> forall n, In n (node_outs nd) -> get e n = get (node_eval ms nd e) n).

Lemma gate_eval_frame : forall ms l e n, ~ In n (outs_of l) -> get (gate_eval ms l e) n = get e n.
Proof.
  induction l as [|nd r IH]; simpl; intros; auto.
  rewrite in_app_iff in H.
  rewrite IH by tauto. apply node_eval_frame. tauto.
Qed.

Lemma eval_is_sol : forall ms l e0, topo_ok l -> is_sol ms l e0 (gate_eval ms l e0).
Proof.
  intros ms l. induction l as [|nd r IH]; intros e0 Ht.
  - split; simpl; intros; tauto.
  - inversion Ht as [|nd' r' Hr Hins Houts]; subst.
    specialize (IH (node_eval ms nd e0) Hr). destruct IH as [IHf IHs].
    split.
    + intros n Hn. exact (gate_eval_frame ms (nd :: r) e0 n Hn).
    + intros nd0 [<-|Hin] n Hn.
      * simpl.
        rewrite gate_eval_frame by (apply Houts; auto).
        apply node_eval_dep; auto.
        intros i Hi. destruct (Hins i Hi) as [H1 H2].
        rewrite gate_eval_frame by auto.
        symmetry. apply node_eval_frame. auto.
      * simpl. apply IHs; auto.
Qed.

Lemma sol_unique_gen : forall ms l, topo_ok l -> forall e1 e2,
  (forall n, ~ In n (outs_of l) -> get e1 n = get e2 n) ->
  (forall nd, In nd l -> forall n, In n (node_outs nd) -> get e1 n = get (node_eval ms nd e1) n) ->
  (forall nd, In nd l -> forall n, In n (node_outs nd) -> get e2 n = get (node_eval ms nd e2) n) ->
  forall n, get e1 n = get e2 n.
Proof.
  intros ms l Ht. induction Ht as [|nd r Hr IH Hins Houts]; intros e1 e2 Hb H1 H2 n.
  - apply Hb. simpl. tauto.
  - assert (Hnd : forall m, In m (node_outs nd) -> get e1 m = get e2 m).
    { intros m Hm. rewrite (H1 nd (or_introl eq_refl) m Hm), (H2 nd (or_introl eq_refl) m Hm).
      apply node_eval_dep; auto.
      intros i Hi. apply Hb. simpl. rewrite in_app_iff. destruct (Hins i Hi). tauto. }
    apply IH.
    + intros m Hm. destruct (in_dec N.eq_dec m (node_outs nd)) as [Hi|Hni].
      * apply Hnd; auto.
      * apply Hb. simpl. rewrite in_app_iff. tauto.
    + intros nd0 Hin. apply H1. right; auto.
    + intros nd0 Hin. apply H2. right; auto.
Qed.

Lemma sol_unique : forall ms l e0 e1 e2,
  topo_ok l -> is_sol ms l e0 e1 -> is_sol ms l e0 e2 -> forall n, get e1 n = get e2 n.
Proof.
  intros ms l e0 e1 e2 Ht [F1 S1] [F2 S2].
  apply (sol_unique_gen ms l Ht); auto.
  intros n Hn. rewrite F1, F2; auto.
Qed.

Lemma outs_of_perm : forall l1 l2, Permutation l1 l2 -> forall n, In n (outs_of l1) <-> In n (outs_of l2).
Proof.
  intros l1 l2 HP n. unfold outs_of. rewrite !in_flat_map.
  split; intros [x [Hx Hn]]; exists x; split; auto.
  - eapply Permutation_in; eauto.
  - eapply Permutation_in; [apply Permutation_sym|]; eauto.
Qed.

Lemma is_sol_perm : forall ms l1 l2 e0 e, Permutation l1 l2 -> is_sol ms l1 e0 e -> is_sol ms l2 e0 e.
Proof.
  intros ms l1 l2 e0 e HP [F S]. split.
  - intros n Hn. apply F. rewrite (outs_of_perm _ _ HP). exact Hn.
  - intros nd Hin. apply S. eapply Permutation_in; [apply Permutation_sym|]; eauto.
Qed.

(* Evaluation-order irrelevance: two topological orders of the same nodes agree on every net. *)
Theorem eval_order_irrelevant : forall ms l1 l2 e0,
  Permutation l1 l2 -> topo_ok l1 -> topo_ok l2 ->
  forall n, get (gate_eval ms l1 e0) n = get (gate_eval ms l2 e0) n.
Proof.
  intros ms l1 l2 e0 HP H1 H2.
  apply (sol_unique ms l1 e0); auto.
  - apply eval_is_sol; auto.
  - apply (is_sol_perm ms l2 l1); [apply Permutation_sym; auto|]. apply eval_is_sol; auto.
Qed.

(* ------------------------------------------------------------------ next state / outputs only read the valuation *)
Section Ext.
  Variables v1 v2 : net -> bool.
  Hypothesis Hv : forall n, v1 n = v2 n.

  Lemma outputs_of_ext : forall nl, outputs_of nl v1 = outputs_of nl v2.
  Proof. intros. unfold outputs_of. apply map_ext. intros. apply map_ext. auto. Qed.

  Lemma ff_next_ext : forall clks old f, ff_next clks v1 old f = ff_next clks v2 old f.
  Proof. intros. unfold ff_next. destruct (f_reset f); rewrite ?Hv; reflexivity. Qed.

  Lemma regs_next_ext : forall clks old ffs acc, regs_next clks v1 old ffs acc = regs_next clks v2 old ffs acc.
  Proof. induction ffs; simpl; intros; auto. rewrite ff_next_ext. apply IHffs. Qed.

  Lemma write_bits_ext : forall data m base i mask,
    write_bits v1 m base i data mask = write_bits v2 m base i data mask.
  Proof.
    induction data; simpl; intros; auto.
    destruct mask as [[|mn mr]|]; rewrite ?Hv; apply IHdata.
  Qed.

  Lemma map_v_ext : forall l, map v1 l = map v2 l.
  Proof. intros. apply map_ext. auto. Qed.

  Lemma write_port_ext : forall depth width m w, write_port v1 depth width m w = write_port v2 depth width m w.
  Proof. intros. unfold write_port. rewrite Hv, map_v_ext. destruct (v2 _); auto. destruct (_ <? _)%N; auto. apply write_bits_ext. Qed.

  Lemma fold_write_ext : forall depth width ws m,
    fold_left (write_port v1 depth width) ws m = fold_left (write_port v2 depth width) ws m.
  Proof. induction ws; simpl; intros; auto. rewrite write_port_ext. apply IHws. Qed.

  Lemma ram_next_ext : forall clks r m, ram_next clks v1 r m = ram_next clks v2 r m.
  Proof. intros. unfold ram_next. destruct (ticks _ _); auto. apply fold_write_ext. Qed.

  Lemma mems_next_ext : forall clks rams ms, mems_next clks v1 rams ms = mems_next clks v2 rams ms.
  Proof. induction rams; simpl; intros; auto. destruct ms; rewrite ram_next_ext, IHrams; reflexivity. Qed.

  Lemma sync_reads_port_ext : forall clks r m rps acc,
    sync_reads_port clks v1 r m rps acc = sync_reads_port clks v2 r m rps acc.
  Proof. induction rps; simpl; intros; auto. rewrite map_v_ext. apply IHrps. Qed.

  Lemma sync_reads_ext : forall clks rams ms acc, sync_reads clks v1 rams ms acc = sync_reads clks v2 rams ms acc.
  Proof. induction rams; simpl; intros; auto. destruct ms; rewrite sync_reads_port_ext; apply IHrams. Qed.

  Lemma next_state_ext : forall nl clks st, next_state nl clks st v1 = next_state nl clks st v2.
  Proof. intros. unfold next_state. rewrite regs_next_ext, sync_reads_ext, mems_next_ext. reflexivity. Qed.
End Ext.

Definition same_but_order (nl1 nl2 : netlist) : Prop :=
  nl_ports nl1 = nl_ports nl2 /\ nl_ffs nl1 = nl_ffs nl2 /\ nl_rams nl1 = nl_rams nl2 /\
  Permutation (nl_nodes nl1) (nl_nodes nl2).

Theorem gate_cycle_order_irrelevant : forall nl1 nl2 clks st inputs,
  same_but_order nl1 nl2 -> topo_ok (nl_nodes nl1) -> topo_ok (nl_nodes nl2) ->
  gate_cycle nl1 clks st inputs = gate_cycle nl2 clks st inputs.
Proof.
  intros nl1 nl2 clks st inputs (Hp & Hf & Hr & HP) H1 H2.
  unfold gate_cycle, settle, base_env.
  assert (Hv : forall n,
    get (gate_eval (st_mems st) (nl_nodes nl1)
           (set (set (drive_inputs (nl_ports nl1) inputs (st_regs st)) NET_CONST0 false) NET_CONST1 true)) n =
    get (gate_eval (st_mems st) (nl_nodes nl2)
           (set (set (drive_inputs (nl_ports nl2) inputs (st_regs st)) NET_CONST0 false) NET_CONST1 true)) n).
  { rewrite Hp. apply eval_order_irrelevant; auto. }
  f_equal.
  - unfold next_state.
    rewrite (regs_next_ext _ _ Hv), (sync_reads_ext _ _ Hv), (mems_next_ext _ _ Hv).
    rewrite Hf, Hr. reflexivity.
  - rewrite (outputs_of_ext _ _ Hv). unfold outputs_of. rewrite Hp. reflexivity.
Qed.

Lemma gate_run_cons : forall nl clks st i r,
  gate_run nl clks st (i :: r) =
  let (st', o) := gate_cycle nl clks st i in o :: gate_run nl clks st' r.
Proof. reflexivity. Qed.

Theorem gate_run_order_irrelevant : forall nl1 nl2 clks stim st,
  same_but_order nl1 nl2 -> topo_ok (nl_nodes nl1) -> topo_ok (nl_nodes nl2) ->
  gate_run nl1 clks st stim = gate_run nl2 clks st stim.
Proof.
  intros nl1 nl2 clks stim. induction stim as [|i r IH]; intros st Hs H1 H2; [reflexivity|].
  rewrite !gate_run_cons.
  rewrite (gate_cycle_order_irrelevant nl1 nl2 clks st i Hs H1 H2).
  destruct (gate_cycle nl2 clks st i) as [st' o]. f_equal. apply IH; auto.
Qed.

(* ------------------------------------------------------------------ check_netlist decides topo_ok *)
Lemma nmem_nadd : forall s n m, nmem (nadd s n) m = N.eqb n m || nmem s m.
Proof.
  intros. unfold nmem, nadd. destruct (N.eqb_spec n m).
  - subst. rewrite PositiveMap.gss. reflexivity.
  - rewrite PositiveMap.gso; auto. intro K. apply n0. symmetry. apply key_inj. exact K.
Qed.

Lemma nmem_nadd_list : forall l s m, nmem (nadd_list s l) m = true <-> nmem s m = true \/ In m l.
Proof.
  unfold nadd_list. induction l as [|x r IH]; simpl; intros.
  - tauto.
  - rewrite IH, nmem_nadd, orb_true_iff, N.eqb_eq. tauto.
Qed.

Lemma nmem_empty : forall m, nmem (PositiveMap.empty unit) m = false.
Proof. intros. unfold nmem. rewrite PositiveMap.gempty. reflexivity. Qed.

Lemma nadd_fresh_spec : forall l s s', nadd_fresh s l = Some s' ->
  NoDup l /\ (forall n, In n l -> nmem s n = false) /\
  (forall m, nmem s' m = true <-> nmem s m = true \/ In m l).
Proof.
  induction l as [|x r IH]; simpl; intros s s' H.
  - inversion H; subst. repeat split; try constructor; try tauto.
  - destruct (nmem s x) eqn:Hx; [discriminate|].
    destruct (IH _ _ H) as (ND & Fr & Mem).
    assert (Hxr : ~ In x r).
    { intro K. specialize (Fr x K). rewrite nmem_nadd, N.eqb_refl in Fr. discriminate. }
    split; [constructor; auto|]. split.
    + intros n [<-|Hn]; auto. specialize (Fr n Hn). rewrite nmem_nadd, orb_false_iff in Fr. tauto.
    + intros m. rewrite Mem, nmem_nadd, orb_true_iff, N.eqb_eq. tauto.
Qed.

Lemma NoDup_app_intro : forall (l1 l2 : list net),
  NoDup l1 -> NoDup l2 -> (forall n, In n l1 -> ~ In n l2) -> NoDup (l1 ++ l2).
Proof.
  induction l1 as [|x r IH]; simpl; intros; auto.
  inversion H; subst. constructor.
  - rewrite in_app_iff. intros [K|K]; [tauto|]. apply (H1 x); auto.
  - apply IH; auto.
Qed.

Lemma NoDup_app_disj : forall (l1 l2 : list net) n, NoDup (l1 ++ l2) -> In n l1 -> ~ In n l2.
Proof.
  induction l1 as [|x r IH]; simpl; intros; [tauto|].
  inversion H; subst. destruct H0 as [<-|H0].
  - intro K. apply H3. rewrite in_app_iff. tauto.
  - eapply IH; eauto.
Qed.

Lemma NoDup_app_right : forall (l1 l2 : list net), NoDup (l1 ++ l2) -> NoDup l2.
Proof. induction l1; simpl; intros; auto. inversion H; auto. Qed.

Lemma collect_outs_spec : forall l s s', collect_outs l s = Some s' ->
  NoDup (outs_of l) /\ (forall n, In n (outs_of l) -> nmem s n = false) /\
  (forall m, nmem s' m = true <-> nmem s m = true \/ In m (outs_of l)).
Proof.
  induction l as [|nd r IH]; simpl; intros s s' H.
  - inversion H; subst. repeat split; try constructor; try tauto.
  - destruct (nadd_fresh s (node_outs nd)) as [s1|] eqn:E; [|discriminate].
    destruct (nadd_fresh_spec _ _ _ E) as (ND1 & Fr1 & Mem1).
    destruct (IH _ _ H) as (ND2 & Fr2 & Mem2).
    split; [|split].
    + apply NoDup_app_intro; auto.
      intros n Hn K. specialize (Fr2 n K).
      assert (nmem s1 n = true) by (apply Mem1; tauto). congruence.
    + intros n Hn. rewrite in_app_iff in Hn. destruct Hn as [Hn|Hn]; auto.
      specialize (Fr2 n Hn). destruct (nmem s n) eqn:K; auto.
      assert (nmem s1 n = true) by (apply Mem1; tauto). congruence.
    + intros m. rewrite Mem2, Mem1, in_app_iff. tauto.
Qed.

Lemma check_order_sound : forall r produced driven,
  check_order r produced driven = true ->
  (forall n, In n (outs_of r) -> nmem driven n = true) ->
  (forall n, nmem produced n = true -> ~ In n (outs_of r)) ->
  NoDup (outs_of r) ->
  topo_ok r.
Proof.
  induction r as [|nd r IH]; simpl; intros produced driven H Hd Hp ND.
  - constructor.
  - apply andb_true_iff in H. destruct H as [Hi Hr].
    rewrite forallb_forall in Hi.
    constructor.
    + apply (IH _ _ Hr).
      * intros n Hn. apply Hd. rewrite in_app_iff. tauto.
      * intros n Hn. apply nmem_nadd_list in Hn. destruct Hn as [Hn|Hn].
        -- intro K. apply (Hp n Hn). rewrite in_app_iff. tauto.
        -- eapply NoDup_app_disj; eauto.
      * eapply NoDup_app_right; eauto.
    + intros n Hn.
      assert (K : ~ In n (node_outs nd ++ outs_of r)).
      { intro K. specialize (Hi n Hn). rewrite (Hd n K) in Hi. simpl in Hi.
        apply (Hp n Hi). exact K. }
      rewrite in_app_iff in K. tauto.
    + intros n Hn. eapply NoDup_app_disj; eauto.
Qed.

Theorem check_netlist_sound : forall nl, check_netlist nl = true -> topo_ok (nl_nodes nl).
Proof.
  intros nl H. unfold check_netlist in H.
  apply andb_true_iff in H. destruct H as [_ H].
  destruct (collect_outs (nl_nodes nl) (nadd_list _ (base_nets nl))) as [s0|]; [|discriminate].
  destruct (collect_outs (nl_nodes nl) (PositiveMap.empty unit)) as [driven|] eqn:E; [|discriminate].
  destruct (collect_outs_spec _ _ _ E) as (ND & _ & Mem).
  apply (check_order_sound _ _ _ H); auto.
  - intros n Hn. apply Mem. tauto.
  - intros n Hn. rewrite nmem_empty in Hn. discriminate.
Qed.

(* no combinational node drives a rail, an input-port net or a sequentially driven net *)
Theorem check_netlist_base_disjoint : forall nl, check_netlist nl = true ->
  forall n, In n (base_nets nl) -> ~ In n (outs_of (nl_nodes nl)).
Proof.
  intros nl H n Hn K. unfold check_netlist in H.
  apply andb_true_iff in H. destruct H as [_ H].
  destruct (collect_outs (nl_nodes nl) (nadd_list _ (base_nets nl))) as [s|] eqn:E; [|discriminate].
  destruct (collect_outs_spec _ _ _ E) as (_ & Fr & _).
  specialize (Fr n K).
  assert (nmem (nadd_list (PositiveMap.empty unit) (base_nets nl)) n = true)
    by (apply nmem_nadd_list; tauto).
  congruence.
Qed.

Theorem check_netlist_arity : forall nl, check_netlist nl = true ->
  forall c, In (NCell c) (nl_nodes nl) -> length (c_ins c) = arity (c_kind c).
Proof.
  intros nl H c Hc. unfold check_netlist in H.
  apply andb_true_iff in H. destruct H as [H _].
  rewrite forallb_forall in H. specialize (H _ Hc). simpl in H.
  apply PeanoNat.Nat.eqb_eq. exact H.
Qed.

(* The extracted evaluator's answer does not depend on the topological order its driver picked. *)
Theorem simulate_order_irrelevant : forall nl1 nl2 clks stim o1 o2,
  same_but_order nl1 nl2 ->
  simulate nl1 clks stim = RunOk o1 -> simulate nl2 clks stim = RunOk o2 -> o1 = o2.
Proof.
  intros nl1 nl2 clks stim o1 o2 Hs R1 R2. unfold simulate in *.
  destruct (check_netlist nl1) eqn:C1; simpl in R1; [|discriminate].
  destruct (check_netlist nl2) eqn:C2; simpl in R2; [|discriminate].
  destruct (clocks_ok nl1 clks); simpl in R1; [|discriminate].
  destruct (clocks_ok nl2 clks); simpl in R2; [|discriminate].
  inversion R1; inversion R2; subst.
  assert (init_state nl1 = init_state nl2).
  { unfold init_state. destruct Hs as (_ & _ & -> & _). reflexivity. }
  rewrite H. apply gate_run_order_irrelevant; auto using check_netlist_sound.
Qed.

(* ------------------------------------------------------------------ packaged statements for Props/C19.v *)
Theorem eval_is_the_solution :
  forall ms l e0, topo_ok l ->
  is_sol ms l e0 (gate_eval ms l e0) /\
  forall e, is_sol ms l e0 e -> forall n, get e n = get (gate_eval ms l e0) n.
Proof.
  intros ms l e0 H. split.
  - exact (eval_is_sol ms l e0 H).
  - intros e He. exact (sol_unique ms l e0 e _ H He (eval_is_sol ms l e0 H)).
Qed.

Theorem check_netlist_sound_full :
  forall nl, check_netlist nl = true ->
  topo_ok (nl_nodes nl) /\
  (forall n, In n (base_nets nl) -> ~ In n (outs_of (nl_nodes nl))) /\
  (forall c, In (NCell c) (nl_nodes nl) -> length (c_ins c) = arity (c_kind c)).
Proof.
  intros nl H. split; [|split].
  - exact (check_netlist_sound nl H).
  - exact (check_netlist_base_disjoint nl H).
  - exact (check_netlist_arity nl H).
Qed.

(* a 2-cell netlist listed in both possible orders: only the topological one passes the check *)
Definition ex_cells_good : list node :=
  [NCell (mkCell And2 [2; 3] 4); NCell (mkCell Not [4] 5)]%N.
Definition ex_cells_bad : list node :=
  [NCell (mkCell Not [4] 5); NCell (mkCell And2 [2; 3] 4)]%N.
Definition ex_nl (nodes : list node) : netlist :=
  mkNetlist [mkPort DIn [2]; mkPort DIn [3]; mkPort DOut [5]]%N nodes [] [].
Lemma check_example :
  check_netlist (ex_nl ex_cells_good) = true /\ check_netlist (ex_nl ex_cells_bad) = false /\
  simulate (ex_nl ex_cells_good) [] [[[true]; [true]]; [[true]; [false]]] = RunOk [[[false]]; [[true]]].
Proof. vm_compute. repeat split. Qed.

Lemma topo_example : topo_ok ex_cells_good /\ Permutation ex_cells_good ex_cells_bad.
Proof.
  split.
  - apply (check_netlist_sound (ex_nl ex_cells_good)). vm_compute. reflexivity.
  - apply perm_swap.
Qed.

(* two independent cells in both orders: both pass the check, both runs agree (non-vacuity of
   simulate_order_irrelevant) *)
Definition ex_indep_1 : list node :=
  [NCell (mkCell And2 [2; 3] 4); NCell (mkCell Xor2 [2; 3] 5)]%N.
Definition ex_indep_2 : list node :=
  [NCell (mkCell Xor2 [2; 3] 5); NCell (mkCell And2 [2; 3] 4)]%N.
Definition ex_nl2 (nodes : list node) : netlist :=
  mkNetlist [mkPort DIn [2]; mkPort DIn [3]; mkPort DOut [4; 5]]%N nodes [] [].
Lemma order_example :
  same_but_order (ex_nl2 ex_indep_1) (ex_nl2 ex_indep_2) /\
  simulate (ex_nl2 ex_indep_1) [] [[[true]; [true]]; [[true]; [false]]] = RunOk [[[true; false]]; [[false; true]]] /\
  simulate (ex_nl2 ex_indep_2) [] [[[true]; [true]]; [[true]; [false]]] = RunOk [[[true; false]]; [[false; true]]].
Proof.
  split; [|split; vm_compute; reflexivity].
  repeat split. apply perm_swap.
Qed.
