(* GateSim.GateModel — semantics of the gate-level IR of crates/synthesizer/src/ir.rs (GateModule).

   Definitions only (this file must still evaluate / extract when a proof breaks).
   The cell-kind inductive, arities and documented formulas come from GeneratedCells.v, which the
   translator translators/cellkinds.py regenerates from ir.rs on every run.

   What is modelled (branch for branch with the data structure, not with the 13k-line conversion):
     nets            N (NetId); net 0 / net 1 are the constant rails NET_CONST0 / NET_CONST1
     Cell            kind + input nets + output net;  cell_fn = Boolean function of the kind
     FfCell          clock net, edge, optional ResetSpec (net, polarity, sync), d, q, reset_value
     RamBlock        depth, width, clock, write ports (addr, data, enable, optional bit mask), read
                     ports (addr, data, sync flag)
     GatePort        direction + nets
   The NetDriver bookkeeping of GateModule.nets is NOT part of the meaning: the value of a net is
   determined structurally (constant rail / input port / FF q / RAM read data / cell output).

   gate_eval       evaluates the combinational nodes (cells and asynchronous RAM reads) in the order
                   in which the netlist lists them; topo_ok states that this order is topological and
                   that every net has at most one combinational driver (check_netlist decides it).
   gate_cycle      one clock cycle: settle the combinational logic on (state, inputs), sample the
                   outputs, then take the active edge of the ticking clocks: every flip-flop loads
                   reset_value when its reset is at its active level, else d; every RAM commits its
                   enabled write ports in port order (later port wins).
   Cycle-level abstractions (stated in design/C19.md): one active edge per ticking clock per cycle
   (posedge and negedge flops on one clock are not distinguished), an asynchronous reset acts like
   veryl's Simulator does — it is sampled at the edge; additionally it holds the flop at its reset
   value while asserted even if the clock does not tick.  Unknown (X) values do not exist: state
   starts all-zero and the check only compares bits the RTL simulation reports as known. *)
From Coq Require Import List NArith PArith Bool FMapPositive.
From VV Require Import GateSim.GeneratedCells.
Import ListNotations.
Open Scope bool_scope.

Definition net := N.

(* ---------------------------------------------------------------- valuations *)
Definition env := PositiveMap.t bool.
Definition key (n : net) : positive := N.succ_pos n.
Definition get (e : env) (n : net) : bool :=
  match PositiveMap.find (key n) e with Some b => b | None => false end.
Definition set (e : env) (n : net) (b : bool) : env := PositiveMap.add (key n) b e.
Definition empty_env : env := PositiveMap.empty bool.

Fixpoint set_list (e : env) (ns : list net) (bs : list bool) : env :=
  match ns, bs with
  | n :: ns', b :: bs' => set_list (set e n b) ns' bs'
  | n :: ns', [] => set_list (set e n false) ns' []
  | [], _ => e
  end.

(* ---------------------------------------------------------------- cells *)
Definition nthb (l : list bool) (i : nat) : bool := nth i l false.

(* Boolean function of each CellKind, inputs in Cell.inputs order (hand-written; GateProofs.v
   proves it equal to the formula documented in ir.rs for every kind).  Mux2 = [sel, d0, d1]. *)
Definition cell_fn (k : cell_kind) (x : list bool) : bool :=
  let a := nthb x 0 in let b := nthb x 1 in let c := nthb x 2 in let d := nthb x 3 in
  match k with
  | Buf => a
  | Not => negb a
  | And2 => a && b
  | Or2 => a || b
  | Nand2 => negb (a && b)
  | Nor2 => negb (a || b)
  | Xor2 => xorb a b
  | Xnor2 => negb (xorb a b)
  | And3 => a && b && c
  | Or3 => a || b || c
  | Nand3 => negb (a && b && c)
  | Nor3 => negb (a || b || c)
  | Ao21 => (a && b) || c
  | Aoi21 => negb ((a && b) || c)
  | Oa21 => (a || b) && c
  | Oai21 => negb ((a || b) && c)
  | Ao31 => (a && b && c) || d
  | Aoi31 => negb ((a && b && c) || d)
  | Ao22 => (a && b) || (c && d)
  | Aoi22 => negb ((a && b) || (c && d))
  | Oai22 => negb ((a || b) && (c || d))
  | Mux2 => if a then c else b
  end.

Record cell := mkCell { c_kind : cell_kind; c_ins : list net; c_out : net }.

(* ---------------------------------------------------------------- sequential elements *)
Record reset_spec := mkReset { rs_net : net; rs_high : bool; rs_sync : bool }.
Record ff := mkFf { f_clock : net; f_negedge : bool; f_reset : option reset_spec;
                    f_d : net; f_q : net; f_rv : bool }.

Record wport := mkWport { wp_en : net; wp_addr : list net; wp_data : list net;
                          wp_mask : option (list net) }.
Record rport := mkRport { rp_sync : bool; rp_addr : list net; rp_data : list net }.
Record ram := mkRam { m_depth : N; m_width : N; m_clock : net; m_negedge : bool;
                      m_writes : list wport; m_reads : list rport }.

Inductive dir := DIn | DOut | DInout.
Record port := mkPort { p_dir : dir; p_nets : list net }.

(* memory contents: bit (addr * width + i) of the flattened array *)
Definition mem := PositiveMap.t bool.
Definition mem_get (m : mem) (i : N) : bool :=
  match PositiveMap.find (key i) m with Some b => b | None => false end.
Definition mem_set (m : mem) (i : N) (b : bool) : mem := PositiveMap.add (key i) b m.

(* little-endian bits -> number *)
Fixpoint bits_to_N (l : list bool) : N :=
  match l with
  | [] => 0
  | b :: r => (if b then 1 else 0) + 2 * bits_to_N r
  end%N.

(* ---------------------------------------------------------------- combinational nodes *)
(* a combinational node is a cell or an asynchronous read port of RAM number nr_ram *)
Inductive node :=
| NCell (c : cell)
| NRead (nr_ram : nat) (nr_depth nr_width : N) (rp : rport).

Definition node_ins (nd : node) : list net :=
  match nd with NCell c => c_ins c | NRead _ _ _ rp => rp_addr rp end.
Definition node_outs (nd : node) : list net :=
  match nd with NCell c => [c_out c] | NRead _ _ _ rp => rp_data rp end.

Fixpoint read_word (m : mem) (base : N) (i : N) (data : list net) (e : env) : env :=
  match data with
  | [] => e
  | n :: r => read_word m base (N.succ i) r (set e n (mem_get m (base + i)))
  end.
Fixpoint zero_word (data : list net) (e : env) : env :=
  match data with [] => e | n :: r => zero_word r (set e n false) end.

Definition node_eval (mems : list mem) (nd : node) (e : env) : env :=
  match nd with
  | NCell c => set e (c_out c) (cell_fn (c_kind c) (map (get e) (c_ins c)))
  | NRead i depth width rp =>
      let a := bits_to_N (map (get e) (rp_addr rp)) in
      if (a <? depth)%N
      then read_word (nth i mems (PositiveMap.empty bool)) (a * width)%N 0%N (rp_data rp) e
      else zero_word (rp_data rp) e       (* out-of-range read: RTL value is X; the model picks 0 *)
  end.

Fixpoint gate_eval (mems : list mem) (nodes : list node) (e : env) : env :=
  match nodes with
  | [] => e
  | nd :: r => gate_eval mems r (node_eval mems nd e)
  end.

(* ---------------------------------------------------------------- netlist *)
(* nl_nodes lists the cells (and asynchronous read ports) in evaluation order; the serialised
   GateModule's cell vector is reordered topologically by the driver before it gets here —
   eval_order_irrelevant (GateProofs.v) shows the result does not depend on which topological
   order was chosen. *)
Record netlist := mkNetlist {
  nl_ports : list port;
  nl_nodes : list node;
  nl_ffs : list ff;
  nl_rams : list ram;
}.

Record state := mkState { st_regs : env;          (* values of sequentially driven nets (FF q, sync read data) *)
                          st_mems : list mem }.

Definition init_state (nl : netlist) : state :=
  mkState empty_env (map (fun _ => PositiveMap.empty bool) (nl_rams nl)).

Definition is_in (p : port) : bool := match p_dir p with DOut => false | _ => true end.
Definition is_out (p : port) : bool := match p_dir p with DIn => false | _ => true end.

Fixpoint drive_inputs (ps : list port) (vals : list (list bool)) (e : env) : env :=
  match ps with
  | [] => e
  | p :: r =>
      if is_in p then
        match vals with
        | v :: vr => drive_inputs r vr (set_list e (p_nets p) v)
        | [] => drive_inputs r [] (set_list e (p_nets p) [])
        end
      else drive_inputs r vals e
  end.

Definition NET_CONST0 : net := 0%N.
Definition NET_CONST1 : net := 1%N.

(* the valuation before combinational settling: registers, then input ports, then the rails *)
Definition base_env (nl : netlist) (st : state) (inputs : list (list bool)) : env :=
  set (set (drive_inputs (nl_ports nl) inputs (st_regs st)) NET_CONST0 false) NET_CONST1 true.

Definition settle (nl : netlist) (st : state) (inputs : list (list bool)) : env :=
  gate_eval (st_mems st) (nl_nodes nl) (base_env nl st inputs).

Definition outputs_of (nl : netlist) (v : net -> bool) : list (list bool) :=
  map (fun p => map v (p_nets p)) (filter is_out (nl_ports nl)).

Definition ticks (clks : list net) (c : net) : bool := existsb (N.eqb c) clks.

(* value a flip-flop's q takes for the next cycle *)
Definition ff_next (clks : list net) (v : net -> bool) (old : bool) (f : ff) : bool :=
  let rst_on := match f_reset f with Some r => Bool.eqb (v (rs_net r)) (rs_high r) | None => false end in
  let async := match f_reset f with Some r => negb (rs_sync r) | None => false end in
  if ticks clks (f_clock f)
  then (if rst_on then f_rv f else v (f_d f))
  else (if rst_on && async then f_rv f else old).

Fixpoint regs_next (clks : list net) (v : net -> bool) (old : env) (ffs : list ff) (acc : env) : env :=
  match ffs with
  | [] => acc
  | f :: r => regs_next clks v old r (set acc (f_q f) (ff_next clks v (get old (f_q f)) f))
  end.

(* one write port: bit i of the addressed word takes data[i] where the port's mask (if any) is 1 *)
Fixpoint write_bits (v : net -> bool) (m : mem) (base : N) (i : N) (data : list net)
         (mask : option (list net)) : mem :=
  match data with
  | [] => m
  | dn :: dr =>
      let (en, mr) := match mask with
                      | None => (true, None)
                      | Some [] => (false, Some [])
                      | Some (mn :: mr') => (v mn, Some mr')
                      end in
      write_bits v (if en then mem_set m (base + i) (v dn) else m) base (N.succ i) dr mr
  end.

Definition write_port (v : net -> bool) (depth width : N) (m : mem) (w : wport) : mem :=
  if v (wp_en w) then
    let a := bits_to_N (map v (wp_addr w)) in
    if (a <? depth)%N then write_bits v m (a * width)%N 0%N (wp_data w) (wp_mask w) else m
  else m.

Definition ram_next (clks : list net) (v : net -> bool) (r : ram) (m : mem) : mem :=
  if ticks clks (m_clock r)
  then fold_left (write_port v (m_depth r) (m_width r)) (m_writes r) m
  else m.

Fixpoint mems_next (clks : list net) (v : net -> bool) (rams : list ram) (ms : list mem) : list mem :=
  match rams, ms with
  | r :: rr, m :: mr => ram_next clks v r m :: mems_next clks v rr mr
  | r :: rr, [] => ram_next clks v r (PositiveMap.empty bool) :: mems_next clks v rr []
  | [], _ => []
  end.

(* synchronous read ports: the data nets are registers loaded with the addressed word (old contents) *)
Fixpoint sync_reads_port (clks : list net) (v : net -> bool) (r : ram) (m : mem) (rps : list rport) (acc : env) : env :=
  match rps with
  | [] => acc
  | rp :: rest =>
      let acc' :=
        if rp_sync rp && ticks clks (m_clock r) then
          let a := bits_to_N (map v (rp_addr rp)) in
          if (a <? m_depth r)%N then read_word m (a * m_width r)%N 0%N (rp_data rp) acc
          else zero_word (rp_data rp) acc
        else acc in
      sync_reads_port clks v r m rest acc'
  end.
Fixpoint sync_reads (clks : list net) (v : net -> bool) (rams : list ram) (ms : list mem) (acc : env) : env :=
  match rams, ms with
  | r :: rr, m :: mr => sync_reads clks v rr mr (sync_reads_port clks v r m (m_reads r) acc)
  | r :: rr, [] => sync_reads clks v rr [] (sync_reads_port clks v r (PositiveMap.empty bool) (m_reads r) acc)
  | [], _ => acc
  end.

Definition next_state (nl : netlist) (clks : list net) (st : state) (v : net -> bool) : state :=
  mkState (sync_reads clks v (nl_rams nl) (st_mems st)
             (regs_next clks v (st_regs st) (nl_ffs nl) (st_regs st)))
          (mems_next clks v (nl_rams nl) (st_mems st)).

(* gate_cycle : state -> inputs -> state * outputs *)
Definition gate_cycle (nl : netlist) (clks : list net) (st : state) (inputs : list (list bool))
  : state * list (list bool) :=
  let e := settle nl st inputs in
  (next_state nl clks st (get e), outputs_of nl (get e)).

Fixpoint gate_run (nl : netlist) (clks : list net) (st : state) (stim : list (list (list bool)))
  : list (list (list bool)) :=
  match stim with
  | [] => []
  | i :: r => let (st', o) := gate_cycle nl clks st i in o :: gate_run nl clks st' r
  end.

(* ---------------------------------------------------------------- well-formedness check *)
(* Decides topo_ok (GateProofs.v): cells have arity(kind) inputs; no net has two combinational
   drivers; no combinational node drives a rail, an input port, an FF q or a sync-read net; the node
   list is in topological order (every node input that is a node output is produced earlier). *)
Definition nset := PositiveMap.t unit.
Definition nmem (s : nset) (n : net) : bool :=
  match PositiveMap.find (key n) s with Some _ => true | None => false end.
Definition nadd (s : nset) (n : net) : nset := PositiveMap.add (key n) tt s.
Definition nadd_list (s : nset) (l : list net) : nset := fold_left nadd l s.

(* returns the set extended with l, or None when some element was already present (or repeats) *)
Fixpoint nadd_fresh (s : nset) (l : list net) : option nset :=
  match l with
  | [] => Some s
  | n :: r => if nmem s n then None else nadd_fresh (nadd s n) r
  end.

Definition node_arity_ok (nd : node) : bool :=
  match nd with
  | NCell c => Nat.eqb (length (c_ins c)) (arity (c_kind c))
  | NRead _ _ _ _ => true
  end.

(* all node outputs, distinct, and disjoint from base *)
Fixpoint collect_outs (nodes : list node) (s : nset) : option nset :=
  match nodes with
  | [] => Some s
  | nd :: r => match nadd_fresh s (node_outs nd) with
               | Some s' => collect_outs r s'
               | None => None
               end
  end.

(* walk in order: pending = outputs not yet produced; an input must not be pending *)
Fixpoint check_order (nodes : list node) (produced : nset) (driven : nset) : bool :=
  match nodes with
  | [] => true
  | nd :: r =>
      forallb (fun i => negb (nmem driven i) || nmem produced i) (node_ins nd)
      && check_order r (nadd_list produced (node_outs nd)) driven
  end.

Definition seq_nets (nl : netlist) : list net :=
  map f_q (nl_ffs nl)
  ++ flat_map (fun r => flat_map (fun rp => if rp_sync rp then rp_data rp else []) (m_reads r)) (nl_rams nl).

Definition base_nets (nl : netlist) : list net :=
  NET_CONST0 :: NET_CONST1 :: flat_map (fun p => if is_in p then p_nets p else []) (nl_ports nl)
  ++ seq_nets nl.

Definition check_netlist (nl : netlist) : bool :=
  forallb node_arity_ok (nl_nodes nl)
  && match collect_outs (nl_nodes nl) (nadd_list (PositiveMap.empty unit) (base_nets nl)) with
     | None => false
     | Some _ =>
         match collect_outs (nl_nodes nl) (PositiveMap.empty unit) with
         | None => false
         | Some driven => check_order (nl_nodes nl) (PositiveMap.empty unit) driven
         end
     end.

(* clocks the cycle model can handle: every FF / RAM clock is one of the ticking clock nets *)
Definition clocks_ok (nl : netlist) (clks : list net) : bool :=
  forallb (fun f => ticks clks (f_clock f)) (nl_ffs nl)
  && forallb (fun r => ticks clks (m_clock r)) (nl_rams nl).

(* entry point of the extracted evaluator *)
Inductive run_result :=
| RunOk (outs : list (list (list bool)))
| RunIllFormed
| RunClock.

Definition simulate (nl : netlist) (clks : list net) (stim : list (list (list bool))) : run_result :=
  if negb (check_netlist nl) then RunIllFormed
  else if negb (clocks_ok nl clks) then RunClock
  else RunOk (gate_run nl clks (init_state nl) stim).

(* ---------------------------------------------------------------- arithmetic structures of conv/arith.rs *)
(* full_adder: sum = a ^ b ^ cin, cout = (a & b) | (cin & (a ^ b)) built from the cells conv emits *)
Definition full_adder (a b cin : bool) : bool * bool :=
  let axb := cell_fn Xor2 [a; b] in
  let sum := cell_fn Xor2 [axb; cin] in
  let ab := cell_fn And2 [a; b] in
  let cab := cell_fn And2 [cin; axb] in
  (sum, cell_fn Or2 [ab; cab]).

(* ripple_add_core *)
Fixpoint ripple_add (a b : list bool) (cin : bool) : list bool :=
  match a, b with
  | x :: a', y :: b' => let (s, c) := full_adder x y cin in s :: ripple_add a' b' c
  | _, _ => []
  end.

(* kogge_stone_add: seeds, log-many prefix stages over (P,G), carries, sums *)
Definition pg := (bool * bool)%type.
Definition pg_seed (a b : bool) : pg := (cell_fn Xor2 [a; b], cell_fn And2 [a; b]).
(* (P[i],G[i]) <- (P[i] AND P[i-d], G[i] OR (P[i] AND G[i-d])) *)
Definition pg_comb (hi lo : pg) : pg :=
  (cell_fn And2 [fst hi; fst lo], cell_fn Or2 [snd hi; cell_fn And2 [fst hi; snd lo]]).

Definition ks_stage (d : nat) (x : list pg) : list pg :=
  map (fun i => if Nat.leb d i then pg_comb (nth i x (false, false)) (nth (i - d) x (false, false))
                else nth i x (false, false))
      (seq 0 (length x)).

Fixpoint ks_stages (fuel : nat) (d : nat) (x : list pg) : list pg :=
  match fuel with
  | O => x
  | S f => if Nat.ltb d (length x) then ks_stages f (d * 2) (ks_stage d x) else x
  end.

Definition ks_add (a b : list bool) (cin : bool) : list bool :=
  let seeds := map (fun ab => pg_seed (fst ab) (snd ab)) (combine a b) in
  let n := length seeds in
  let x := ks_stages n 1 seeds in
  map (fun i =>
         let carry := match i with
                      | O => cin
                      | S j => cell_fn Or2 [snd (nth j x (false, false));
                                            cell_fn And2 [fst (nth j x (false, false)); cin]]
                      end in
         cell_fn Xor2 [fst (nth i seeds (false, false)); carry])
      (seq 0 n).

(* ---------------------------------------------------------------- conv/prefix.rs: Sklansky network *)
Section Scan.
  Variable A : Type.
  Variable op : A -> A -> A.

  (* linear scan: out[i] = leaves[0] op ... op leaves[i] *)
  Fixpoint scan_from (acc : A) (l : list A) : list A :=
    match l with
    | [] => []
    | x :: r => let acc' := op acc x in acc' :: scan_from acc' r
    end.
  Definition scan (l : list A) : list A :=
    match l with [] => [] | x :: r => x :: scan_from x r end.

  (* fn sklansky: split at len/2, recurse, combine every right prefix with the left half's last *)
  Fixpoint sklansky (fuel : nat) (l : list A) : list A :=
    match fuel with
    | O => l
    | S f =>
        match l with
        | [] => []
        | [x] => [x]
        | _ =>
            let half := Nat.div2 (length l) in
            let left := sklansky f (firstn half l) in
            let right := sklansky f (skipn half l) in
            match rev left with
            | [] => right
            | carry :: _ => left ++ map (op carry) right
            end
        end
    end.

  (* conv/balance.rs: any binary tree over the leaves *)
  Inductive tree := Leaf (x : A) | Node (l r : tree).
  Fixpoint tree_eval (t : tree) : A :=
    match t with Leaf x => x | Node l r => op (tree_eval l) (tree_eval r) end.
  Fixpoint leaves (t : tree) : list A :=
    match t with Leaf x => [x] | Node l r => leaves l ++ leaves r end.
End Scan.
Arguments scan {A}. Arguments scan_from {A}. Arguments sklansky {A}.
Arguments Leaf {A}. Arguments Node {A}. Arguments tree_eval {A}. Arguments leaves {A}.

(* ---------------------------------------------------------------- mux structures *)
(* arith::dynamic_mux_tree: log-stage 2:1 mux tree over elements, select bits LSB first, padded with 0 *)
Fixpoint mux_pairs (s : bool) (l : list bool) : list bool :=
  match l with
  | [] => []
  | [x] => [cell_fn Mux2 [s; x; false]]
  | x :: y :: r => cell_fn Mux2 [s; x; y] :: mux_pairs s r
  end.
Fixpoint mux_tree (sel : list bool) (l : list bool) : list bool :=
  match sel with
  | [] => l
  | s :: sr => mux_tree sr (mux_pairs s l)
  end.

(* priority chain produced by if / else-if / case lowering: first arm whose condition holds wins *)
Fixpoint mux_chain (arms : list (bool * bool)) (default : bool) : bool :=
  match arms with
  | [] => default
  | (c, v) :: r => cell_fn Mux2 [c; mux_chain r default; v]
  end.

(* ---------------------------------------------------------------- conv/counter.rs *)
(* serial conditional-increment chain  (if c { cnt = cnt + 1 })  on W-bit counters *)
Definition cond_inc (w : N) (cnt : N) (c : bool) : N := if c then ((cnt + 1) mod 2 ^ w)%N else cnt.
Definition serial_count (w : N) (seed : N) (conds : list bool) : N := fold_left (cond_inc w) conds seed.
Definition popcount (conds : list bool) : N := fold_left (fun a (c : bool) => if c then N.succ a else a) conds 0%N.
Definition rebuilt_count (w : N) (seed : N) (conds : list bool) : N := ((seed + popcount conds) mod 2 ^ w)%N.
