(* C14 — atomic_ranges computes the coarsest common refinement of its input spans (restricted to
   the covered bits) that is also split at every requested endpoint:
     atoms_sorted      the atoms are non-empty, in ascending order and pairwise disjoint
     atoms_inside      every atom lies inside some input span
     atoms_cover       every bit of every input span lies in an atom contained in that span
                       (so every input span is exactly the union of the atoms inside it)
     atoms_split       no span boundary and no requested endpoint lies strictly inside an atom
   for ALL span lists (spans of non-zero length: PackedSpan::new admits no other) and endpoints,
   and for EVERY order in which sort_unstable may leave events of equal position. *)
From Coq Require Import List NArith ZArith Bool Lia Permutation.
From VV Require Import CombLoop.CombLoopModel.
Import ListNotations.
Open Scope N_scope.

Definition valid (s : span) : Prop := s_len s <> 0.
Definition covers (s : span) (x : N) : Prop := s_start s <= x < s_end s.
Definition inside (a s : span) : Prop := s_start s <= s_start a /\ s_end a <= s_end s.

(* ------------------------------------------------------------------------------------------ *)
(** * sorted event lists *)

Fixpoint sortedp (l : list event) : Prop :=
  match l with
  | a :: (b :: _) as t => fst a <= fst b /\ sortedp t
  | _ => True
  end.

Lemma sortedp_tail a l : sortedp (a :: l) -> sortedp l.
Proof. destruct l; simpl; tauto. Qed.

Lemma sortedp_head a l : sortedp (a :: l) -> forall e, In e l -> fst a <= fst e.
Proof.
  revert a. induction l as [|b l IH]; intros a H e He; [destruct He|].
  simpl in H. destruct H as [Hab Hs]. destruct He as [<-|He]; auto.
  specialize (IH b Hs e He). lia.
Qed.

Lemma sortedp_app_r l1 l2 : sortedp (l1 ++ l2) -> sortedp l2.
Proof. induction l1; simpl app; auto. intros H. apply IHl1. eapply sortedp_tail; eauto. Qed.

Lemma sortedp_app_le l1 : forall l2, sortedp (l1 ++ l2) ->
  forall a b, In a l1 -> In b l2 -> fst a <= fst b.
Proof.
  induction l1 as [|x l1 IH]; intros l2 H a b Ha Hb; [destruct Ha|].
  simpl app in H. destruct Ha as [<-|Ha].
  - apply (sortedp_head _ _ H). apply in_or_app. auto.
  - eapply IH; eauto. eapply sortedp_tail; eauto.
Qed.

Lemma insert_sorted e l : sortedp l -> sortedp (insert_ev e l).
Proof.
  induction l as [|x t IH]; intros H; simpl; auto.
  destruct (N.leb_spec (fst e) (fst x)).
  - simpl. split; auto.
  - specialize (IH (sortedp_tail _ _ H)).
    destruct t as [|y t]; simpl in *.
    + split; auto. lia.
    + destruct (N.leb_spec (fst e) (fst y)); simpl in *; intuition lia.
Qed.

Lemma sort_sorted l : sortedp (sort_ev l).
Proof. induction l; simpl; auto. now apply insert_sorted. Qed.

Lemma insert_perm e l : Permutation (insert_ev e l) (e :: l).
Proof.
  induction l as [|x t IH]; simpl; auto.
  destruct (fst e <=? fst x); auto.
  eapply perm_trans; [apply perm_skip, IH | apply perm_swap].
Qed.

Lemma sort_perm l : Permutation (sort_ev l) l.
Proof.
  induction l; simpl; auto.
  eapply perm_trans; [apply insert_perm | now apply perm_skip].
Qed.

(* ------------------------------------------------------------------------------------------ *)
(** * the number of spans open at a position *)

Definition sumd (l : list event) : Z := fold_right (fun e acc => (snd e + acc)%Z) 0%Z l.

(* sum of the deltas of the events at positions <= p *)
Definition act (l : list event) (p : N) : Z :=
  sumd (filter (fun e => fst e <=? p) l).

Lemma sumd_app l1 l2 : sumd (l1 ++ l2) = (sumd l1 + sumd l2)%Z.
Proof. induction l1; simpl; auto. rewrite IHl1. lia. Qed.

Lemma act_app l1 l2 p : act (l1 ++ l2) p = (act l1 p + act l2 p)%Z.
Proof. unfold act. now rewrite filter_app, sumd_app. Qed.

Lemma act_perm l l' p : Permutation l l' -> act l p = act l' p.
Proof.
  unfold act. induction 1; simpl; auto.
  - destruct (fst x <=? p); simpl; lia.
  - destruct (fst x <=? p), (fst y <=? p); simpl; lia.
  - lia.
Qed.

Lemma act_endpoints eps p : act (map (fun e => (e, 0%Z)) eps) p = 0%Z.
Proof.
  unfold act. induction eps as [|e t IH]; simpl; auto.
  destruct (e <=? p); simpl; lia.
Qed.

Definition contrib (s : span) (p : N) : Z :=
  act [(s_start s, 1%Z); (s_end s, (-1)%Z)] p.

Lemma contrib_spec s p : valid s ->
  (covers s p /\ contrib s p = 1%Z) \/ (~ covers s p /\ contrib s p = 0%Z).
Proof.
  unfold valid, covers, contrib, act, s_end. intros Hv. simpl.
  destruct (N.leb_spec (s_start s) p), (N.leb_spec (s_start s + s_len s) p); simpl;
    [right|left|right|right]; split; lia.
Qed.

Lemma act_spans spans p : Forall valid spans ->
  (0 <= act (flat_map (fun s => [(s_start s, 1%Z); (s_end s, (-1)%Z)]) spans) p)%Z /\
  ((0 < act (flat_map (fun s => [(s_start s, 1%Z); (s_end s, (-1)%Z)]) spans) p)%Z <->
   exists s, In s spans /\ covers s p).
Proof.
  induction 1 as [|s t Hs _ IH]; simpl flat_map.
  - unfold act. simpl. split; [lia|]. split; [lia|]. intros [s [[] _]].
  - change (?a :: ?b :: ?r) with ([a; b] ++ r). rewrite act_app.
    fold (contrib s p). destruct IH as [IH0 IH1].
    destruct (contrib_spec s p Hs) as [[Hc ->]|[Hc ->]].
    + split; [lia|]. split; [|lia]. intros _. exists s. split; auto. now left.
    + split; [lia|]. rewrite Z.add_0_l, IH1. split.
      * intros [s' [Hin Hc']]. exists s'. split; auto. now right.
      * intros [s' [[<-|Hin] Hc']]; [contradiction|]. eauto.
Qed.

Lemma act_events spans eps p : Forall valid spans ->
  ((0 < act (events spans eps) p)%Z <-> exists s, In s spans /\ covers s p).
Proof.
  intros Hv. unfold events. rewrite act_app, act_endpoints, Z.add_0_r.
  apply act_spans; auto.
Qed.

(* in a sorted list split between two different positions, the events up to the split are
   exactly those at positions <= the left one *)
Lemma act_all_le l p : (forall e, In e l -> fst e <= p) -> act l p = sumd l.
Proof.
  unfold act. induction l as [|x t IH]; intros H; simpl; auto.
  assert (fst x <= p) by (apply H; now left).
  destruct (N.leb_spec (fst x) p); [|lia]. simpl. f_equal. apply IH. intros; apply H; now right.
Qed.

Lemma act_all_gt l p : (forall e, In e l -> p < fst e) -> act l p = 0%Z.
Proof.
  unfold act. induction l as [|x t IH]; intros H; simpl; auto.
  assert (p < fst x) by (apply H; now left).
  destruct (N.leb_spec (fst x) p); [lia|]. apply IH. intros; apply H; now right.
Qed.

Lemma act_split l1 p d q d' l2 :
  sortedp (l1 ++ (p, d) :: (q, d') :: l2) -> q <> p ->
  p < q /\ act (l1 ++ (p, d) :: (q, d') :: l2) p = sumd (l1 ++ [(p, d)]).
Proof.
  intros Hs Hne.
  assert (Hpq : p < q).
  { apply sortedp_app_r in Hs. simpl in Hs. lia. }
  split; auto.
  assert (Hl1 : forall e, In e (l1 ++ [(p, d)]) -> fst e <= p).
  { intros e He. apply in_app_or in He. destruct He as [He|[<-|[]]]; simpl; [|lia].
    apply (sortedp_app_le l1 _ Hs e (p, d) He). now left. }
  assert (Hl2 : forall e, In e ((q, d') :: l2) -> p < fst e).
  { intros e He. apply sortedp_app_r in Hs. apply sortedp_tail in Hs.
    destruct He as [<-|He]; simpl; auto.
    pose proof (sortedp_head _ _ Hs e He). simpl in *. lia. }
  replace (l1 ++ (p, d) :: (q, d') :: l2) with ((l1 ++ [(p, d)]) ++ (q, d') :: l2)
    by (now rewrite <- app_assoc).
  rewrite act_app, (act_all_le _ _ Hl1), (act_all_gt _ _ Hl2). lia.
Qed.

(* ------------------------------------------------------------------------------------------ *)
(** * what the sweep emits *)

Lemma sweep_char evs : forall active a,
  In a (sweep evs active) <->
  exists l1 p d q d' l2,
    evs = l1 ++ (p, d) :: (q, d') :: l2 /\ q <> p /\ q - p <> 0 /\
    (0 < active + sumd (l1 ++ [(p, d)]))%Z /\ a = mkSpan p (q - p).
Proof.
  induction evs as [|[p0 d0] rest IH]; intros active a.
  - simpl. split; [tauto|]. intros [l1 [p [d [q [d' [l2 [E _]]]]]]]. destruct l1; discriminate.
  - simpl sweep. destruct rest as [|[q0 d0'] rest'].
    + split; [simpl; tauto|]. intros [l1 [p [d [q [d' [l2 [E _]]]]]]].
      destruct l1 as [|x l1]; [discriminate|]. destruct l1; discriminate.
    + assert (Hrec : In a (sweep ((q0, d0') :: rest') (active + d0)) <->
                     exists l1 p d q d' l2,
                       (p0, d0) :: (q0, d0') :: rest' = ((p0, d0) :: l1) ++ (p, d) :: (q, d') :: l2 /\
                       q <> p /\ q - p <> 0 /\
                       (0 < active + sumd (((p0, d0) :: l1) ++ [(p, d)]))%Z /\ a = mkSpan p (q - p)).
      { rewrite IH. split; intros [l1 [p [d [q [d' [l2 [E [H1 [H2 [H3 H4]]]]]]]]]];
          exists l1, p, d, q, d', l2.
        - split; [simpl; f_equal; exact E|]. split; auto. split; auto. split; auto.
          simpl in *. lia.
        - split; [simpl in E; now inversion E|]. split; auto. split; auto. split; auto.
          simpl in *. lia. }
      assert (Hcons : forall P : Prop,
                 (P <-> (q0 <> p0 /\ q0 - p0 <> 0 /\ (0 < active + d0)%Z /\ a = mkSpan p0 (q0 - p0))) ->
                 (P \/ In a (sweep ((q0, d0') :: rest') (active + d0)) <->
                  exists l1 p d q d' l2,
                    (p0, d0) :: (q0, d0') :: rest' = l1 ++ (p, d) :: (q, d') :: l2 /\
                    q <> p /\ q - p <> 0 /\
                    (0 < active + sumd (l1 ++ [(p, d)]))%Z /\ a = mkSpan p (q - p))).
      { intros P HP. rewrite Hrec, HP. split.
        - intros [[H1 [H2 [H3 H4]]]|[l1 [p [d [q [d' [l2 H]]]]]]].
          + exists [], p0, d0, q0, d0', rest'. simpl. repeat split; auto. lia.
          + exists ((p0, d0) :: l1), p, d, q, d', l2. exact H.
        - intros [l1 [p [d [q [d' [l2 [E [H1 [H2 [H3 H4]]]]]]]]]].
          destruct l1 as [|x l1].
          + left. simpl in E. inversion E; subst. simpl in H3. repeat split; auto. lia.
          + right. simpl in E. inversion E; subst.
            exists l1, p, d, q, d', l2. repeat split; auto. }
      destruct (N.eqb_spec q0 p0) as [Eq|Nq].
      * rewrite <- (Hcons False); [tauto|]. split; [tauto|]. intros [H _]. contradiction.
      * destruct (Z.ltb_spec 0 (active + d0)) as [Hpos|Hnpos].
        -- unfold span_new. destruct (N.eqb_spec (q0 - p0) 0) as [Ez|Nz].
           ++ rewrite <- (Hcons False); [tauto|]. split; [tauto|]. intros [_ [H _]]. contradiction.
           ++ simpl In. rewrite <- (Hcons (mkSpan p0 (q0 - p0) = a)); [tauto|].
              split; [intros <-; auto | intros [_ [_ [_ ->]]]; auto].
        -- rewrite <- (Hcons False); [tauto|]. split; [tauto|]. intros [_ [_ [H _]]]. lia.
Qed.

(* ------------------------------------------------------------------------------------------ *)
(** * the theorems, for every sorted permutation of the events *)

Section Sweep.
  Variable spans : list span.
  Variable eps : list N.
  Variable evs : list event.
  Hypothesis Hvalid : Forall valid spans.
  Hypothesis Hperm : Permutation evs (events spans eps).
  Hypothesis Hsorted : sortedp evs.

  Lemma atom_shape a : In a (sweep evs 0%Z) ->
    exists l1 p d q d' l2,
      evs = l1 ++ (p, d) :: (q, d') :: l2 /\ p < q /\ a = mkSpan p (q - p) /\
      (exists s, In s spans /\ covers s p).
  Proof.
    intros H. apply sweep_char in H.
    destruct H as [l1 [p [d [q [d' [l2 [E [Hne [_ [Hpos Ha]]]]]]]]]].
    exists l1, p, d, q, d', l2. rewrite E in Hsorted.
    destruct (act_split _ _ _ _ _ _ Hsorted Hne) as [Hlt Hact].
    repeat split; auto.
    apply (act_events spans eps p Hvalid).
    rewrite <- (act_perm _ _ p Hperm), E, Hact. lia.
  Qed.

  (* every position that occurs in the event list is outside (p, q) *)
  Lemma position_outside l1 p d q d' l2 x :
    evs = l1 ++ (p, d) :: (q, d') :: l2 -> In x (map fst evs) -> x <= p \/ q <= x.
  Proof.
    intros E Hx. rewrite E in Hsorted, Hx. apply in_map_iff in Hx. destruct Hx as [e [<- He]].
    apply in_app_or in He. destruct He as [He|[He|[He|He]]].
    - left. apply (sortedp_app_le l1 _ Hsorted e (p, d) He). now left.
    - left. subst e. simpl. lia.
    - right. subst e. simpl. lia.
    - right. apply sortedp_app_r in Hsorted. apply sortedp_tail in Hsorted.
      apply (sortedp_head _ _ Hsorted e He).
  Qed.

  Lemma start_is_position s : In s spans -> In (s_start s) (map fst evs).
  Proof.
    intros Hs. apply in_map_iff. exists (s_start s, 1%Z). split; auto.
    eapply Permutation_in; [apply Permutation_sym, Hperm|].
    unfold events. apply in_or_app. left. apply in_flat_map. exists s. simpl. auto.
  Qed.

  Lemma end_is_position s : In s spans -> In (s_end s) (map fst evs).
  Proof.
    intros Hs. apply in_map_iff. exists (s_end s, (-1)%Z). split; auto.
    eapply Permutation_in; [apply Permutation_sym, Hperm|].
    unfold events. apply in_or_app. left. apply in_flat_map. exists s. simpl. auto.
  Qed.

  Lemma endpoint_is_position e : In e eps -> In e (map fst evs).
  Proof.
    intros He. apply in_map_iff. exists (e, 0%Z). split; auto.
    eapply Permutation_in; [apply Permutation_sym, Hperm|].
    unfold events. apply in_or_app. right. apply in_map_iff. eauto.
  Qed.

  Lemma sweep_inside a : In a (sweep evs 0%Z) -> exists s, In s spans /\ inside a s.
  Proof.
    intros H. destruct (atom_shape a H) as [l1 [p [d [q [d' [l2 [E [Hlt [-> [s [Hs Hc]]]]]]]]]]].
    exists s. split; auto. unfold inside, covers, s_end in *. simpl.
    destruct (position_outside _ _ _ _ _ _ _ E (end_is_position s Hs)); unfold s_end in *; lia.
  Qed.

  Lemma sweep_split a x : In a (sweep evs 0%Z) -> In x (map fst evs) ->
    ~ (s_start a < x < s_end a).
  Proof.
    intros H Hx. destruct (atom_shape a H) as [l1 [p [d [q [d' [l2 [E [Hlt [-> _]]]]]]]]].
    unfold s_end. simpl. destruct (position_outside _ _ _ _ _ _ _ E Hx); lia.
  Qed.

  Lemma split_at x : forall l, sortedp l ->
    (exists e, In e l /\ fst e <= x) -> (exists e, In e l /\ x < fst e) ->
    exists l1 p d q d' l2, l = l1 ++ (p, d) :: (q, d') :: l2 /\ p <= x < q.
  Proof.
    induction l as [|[p0 d0] rest IH]; intros Hs Hle Hgt.
    - destruct Hle as [e [[] _]].
    - destruct rest as [|[q0 d0'] rest'].
      + destruct Hle as [e [[<-|[]] H1]], Hgt as [e' [[<-|[]] H2]]. simpl in *. lia.
      + destruct (N.leb_spec q0 x) as [Hq|Hq].
        * destruct IH as [l1 [p [d [q [d' [l2 [E Hpx]]]]]]].
          -- eapply sortedp_tail; eauto.
          -- exists (q0, d0'). split; [now left | auto].
          -- destruct Hgt as [e [[<-|He] H2]]; [|eauto].
             simpl in Hs, H2. lia.
          -- exists ((p0, d0) :: l1), p, d, q, d', l2. split; auto. simpl. now rewrite E.
        * exists [], p0, d0, q0, d0', rest'. split; auto. split; auto.
          destruct Hle as [e [[<-|He] H1]]; auto.
          pose proof (sortedp_head _ _ Hs e He). simpl in *. lia.
  Qed.

  Lemma sweep_cover s x : In s spans -> covers s x ->
    exists a, In a (sweep evs 0%Z) /\ covers a x /\ inside a s.
  Proof.
    intros Hs Hc. unfold covers in Hc.
    pose proof (start_is_position s Hs) as Hst. pose proof (end_is_position s Hs) as Hen.
    destruct (split_at x evs Hsorted) as [l1 [p [d [q [d' [l2 [E Hpx]]]]]]].
    { apply in_map_iff in Hst. destruct Hst as [e [E1 E2]]. exists e. split; auto. lia. }
    { apply in_map_iff in Hen. destruct Hen as [e [E1 E2]]. exists e. split; auto. lia. }
    destruct (position_outside _ _ _ _ _ _ _ E Hst) as [H1|H1]; [|lia].
    destruct (position_outside _ _ _ _ _ _ _ E Hen) as [H2|H2]; [lia|].
    exists (mkSpan p (q - p)). split; [|split].
    - apply sweep_char. exists l1, p, d, q, d', l2. repeat split; auto; try lia.
      assert (Hne : q <> p) by lia. rewrite E in Hsorted.
      destruct (act_split _ _ _ _ _ _ Hsorted Hne) as [_ Hact].
      rewrite Z.add_0_l, <- Hact, <- E, (act_perm _ _ p Hperm).
      apply (act_events spans eps p Hvalid). exists s. split; auto. unfold covers. lia.
    - unfold covers, s_end. simpl. lia.
    - unfold inside, s_end in *. simpl. lia.
  Qed.
End Sweep.

(* ascending order: each atom ends before the next one starts *)
Fixpoint asorted (l : list span) : Prop :=
  match l with
  | a :: (b :: _) as t => s_end a <= s_start b /\ asorted t
  | _ => True
  end.

Lemma sweep_lb e0 evs active a : sortedp (e0 :: evs) ->
  In a (sweep (e0 :: evs) active) -> fst e0 <= s_start a.
Proof.
  intros Hs Ha.
  apply sweep_char in Ha. destruct Ha as [l1 [p [d [q [d' [l2 [E [_ [_ [_ ->]]]]]]]]]]. simpl.
  destruct l1 as [|x l1]; simpl in E; inversion E; subst; simpl; [lia|].
  replace p with (fst (p, d)) by reflexivity.
  apply (sortedp_head _ _ Hs). apply in_or_app. right. now left.
Qed.

Lemma sweep_eq p d q d' rest active :
  sweep ((p, d) :: (q, d') :: rest) active =
  if q =? p then sweep ((q, d') :: rest) (active + d)
  else if (0 <? active + d)%Z then
         match span_new p (q - p) with
         | Some a => a :: sweep ((q, d') :: rest) (active + d)
         | None => sweep ((q, d') :: rest) (active + d)
         end
       else sweep ((q, d') :: rest) (active + d).
Proof. reflexivity. Qed.

Lemma sweep_asorted evs : forall active, sortedp evs ->
  asorted (sweep evs active) /\ Forall (fun a => s_len a <> 0) (sweep evs active).
Proof.
  induction evs as [|[p0 d0] rest IH]; intros active Hs; [simpl; auto|].
  destruct rest as [|[q0 d0'] rest']; [simpl; auto|].
  rewrite sweep_eq.
  pose proof (sortedp_tail _ _ Hs) as Hs'.
  specialize (IH (active + d0)%Z Hs').
  pose proof (fun b => sweep_lb (q0, d0') rest' (active + d0)%Z b Hs') as Hlb.
  revert IH Hlb. generalize (sweep ((q0, d0') :: rest') (active + d0)). intros tl IH Hlb.
  destruct (q0 =? p0); auto.
  destruct (0 <? active + d0)%Z; auto.
  unfold span_new. destruct (N.eqb_spec (q0 - p0) 0); auto.
  destruct IH as [IH1 IH2]. split; [|constructor; auto].
  destruct tl as [|b tl']; [simpl; auto|].
  split; auto.
  specialize (Hlb b (or_introl eq_refl)). simpl in Hlb, Hs.
  unfold s_end. simpl. lia.
Qed.

(* ------------------------------------------------------------------------------------------ *)
(** * atomic_ranges *)

Theorem atoms_sorted : forall spans eps,
  asorted (atomic_ranges spans eps) /\ Forall (fun a => s_len a <> 0) (atomic_ranges spans eps).
Proof. intros. apply sweep_asorted, sort_sorted. Qed.

Theorem atoms_inside : forall spans eps, Forall valid spans ->
  forall a, In a (atomic_ranges spans eps) -> exists s, In s spans /\ inside a s.
Proof.
  intros spans eps Hv a. apply (sweep_inside spans eps _ Hv (sort_perm _) (sort_sorted _)).
Qed.

Theorem atoms_cover : forall spans eps, Forall valid spans ->
  forall s x, In s spans -> covers s x ->
  exists a, In a (atomic_ranges spans eps) /\ covers a x /\ inside a s.
Proof.
  intros spans eps Hv s x. apply (sweep_cover spans eps _ Hv (sort_perm _) (sort_sorted _)).
Qed.

Theorem atoms_split : forall spans eps, Forall valid spans ->
  forall a, In a (atomic_ranges spans eps) ->
  (forall s, In s spans -> ~ (s_start a < s_start s < s_end a) /\ ~ (s_start a < s_end s < s_end a)) /\
  (forall e, In e eps -> ~ (s_start a < e < s_end a)).
Proof.
  intros spans eps Hv a Ha.
  pose proof (sweep_split spans eps _ Hv (sort_perm _) (sort_sorted _) a) as H.
  split.
  - intros s Hs. split; apply H; auto.
    + apply (start_is_position spans eps _ (sort_perm _) s Hs).
    + apply (end_is_position spans eps _ (sort_perm _) s Hs).
  - intros e He. apply H; auto.
    apply (endpoint_is_position spans eps _ (sort_perm _) e He).
Qed.

Lemma asorted_tail x l : asorted (x :: l) -> asorted l.
Proof. destruct l; simpl; tauto. Qed.

(* pairwise disjointness follows from the ascending order *)
Lemma asorted_disjoint l : asorted l -> Forall (fun a => s_len a <> 0) l ->
  forall l1 a l2 b l3, l = l1 ++ a :: l2 ++ b :: l3 -> s_end a <= s_start b.
Proof.
  intros Hs Hv l1 a l2 b l3 E. subst l.
  assert (H : asorted (a :: l2 ++ b :: l3) /\ Forall (fun a => s_len a <> 0) (a :: l2 ++ b :: l3)).
  { clear -Hs Hv. induction l1 as [|x l1 IH]; simpl app in *; auto.
    apply IH.
    - now inversion Hv.
    - eapply asorted_tail; eauto. }
  clear Hs Hv. destruct H as [Hs Hv]. revert a Hs Hv.
  induction l2 as [|c l2 IH]; intros a Hs Hv; simpl in *.
  - tauto.
  - destruct Hs as [H1 H2]. inversion Hv as [|? ? _ Hv']; subst.
    specialize (IH c H2 Hv'). inversion Hv' as [|? ? Hc _]; subst.
    unfold s_end in *. lia.
Qed.

Theorem atoms_disjoint : forall spans eps l1 a l2 b l3,
  atomic_ranges spans eps = l1 ++ a :: l2 ++ b :: l3 -> s_end a <= s_start b.
Proof.
  intros spans eps. destruct (atoms_sorted spans eps) as [H1 H2].
  now apply asorted_disjoint.
Qed.

Example atomic_ranges_example : Forall valid [mkSpan 0 4; mkSpan 2 6; mkSpan 10 1] /\
  atomic_ranges [mkSpan 0 4; mkSpan 2 6; mkSpan 10 1] [3] =
    [mkSpan 0 2; mkSpan 2 1; mkSpan 3 1; mkSpan 4 4; mkSpan 10 1].
Proof. split; [repeat constructor; discriminate | reflexivity]. Qed.

(* ------------------------------------------------------------------------------------------ *)
(** * PackedSpan algebra *)

Theorem overlaps_spec : forall a b, valid a -> valid b ->
  (span_overlaps a b = true <-> exists x, covers a x /\ covers b x).
Proof.
  intros a b Ha Hb. unfold span_overlaps, covers, valid, s_end in *.
  rewrite andb_true_iff, !N.ltb_lt. split.
  - intros [H1 H2]. exists (N.max (s_start a) (s_start b)). lia.
  - intros [x Hx]. lia.
Qed.

Theorem intersection_spec : forall a b, valid a -> valid b ->
  match span_intersection a b with
  | Some c => valid c /\ forall x, covers c x <-> covers a x /\ covers b x
  | None => forall x, ~ (covers a x /\ covers b x)
  end.
Proof.
  intros a b Ha Hb. unfold span_intersection, span_new, covers, valid, s_end in *.
  destruct (N.ltb_spec (N.min (s_start a + s_len a) (s_start b + s_len b)) (N.max (s_start a) (s_start b))) as [H|H].
  - intros x. lia.
  - destruct (N.eqb_spec (N.min (s_start a + s_len a) (s_start b + s_len b) - N.max (s_start a) (s_start b)) 0) as [E|E].
    + intros x. lia.
    + simpl. split; [exact E|]. intros x. lia.
Qed.

Theorem translated_spec : forall s from to c,
  span_translated s from to = Some c ->
  s_len c = s_len s /\ s_start c + from = s_start s + to.
Proof.
  intros s from to c. unfold span_translated, span_new.
  destruct (N.ltb_spec (s_start s) from); [discriminate|].
  destruct (s_len s =? 0); [discriminate|].
  intros E. inversion E; subst. simpl. lia.
Qed.
