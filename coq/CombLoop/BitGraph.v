(* C14 — bit-level dependency graphs: the reference against which the analyzer's combinational
   loop detector (crates/analyzer/src/comb_loop_detect.rs) is judged.

   DEFINITIONS ONLY (proofs: CombLoop/BitGraphProofs.v).

   Part 1  graph / has_cycle        finite dependency graphs over bit nodes and the decision
                                    procedure (iterated pruning with fuel = number of entries)
   Part 2  dexp / stmt / item       the abstract design language: assign of bit ranges from
                                    expressions that read bit ranges (positional or all-to-all),
                                    always_comb blocks as ordered (conditional) blocking assignments
                                    with SSA-style versioning, inlined functions, module instances
   Part 3  lower                    design -> bit graph
   Part 4  quotient                 the graph induced on the classes of a partition of the bits

   A node is one bit of one variable (of one array element / struct member): the generator lays all
   bits of a module out in one index space (node = base of the variable + bit position).  *)
From Coq Require Import List NArith PArith Bool.
From Coq Require Import MSets.MSetPositive.
Import ListNotations.
Open Scope N_scope.

(* ------------------------------------------------------------------------------------------ *)
(** * Part 1: graphs and the cycle test *)

Definition node := N.
Definition deps := list node.
(* adjacency entries: [(a, ds)] says bit [a] depends combinationally on every bit of [ds];
   a bit may own several entries *)
Definition graph := list (node * deps).

Definition dep (g : graph) (a b : node) : Prop := exists ds, In (a, ds) g /\ In b ds.

(* transitive closure (non-empty paths) of a relation *)
Inductive tc {A : Type} (R : A -> A -> Prop) : A -> A -> Prop :=
| tc_one : forall a b, R a b -> tc R a b
| tc_cons : forall a b c, R a b -> tc R b c -> tc R a c.

Definition path (g : graph) : node -> node -> Prop := tc (dep g).

Definition nkey (n : N) : positive := N.succ_pos n.
Definition set_of (l : list N) : PositiveSet.t :=
  fold_right (fun n s => PositiveSet.add (nkey n) s) PositiveSet.empty l.
Definition smem (n : N) (s : PositiveSet.t) : bool := PositiveSet.mem (nkey n) s.

(* one pruning round: keep the entries that depend on a bit which still owns an entry *)
Definition step (es : graph) : graph :=
  let s := set_of (map fst es) in
  filter (fun e => existsb (fun w => smem w s) (snd e)) es.

Fixpoint iter_step (fuel : nat) (es : graph) : graph :=
  match fuel with
  | O => es
  | S k => let es' := step es in
           if Nat.eqb (length es') (length es) then es else iter_step k es'
  end.

Definition has_cycle (g : graph) : bool :=
  match iter_step (length g) g with [] => false | _ :: _ => true end.

(* ------------------------------------------------------------------------------------------ *)
(** * Part 2: the abstract design language *)

(* The dependencies of an expression value: one dependency set per bit, LSB first; a bit beyond
   the list is a zero extension and depends on nothing.  (The generator builds expressions whose
   operands all have the width of their context, so extension never decides a verdict.) *)
Definition dvec := list deps.

Inductive dexp :=
| DConst (w : nat)                      (* literal *)
| DRef (base : N) (len : nat)           (* bits base .. base+len-1 : positional read *)
| DCat (parts : list dexp)              (* concatenation, LEAST significant part first *)
| DBit (a b : dexp)                     (* bitwise & | ^ ~^ : bit i <- bit i of both operands *)
| DNot (a : dexp)                       (* bitwise ~, unary + *)
| DFull (w : nat) (args : list dexp)    (* + - * comparison reduction dynamic select, result width w:
                                           every bit <- every bit of every argument *)
| DTri (a : dexp)                       (* unary minus: bit i <- bits 0..i of the operand *)
| DMux (c a b : dexp)                   (* c ? a : b : bit i <- all of c, bit i of a and b *)
| DShl (a : dexp) (k : nat)             (* a << k, constant k, result as wide as a *)
| DShr (a : dexp) (k : nat)             (* a >> k, constant k, result as wide as a *)
| DCall (f : nat) (args : list dexp)    (* call of the f-th function of the module *)
| DSel (a : dexp) (lo len : nat).       (* bits lo .. lo+len-1 of the value of a (no Veryl syntax: used to
                                           state an assignment piece by piece) *)

Inductive stmt :=
| SAssign (base : N) (len : nat) (e : dexp)            (* blocking assignment to base..base+len-1 *)
| SBranch (conds : list dexp) (arms : list (list stmt)). (* if / case: every arm is listed, the
                                           implicit "nothing assigned" arm as []; a plain block is a
                                           branch without conditions and with one arm *)

Record func := mkFunc {
  f_formals : list (N * nat);    (* base node and width of every formal argument *)
  f_ret : N * nat;               (* base node and width of the return variable *)
  f_body : list stmt }.

Inductive item :=
| IAssign (base : N) (len : nat) (e : dexp)     (* assign *)
| IComb (body : list stmt)                      (* always_comb *)
| IInst (portlevel : bool)                      (* false: the instance as it is (flattened);
                                                   true: the detector's documented summary, "port-level
                                                   only": an output port depends on a WHOLE input
                                                   port whenever some bit of it feeds through *)
        (off : N) (cfuncs : list func) (child : list item)
        (ins : list (N * nat * dexp))           (* child input port (local base, width) <- actual *)
        (outs : list (N * nat * N)).            (* parent bits base..base+len-1 <- child output port (local base) *)

(* ------------------------------------------------------------------------------------------ *)
(** * Part 3: lowering to the bit graph *)

Fixpoint nodes_from (base : N) (len : nat) : list node :=
  match len with O => [] | S k => base :: nodes_from (N.succ base) k end.

Fixpoint mem_n (x : N) (l : list N) : bool :=
  match l with [] => false | y :: t => if N.eqb x y then true else mem_n x t end.

Fixpoint union (a b : deps) : deps :=
  match a with [] => b | x :: t => if mem_n x b then union t b else x :: union t b end.

Definition unions (l : list deps) : deps := fold_right union [] l.

Definition vbit (v : dvec) (i : nat) : deps := nth i v [].
Definition vall (v : dvec) : deps := unions v.

Fixpoint vtake (v : dvec) (i len : nat) : list deps :=
  match len with O => [] | S k => vbit v i :: vtake v (S i) k end.

(* running union: bit i of the result is the union of bits 0..i *)
Fixpoint vtri (acc : deps) (v : dvec) : dvec :=
  match v with [] => [] | d :: t => let acc' := union d acc in acc' :: vtri acc' t end.

(* SSA state of a block: the latest version of every bit written so far, newest first.
   A bit that is not in the state still has its block-entry value: the bit itself. *)
Definition state := list (node * deps).

Fixpoint lookup (n : node) (st : state) : option deps :=
  match st with
  | [] => None
  | (m, d) :: t => if N.eqb n m then Some d else lookup n t
  end.

Definition rd (st : state) (n : node) : deps :=
  match lookup n st with Some d => d | None => [n] end.

Fixpoint write (base : N) (ds : list deps) (st : state) : state :=
  match ds with [] => st | d :: t => (base, d) :: write (N.succ base) t st end.

Section Eval.
  (* the bits that are read when bit n is read: [n] itself in the design as it is; all bits of n's
     atom when the design is seen through the detector's partition (one SSA version per atom) *)
  Variable rdm : node -> list node.
  (* how a call is evaluated: function index, argument vectors, the caller's state *)
  Variable call : nat -> list dvec -> state -> dvec.
  Variable st : state.

  Definition rdb (n : node) : deps := unions (map (rd st) (rdm n)).

  Fixpoint eval (e : dexp) : dvec :=
    match e with
    | DConst w => repeat [] w
    | DRef base len => map rdb (nodes_from base len)
    | DCat parts => (fix cat (l : list dexp) : dvec :=
                       match l with [] => [] | p :: t => eval p ++ cat t end) parts
    | DBit a b => let va := eval a in let vb := eval b in
                  let n := Nat.max (length va) (length vb) in
                  map (fun i => union (vbit va i) (vbit vb i)) (seq 0 n)
    | DNot a => eval a
    | DFull w args => let d := (fix all (l : list dexp) : deps :=
                                  match l with [] => [] | p :: t => union (vall (eval p)) (all t) end) args in
                      repeat d w
    | DTri a => vtri [] (eval a)
    | DMux c a b => let dc := vall (eval c) in
                    let va := eval a in let vb := eval b in
                    let n := Nat.max (length va) (length vb) in
                    map (fun i => union dc (union (vbit va i) (vbit vb i))) (seq 0 n)
    | DShl a k => let va := eval a in firstn (length va) (repeat [] k ++ va)
    | DShr a k => let va := eval a in firstn (length va) (skipn k va ++ repeat [] k)
    | DCall f args => call f ((fix ev (l : list dexp) : list dvec :=
                                 match l with [] => [] | p :: t => eval p :: ev t end) args) st
    | DSel a lo len => vtake (eval a) lo len
    end.
End Eval.

Section Exec.
  Variable rdm : node -> list node.
  Variable call : nat -> list dvec -> state -> dvec.

  Definition conds_deps (st : state) (cs : list dexp) : deps :=
    unions (map (fun c => vall (eval rdm call st c)) cs).

  (* the bits an arm wrote = the entries it put in front of the state it started from *)
  Definition delta (st out : state) : list node := map fst (firstn (length out - length st) out).

  Definition merged (outs : list state) (n : node) : deps :=
    unions (map (fun out => match lookup n out with Some d => d | None => [] end) outs).

  Fixpoint dedup (l : list node) : list node :=
    match l with [] => [] | x :: t => if mem_n x t then dedup t else x :: dedup t end.

  (* merge of the arms of a branch: a bit written in some arm gets the union of what it holds at
     the end of every arm (its value before the branch in an arm that does not write it; nothing
     when it was never written: retained state is not a combinational read) *)
  Definition merge (st : state) (outs : list state) : state :=
    let written := dedup (flat_map (delta st) outs) in
    map (fun n => (n, merged outs n)) written ++ st.

  Fixpoint exec (s : stmt) (ctl : deps) (st : state) {struct s} : state :=
    match s with
    | SAssign base len e =>
        write base (map (union ctl) (vtake (eval rdm call st e) 0 len)) st
    | SBranch cs arms =>
        let c := union ctl (conds_deps st cs) in
        merge st (map (fun arm =>
                         (fix run (l : list stmt) (st' : state) : state :=
                            match l with [] => st' | s' :: t => run t (exec s' c st') end) arm st) arms)
    end.

  Fixpoint exec_block (l : list stmt) (ctl : deps) (st : state) : state :=
    match l with [] => st | s :: t => exec_block t ctl (exec s ctl st) end.
End Exec.

(* calls are inlined; [fuel] bounds the call depth (functions are not recursive: a recursive
   function is one of the constructs the detector documents as opaque) *)
Fixpoint callF (rdm : node -> list node) (fs : list func) (fuel : nat) (f : nat) (args : list dvec) (st : state) : dvec :=
  match fuel with
  | O => []
  | S k =>
      match nth_error fs f with
      | None => []
      | Some fn =>
          let bound := (fix bind (fl : list (N * nat)) (al : list dvec) (s : state) : state :=
                          match fl, al with
                          | (b, w) :: ft, a :: at_ => bind ft at_ (write b (vtake a 0 w) s)
                          | _, _ => s
                          end) (f_formals fn) args st in
          let out := exec_block rdm (callF rdm fs k) (f_body fn) [] bound in
          map (rd out) (nodes_from (fst (f_ret fn)) (snd (f_ret fn)))
      end
  end.

Definition call_of (rdm : node -> list node) (fs : list func) : nat -> list dvec -> state -> dvec :=
  callF rdm fs (S (length fs)).

(* the final version of every bit a block wrote (first occurrence = newest) *)
Fixpoint finals (st : state) (seen : list node) : graph :=
  match st with
  | [] => []
  | (n, d) :: t => if mem_n n seen then finals t seen else (n, d) :: finals t (n :: seen)
  end.

Fixpoint entries (base : N) (ds : list deps) : graph :=
  match ds with [] => [] | d :: t => (base, d) :: entries (N.succ base) t end.

Definition shift (off : N) (g : graph) : graph :=
  map (fun e => (off + fst e, map (N.add off) (snd e))) g.

(* does some bit of [srcs] depend, transitively, on some bit of [dsts] ? *)
Definition grow (g : graph) (r : PositiveSet.t) : PositiveSet.t :=
  fold_left (fun acc e => if smem (fst e) r
                          then fold_left (fun a d => PositiveSet.add (nkey d) a) (snd e) acc
                          else acc) g r.

Fixpoint grow_n (fuel : nat) (g : graph) (r : PositiveSet.t) : PositiveSet.t :=
  match fuel with O => r | S k => grow_n k g (grow g r) end.

Definition reaches (g : graph) (srcs dsts : list node) : bool :=
  let r := grow_n (length g) g (set_of srcs) in existsb (fun d => smem d r) dsts.

Definition quotient (cls : node -> node) (g : graph) : graph :=
  map (fun e => (cls (fst e), map cls (snd e))) g.

(* [cls]: the partition through which the detector's port-level summary of a child is taken
   (identity when the design is lowered as it is) *)
Fixpoint lower (rdm : node -> list node) (cls : node -> node) (fs : list func) (it : item) {struct it} : graph :=
  match it with
  | IAssign base len e => entries base (vtake (eval rdm (call_of rdm fs) [] e) 0 len)
  | IComb body => finals (exec_block rdm (call_of rdm fs) body [] []) []
  | IInst portlevel off cfs child ins outs =>
      let cg := shift off ((fix low (l : list item) : graph :=
                              match l with [] => [] | c :: t => lower rdm cls cfs c ++ low t end) child) in
      if portlevel then
        let qg := quotient cls cg in
        cg ++ flat_map (fun o => match o with (tb, len, cb) =>
                 let feeding := flat_map (fun p => match p with (pb, w, e) =>
                                   if reaches qg (map cls (nodes_from (off + cb) len))
                                                 (map cls (nodes_from (off + pb) w))
                                   then vall (eval rdm (call_of rdm fs) [] e) else [] end) ins in
                 entries tb (repeat feeding len) end) outs
      else
        cg ++ flat_map (fun p => match p with (pb, w, e) =>
                 entries (off + pb) (vtake (eval rdm (call_of rdm fs) [] e) 0 w) end) ins
           ++ flat_map (fun p => match p with (tb, len, cb) =>
                 entries tb (map (fun n => [n]) (nodes_from (off + cb) len)) end) outs
  end.

Definition lower_module (rdm : node -> list node) (cls : node -> node) (fs : list func) (items : list item) : graph :=
  flat_map (lower rdm cls fs) items.

(* the reference verdict: the design as it is, bit by bit *)
Definition design_has_cycle (fs : list func) (items : list item) : bool :=
  has_cycle (lower_module (fun n => [n]) (fun n => n) fs items).

(* ------------------------------------------------------------------------------------------ *)
(** * Part 4: quotient by a partition of the bits *)

(* [quotient] is defined in Part 3 (the port-level summary needs it) *)

(* classes given as a table of intervals (first bit, length, class id): the atoms of the detector's
   bit partition; a bit outside every interval is a class of its own *)
Fixpoint cls_of (tab : list (N * N * N)) (n : N) : N :=
  match tab with
  | [] => n
  | (s, l, c) :: t => if (s <=? n) && (n <? s + l) then c else cls_of t n
  end.

(* all bits of the class of n *)
Definition members_of (tab : list (N * N * N)) (n : N) : list N :=
  let c := cls_of tab n in
  match flat_map (fun e => match e with (s, l, c') => if c' =? c then nodes_from s (N.to_nat l) else [] end) tab with
  | [] => [n]
  | l => if mem_n n l then l else [n]
  end.

(* the verdict seen through a partition: one SSA version per class (reading a bit reads its whole
   class) and the class graph *)
Definition design_has_cycle_q (tab : list (N * N * N)) (fs : list func) (items : list item) : bool :=
  has_cycle (quotient (cls_of tab) (lower_module (members_of tab) (cls_of tab) fs items)).
