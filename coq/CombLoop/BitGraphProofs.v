(* C14 — proofs about the reference of CombLoop/BitGraph.v:
     has_cycle_correct   has_cycle g = true <-> some bit reaches itself by a non-empty path
     quotient_exact      if the bit edges relate the classes of a partition uniformly, the class
                         graph has a cycle iff the bit graph has one
     quotient_sound      (no hypothesis) a bit cycle always shows in the class graph
     ssa_order           a read in a block sees the latest preceding write, else the entry value *)
From Coq Require Import List NArith PArith Bool Arith Lia.
From Coq Require Import MSets.MSetPositive.
From VV Require Import CombLoop.BitGraph.
Import ListNotations.
Open Scope N_scope.

(* ------------------------------------------------------------------------------------------ *)
(** * A total relation on a finite non-empty domain has a cycle *)

Fixpoint chain {A} (R : A -> A -> Prop) (l : list A) : Prop :=
  match l with
  | a :: (b :: _) as t => R a b /\ chain R t
  | _ => True
  end.

Lemma chain_app_r {A} (R : A -> A -> Prop) l1 l2 : chain R (l1 ++ l2) -> chain R l2.
Proof.
  induction l1 as [|a l1 IH]; simpl; auto.
  destruct (l1 ++ l2) eqn:E.
  - destruct l1; simpl in E; [subst; simpl; auto | discriminate].
  - intros [_ H]. auto.
Qed.

Lemma chain_tc {A} (R : A -> A -> Prop) l2 : forall a b rest,
  chain R (a :: l2 ++ b :: rest) -> tc R a b.
Proof.
  induction l2 as [|c l2 IH]; intros a b rest H; simpl in H.
  - apply tc_one. tauto.
  - destruct H as [H1 H2]. eapply tc_cons; eauto.
Qed.

Lemma dup_split (l : list N) :
  ~ NoDup l -> exists a l1 l2 l3, l = l1 ++ a :: l2 ++ a :: l3.
Proof.
  induction l as [|x t IH]; intros H.
  - exfalso. apply H. constructor.
  - destruct (in_dec N.eq_dec x t) as [Hin|Hnin].
    + apply in_split in Hin. destruct Hin as [l2 [l3 E]].
      exists x, [], l2, l3. simpl. now rewrite E.
    + destruct IH as [a [l1 [l2 [l3 E]]]].
      * intros Hnd. apply H. constructor; auto.
      * exists a, (x :: l1), l2, l3. simpl. now rewrite E.
Qed.

Lemma long_chain (R : N -> N -> Prop) (dom : list N) :
  (forall x, In x dom -> exists y, In y dom /\ R x y) ->
  forall n x, In x dom ->
  exists l, length l = n /\ chain R (x :: l) /\ incl (x :: l) dom.
Proof.
  intros Htot n. induction n as [|n IH]; intros x Hx.
  - exists []. split; [|split]; simpl; auto. intros y [<-|[]]; auto.
  - destruct (Htot x Hx) as [y [Hy Rxy]].
    destruct (IH y Hy) as [l [Hl [Hc Hi]]].
    exists (y :: l). split; [|split].
    + simpl. now rewrite Hl.
    + simpl. split; auto.
    + intros z [<-|Hz]; auto.
Qed.

Lemma total_cycle (R : N -> N -> Prop) (dom : list N) :
  dom <> [] ->
  (forall x, In x dom -> exists y, In y dom /\ R x y) ->
  exists x, In x dom /\ tc R x x.
Proof.
  intros Hne Htot.
  destruct dom as [|x0 dom0] eqn:Edom; [congruence|]. rewrite <- Edom in *.
  assert (Hx0 : In x0 dom) by (rewrite Edom; left; auto).
  destruct (long_chain R dom Htot (length dom) x0 Hx0) as [l [Hl [Hc Hi]]].
  assert (Hnd : ~ NoDup (x0 :: l)).
  { intros Hnd. pose proof (NoDup_incl_length Hnd Hi) as Hlen. simpl in Hlen. lia. }
  destruct (dup_split _ Hnd) as [a [l1 [l2 [l3 E]]]].
  exists a. split.
  - apply Hi. rewrite E. apply in_or_app. right. left. auto.
  - rewrite E in Hc. apply chain_app_r in Hc. eapply chain_tc; eauto.
Qed.

(* ------------------------------------------------------------------------------------------ *)
(** * has_cycle *)

Lemma nkey_inj a b : nkey a = nkey b -> a = b.
Proof.
  unfold nkey. intros H. apply N.succ_inj.
  rewrite <- !N.succ_pos_spec. now rewrite H.
Qed.

Lemma smem_set_of n l : smem n (set_of l) = true <-> In n l.
Proof.
  unfold smem. rewrite PositiveSet.mem_spec.
  induction l as [|x t IH]; simpl.
  - split; [|tauto]. intros H. exfalso. exact (PositiveSet.empty_spec H).
  - rewrite PositiveSet.add_spec, IH. split.
    + intros [H|H]; auto. left. apply nkey_inj in H. auto.
    + intros [H|H]; auto. left. now subst.
Qed.

Lemma filter_length_le {A} (f : A -> bool) l : (length (filter f l) <= length l)%nat.
Proof. induction l; simpl; auto. destruct (f a); simpl; lia. Qed.

Lemma filter_length_eq {A} (f : A -> bool) l :
  length (filter f l) = length l -> filter f l = l.
Proof.
  induction l as [|a l IH]; simpl; auto.
  destruct (f a); simpl; intros H.
  - f_equal. apply IH. lia.
  - pose proof (filter_length_le f l). lia.
Qed.

Lemma step_incl es : incl (step es) es.
Proof. unfold step. intros e H. apply filter_In in H. tauto. Qed.

Lemma step_length es : (length (step es) <= length es)%nat.
Proof. unfold step. apply filter_length_le. Qed.

(* the result of the iteration is a fixed point of [step] contained in the start *)
Lemma iter_step_fix fuel : forall es, (length es <= fuel)%nat ->
  step (iter_step fuel es) = iter_step fuel es /\ incl (iter_step fuel es) es.
Proof.
  induction fuel as [|k IH]; intros es Hlen; simpl.
  - destruct es; [|simpl in Hlen; lia]. split; [reflexivity | apply incl_refl].
  - destruct (Nat.eqb (length (step es)) (length es)) eqn:E.
    + apply Nat.eqb_eq in E. split; [|apply incl_refl].
      unfold step in *. now apply filter_length_eq.
    + apply Nat.eqb_neq in E. pose proof (step_length es).
      destruct (IH (step es)) as [H1 H2]; [lia|].
      split; auto. eapply incl_tran; eauto. apply step_incl.
Qed.

(* an entry lies on a cycle *)
Definition oncyc (g : graph) (e : node * deps) : Prop :=
  In e g /\ exists b, In b (snd e) /\ (b = fst e \/ path g b (fst e)).

Lemma tc_snoc {A} (R : A -> A -> Prop) a b c : tc R a b -> R b c -> tc R a c.
Proof.
  induction 1 as [a b H|a b d H _ IH]; intros Hc.
  - eapply tc_cons; eauto. now apply tc_one.
  - eapply tc_cons; eauto.
Qed.

Lemma tc_trans {A} (R : A -> A -> Prop) a b c : tc R a b -> tc R b c -> tc R a c.
Proof.
  induction 1 as [a b H|a b d H _ IH]; intros Hc.
  - eapply tc_cons; eauto.
  - eapply tc_cons; eauto.
Qed.

Lemma step_keeps g es :
  (forall e, oncyc g e -> In e es) -> forall e, oncyc g e -> In e (step es).
Proof.
  intros Hall [a ss] Hon. unfold step. apply filter_In. split; [auto|].
  destruct Hon as [Hin [b [Hb Hr]]]. simpl in *.
  apply existsb_exists. exists b. split; auto.
  apply smem_set_of.
  assert (Hdep : dep g a b) by (exists ss; auto).
  destruct Hr as [->|Hp].
  - apply in_map_iff. exists (a, ss). split; auto. apply Hall. split; auto.
    exists a. simpl. auto.
  - (* b -> ... -> a : the first step of that path gives an entry of b on the cycle *)
    inversion Hp as [x y [ds [Hd1 Hd2]] | x y z [ds [Hd1 Hd2]] Hrest]; subst.
    + apply in_map_iff. exists (b, ds). split; auto. apply Hall. split; auto.
      exists a. simpl. split; auto. right. now apply tc_one.
    + apply in_map_iff. exists (b, ds). split; auto. apply Hall. split; auto.
      exists y. simpl. split; auto. right. eapply tc_snoc; eauto.
Qed.

Lemma iter_step_keeps g fuel : forall es,
  (forall e, oncyc g e -> In e es) -> forall e, oncyc g e -> In e (iter_step fuel es).
Proof.
  induction fuel as [|k IH]; intros es Hall e He; simpl; auto.
  destruct (Nat.eqb (length (step es)) (length es)); auto.
  apply IH; auto. apply step_keeps; auto.
Qed.

Theorem has_cycle_correct : forall g : graph,
  has_cycle g = true <-> exists n, path g n n.
Proof.
  intros g. unfold has_cycle. split.
  - intros H.
    destruct (iter_step_fix (length g) g (le_n _)) as [Hfix Hincl].
    set (F := iter_step (length g) g) in *.
    destruct F as [|e0 F0] eqn:EF; [discriminate|]. rewrite <- EF in *.
    assert (Htot : forall x, In x (map fst F) -> exists y, In y (map fst F) /\ dep g x y).
    { intros x Hx. apply in_map_iff in Hx. destruct Hx as [[a ss] [<- He]]. simpl.
      rewrite <- Hfix in He. unfold step in He. apply filter_In in He. destruct He as [He Hex].
      apply existsb_exists in Hex. destruct Hex as [w [Hw Hm]]. simpl in Hw.
      apply smem_set_of in Hm. exists w. split; auto.
      exists ss. split; auto. }
    destruct (total_cycle (dep g) (map fst F)) as [x [_ Hx]]; auto.
    { rewrite EF. simpl. discriminate. }
    exists x. exact Hx.
  - intros [n Hn].
    assert (Hex : exists e, oncyc g e).
    { inversion Hn as [x y [ds [Hd1 Hd2]] | x y z [ds [Hd1 Hd2]] Hrest]; subst.
      - exists (n, ds). split; auto. exists n. simpl. auto.
      - exists (n, ds). split; auto. exists y. simpl. auto. }
    destruct Hex as [e He].
    pose proof (iter_step_keeps g (length g) g (fun e H => proj1 H) e He) as Hin.
    destruct (iter_step (length g) g); [destruct Hin | reflexivity].
Qed.

(* ------------------------------------------------------------------------------------------ *)
(** * Quotient by a partition *)

Lemma dep_quotient cls g a b : dep g a b -> dep (quotient cls g) (cls a) (cls b).
Proof.
  intros [ds [H1 H2]]. exists (map cls ds). split.
  - unfold quotient. apply in_map_iff. exists (a, ds). auto.
  - now apply in_map.
Qed.

Lemma dep_quotient_inv cls g A B :
  dep (quotient cls g) A B -> exists a b, dep g a b /\ cls a = A /\ cls b = B.
Proof.
  intros [ds [H1 H2]]. unfold quotient in H1. apply in_map_iff in H1.
  destruct H1 as [[a ds0] [E Hin]]. simpl in E. inversion E; subst.
  apply in_map_iff in H2. destruct H2 as [b [Eb Hb]].
  exists a, b. repeat split; auto. exists ds0. auto.
Qed.

Lemma path_quotient cls g a b : path g a b -> path (quotient cls g) (cls a) (cls b).
Proof.
  induction 1 as [a b H|a b c H _ IH].
  - apply tc_one. now apply dep_quotient.
  - eapply tc_cons; eauto. now apply dep_quotient.
Qed.

(* no hypothesis: the quotient never loses a cycle *)
Theorem quotient_sound : forall cls g,
  has_cycle g = true -> has_cycle (quotient cls g) = true.
Proof.
  intros cls g H. apply has_cycle_correct in H. destruct H as [n Hn].
  apply has_cycle_correct. exists (cls n). now apply path_quotient.
Qed.

(* "every edge relates whole classes uniformly":
   U1  when some bit of class A depends on some bit of class B, every driven bit of A depends on
       some bit of B;
   U2  a class is driven as a whole: a bit that is depended upon and shares its class with a driven
       bit is driven itself.
   A partition closed under the positional transfers of the design (what
   propagate_packed_endpoints is meant to establish) has both. *)
Definition driven (g : graph) (a : node) : Prop := In a (map fst g).

Definition uniform (cls : node -> node) (g : graph) : Prop :=
  (forall a b, dep g a b -> forall a', cls a' = cls a -> driven g a' ->
     exists b', cls b' = cls b /\ dep g a' b') /\
  (forall a b, dep g a b -> (exists b', cls b' = cls b /\ driven g b') -> driven g b).

Definition owners (cls : node -> node) (g : graph) (A : node) : list node :=
  filter (fun x => N.eqb (cls x) A) (map fst g).

Lemma owners_In cls g A x : In x (owners cls g A) <-> driven g x /\ cls x = A.
Proof. unfold owners, driven. rewrite filter_In, N.eqb_eq. tauto. Qed.

Lemma dep_driven g a b : dep g a b -> driven g a.
Proof. intros [ds [H _]]. apply in_map_iff. exists (a, ds). auto. Qed.

Lemma tc_first {A} (R : A -> A -> Prop) a b : tc R a b -> exists c, R a c.
Proof. destruct 1; eauto. Qed.

Lemma uniform_step cls g : uniform cls g ->
  forall A B C, dep (quotient cls g) A B -> dep (quotient cls g) B C ->
  forall a, In a (owners cls g A) -> exists b, In b (owners cls g B) /\ dep g a b.
Proof.
  intros [U1 U2] A B C HAB HBC a Ha. apply owners_In in Ha. destruct Ha as [Hdr Ha].
  apply dep_quotient_inv in HAB. destruct HAB as [a0 [b0 [Hd [Ea Eb]]]].
  destruct (U1 a0 b0 Hd a) as [b' [Eb' Hd']]; [congruence | auto |].
  apply dep_quotient_inv in HBC. destruct HBC as [b1 [c1 [Hd1 [Eb1 _]]]].
  exists b'. split; auto. apply owners_In. split; [|congruence].
  apply (U2 a b' Hd'). exists b1. split; [congruence|]. eapply dep_driven; eauto.
Qed.

Lemma path_lift cls g : uniform cls g ->
  forall A B, path (quotient cls g) A B ->
  forall C, dep (quotient cls g) B C ->
  forall a, In a (owners cls g A) -> exists b, In b (owners cls g B) /\ path g a b.
Proof.
  intros Hu A B Hp. induction Hp as [A B H|A B D H Hp IH]; intros C HC a Ha.
  - destruct (uniform_step cls g Hu A B C H HC a Ha) as [b [Hb Hd]].
    exists b. split; auto. now apply tc_one.
  - destruct (tc_first _ _ _ Hp) as [E HE].
    destruct (uniform_step cls g Hu A B E H HE a Ha) as [b [Hb Hd]].
    destruct (IH C HC b Hb) as [d [Hd' Hp']].
    exists d. split; auto. eapply tc_cons; eauto.
Qed.

Lemma tc_flat {A} (R : A -> A -> Prop) a b : tc (tc R) a b -> tc R a b.
Proof. induction 1; auto. eapply tc_trans; eauto. Qed.

Theorem quotient_exact : forall cls g, uniform cls g ->
  (has_cycle (quotient cls g) = true <-> has_cycle g = true).
Proof.
  intros cls g Hu. split; [|apply quotient_sound].
  intros H. apply has_cycle_correct in H. destruct H as [A HA].
  apply has_cycle_correct.
  destruct (tc_first _ _ _ HA) as [C HC].
  assert (Hne : owners cls g A <> []).
  { apply dep_quotient_inv in HC. destruct HC as [a [c [Hd [Ea _]]]].
    intros E. assert (Hin : In a (owners cls g A)).
    { apply owners_In. split; auto. eapply dep_driven; eauto. }
    rewrite E in Hin. destruct Hin. }
  destruct (total_cycle (path g) (owners cls g A) Hne) as [x [_ Hx]].
  - intros x Hx. destruct (path_lift cls g Hu A A HA C HC x Hx) as [y [Hy Hp]]. eauto.
  - exists x. now apply tc_flat.
Qed.

(* ------------------------------------------------------------------------------------------ *)
(** * Statement order in a block (model of SsaStore read / bind) *)

Lemma nodes_from_In len : forall base n,
  In n (nodes_from base len) <-> base <= n < base + N.of_nat len.
Proof.
  induction len as [|k IH]; intros base n; simpl nodes_from.
  - simpl. lia.
  - simpl In. rewrite IH. lia.
Qed.

Lemma lookup_write_in ds : forall base st i, (i < length ds)%nat ->
  lookup (base + N.of_nat i) (write base ds st) = Some (nth i ds []).
Proof.
  induction ds as [|d t IH]; intros base st i Hi; simpl in Hi; [lia|].
  simpl. destruct i as [|i].
  - replace (base + N.of_nat 0) with base by lia. now rewrite N.eqb_refl.
  - destruct (N.eqb_spec (base + N.of_nat (S i)) base) as [E|E]; [lia|].
    replace (base + N.of_nat (S i)) with (N.succ base + N.of_nat i) by lia.
    apply IH. lia.
Qed.

Lemma lookup_write_out ds : forall base st n,
  ~ In n (nodes_from base (length ds)) -> lookup n (write base ds st) = lookup n st.
Proof.
  induction ds as [|d t IH]; intros base st n Hn; simpl; auto.
  simpl in Hn. destruct (N.eqb_spec n base) as [E|E]; [exfalso; apply Hn; auto|].
  apply IH. intros H. apply Hn. auto.
Qed.

Lemma vtake_length v len : forall i, length (vtake v i len) = len.
Proof. induction len; intros; simpl; auto. Qed.

Lemma vtake_nth v len : forall i j d, (j < len)%nat -> nth j (vtake v i len) d = vbit v (i + j).
Proof.
  induction len as [|k IH]; intros i j d Hj; [lia|]. simpl.
  destruct j as [|j].
  - now rewrite Nat.add_0_r.
  - rewrite IH by lia. f_equal. lia.
Qed.

Lemma exec_block_app rdm call a : forall b ctl st,
  exec_block rdm call (a ++ b) ctl st = exec_block rdm call b ctl (exec_block rdm call a ctl st).
Proof. induction a; intros; simpl; auto. Qed.

(* straight-line statements that leave bit n alone *)
Definition leaves (n : node) (s : stmt) : Prop :=
  match s with
  | SAssign b l _ => ~ In n (nodes_from b l)
  | SBranch _ _ => False
  end.

Lemma exec_block_leaves rdm call n post : forall ctl st,
  Forall (leaves n) post -> lookup n (exec_block rdm call post ctl st) = lookup n st.
Proof.
  induction post as [|s t IH]; intros ctl st H; simpl; auto.
  inversion H as [|? ? Hs Ht]; subst. rewrite IH by auto.
  destruct s as [b l e|]; [|destruct Hs]. simpl in *.
  apply lookup_write_out. now rewrite map_length, vtake_length.
Qed.

(* A read at the end of a block sees the latest preceding write of that bit — the value of the
   assigned expression in the state reached just BEFORE that assignment — whatever came earlier. *)
Theorem ssa_order : forall rdm call ctl pre base len e post st n,
  In n (nodes_from base len) ->
  Forall (leaves n) post ->
  rd (exec_block rdm call (pre ++ SAssign base len e :: post) ctl st) n =
  union ctl (vbit (eval rdm call (exec_block rdm call pre ctl st) e) (N.to_nat (n - base))).
Proof.
  intros rdm call ctl pre base len e post st n Hn Hpost.
  rewrite exec_block_app. simpl exec_block at 1. unfold rd.
  rewrite exec_block_leaves by auto. simpl.
  apply nodes_from_In in Hn.
  replace n with (base + N.of_nat (N.to_nat (n - base))) at 1 by lia.
  set (i := N.to_nat (n - base)).
  assert (Hi : (i < len)%nat) by (unfold i; lia).
  rewrite lookup_write_in by (now rewrite map_length, vtake_length).
  rewrite (nth_indep _ [] (union ctl [])) by (now rewrite map_length, vtake_length).
  rewrite map_nth. now rewrite vtake_nth by auto.
Qed.

(* ... and the block-entry value when no statement of the block writes the bit *)
Theorem ssa_entry : forall rdm call ctl body st n,
  Forall (leaves n) body -> rd (exec_block rdm call body ctl st) n = rd st n.
Proof. intros. unfold rd. now rewrite exec_block_leaves. Qed.

(* sequential reassignment is not a loop:  x = a; x = x + 1;  leaves x depending on a only *)
Example seq_reassign_no_loop :
  let x := 0 in let a := 4 in
  lower (fun n => [n]) (fun n => n) [] (IComb [SAssign x 4 (DRef a 4); SAssign x 4 (DFull 4 [DRef x 4; DConst 4])])
  = [(0, [4;5;6;7]); (1, [4;5;6;7]); (2, [4;5;6;7]); (3, [4;5;6;7])]
  /\ design_has_cycle [] [IComb [SAssign x 4 (DRef a 4); SAssign x 4 (DFull 4 [DRef x 4; DConst 4])]] = false
  /\ design_has_cycle [] [IComb [SAssign x 4 (DFull 4 [DRef x 4; DConst 4])]] = true.
Proof. vm_compute. repeat split; reflexivity. Qed.

(* ------------------------------------------------------------------------------------------ *)
(** * The merge at the end of a branch (model of SsaStore::merge) *)

Lemma mem_n_In x l : mem_n x l = true <-> In x l.
Proof.
  induction l as [|y t IH]; simpl; [split; [discriminate | tauto]|].
  destruct (N.eqb_spec x y) as [->|Hne]; [tauto|]. rewrite IH. split; [auto|]. intros [E|H]; [congruence | auto].
Qed.

Lemma dedup_In x l : In x (dedup l) <-> In x l.
Proof.
  induction l as [|y t IH]; simpl; [tauto|].
  destruct (mem_n y t) eqn:E.
  - rewrite IH. split; [auto|]. intros [<-|H]; auto. now apply mem_n_In.
  - simpl. rewrite IH. tauto.
Qed.

Lemma lookup_tab_in (f : node -> deps) n l st :
  In n l -> lookup n (map (fun m => (m, f m)) l ++ st) = Some (f n).
Proof.
  induction l as [|x t IH]; intros H; [destruct H|]. simpl.
  destruct (N.eqb_spec n x) as [->|Hne]; auto.
  apply IH. destruct H; [congruence | auto].
Qed.

Lemma lookup_tab_out (f : node -> deps) n l st :
  ~ In n l -> lookup n (map (fun m => (m, f m)) l ++ st) = lookup n st.
Proof.
  induction l as [|x t IH]; intros H; simpl; auto.
  destruct (N.eqb_spec n x) as [->|Hne]; [exfalso; apply H; now left|].
  apply IH. intros Hin. apply H. now right.
Qed.

(* a bit some arm wrote holds, after the branch, the union of what it holds at the end of every arm
   (an arm that did not write it contributes the value from before the branch, or nothing if the
   bit was never written: retained state); a bit no arm wrote is untouched *)
Theorem merge_written : forall st outs n,
  In n (flat_map (delta st) outs) ->
  lookup n (merge st outs) = Some (merged outs n).
Proof.
  intros st outs n H. unfold merge. apply lookup_tab_in. now apply dedup_In.
Qed.

Theorem merge_unwritten : forall st outs n,
  ~ In n (flat_map (delta st) outs) ->
  lookup n (merge st outs) = lookup n st.
Proof.
  intros st outs n H. unfold merge. apply lookup_tab_out. now rewrite dedup_In.
Qed.

(* a rotation  a = {a[2:0], a[3]}  seen through the one-class partition: uniform, and cyclic *)
Definition rot_graph : graph := [(0, [3]); (1, [0]); (2, [1]); (3, [2])].
Definition rot_cls : node -> node := fun _ => 0.

Example uniform_rotation_example : uniform rot_cls rot_graph /\ has_cycle rot_graph = true.
Proof.
  split; [|reflexivity]. split.
  - intros a b _ a' _ Hdr. unfold driven in Hdr. simpl in Hdr.
    destruct Hdr as [<-|[<-|[<-|[<-|[]]]]].
    + exists 3. split; [reflexivity|]. exists [3]. simpl. split; auto 10.
    + exists 0. split; [reflexivity|]. exists [0]. simpl. split; auto 10.
    + exists 1. split; [reflexivity|]. exists [1]. simpl. split; auto 10.
    + exists 2. split; [reflexivity|]. exists [2]. simpl. split; auto 10.
  - intros a b [ds [Hin Hb]] _. unfold driven. simpl in *.
    destruct Hin as [E|[E|[E|[E|[]]]]]; inversion E; subst; simpl in Hb;
      destruct Hb as [<-|[]]; auto 10.
Qed.

(* the shift chain  a[7:1] = a[6:0]  (a[0] driven from outside) and the partition
   {0} {1} {2..5} {6} {7} the detector's endpoint propagation leaves it with *)
Definition chain_graph : graph := [(1, [0]); (2, [1]); (3, [2]); (4, [3]); (5, [4]); (6, [5]); (7, [6])].
Definition chain_cls : node -> node := cls_of [(0, 1, 0); (1, 1, 1); (2, 4, 2); (6, 1, 6); (7, 1, 7)].

Example nonuniform_chain_example :
  has_cycle chain_graph = false /\ has_cycle (quotient chain_cls chain_graph) = true.
Proof. split; reflexivity. Qed.
