(* C14 — transcription of the bit-partition primitives of the combinational loop detector:
     crates/analyzer/src/comb_loop_detect/region.rs   PackedSpan (new, whole, from_select, end,
                                                      overlaps, intersection, translated)
     crates/analyzer/src/comb_loop_detect.rs          atomic_ranges
   DEFINITIONS ONLY (proofs: CombLoop/CombLoopProofs.v).

   usize is modelled by unbounded N: the only overflow checks in this code (checked_add in
   PackedSpan::new / translated) reject spans reaching beyond usize::MAX bits, which no design
   has; the correspondence check feeds both sides the same values below 2^40. `checked_sub`
   (which decides results) IS modelled.  isize -> Z. *)
From Coq Require Import List NArith ZArith Bool.
Import ListNotations.
Open Scope N_scope.

(* pub(super) struct PackedSpan { start, length }  — half-open interval [start, start+length) *)
Record span := mkSpan { s_start : N; s_len : N }.

(* PackedSpan::new : (length != 0 && start.checked_add(length).is_some()).then_some(..) *)
Definition span_new (start len : N) : option span :=
  if len =? 0 then None else Some (mkSpan start len).

Definition span_whole (width : N) : option span := span_new 0 width.

(* from_select(high, low) = new(low, high.checked_sub(low)?.checked_add(1)?) *)
Definition span_from_select (high low : N) : option span :=
  if high <? low then None else span_new low (high - low + 1).

Definition s_end (s : span) : N := s_start s + s_len s.

Definition span_overlaps (a b : span) : bool :=
  (s_start a <? s_end b) && (s_start b <? s_end a).

(* intersection: start = max starts; end = min ends; new(start, end.checked_sub(start)?) *)
Definition span_intersection (a b : span) : option span :=
  let st := N.max (s_start a) (s_start b) in
  let en := N.min (s_end a) (s_end b) in
  if en <? st then None else span_new st (en - st).

(* translated(from, to): start.checked_sub(from)?.checked_add(to)?; new(start, length) *)
Definition span_translated (s : span) (from to : N) : option span :=
  if s_start s <? from then None else span_new (s_start s - from + to) (s_len s).

(* ------------------------------------------------------------------------------------------ *)
(* atomic_ranges(spans, endpoints):
     events = (start,+1), (end,-1) per span, (endpoint, 0) per endpoint;
     events.sort_unstable_by_key(position);
     sweep: at every distinct position add up all deltas there; if active > 0 and there is a
            later position, push new(position, next - position).                                *)

Notation event := (N * Z)%type (only parsing).

Definition events (spans : list span) (endpoints : list N) : list event :=
  flat_map (fun s => [(s_start s, 1%Z); (s_end s, (-1)%Z)]) spans
  ++ map (fun e => (e, 0%Z)) endpoints.

(* the sort: any sort by position; equal positions are summed by the sweep, so their order is
   irrelevant (the theorems hold for EVERY sorted permutation, see the Section Sweep of CombLoopProofs);
   the executable model uses insertion sort *)
Fixpoint insert_ev (e : event) (l : list event) : list event :=
  match l with
  | [] => [e]
  | x :: t => if fst e <=? fst x then e :: l else x :: insert_ev e t
  end.

Definition sort_ev (l : list event) : list event := fold_right insert_ev [] l.

(* the two nested `while` loops, one event per step: events at the same position are summed
   first (the inner loop), the decision is taken when the next position differs (after it) *)
Fixpoint sweep (evs : list event) (active : Z) : list span :=
  match evs with
  | [] => []
  | (p, d) :: rest =>
      let active' := (active + d)%Z in
      match rest with
      | [] => []                                  (* events.get(index) = None : no atom *)
      | (q, _) :: _ =>
          if q =? p then sweep rest active'       (* inner while continues *)
          else if (0 <? active')%Z then
                 match span_new p (q - p) with
                 | Some a => a :: sweep rest active'
                 | None => sweep rest active'
                 end
               else sweep rest active'
      end
  end.

(* endpoints = None and Some(empty set) add no event alike *)
Definition atomic_ranges (spans : list span) (endpoints : list N) : list span :=
  sweep (sort_ev (events spans endpoints)) 0%Z.
