(* C16 — abstract multi-domain designs and the reference clock-domain checker.
   Definitions only; evaluated with vm_compute by the end-to-end check (vp/props/c16.py) on the
   same abstract design from which the Veryl source text is printed.

   Two readings of a design are computed, item by item:
     model  what the analyzer is expected to report: the checks of ClockDomainModel placed where
            conv/{declaration,statement,utils}.rs place them (statement conditions as pushed by
            IfStatement / CaseStatement / SwitchStatement, star-shaped checks around the
            destination, instance connection groups, $sv chains)
     spec   the property itself: an item has a crossing iff two of the signals taking part in
            one of its data movements (destination, everything read on the right-hand side, in
            index/select expressions, in EVERY condition gating the statement, the always_ff
            clock and reset) are in different clock domains; guarded (unsafe (cdc)) items never
            count.
   Both readings resolve unannotated signals the same way (the domain of the first driver in
   source order, from that assignment on); [spec_final] resolves them independently of the
   order of the items (used to exhibit the order dependence recorded as a known finding). *)
From Coq Require Import NArith List Bool.
From VV Require Import Analysis.ClockDomainModel.
Import ListNotations.
Open Scope N_scope.

(* ---------------------------------------------------------------- syntax *)

(* expressions over signal numbers *)
Inductive sexpr :=
| SSig (s : N)
| SConst
| SUn (e : sexpr)
| SBin (x y : sexpr)
| STern (c x y : sexpr)
| SFold (es : list sexpr).

(* destination: signal + index/select expressions on the left-hand side *)
Definition sdst := (N * list sexpr)%type.

Inductive stmt :=
| SAssign (dsts : list sdst) (rhs : sexpr)
| SIf (c : sexpr) (t : list stmt) (elifs : list (sexpr * list stmt)) (els : list stmt)
| SCase (tgt : sexpr) (arms : list (list stmt))
| SSwitch (arms : list (sexpr * list stmt)) (dflt : list stmt)
| SCall (ins : list sexpr) (outs : list N).

Inductive item :=
| IComb (guard : bool) (body : list stmt)                 (* assign / let / always_comb *)
| IFf (guard : bool) (clk : N) (rst : option N) (body : list stmt)
| IInst (guard : bool) (conns : list (N * sexpr))         (* (group key = child port domain, expr) *)
| ISv (guard : bool) (conns : list N).

Definition env := list dom.

Definition lookup (en : env) (s : N) : dom := nth (N.to_nat s) en DNone.

Fixpoint update_nat (en : env) (i : nat) (d : dom) : env :=
  match en, i with
  | [], _ => []
  | _ :: tl, O => d :: tl
  | x :: tl, S i => x :: update_nat tl i d
  end.

Definition update (en : env) (s : N) (d : dom) : env := update_nat en (N.to_nat s) d.

Fixpoint resolve (en : env) (e : sexpr) : expr :=
  match e with
  | SSig s => Leaf (lookup en s)
  | SConst => Leaf DNone
  | SUn e => Un (resolve en e)
  | SBin x y => Bin (resolve en x) (resolve en y)
  | STern c x y => Tern (resolve en c) (resolve en x) (resolve en y)
  | SFold es => Fold (map (resolve en) es)
  end.

(* ---------------------------------------------------------------- statements *)

Definition b2n (b : bool) : N := if b then 1 else 0.

(* one destination of an assignment.  conds: the conditions in force (already resolved at the
   time they were evaluated).  Returns the new environment and what is reported. *)
Definition run_dst (spec : bool) (clock : option dom) (conds : list expr) (r : expr)
           (acc : env * N) (d : sdst) : env * N :=
  let '(en, n) := acc in
  let '(s, idxs) := d in
  let d0 := lookup en s in
  let ridx := map (resolve en) idxs in
  let d1 := infer_dst d0 (is_some clock) (match clock with Some c => c | None => DNone end) (walk_dom r) in
  let en' := update en s d1 in
  if spec then
    (en', n + b2n (crossingb (d1 :: leaves r ++ flat_map leaves ridx
                               ++ (match clock with Some c => [c] | None => [] end)
                               ++ flat_map leaves conds)))
  else
    (en', n + fold_right (fun i m => snd (walk i) + (if compatible d0 (walk_dom i) then 0 else 1) + m) 0 ridx
            + assign_errors d1 (walk_dom r) clock (map walk_dom conds)).

Section Stmts.
  Variable spec : bool.
  Variable clock : option dom.

  Fixpoint run_stmt (conds : list expr) (acc : env * N) (s : stmt) {struct s} : env * N :=
    let run_block := fix run_block (conds : list expr) (acc : env * N) (b : list stmt) : env * N :=
      match b with
      | [] => acc
      | s :: tl => run_block conds (run_stmt conds acc s) tl
      end in
    match s with
    | SAssign dsts rhs =>
        let '(en, n) := acc in
        let r := resolve en rhs in
        fold_left (run_dst spec clock conds r) dsts
                  (en, n + (if spec then 0 else snd (walk r)))
    | SIf c t elifs els =>
        let '(en, n) := acc in
        let rc := resolve en c in
        let acc := run_block (conds ++ [rc]) (en, n + (if spec then b2n (crossingb (leaves rc)) else snd (walk rc))) t in
        (* else-if arms: the analyzer pushes only the arm's own condition; every earlier
           condition of the chain gates the arm as well (spec) *)
        let '(acc, chain) :=
          (fix go (elifs : list (sexpr * list stmt)) (acc : env * N) (chain : list expr) : (env * N) * list expr :=
             match elifs with
             | [] => (acc, chain)
             | (ci, bi) :: tl =>
                 let '(en, n) := acc in
                 let rci := resolve en ci in
                 let acc := (en, n + (if spec then b2n (crossingb (leaves rci)) else snd (walk rci))) in
                 let acc := run_block (conds ++ (if spec then chain ++ [rci] else [rci])) acc bi in
                 go tl acc (chain ++ [rci])
             end) elifs acc [rc] in
        run_block (conds ++ (if spec then chain else [rc])) acc els
    | SCase tgt arms =>
        let '(en, n) := acc in
        let rt := resolve en tgt in
        (fix go (arms : list (list stmt)) (acc : env * N) : env * N :=
           match arms with
           | [] => acc
           | b :: tl => go tl (run_block (conds ++ [rt]) acc b)
           end) arms (en, n + (if spec then b2n (crossingb (leaves rt)) else snd (walk rt)))
    | SSwitch arms dflt =>
        let '(acc, chain) :=
          (fix go (arms : list (sexpr * list stmt)) (acc : env * N) (chain : list expr) : (env * N) * list expr :=
             match arms with
             | [] => (acc, chain)
             | (ci, bi) :: tl =>
                 let '(en, n) := acc in
                 let rci := resolve en ci in
                 let acc := (en, n + (if spec then b2n (crossingb (leaves rci)) else snd (walk rci))) in
                 let acc := run_block (conds ++ (if spec then chain ++ [rci] else [rci])) acc bi in
                 go tl acc (chain ++ [rci])
             end) arms acc [] in
        run_block (conds ++ (if spec then chain else [])) acc dflt
    | SCall ins outs =>
        let '(en, n) := acc in
        let r := Fold (map (resolve en) ins) in
        (en, fold_left (fun m o =>
                          m + (if spec then b2n (crossingb (lookup en o :: leaves r))
                               else (if compatible (lookup en o) (walk_dom r) then 0 else 1)))
                       outs (n + (if spec then b2n (crossingb (leaves r)) else snd (walk r))))
    end.

  Fixpoint run_block (conds : list expr) (acc : env * N) (b : list stmt) : env * N :=
    match b with
    | [] => acc
    | s :: tl => run_block conds (run_stmt conds acc s) tl
    end.
End Stmts.

(* ---------------------------------------------------------------- items *)

(* connections of one module instance, grouped by key, in connection order *)
Fixpoint group_of (k : N) (conns : list (N * expr)) : list expr :=
  match conns with
  | [] => []
  | (k', e) :: tl => if N.eqb k k' then e :: group_of k tl else group_of k tl
  end.

Fixpoint keys_of (conns : list (N * expr)) (seen : list N) : list N :=
  match conns with
  | [] => rev seen
  | (k, _) :: tl => if existsb (N.eqb k) seen then keys_of tl seen else keys_of tl (k :: seen)
  end.

Definition inst_report (spec : bool) (conns : list (N * expr)) : N :=
  fold_right
    (fun k n =>
       let g := group_of k conns in
       (if spec then b2n (crossingb (flat_map leaves g))
        else fold_right (fun e m => snd (walk e) + m) 0 g + group_errors DNone (map walk_dom g)) + n)
    0 (keys_of conns []).

(* run one item: new environment and what is reported for it (0 = nothing) *)
Definition run_item (spec : bool) (en : env) (it : item) : env * N :=
  match it with
  | IComb g body =>
      let '(en', n) := run_block spec None [] (en, 0) body in
      (en', if g then 0 else n)
  | IFf g clk rst body =>
      let c := lookup en clk in
      let n0 := match rst with
                | Some r => if compatible c (lookup en r) then 0 else 1
                | None => 0
                end in
      let '(en', n) := run_block spec (Some c) [] (en, n0) body in
      (en', if g then 0 else n)
  | IInst g conns =>
      let n := inst_report spec (map (fun kc => (fst kc, resolve en (snd kc))) conns) in
      (en, if g then 0 else n)
  | ISv g conns =>
      let ds := map (lookup en) conns in
      (en, if g then 0 else if spec then b2n (crossingb ds) else chain_errors None ds)
  end.

Fixpoint run_items (spec : bool) (en : env) (its : list item) : env * list bool :=
  match its with
  | [] => (en, [])
  | it :: tl =>
      let '(en', n) := run_item spec en it in
      let '(en'', r) := run_items spec en' tl in
      (en'', negb (N.eqb n 0) :: r)
  end.

(* what the analyzer is expected to report, per item *)
Definition model_items (en : env) (its : list item) : list bool := snd (run_items false en its).
(* the items with an unguarded crossing, unannotated signals resolved in source order *)
Definition spec_items (en : env) (its : list item) : list bool := snd (run_items true en its).
(* the same with unannotated signals resolved independently of the order of the items: the
   inference pass is iterated (once per item is enough for a chain of that length) and the
   items are then judged under the final environment *)
Fixpoint iterate_env (k : nat) (en : env) (its : list item) : env :=
  match k with
  | O => en
  | S k => iterate_env k (fst (run_items true en its)) its
  end.
Definition spec_final (en : env) (its : list item) : list bool :=
  snd (run_items true (iterate_env (S (length its)) en its) its).

Definition verdicts (en : env) (its : list item) : list bool * list bool * list bool :=
  (model_items en its, spec_items en its, spec_final en its).
