(* C15 — model of the analyzer's assign-table mask logic (crates/analyzer/src/ir/assign_table.rs,
   ir/statement.rs AssignDestination::eval_assign / IfStatement / CaseStatement::eval_assign,
   ir/module.rs Module::eval_assign).  Definitions only.

   One table entry is modelled for ONE array element (the code keeps a Vec<BigUint> with one mask
   per element and applies exactly the same formula per element); masks are unbounded N (BigUint).
   Tokens / paths / affiliation are not modelled (they only label the diagnostics). *)
From Coq Require Import NArith List Bool.
Import ListNotations.
Open Scope N_scope.

(* ---------------------------------------------------------------- AssignTableEntry *)

Record entry := mkEntry {
  e_mask : N;        (* every bit some write may have touched *)
  e_definite : N;    (* bits written at constant index / select *)
  e_dynamic : N;     (* bits a non-constant index / select may have written *)
  e_pw : bool;       (* process_write: set at the module-level merge *)
  e_maybe : bool
}.

Definition nz (a : N) : bool := negb (N.eqb a 0).

(* ValueBigUint::gen_mask_range(beg, end): bits end..beg inclusive, beg >= end *)
Definition mask_range (beg en : N) : N := N.shiftl (N.ones (beg - en + 1)) en.
Definition gen_mask (w : N) : N := N.ones w.

(* AssignTableEntry::new for the element that is written *)
Definition entry_new (mask : N) (maybe dynamic : bool) : entry :=
  mkEntry mask (if maybe then 0 else mask) (if dynamic then mask else 0) false maybe.

(* AssignTableEntry::add -> (fail, entry') *)
Definition entry_add (e : entry) (mask : N) (maybe dynamic : bool) : bool * entry :=
  (negb maybe && nz (N.land (e_definite e) mask),
   mkEntry (N.lor (e_mask e) mask)
           (if maybe then e_definite e else N.lor (e_definite e) mask)
           (if dynamic then N.lor (e_dynamic e) mask else e_dynamic e)
           (e_pw e)
           (e_maybe e || maybe)).

(* AssignTableEntry::merge_by_or *)
Definition entry_or (x v : entry) : entry :=
  mkEntry (N.lor (e_mask x) (e_mask v)) (N.lor (e_definite x) (e_definite v))
          (N.lor (e_dynamic x) (e_dynamic v)) (e_pw x || e_pw v) (e_maybe x || e_maybe v).

(* AssignTable::merge_by_or_from, one variable present on both sides:
   val is first marked as a process when process_level; returns (conflict reported, merged) *)
Definition mark_process (process_level : bool) (v : entry) : entry :=
  if process_level && (nz (e_dynamic v) || nz (e_definite v))
  then mkEntry (e_mask v) (e_definite v) (e_dynamic v) true (e_maybe v) else v.

Definition merge_conflict (x v : entry) : bool :=
  let multi_process := e_pw v && e_pw x in
  let dynamic_overlap := nz (N.land (e_dynamic x) (e_mask v)) || nz (N.land (e_dynamic v) (e_mask x)) in
  let definite_overlap := nz (N.land (e_definite x) (e_definite v)) in
  (multi_process && dynamic_overlap) || definite_overlap.

Definition table_merge (x : option entry) (v : entry) (check_conflict process_level : bool)
  : bool * entry :=
  let v := mark_process process_level v in
  match x with
  | None => (false, v)
  | Some x => (merge_conflict x v && check_conflict, entry_or x v)
  end.

(* ---------------------------------------------------------------- uncovered branch *)

(* check_uncoverd: src = true side, tgt = false side (an absent entry counts as mask 0), base =
   OR of the enclosing tables' masks for the variable *)
Definition uncovered2 (src tgt base : N) : bool :=
  nz (N.lxor (N.lor src base) (N.lor tgt base)).

(* check_uncoverd_n_way: some branch (augmented with base) falls short of the union *)
Definition uncovered_n (branches : list N) (base : N) : bool :=
  let combined := map (fun b => N.lor b base) branches in
  let union := fold_right N.lor 0 combined in
  match branches with
  | [] | [_] => false
  | _ => existsb (fun m => negb (N.eqb m union)) combined
  end.

(* ---------------------------------------------------------------- read before assign *)

(* check_refered(id, index, mask): mask_ref / mask_assign accumulated so far in the block *)
Definition check_refered (mask_ref mask_assign mask : N) : bool :=
  nz (N.land mask_ref mask) && N.eqb (N.land (N.land mask_ref mask) mask_assign) 0.

(* what the property asks: some bit of the assignment was read earlier in the block and not
   assigned before that *)
Definition read_before_assign (mask_ref mask_assign mask : N) : bool :=
  nz (N.ldiff (N.land mask_ref mask) mask_assign).

(* ---------------------------------------------------------------- module-level unassigned check
   Module::eval_assign, one array element of an assignable variable (output / var):
   width, is_output, assigned mask, accumulated read mask -> reported? *)
Definition unassigned_report (width : N) (is_output : bool) (assigned reads : N) : bool :=
  let full := gen_mask width in
  let unassigned_bits := N.lxor full (N.land full assigned) in
  if N.eqb assigned full then false      (* Variable::unassigned() lists only elements whose mask is not full *)
  else
    let any_assigned := nz assigned in
    let any_read_unassigned := nz (N.land reads unassigned_bits) in
    if any_assigned && negb any_read_unassigned && negb is_output && nz unassigned_bits then false
    else nz unassigned_bits.

(* ---------------------------------------------------------------- statements of one always_comb
   (constant part selects only).  A statement `x[..] = f(y[..], z)` is its reads followed by its
   write. *)
Inductive stmt :=
| SWrite (v : N) (m : N)
| SRead (v : N) (m : N)
| SCond (v : N) (m : N)      (* read by an if / case condition or an instance input: the analyzer's
                                eval_assign does not record it (IfStatement / CaseStatement /
                                InstDeclaration::eval_assign never visit those expressions) *)
| SIf (t e : list stmt)
| SCase (arms : list (list stmt)) (dflt : list stmt).

(* tables: association lists variable -> mask, absent = 0 *)
Definition tbl := list (N * N).

Fixpoint tget (t : tbl) (v : N) : N :=
  match t with
  | [] => 0
  | (k, m) :: tl => if N.eqb k v then m else tget tl v
  end.

Fixpoint tor (t : tbl) (v : N) (m : N) : tbl :=
  match t with
  | [] => [(v, m)]
  | (k, x) :: tl => if N.eqb k v then (k, N.lor x m) :: tl else (k, x) :: tor tl v m
  end.

Definition tunion (a b : tbl) : tbl := fold_left (fun acc km => tor acc (fst km) (snd km)) b a.
Definition tkeys (t : tbl) : list N := map fst t.

(* analysis state inside a block *)
Record st := mkSt {
  s_tab : tbl;            (* this block's assign table (masks) *)
  s_ref : tbl;            (* refernced.mask_ref *)
  s_asg : tbl;            (* refernced.mask_assign *)
  s_unc : list N;         (* variables reported uncovered_branch *)
  s_rba : list N          (* variables reported unassign_variable (read before assign) *)
}.

Definition dedup_add (l : list N) (v : N) : list N := if existsb (N.eqb v) l then l else l ++ [v].

(* model of Statement::eval_assign in AssignContext::Comb.  base: OR of the enclosing tables *)
Fixpoint run_stmt (base : tbl) (s : st) (x : stmt) {struct x} : st :=
  let run_block := fix run_block (base : tbl) (s : st) (b : list stmt) : st :=
    match b with [] => s | x :: tl => run_block base (run_stmt base s x) tl end in
  match x with
  | SRead v m => mkSt (s_tab s) (tor (s_ref s) v m) (s_asg s) (s_unc s) (s_rba s)
  | SCond _ _ => s
  | SWrite v m =>
      let bad := check_refered (tget (s_ref s) v) (tget (s_asg s) v) m in
      mkSt (tor (s_tab s) v m) (s_ref s) (tor (s_asg s) v m) (s_unc s)
           (if bad then dedup_add (s_rba s) v else s_rba s)
  | SIf t e =>
      let base' := tunion base (s_tab s) in
      let st := run_block base' (mkSt [] (s_ref s) (s_asg s) (s_unc s) (s_rba s)) t in
      let sf := run_block base' (mkSt [] (s_ref st) (s_asg st) (s_unc st) (s_rba st)) e in
      let keys := tkeys (s_tab st) ++ tkeys (s_tab sf) in
      let unc := fold_left (fun acc v =>
                   if uncovered2 (tget (s_tab st) v) (tget (s_tab sf) v) (tget base' v)
                   then dedup_add acc v else acc) keys (s_unc sf) in
      mkSt (tunion (s_tab s) (tunion (s_tab st) (s_tab sf))) (s_ref sf) (s_asg sf) unc (s_rba sf)
  | SCase arms dflt =>
      let base' := tunion base (s_tab s) in
      let '(tabs0, cur0) :=
        (fix go (arms : list (list stmt)) (cur : st) (tabs : list tbl) : list tbl * st :=
           match arms with
           | [] => (tabs, cur)
           | b :: tl =>
               let sb := run_block base' (mkSt [] (s_ref cur) (s_asg cur) (s_unc cur) (s_rba cur)) b in
               go tl sb (tabs ++ [s_tab sb])
           end) arms s [] in
      let cur := run_block base' (mkSt [] (s_ref cur0) (s_asg cur0) (s_unc cur0) (s_rba cur0)) dflt in
      let tabs := tabs0 ++ [s_tab cur] in
      let keys := flat_map tkeys tabs in
      let unc := fold_left (fun acc v =>
                   if uncovered_n (map (fun t => tget t v) tabs) (tget base' v)
                   then dedup_add acc v else acc) keys (s_unc cur) in
      mkSt (fold_left tunion tabs (s_tab s)) (s_ref cur) (s_asg cur) unc (s_rba cur)
  end.

Fixpoint run_block (base : tbl) (s : st) (b : list stmt) : st :=
  match b with [] => s | x :: tl => run_block base (run_stmt base s x) tl end.

Definition run_comb (b : list stmt) : st := run_block [] (mkSt [] [] [] [] []) b.

(* ---------------------------------------------------------------- the property: path semantics
   A path through the block is the sequence of reads / writes it performs. *)
Inductive ev := EW (v m : N) | ER (v m : N).

Fixpoint paths_stmt (x : stmt) {struct x} : list (list ev) :=
  let paths_block := fix paths_block (b : list stmt) : list (list ev) :=
    match b with
    | [] => [[]]
    | x :: tl => flat_map (fun p => map (fun q => p ++ q) (paths_block tl)) (paths_stmt x)
    end in
  match x with
  | SWrite v m => [[EW v m]]
  | SRead v m => [[ER v m]]
  | SCond v m => [[ER v m]]
  | SIf t e => paths_block t ++ paths_block e
  | SCase arms dflt =>
      (fix go (arms : list (list stmt)) : list (list ev) :=
         match arms with [] => [] | b :: tl => paths_block b ++ go tl end) arms ++ paths_block dflt
  end.

Fixpoint paths_block (b : list stmt) : list (list ev) :=
  match b with
  | [] => [[]]
  | x :: tl => flat_map (fun p => map (fun q => p ++ q) (paths_block tl)) (paths_stmt x)
  end.

Definition writes_of (v : N) (p : list ev) : N :=
  fold_left (fun acc e => match e with EW v' m => if N.eqb v v' then N.lor acc m else acc | _ => acc end) p 0.

(* bits of v read on path p before any write to them, and written later on p *)
Fixpoint rba_of (v : N) (p : list ev) (written readfirst : N) : N :=
  match p with
  | [] => 0
  | EW v' m :: tl =>
      if N.eqb v v' then N.lor (N.land m readfirst) (rba_of v tl (N.lor written m) readfirst)
      else rba_of v tl written readfirst
  | ER v' m :: tl =>
      if N.eqb v v' then rba_of v tl written (N.lor readfirst (N.ldiff m written))
      else rba_of v tl written readfirst
  end.

(* written on some path but not on all paths *)
Definition uncovered_spec (b : list stmt) (v : N) : bool :=
  let ws := map (writes_of v) (paths_block b) in
  let union := fold_right N.lor 0 ws in
  existsb (fun w => negb (N.eqb w union)) ws.

Definition rba_spec (b : list stmt) (v : N) : bool :=
  existsb (fun p => nz (rba_of v p 0 0)) (paths_block b).

(* all bits a block may write / read *)
Definition may_write (b : list stmt) (v : N) : N :=
  fold_right N.lor 0 (map (writes_of v) (paths_block b)).
Definition reads_of (v : N) (p : list ev) : N :=
  fold_left (fun acc e => match e with ER v' m => if N.eqb v v' then N.lor acc m else acc | _ => acc end) p 0.
Definition may_read (b : list stmt) (v : N) : N :=
  fold_right N.lor 0 (map (reads_of v) (paths_block b)).

(* ---------------------------------------------------------------- processes of a module
   process = one declaration: always_comb / assign (a block), always_ff (a block, no latch / rba
   rules), instance outputs (writes).  Multiple assignment between two processes at constant
   positions: the definite masks overlap. *)
Fixpoint multi_spec_go (v : N) (ps : list (list stmt)) (seen : N) : bool :=
  match ps with
  | [] => false
  | p :: tl => let w := may_write p v in nz (N.land seen w) || multi_spec_go v tl (N.lor seen w)
  end.
Definition multi_spec (procs : list (list stmt)) (v : N) : bool := multi_spec_go v procs 0.

(* the analyzer: per-declaration tables merged one after the other (merge_by_or_from with
   check_conflict = process_level = true) *)
Fixpoint multi_model_go (v : N) (ps : list (list stmt)) (acc : option entry) : bool :=
  match ps with
  | [] => false
  | p :: tl =>
      let w := may_write p v in
      if N.eqb w 0 then multi_model_go v tl acc
      else
        let cm := table_merge acc (entry_new w false false) true true in
        fst cm || multi_model_go v tl (Some (snd cm))
  end.
Definition multi_model (procs : list (list stmt)) (v : N) : bool := multi_model_go v procs None.

(* ---------------------------------------------------------------- whole designs (end-to-end reference)
   variables: (width, is_output); processes in declaration order *)
Inductive pkind := PComb | PFf | PInst.
Definition proc := (pkind * list stmt)%type.

(* reads the analyzer records (SRead only), all paths *)
Fixpoint recorded_reads_stmt (v : N) (x : stmt) {struct x} : N :=
  let blk := fix blk (b : list stmt) : N :=
    match b with [] => 0 | x :: tl => N.lor (recorded_reads_stmt v x) (blk tl) end in
  match x with
  | SRead v' m => if N.eqb v v' then m else 0
  | SWrite _ _ | SCond _ _ => 0
  | SIf t e => N.lor (blk t) (blk e)
  | SCase arms d =>
      N.lor ((fix go (a : list (list stmt)) : N := match a with [] => 0 | b :: tl => N.lor (blk b) (go tl) end) arms) (blk d)
  end.
Definition recorded_reads (v : N) (b : list stmt) : N :=
  fold_right (fun x acc => N.lor (recorded_reads_stmt v x) acc) 0 b.

Definition is_comb (k : pkind) : bool := match k with PComb => true | _ => false end.

Definition or_over (f : proc -> N) (ps : list proc) : N := fold_right (fun p acc => N.lor (f p) acc) 0 ps.

(* the program without the condition / instance-input reads *)
Fixpoint strip_cond_stmt (x : stmt) {struct x} : list stmt :=
  let blk := fix blk (b : list stmt) : list stmt :=
    match b with [] => [] | x :: tl => strip_cond_stmt x ++ blk tl end in
  match x with
  | SCond _ _ => []
  | SIf t e => [SIf (blk t) (blk e)]
  | SCase arms d =>
      [SCase ((fix go (a : list (list stmt)) : list (list stmt) :=
                 match a with [] => [] | b :: tl => blk b :: go tl end) arms) (blk d)]
  | x => [x]
  end.
Definition strip_cond (b : list stmt) : list stmt := flat_map strip_cond_stmt b.

Record verdict := mkVerdict {
  v_multi : bool;          (* multiple_assignment *)
  v_unc : bool;            (* uncovered_branch *)
  v_rba : bool;            (* unassign_variable: read before assign in an always_comb *)
  v_rba_nocond : bool;     (* same, condition reads ignored *)
  v_unas : bool            (* unassign_variable: module-level *)
}.

(* what the analyzer is expected to report *)
Definition model_var (ps : list proc) (v : N) (w : N) (is_out : bool) : verdict :=
  let assigned := N.land (gen_mask w) (or_over (fun p => may_write (snd p) v) ps) in
  let reads := or_over (fun p => recorded_reads v (snd p)) ps in
  let rba := existsb (fun p => is_comb (fst p) && existsb (N.eqb v) (s_rba (run_comb (snd p)))) ps in
  mkVerdict (multi_model (map snd ps) v)
            (existsb (fun p => is_comb (fst p) && existsb (N.eqb v) (s_unc (run_comb (snd p)))) ps)
            rba rba
            (unassigned_report w is_out assigned reads).

(* the property *)
Definition spec_var (ps : list proc) (v : N) (w : N) (is_out : bool) : verdict :=
  let assigned := N.land (gen_mask w) (or_over (fun p => may_write (snd p) v) ps) in
  let reads := if is_out then gen_mask w else or_over (fun p => may_read (snd p) v) ps in
  mkVerdict (multi_spec (map snd ps) v)
            (existsb (fun p => is_comb (fst p) && uncovered_spec (snd p) v) ps)
            (existsb (fun p => is_comb (fst p) && rba_spec (snd p) v) ps)
            (existsb (fun p => is_comb (fst p) && rba_spec (strip_cond (snd p)) v) ps)
            (nz (N.land reads (N.lxor (gen_mask w) assigned))).

Definition show (x : verdict) := (v_multi x, v_unc x, v_rba x, v_rba_nocond x, v_unas x).

Definition design_verdicts (d : list (N * bool) * list proc) :=
  let '(vars, ps) := d in
  (fix go (vs : list (N * bool)) (i : N) :=
     match vs with
     | [] => []
     | (w, o) :: tl => (show (model_var ps i w o), show (spec_var ps i w o)) :: go tl (i + 1)
     end) vars 0.
