(* C15 — proofs about the assign-table mask logic. *)
From Coq Require Import NArith List Bool Lia.
From VV Require Import Analysis.AssignMaskModel.
Import ListNotations.
Open Scope N_scope.

(* ---------------------------------------------------------------- bits *)

Lemma nz_spec : forall a, nz a = true <-> a <> 0.
Proof. intro a. unfold nz. rewrite negb_true_iff, N.eqb_neq. tauto. Qed.

Lemma nonzero_bit : forall a, a <> 0 <-> exists i, N.testbit a i = true.
Proof.
  intro a. split.
  - intro H. exists (N.log2 a). apply N.bit_log2. exact H.
  - intros (i & Hi) Z. subst. rewrite N.bits_0 in Hi. discriminate.
Qed.

Theorem land_nonzero_shared_bit : forall a b,
  N.land a b <> 0 <-> exists i, N.testbit a i = true /\ N.testbit b i = true.
Proof.
  intros a b. rewrite nonzero_bit. split; intros (i & H); exists i.
  - rewrite N.land_spec in H. apply andb_true_iff in H. exact H.
  - rewrite N.land_spec. apply andb_true_iff. exact H.
Qed.

Lemma nz_land : forall a b,
  nz (N.land a b) = true <-> exists i, N.testbit a i = true /\ N.testbit b i = true.
Proof. intros. rewrite nz_spec. apply land_nonzero_shared_bit. Qed.

(* ---------------------------------------------------------------- multiple assignment *)

(* two processes that write at constant positions only *)
Definition const_proc (w : N) : entry := mark_process true (entry_new w false false).

Theorem conflict_const_exact : forall a b,
  merge_conflict (const_proc a) (const_proc b) = true <->
  exists i, N.testbit a i = true /\ N.testbit b i = true.
Proof.
  intros a b. unfold merge_conflict, const_proc, mark_process, entry_new. simpl.
  rewrite <- nz_land.
  destruct (nz a) eqn:Ea; destruct (nz b) eqn:Eb; simpl;
    rewrite ?N.land_0_l, ?N.land_0_r; simpl; rewrite ?andb_false_r; simpl; tauto.
Qed.

(* general entries without dynamic writes: a conflict is reported iff the definite masks share a bit *)
Theorem conflict_definite_exact : forall x v, e_dynamic x = 0 -> e_dynamic v = 0 ->
  (merge_conflict x v = true <-> exists i, N.testbit (e_definite x) i = true /\ N.testbit (e_definite v) i = true).
Proof.
  intros x v Hx Hv. unfold merge_conflict. rewrite Hx, Hv, !N.land_0_l. simpl.
  rewrite andb_false_r. simpl. apply nz_land.
Qed.

(* a dynamic write conflicts with anything another process may write in its range *)
Theorem conflict_dynamic : forall x v, e_pw x = true -> e_pw v = true ->
  (merge_conflict x v = true <->
   (exists i, N.testbit (e_dynamic x) i = true /\ N.testbit (e_mask v) i = true) \/
   (exists i, N.testbit (e_dynamic v) i = true /\ N.testbit (e_mask x) i = true) \/
   (exists i, N.testbit (e_definite x) i = true /\ N.testbit (e_definite v) i = true)).
Proof.
  intros x v Hx Hv. unfold merge_conflict. rewrite Hx, Hv. simpl.
  rewrite !orb_true_iff, !nz_land. tauto.
Qed.

(* the module-level loop over declarations = "two processes write a common bit" *)
Definition acc_of (seen : N) : option entry :=
  if N.eqb seen 0 then None else Some (mkEntry seen seen 0 true false).

Lemma multi_model_go_spec : forall v procs seen,
  multi_model_go v procs (acc_of seen) = multi_spec_go v procs seen.
Proof.
  intros v. induction procs as [|p tl IH]; intro seen; [reflexivity|].
  simpl. destruct (N.eqb (may_write p v) 0) eqn:Ew.
  - apply N.eqb_eq in Ew. rewrite Ew, N.land_0_r, N.lor_0_r. simpl. apply IH.
  - assert (Hw : nz (may_write p v) = true) by (unfold nz; rewrite Ew; reflexivity).
    unfold acc_of at 1 2. destruct (N.eqb seen 0) eqn:Es.
    + apply N.eqb_eq in Es. subst seen. rewrite N.land_0_l, N.lor_0_l. simpl.
      unfold mark_process, entry_new. simpl. rewrite Hw. simpl.
      rewrite <- IH. unfold acc_of. rewrite Ew. reflexivity.
    + unfold table_merge, mark_process, entry_new. simpl. rewrite Hw. simpl.
      unfold merge_conflict. simpl. rewrite ?N.land_0_l, ?N.land_0_r. simpl. rewrite ?andb_true_r, ?andb_false_r. simpl.
      f_equal. rewrite <- IH. unfold acc_of, entry_or. simpl.
      assert (Hn : N.eqb (N.lor seen (may_write p v)) 0 = false).
      { apply N.eqb_neq. intro Z. apply N.lor_eq_0_iff in Z. apply N.eqb_neq in Es. tauto. }
      rewrite Hn, ?N.lor_0_l. reflexivity.
Qed.

Theorem multi_model_is_spec : forall procs v, multi_model procs v = multi_spec procs v.
Proof. intros. unfold multi_model, multi_spec. apply (multi_model_go_spec v procs 0). Qed.

Lemma multi_spec_go_exact : forall v ps seen,
  multi_spec_go v ps seen = true <->
  (exists j q bit, nth_error ps j = Some q /\ N.testbit seen bit = true /\ N.testbit (may_write q v) bit = true) \/
  (exists i j p q bit, (i < j)%nat /\ nth_error ps i = Some p /\ nth_error ps j = Some q /\
     N.testbit (may_write p v) bit = true /\ N.testbit (may_write q v) bit = true).
Proof.
  intro v. induction ps as [|p tl IH]; intro seen.
  - split; [discriminate|]. intros [(j & q & b & H & _)|(i & j & p & q & b & _ & H & _)];
      [destruct j | destruct i]; discriminate.
  - simpl. rewrite orb_true_iff, nz_land, IH. split.
    + intros [(b & H1 & H2)|[(j & q & b & Hq & Hs & Hb)|(i & j & p' & q & b & Hij & Hp & Hq & H1 & H2)]].
      * left. exists 0%nat, p, b. simpl. auto.
      * rewrite N.lor_spec in Hs. apply orb_true_iff in Hs. destruct Hs as [Hs|Hs].
        { left. exists (S j), q, b. simpl. auto. }
        { right. exists 0%nat, (S j), p, q, b. simpl. repeat split; auto. lia. }
      * right. exists (S i), (S j), p', q, b. simpl. repeat split; auto. lia.
    + intros [(j & q & b & Hq & Hs & Hb)|(i & j & p' & q & b & Hij & Hp & Hq & H1 & H2)].
      * destruct j as [|j]; simpl in Hq.
        { inversion Hq; subst. left. exists b. auto. }
        { right. left. exists j, q, b. repeat split; auto. rewrite N.lor_spec, Hs. reflexivity. }
      * destruct j as [|j]; [lia|]. simpl in Hq. destruct i as [|i]; simpl in Hp.
        { inversion Hp; subst. right. left. exists j, q, b. repeat split; auto.
          rewrite N.lor_spec, H1. apply orb_true_r. }
        { right. right. exists i, j, p', q, b. repeat split; auto. lia. }
Qed.

Theorem multi_spec_exact : forall procs v,
  multi_spec procs v = true <->
  exists i j p q bit, (i < j)%nat /\ nth_error procs i = Some p /\ nth_error procs j = Some q /\
    N.testbit (may_write p v) bit = true /\ N.testbit (may_write q v) bit = true.
Proof.
  intros procs v. unfold multi_spec. rewrite multi_spec_go_exact. split.
  - intros [(j & q & b & _ & H & _)|H]; [rewrite N.bits_0 in H; discriminate | exact H].
  - intro H. right. exact H.
Qed.

(* ---------------------------------------------------------------- uncovered branch *)

Theorem uncovered2_exact : forall src tgt base,
  uncovered2 src tgt base = true <->
  exists i, (N.testbit src i || N.testbit base i) <> (N.testbit tgt i || N.testbit base i).
Proof.
  intros. unfold uncovered2. rewrite nz_spec, nonzero_bit. split; intros (i & H); exists i.
  - rewrite N.lxor_spec, !N.lor_spec in H. destruct (N.testbit src i || N.testbit base i),
      (N.testbit tgt i || N.testbit base i); simpl in H; congruence.
  - rewrite N.lxor_spec, !N.lor_spec. destruct (N.testbit src i || N.testbit base i),
      (N.testbit tgt i || N.testbit base i); simpl; congruence.
Qed.

(* in words: some bit not covered by the base is written on exactly one side *)
Theorem uncovered2_exact' : forall src tgt base,
  uncovered2 src tgt base = true <->
  exists i, N.testbit base i = false /\ N.testbit src i <> N.testbit tgt i.
Proof.
  intros. rewrite uncovered2_exact. split; intros (i & H); exists i.
  - destruct (N.testbit base i); [rewrite !orb_true_r in H; congruence|].
    rewrite !orb_false_r in H. auto.
  - destruct H as [Hb H]. rewrite Hb, !orb_false_r. exact H.
Qed.

Lemma fold_lor_bit : forall l i,
  N.testbit (fold_right N.lor 0 l) i = existsb (fun m => N.testbit m i) l.
Proof.
  induction l as [|a tl IH]; intro i; simpl; [reflexivity|].
  rewrite N.lor_spec, IH. reflexivity.
Qed.

Lemma neq_bit : forall a b, a <> b <-> exists i, N.testbit a i <> N.testbit b i.
Proof.
  intros a b. split.
  - intro H. assert (N.lxor a b <> 0) by (intro Z; apply N.lxor_eq in Z; auto).
    apply nonzero_bit in H0. destruct H0 as (i & Hi). exists i. rewrite N.lxor_spec in Hi.
    destruct (N.testbit a i), (N.testbit b i); simpl in Hi; congruence.
  - intros (i & Hi) E. subst. auto.
Qed.

(* n-way: reported iff some bit is covered (written or in the base) in one branch and not in another *)
Theorem uncovered_n_exact : forall bs base, (2 <= length bs)%nat ->
  (uncovered_n bs base = true <->
   exists i b1 b2, In b1 bs /\ In b2 bs /\
     (N.testbit b1 i || N.testbit base i) = true /\ (N.testbit b2 i || N.testbit base i) = false).
Proof.
  intros bs base Hlen. unfold uncovered_n.
  destruct bs as [|x [|y tl]]; simpl in Hlen; try lia.
  set (l := x :: y :: tl) in *. rewrite existsb_exists. split.
  - intros (m & Hm & Hne). apply in_map_iff in Hm. destruct Hm as (b2 & Eb & Hb2). subst m.
    apply negb_true_iff, N.eqb_neq, neq_bit in Hne. destruct Hne as (i & Hi).
    rewrite fold_lor_bit, N.lor_spec in Hi.
    destruct (existsb (fun m => N.testbit m i) (map (fun b => N.lor b base) l)) eqn:Eu.
    + apply existsb_exists in Eu. destruct Eu as (m1 & Hm1 & Hb). apply in_map_iff in Hm1.
      destruct Hm1 as (b1 & E1 & Hb1). subst m1. rewrite N.lor_spec in Hb.
      exists i, b1, b2. repeat split; auto.
      destruct (N.testbit b2 i || N.testbit base i); auto. congruence.
    + exfalso. destruct (N.testbit b2 i || N.testbit base i) eqn:E2; [|congruence].
      assert (existsb (fun m => N.testbit m i) (map (fun b => N.lor b base) l) = true).
      { apply existsb_exists. exists (N.lor b2 base). split; [apply in_map_iff; exists b2; auto|].
        rewrite N.lor_spec. exact E2. }
      congruence.
  - intros (i & b1 & b2 & H1 & H2 & Ht & Hf). exists (N.lor b2 base). split; [apply in_map_iff; exists b2; auto|].
    apply negb_true_iff, N.eqb_neq, neq_bit. exists i.
    rewrite fold_lor_bit, N.lor_spec, Hf.
    assert (existsb (fun m => N.testbit m i) (map (fun b => N.lor b base) l) = true).
    { apply existsb_exists. exists (N.lor b1 base). split; [apply in_map_iff; exists b1; auto|].
      rewrite N.lor_spec. exact Ht. }
    rewrite H. discriminate.
Qed.

(* the two-way and the n-way check agree on two branches *)
Theorem n_way_two_is_two_way : forall a b base, uncovered_n [a; b] base = uncovered2 a b base.
Proof.
  intros a b base.
  destruct (uncovered2 a b base) eqn:E2.
  - apply uncovered_n_exact; [simpl; lia|]. apply uncovered2_exact in E2. destruct E2 as (i & Hi).
    destruct (N.testbit a i || N.testbit base i) eqn:Ea, (N.testbit b i || N.testbit base i) eqn:Eb; try congruence.
    + exists i, a, b. simpl. auto.
    + exists i, b, a. simpl. auto.
  - destruct (uncovered_n [a; b] base) eqn:En; auto.
    apply uncovered_n_exact in En; [|simpl; lia]. destruct En as (i & b1 & b2 & H1 & H2 & Ht & Hf).
    assert (uncovered2 a b base = true); [|congruence].
    apply uncovered2_exact. exists i.
    simpl in H1, H2. destruct H1 as [H1|[H1|[]]], H2 as [H2|[H2|[]]]; subst; congruence.
Qed.

(* n-way = some pair of branches fails the two-way check *)
Theorem n_way_eq_pairwise : forall bs base, (2 <= length bs)%nat ->
  (uncovered_n bs base = true <->
   exists b1 b2, In b1 bs /\ In b2 bs /\ uncovered2 b1 b2 base = true).
Proof.
  intros bs base Hlen. rewrite uncovered_n_exact by exact Hlen. split.
  - intros (i & b1 & b2 & H1 & H2 & Ht & Hf). exists b1, b2. repeat split; auto.
    apply uncovered2_exact. exists i. congruence.
  - intros (b1 & b2 & H1 & H2 & Hu). apply uncovered2_exact in Hu. destruct Hu as (i & Hi).
    destruct (N.testbit b1 i || N.testbit base i) eqn:Ea, (N.testbit b2 i || N.testbit base i) eqn:Eb; try congruence.
    + exists i, b1, b2. auto.
    + exists i, b2, b1. auto.
Qed.

(* ---------------------------------------------------------------- read before assign *)

Theorem read_before_assign_spec : forall r a m,
  read_before_assign r a m = true <->
  exists i, N.testbit m i = true /\ N.testbit r i = true /\ N.testbit a i = false.
Proof.
  intros. unfold read_before_assign. rewrite nz_spec, nonzero_bit. split; intros (i & H); exists i.
  - rewrite N.ldiff_spec, N.land_spec in H. destruct (N.testbit r i), (N.testbit m i), (N.testbit a i);
      simpl in H; try discriminate; auto.
  - destruct H as (Hm & Hr & Ha). rewrite N.ldiff_spec, N.land_spec, Hm, Hr, Ha. reflexivity.
Qed.

(* no false alarm: whenever check_refered fires, some bit really is read before assigned *)
Theorem check_refered_sound : forall r a m,
  check_refered r a m = true -> read_before_assign r a m = true.
Proof.
  intros r a m H. unfold check_refered in H. apply andb_true_iff in H. destruct H as [Hn Hz].
  apply N.eqb_eq in Hz. apply nz_spec, nonzero_bit in Hn. destruct Hn as (i & Hi).
  apply read_before_assign_spec. exists i. rewrite N.land_spec in Hi. apply andb_true_iff in Hi.
  destruct Hi as [Hr Hm]. repeat split; auto.
  assert (Hb : N.testbit (N.land (N.land r m) a) i = false) by (rewrite Hz; apply N.bits_0).
  rewrite !N.land_spec, Hr, Hm in Hb. simpl in Hb. exact Hb.
Qed.

(* exact when none of the read bits being assigned now was assigned before *)
Theorem check_refered_exact_outside : forall r a m,
  N.land (N.land r m) a = 0 -> check_refered r a m = read_before_assign r a m.
Proof.
  intros r a m Hz. unfold check_refered, read_before_assign. rewrite Hz. simpl. rewrite andb_true_r.
  f_equal. apply N.bits_inj. intro i.
  rewrite N.ldiff_spec.
  assert (Hb : N.testbit (N.land (N.land r m) a) i = false) by (rewrite Hz; apply N.bits_0).
  rewrite N.land_spec in Hb. destruct (N.testbit (N.land r m) i), (N.testbit a i); simpl in *; congruence.
Qed.

(* ... and not in general: bits 0,1 read, bit 0 assigned, then bits 0,1 assigned: bit 1 is read
   before it is assigned, nothing is reported *)
Theorem check_refered_refuted :
  exists r a m, read_before_assign r a m = true /\ check_refered r a m = false.
Proof. exists 3, 1, 3. split; reflexivity. Qed.

(* ---------------------------------------------------------------- unassigned *)

Lemma ones_bit : forall w i, N.testbit (N.ones w) i = (i <? w).
Proof.
  intros w i. destruct (N.ltb_spec i w).
  - apply N.ones_spec_low. exact H.
  - apply N.ones_spec_high. exact H.
Qed.

Theorem unassigned_exact : forall w o a r, N.land (gen_mask w) a = a ->
  (unassigned_report w o a r = true <->
   (exists i, i < w /\ N.testbit a i = false) /\
   (o = true \/ a = 0 \/ exists i, i < w /\ N.testbit a i = false /\ N.testbit r i = true)).
Proof.
  intros w o a r Hsub. unfold unassigned_report, gen_mask in *. rewrite Hsub.
  assert (Hun : forall i, N.testbit (N.lxor (N.ones w) a) i = (i <? w) && negb (N.testbit a i)).
  { intro i. rewrite N.lxor_spec, ones_bit.
    assert (Ha : N.testbit a i = N.testbit (N.land (N.ones w) a) i) by (rewrite Hsub; reflexivity).
    rewrite N.land_spec, ones_bit in Ha. destruct (i <? w), (N.testbit a i); simpl in *; congruence. }
  assert (Hnz : nz (N.lxor (N.ones w) a) = true <-> exists i, i < w /\ N.testbit a i = false).
  { rewrite nz_spec, nonzero_bit. split; intros (i & H); exists i.
    - rewrite Hun in H. apply andb_true_iff in H. destruct H as [H1 H2].
      apply N.ltb_lt in H1. apply negb_true_iff in H2. auto.
    - rewrite Hun. destruct H as [H1 H2]. apply N.ltb_lt in H1. rewrite H1, H2. reflexivity. }
  assert (Hrd : nz (N.land r (N.lxor (N.ones w) a)) = true <->
                exists i, i < w /\ N.testbit a i = false /\ N.testbit r i = true).
  { rewrite nz_land. split; intros (i & H); exists i.
    - destruct H as [Hr H]. rewrite Hun in H. apply andb_true_iff in H. destruct H as [H1 H2].
      apply N.ltb_lt in H1. apply negb_true_iff in H2. auto.
    - destruct H as (H1 & H2 & H3). rewrite Hun. apply N.ltb_lt in H1. rewrite H1, H2. auto. }
  destruct (N.eqb a (N.ones w)) eqn:Efull.
  - apply N.eqb_eq in Efull. split; [discriminate|]. intros [(i & Hi & Hb) _].
    rewrite Efull, ones_bit in Hb. apply N.ltb_lt in Hi. congruence.
  - destruct (nz a) eqn:Ea; simpl.
    + destruct (nz (N.land r (N.lxor (N.ones w) a))) eqn:Er; simpl.
      * rewrite Hnz. split; [intro H; split; auto; right; right; apply Hrd; reflexivity | tauto].
      * destruct o; simpl.
        { rewrite Hnz. split; [intro H; split; auto | tauto]. }
        { destruct (nz (N.lxor (N.ones w) a)) eqn:Eu; simpl.
          - split; [discriminate|]. intros [_ [H|[H|H]]]; try discriminate.
            + apply nz_spec in Ea. congruence.
            + apply Hrd in H. congruence.
          - split; [discriminate|]. intros [H _]. apply Hnz in H. congruence. }
    + rewrite Hnz. split; [intro H; split; auto; right; left | tauto].
      unfold nz in Ea. apply negb_false_iff, N.eqb_eq in Ea. exact Ea.
Qed.

(* ---------------------------------------------------------------- block level: where the
   statement walk deviates from the path semantics (witnesses replayed on the analyzer) *)

(* `if c { x = 1; } x = 0;` every path writes x, the walk reports an uncovered branch *)
Theorem uncovered_later_assign_refuted :
  let b := [SIf [SWrite 0 1] []; SWrite 0 1] in
  s_unc (run_comb b) = [0] /\ uncovered_spec b 0 = false.
Proof. split; reflexivity. Qed.

(* `if c { y = 0; } else { o = y; y = 1; }` the else path reads y before assigning it; the
   reference masks of the true side are carried into the false side, nothing is reported *)
Theorem rba_branch_refuted :
  let b := [SIf [SWrite 0 1] [SRead 0 1; SWrite 1 1; SWrite 0 1]] in
  s_rba (run_comb b) = [] /\ rba_spec b 0 = true.
Proof. split; reflexivity. Qed.

(* partial: x[0] = ..; o = x[1:0]; x[1:0] = .. *)
Theorem rba_partial_refuted :
  let b := [SWrite 0 1; SRead 0 3; SWrite 0 3] in
  s_rba (run_comb b) = [] /\ rba_spec b 0 = true.
Proof. split; reflexivity. Qed.

(* sanity: the walk and the path semantics agree on the ordinary shapes *)
Example block_default_then_if :
  let b := [SWrite 0 1; SIf [SWrite 0 1] []] in
  s_unc (run_comb b) = [] /\ uncovered_spec b 0 = false.
Proof. split; reflexivity. Qed.
Example block_if_without_else :
  let b := [SIf [SWrite 0 1] []] in
  s_unc (run_comb b) = [0] /\ uncovered_spec b 0 = true.
Proof. split; reflexivity. Qed.
Example block_read_then_write :
  let b := [SRead 0 3; SWrite 1 3; SWrite 0 3] in
  s_rba (run_comb b) = [0] /\ rba_spec b 0 = true.
Proof. split; reflexivity. Qed.

(* ---------------------------------------------------------------- statements used by Props/C15.v *)

Theorem multi_assign_exact : forall procs v,
  multi_model procs v = true <->
  exists i j p q bit, (i < j)%nat /\ nth_error procs i = Some p /\ nth_error procs j = Some q /\
    N.testbit (may_write p v) bit = true /\ N.testbit (may_write q v) bit = true.
Proof. intros. rewrite multi_model_is_spec. apply multi_spec_exact. Qed.

Theorem check_refered_sound_bits : forall r a m,
  check_refered r a m = true ->
  exists i, N.testbit m i = true /\ N.testbit r i = true /\ N.testbit a i = false.
Proof. intros r a m H. apply read_before_assign_spec. apply check_refered_sound. exact H. Qed.

Theorem check_refered_exact_outside_bits : forall r a m,
  N.land (N.land r m) a = 0 ->
  (check_refered r a m = true <->
   exists i, N.testbit m i = true /\ N.testbit r i = true /\ N.testbit a i = false).
Proof.
  intros r a m H. rewrite (check_refered_exact_outside r a m H). apply read_before_assign_spec.
Qed.
