(* C16 — model of the analyzer's clock-domain algebra and of the checks built on it.
   Definitions only (this file must keep evaluating when a proof breaks).

   Transcribed from /repo:
     crates/analyzer/src/symbol.rs            enum ClockDomain, domain_id, compatible, merge
     crates/analyzer/src/conv/checker/clock_domain.rs   check_clock_domain
     crates/analyzer/src/ir/op.rs             eval_type_unary / binary / ternary / concatenation
     crates/analyzer/src/ir/expression.rs     StructConstructor, ArrayLiteral, Factor select/index
     crates/analyzer/src/conv/utils.rs        check_assign_clock_domain, function call inputs
     crates/analyzer/src/conv/declaration.rs  module-instance connection groups, $sv instance chain
   SymbolId (usize) is an unbounded N: only equality of ids is ever used. *)
From Coq Require Import NArith List Bool.
Import ListNotations.
Open Scope N_scope.

(* ---------------------------------------------------------------- the algebra (symbol.rs) *)

Inductive dom :=
| Explicit (id : N)
| Inferred (id : N)
| Implicit
| DNone.

Definition domain_id (d : dom) : option N :=
  match d with
  | Explicit id | Inferred id => Some id
  | _ => None
  end.

Definition is_some {A} (o : option A) : bool := match o with Some _ => true | None => false end.

(* pub fn compatible(&self, x: &ClockDomain) -> bool *)
Definition compatible (self x : dom) : bool :=
  match self, x with
  | DNone, _ | _, DNone => true
  | a, b =>
      match domain_id a, domain_id b with
      | Some a, Some b => N.eqb a b
      | None, None => true
      | _, _ => false
      end
  end.

(* pub fn merge(&self, other: &ClockDomain) -> ClockDomain *)
Definition merge (self other : dom) : dom :=
  match self, other with
  | DNone, x | x, DNone => x
  | x, y => if is_some (domain_id x) then x else y
  end.

(* check_clock_domain: an error is inserted iff  !compatible && !cdc_unsafe  *)
Definition check (cdc_unsafe : bool) (lhs rhs : dom) : bool :=
  negb (compatible lhs rhs) && negb cdc_unsafe.

(* ---------------------------------------------------------------- expressions
   The shapes under which the expression evaluator combines operand domains:
     Leaf d      a factor whose Comptime carries domain d (variable: its declared / inferred
                 domain; literal, const, param: DNone)
     Un e        unary operator, $signed/$unsigned: result keeps the operand's domain, no check
     Bin x y     binary operator: check x y; result = merge x y
     Tern c x y  if c ? x : y : check c x; check c y; check x y; result = merge (merge c x) y
     Fold es     accumulating shapes: concatenation, array literal, struct constructor, function
                 call inputs, variable with index/select expressions (the variable first):
                 acc starts DNone; for each operand: check acc e; acc := merge acc e *)
Inductive expr :=
| Leaf (d : dom)
| Un (e : expr)
| Bin (x y : expr)
| Tern (c x y : expr)
| Fold (es : list expr).

(* the accumulating loop shared by concatenation, array literal, struct constructor, function
   call inputs and index/select expressions *)
Section FoldWalk.
  Variable walk : expr -> dom * N.
  Fixpoint walk_fold (es : list expr) (acc : dom) (n : N) : dom * N :=
    match es with
    | [] => (acc, n)
    | e :: tl =>
        let '(de, ne) := walk e in
        walk_fold tl (merge acc de) (n + ne + (if compatible acc de then 0 else 1))
    end.
End FoldWalk.

(* walk e = (domain of the result, number of mismatch errors inserted) with cdc_unsafe = false *)
Fixpoint walk (e : expr) : dom * N :=
  match e with
  | Leaf d => (d, 0)
  | Un e => walk e
  | Bin x y =>
      let '(dx, nx) := walk x in
      let '(dy, ny) := walk y in
      (merge dx dy, nx + ny + (if compatible dx dy then 0 else 1))
  | Tern c x y =>
      let '(dc, nc) := walk c in
      let '(dx, nx) := walk x in
      let '(dy, ny) := walk y in
      (merge (merge dc dx) dy,
       nc + nx + ny + (if compatible dc dx then 0 else 1) + (if compatible dc dy then 0 else 1)
                    + (if compatible dx dy then 0 else 1))
  | Fold es => walk_fold walk es DNone 0
  end.

Definition walk_dom (e : expr) : dom := fst (walk e).
Definition walk_err (e : expr) : bool := negb (N.eqb (snd (walk e)) 0).

(* ---------------------------------------------------------------- specification side *)

Fixpoint leaves (e : expr) : list dom :=
  match e with
  | Leaf d => [d]
  | Un e => leaves e
  | Bin x y => leaves x ++ leaves y
  | Tern c x y => leaves c ++ leaves x ++ leaves y
  | Fold es => flat_map leaves es
  end.

(* the domain a signal belongs to, irrespective of how it was written down:
     None            no domain (constants)
     Some None       the implicit domain '_
     Some (Some i)   the named domain i (explicitly annotated or inferred) *)
Definition cls (d : dom) : option (option N) :=
  match d with
  | DNone => None
  | Implicit => Some None
  | Explicit i | Inferred i => Some (Some i)
  end.

(* two signals are in different clock domains *)
Definition differ (a b : dom) : Prop :=
  exists ka kb, cls a = Some ka /\ cls b = Some kb /\ ka <> kb.

(* a set of participating domains contains a crossing *)
Definition crossing (ds : list dom) : Prop :=
  exists a b, In a ds /\ In b ds /\ differ a b.

(* executable version of the specification (used as the reference by the end-to-end check) *)
Definition cls_eqb (a b : option N) : bool :=
  match a, b with
  | Some x, Some y => N.eqb x y
  | None, None => true
  | _, _ => false
  end.

Definition differb (a b : dom) : bool :=
  match cls a, cls b with
  | Some ka, Some kb => negb (cls_eqb ka kb)
  | _, _ => false
  end.

Definition crossingb (ds : list dom) : bool :=
  existsb (fun a => existsb (fun b => differb a b) ds) ds.

(* Explicit and Inferred are the same annotation as far as the checks go *)
Definition erase (d : dom) : dom :=
  match d with Inferred i => Explicit i | d => d end.

Fixpoint erase_expr (e : expr) : expr :=
  match e with
  | Leaf d => Leaf (erase d)
  | Un e => Un (erase_expr e)
  | Bin x y => Bin (erase_expr x) (erase_expr y)
  | Tern c x y => Tern (erase_expr c) (erase_expr x) (erase_expr y)
  | Fold es => Fold (map erase_expr es)
  end.

(* ---------------------------------------------------------------- assignment
   check_assign_clock_domain (conv/utils.rs): dst is the destination's domain AFTER the
   Implicit -> Inferred step (see infer_dst), rhs the evaluated right-hand side, clock the
   always_ff clock (None outside always_ff), conds the enclosing statement conditions. Number
   of errors inserted by this function itself (errors inside rhs / conds are counted by walk). *)
Definition infer_dst (dst : dom) (in_ff : bool) (clock rhs : dom) : dom :=
  match dst with
  | Implicit =>
      match (if in_ff then domain_id clock else domain_id rhs) with
      | Some id => Inferred id
      | None => Implicit
      end
  | d => d
  end.

Definition assign_errors (dst rhs : dom) (clock : option dom) (conds : list dom) : N :=
  (if compatible dst rhs then 0 else 1)
  + (match clock with Some c => if compatible dst c then 0 else 1 | None => 0 end)
  + fold_right (fun c n => (if compatible dst c then 0 else 1) + n) 0 conds.

(* ---------------------------------------------------------------- instances
   Module instance (conv/declaration.rs, after fix "first connection that carries a domain is
   the representative"): connections whose child port domain is the same key form a group; the
   representative of a group is the first connection with a domain; later ones are checked
   against it. *)
Fixpoint group_errors (rep : dom) (ds : list dom) : N :=
  match ds with
  | [] => 0
  | d :: tl =>
      match rep with
      | DNone => group_errors d tl
      | _ => (if compatible rep d then 0 else 1) + group_errors rep tl
      end
  end.

(* the algorithm before the fix: the first connection is the representative, whatever it is *)
Definition group_errors_first (ds : list dom) : N :=
  match ds with
  | [] => 0
  | rep :: tl => fold_right (fun d n => (if compatible rep d then 0 else 1) + n) 0 tl
  end.

(* $sv instance: every connected variable is checked against the previous one *)
Fixpoint chain_errors (prev : option dom) (ds : list dom) : N :=
  match ds with
  | [] => 0
  | d :: tl =>
      (match prev with Some p => if compatible d p then 0 else 1 | None => 0 end)
      + chain_errors (Some d) tl
  end.
