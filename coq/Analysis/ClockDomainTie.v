(* C16 — the functions regenerated from symbol.rs on every run (GeneratedClockDomain.v) are the
   functions the theorems are about. *)
From Coq Require Import NArith List Bool.
From VV Require Import Analysis.ClockDomainModel Analysis.GeneratedClockDomain.
Open Scope N_scope.

Lemma gen_domain_id_eq : forall d, gen_domain_id d = domain_id d.
Proof. destruct d; reflexivity. Qed.

Lemma gen_compatible_eq : forall a b, gen_compatible a b = compatible a b.
Proof. destruct a, b; simpl; try reflexivity; try apply N.eqb_sym. Qed.

Lemma gen_merge_eq : forall a b, gen_merge a b = merge a b.
Proof. destruct a, b; reflexivity. Qed.

Theorem generated_is_model :
  (forall d, gen_domain_id d = domain_id d) /\
  (forall a b, gen_compatible a b = compatible a b) /\
  (forall a b, gen_merge a b = merge a b).
Proof. repeat split; auto using gen_domain_id_eq, gen_compatible_eq, gen_merge_eq. Qed.
