(* C16 — proofs about the clock-domain algebra and the checks built on it. *)
From Coq Require Import NArith List Bool Lia.
From VV Require Import Analysis.ClockDomainModel.
Import ListNotations.
Open Scope N_scope.

(* ---------------------------------------------------------------- induction principle *)

Section ExprInd.
  Variable P : expr -> Prop.
  Hypothesis HLeaf : forall d, P (Leaf d).
  Hypothesis HUn : forall e, P e -> P (Un e).
  Hypothesis HBin : forall x y, P x -> P y -> P (Bin x y).
  Hypothesis HTern : forall c x y, P c -> P x -> P y -> P (Tern c x y).
  Hypothesis HFold : forall es, Forall P es -> P (Fold es).

  Fixpoint expr_ind' (e : expr) : P e :=
    match e with
    | Leaf d => HLeaf d
    | Un e => HUn e (expr_ind' e)
    | Bin x y => HBin x y (expr_ind' x) (expr_ind' y)
    | Tern c x y => HTern c x y (expr_ind' c) (expr_ind' x) (expr_ind' y)
    | Fold es =>
        HFold es ((fix go (l : list expr) : Forall P l :=
                     match l with
                     | [] => Forall_nil P
                     | e :: tl => Forall_cons e (expr_ind' e) (go tl)
                     end) es)
    end.
End ExprInd.

(* ---------------------------------------------------------------- the algebra *)

Lemma cls_eqb_spec : forall a b, cls_eqb a b = true <-> a = b.
Proof.
  intros [a|] [b|]; simpl; split; intro H; try congruence; try discriminate.
  - apply N.eqb_eq in H. congruence.
  - inversion H. apply N.eqb_refl.
Qed.

Lemma compatible_cls : forall a b,
  compatible a b = true <-> (cls a = None \/ cls b = None \/ cls a = cls b).
Proof.
  intros a b; destruct a, b; simpl; split; intro H; auto;
    try (apply N.eqb_eq in H; subst; auto);
    try discriminate;
    try (destruct H as [H|[H|H]]; try discriminate; inversion H; apply N.eqb_refl).
Qed.

Lemma incompatible_differ : forall a b, compatible a b = false <-> differ a b.
Proof.
  intros a b. split.
  - intro H. unfold differ.
    destruct (cls a) as [ka|] eqn:Ea.
    + destruct (cls b) as [kb|] eqn:Eb.
      * exists ka, kb. repeat split; auto. intro Hk. subst kb.
        assert (compatible a b = true) by (apply compatible_cls; right; right; congruence).
        congruence.
      * assert (compatible a b = true) by (apply compatible_cls; auto). congruence.
    + assert (compatible a b = true) by (apply compatible_cls; auto). congruence.
  - intros (ka & kb & Ha & Hb & Hne).
    destruct (compatible a b) eqn:E; auto.
    apply compatible_cls in E. destruct E as [E|[E|E]]; congruence.
Qed.

Lemma differb_spec : forall a b, differb a b = true <-> differ a b.
Proof.
  intros a b. unfold differb, differ. destruct (cls a) as [ka|], (cls b) as [kb|]; split; intro H;
    try discriminate; try (destruct H as (x & y & H1 & H2 & _); discriminate).
  - exists ka, kb. repeat split; auto. intro; subst.
    rewrite (proj2 (cls_eqb_spec kb kb) eq_refl) in H. discriminate.
  - destruct H as (x & y & H1 & H2 & Hne). inversion H1; inversion H2; subst.
    destruct (cls_eqb x y) eqn:E; auto. apply cls_eqb_spec in E. congruence.
Qed.

Lemma crossingb_spec : forall ds, crossingb ds = true <-> crossing ds.
Proof.
  intro ds. unfold crossingb, crossing. rewrite existsb_exists. split.
  - intros (a & Ha & H). apply existsb_exists in H. destruct H as (b & Hb & H).
    exists a, b. repeat split; auto. apply differb_spec; auto.
  - intros (a & b & Ha & Hb & H). exists a. split; auto. apply existsb_exists.
    exists b. split; auto. apply differb_spec; auto.
Qed.

Lemma compatible_sym : forall a b, compatible a b = compatible b a.
Proof.
  intros a b. destruct (compatible a b) eqn:E; symmetry.
  - apply compatible_cls. apply compatible_cls in E. intuition congruence.
  - destruct (compatible b a) eqn:E2; auto. apply compatible_cls in E2.
    assert (compatible a b = true) by (apply compatible_cls; intuition congruence). congruence.
Qed.

Lemma merge_cls_l : forall a b, cls a = None -> merge a b = b.
Proof. intros a b H; destruct a; try discriminate; destruct b; reflexivity. Qed.

Lemma merge_cls_r : forall a b, cls b = None -> merge a b = a.
Proof. intros a b H; destruct b; try discriminate; destruct a; reflexivity. Qed.

Lemma merge_cls_compat : forall a b,
  cls a <> None -> compatible a b = true -> cls (merge a b) = cls a.
Proof.
  intros a b Ha Hc. apply compatible_cls in Hc.
  destruct a, b; simpl in *; try congruence; destruct Hc as [H|[H|H]]; congruence.
Qed.

(* the result of merge is always one of its arguments *)
Lemma merge_is_arg : forall a b, merge a b = a \/ merge a b = b.
Proof. intros a b; destruct a, b; simpl; auto. Qed.

Theorem none_neutral : forall d,
  compatible DNone d = true /\ compatible d DNone = true /\ merge DNone d = d /\ merge d DNone = d.
Proof. intro d; destruct d; repeat split. Qed.

Lemma cls_erase : forall d, cls (erase d) = cls d.
Proof. destruct d; reflexivity. Qed.

Theorem explicit_inferred_alike_algebra : forall a b,
  compatible (erase a) (erase b) = compatible a b /\
  merge (erase a) (erase b) = erase (merge a b) /\
  compatible (Explicit 0) (Inferred 0) = true /\
  (forall i j, compatible (Explicit i) (Inferred j) = compatible (Explicit i) (Explicit j)
            /\ compatible (Inferred i) (Explicit j) = compatible (Explicit i) (Explicit j)
            /\ compatible (Inferred i) (Inferred j) = compatible (Explicit i) (Explicit j)).
Proof.
  intros a b. repeat split; try (destruct a, b; reflexivity).
Qed.

(* ---------------------------------------------------------------- walk *)

(* r represents the participating domains ds: every one of them is either domain-less or in r's
   domain, and r's domain (when it has one) really occurs *)
Definition rep_ok (r : dom) (ds : list dom) : Prop :=
  (forall d, In d ds -> cls d = None \/ cls d = cls r) /\
  (cls r <> None -> exists d, In d ds /\ cls d = cls r).

Lemma rep_ok_no_crossing : forall r ds, rep_ok r ds -> ~ crossing ds.
Proof.
  intros r ds [H _] (a & b & Ha & Hb & ka & kb & Ea & Eb & Hne).
  destruct (H a Ha), (H b Hb); congruence.
Qed.

Lemma crossing_app_l : forall a b, crossing a -> crossing (a ++ b).
Proof. intros a b (x & y & Hx & Hy & H). exists x, y. repeat split; auto using in_or_app. Qed.

Lemma crossing_app_r : forall a b, crossing b -> crossing (a ++ b).
Proof. intros a b (x & y & Hx & Hy & H). exists x, y. repeat split; auto using in_or_app. Qed.

Lemma rep_ok_nil : rep_ok DNone [].
Proof. split; simpl; [tauto | congruence]. Qed.

Lemma combine : forall ra rb da db,
  rep_ok ra da -> rep_ok rb db ->
  (compatible ra rb = true -> rep_ok (merge ra rb) (da ++ db)) /\
  (compatible ra rb = false -> crossing (da ++ db)).
Proof.
  intros ra rb da db [Ha1 Ha2] [Hb1 Hb2]. split; intro Hc.
  - destruct (cls ra) as [ka|] eqn:Ea.
    + assert (Hm : cls (merge ra rb) = cls ra) by (apply merge_cls_compat; congruence).
      split.
      * intros d Hd. apply in_app_or in Hd. rewrite Hm. destruct Hd as [Hd|Hd].
        { rewrite Ea. auto. }
        { destruct (Hb1 d Hd) as [H|H]; auto.
          apply compatible_cls in Hc.
          destruct Hc as [Hc|[Hc|Hc]]; [congruence | left; congruence | right; congruence]. }
      * intros _. destruct Ha2 as (d & Hd & Ed); try congruence.
        exists d. split; auto using in_or_app. congruence.
    + rewrite (merge_cls_l ra rb Ea). split.
      * intros d Hd. apply in_app_or in Hd. destruct Hd as [Hd|Hd]; auto.
        destruct (Ha1 d Hd) as [H|H]; auto.
      * intros Hn. destruct (Hb2 Hn) as (d & Hd & Ed). exists d. split; auto using in_or_app.
  - apply incompatible_differ in Hc. destruct Hc as (ka & kb & Ea & Eb & Hne).
    destruct Ha2 as (a & Hina & Eca); try congruence.
    destruct Hb2 as (b & Hinb & Ecb); try congruence.
    exists a, b. repeat split; auto using in_or_app.
    exists ka, kb. repeat split; congruence.
Qed.

(* what is known after walking an expression *)
Definition walk_post (ds : list dom) (r : dom * N) : Prop :=
  (snd r = 0 -> rep_ok (fst r) ds) /\ (snd r <> 0 -> crossing ds).

Lemma walk_post_bin : forall dx nx dy ny lx ly,
  walk_post lx (dx, nx) -> walk_post ly (dy, ny) ->
  walk_post (lx ++ ly) (merge dx dy, nx + ny + (if compatible dx dy then 0 else 1)).
Proof.
  intros dx nx dy ny lx ly [Hx0 Hx1] [Hy0 Hy1]. simpl in *. split; simpl; intro H.
  - destruct (compatible dx dy) eqn:E; [|lia].
    assert (nx = 0) by lia. assert (ny = 0) by lia.
    apply (combine dx dy lx ly); auto.
  - destruct (N.eq_dec nx 0) as [Zx|Zx]; [|apply crossing_app_l; auto].
    destruct (N.eq_dec ny 0) as [Zy|Zy]; [|apply crossing_app_r; auto].
    destruct (compatible dx dy) eqn:E; [lia|].
    apply (combine dx dy lx ly); auto.
Qed.

Lemma walk_fold_post : forall es,
  Forall (fun e => walk_post (leaves e) (walk e)) es ->
  forall acc n ds0, walk_post ds0 (acc, n) ->
  walk_post (ds0 ++ flat_map leaves es) (walk_fold walk es acc n).
Proof.
  induction es as [|e tl IH]; intros HF acc n ds0 H0; simpl.
  - rewrite app_nil_r. exact H0.
  - inversion HF as [|? ? He Htl]; subst.
    destruct (walk e) as [de ne] eqn:Ew.
    rewrite app_assoc. apply IH; auto.
    replace (n + ne + (if compatible acc de then 0 else 1))
      with (n + ne + (if compatible acc de then 0 else 1)) by reflexivity.
    apply walk_post_bin; auto.
Qed.

Lemma walk_inv : forall e, walk_post (leaves e) (walk e).
Proof.
  induction e using expr_ind'; simpl.
  - split; simpl; intro H; [|congruence].
    split; [intros x [Hx|[]]; subst; auto | intros _; exists d; simpl; auto].
  - exact IHe.
  - destruct (walk e1) as [dx nx], (walk e2) as [dy ny]. apply walk_post_bin; auto.
  - destruct (walk e1) as [dc nc] eqn:E1, (walk e2) as [dx nx] eqn:E2, (walk e3) as [dy ny] eqn:E3.
    destruct IHe1 as [Hc0 Hc1], IHe2 as [Hx0 Hx1], IHe3 as [Hy0 Hy1]. simpl in *.
    split; simpl; intro H.
    + destruct (compatible dc dx) eqn:Ecx; [|lia].
      destruct (compatible dc dy) eqn:Ecy; [|lia].
      destruct (compatible dx dy) eqn:Exy; [|lia].
      assert (nc = 0) by lia. assert (nx = 0) by lia. assert (ny = 0) by lia.
      assert (Hcx : rep_ok (merge dc dx) (leaves e1 ++ leaves e2))
        by (apply (combine dc dx); auto).
      rewrite app_assoc. apply (combine (merge dc dx) dy); auto.
      destruct (merge_is_arg dc dx) as [M|M]; rewrite M; auto.
    + destruct (N.eq_dec nc 0) as [Zc|Zc]; [|apply crossing_app_l; auto].
      destruct (N.eq_dec nx 0) as [Zx|Zx]; [|apply crossing_app_r, crossing_app_l; auto].
      destruct (N.eq_dec ny 0) as [Zy|Zy]; [|apply crossing_app_r, crossing_app_r; auto].
      destruct (compatible dc dx) eqn:Ecx.
      * destruct (compatible dc dy) eqn:Ecy.
        { destruct (compatible dx dy) eqn:Exy; [lia|].
          apply crossing_app_r. apply (combine dx dy); auto. }
        { assert (Hcy : crossing (leaves e1 ++ leaves e3)) by (apply (combine dc dy); auto).
          destruct Hcy as (a & b & Ha & Hb & Hd). exists a, b. repeat split; auto.
          - apply in_app_or in Ha. apply in_or_app. destruct Ha; auto. right. apply in_or_app; auto.
          - apply in_app_or in Hb. apply in_or_app. destruct Hb; auto. right. apply in_or_app; auto. }
      * rewrite app_assoc. apply crossing_app_l. apply (combine dc dx); auto.
  - replace (flat_map leaves es) with ([] ++ flat_map leaves es) by reflexivity.
    apply walk_fold_post; auto.
    split; simpl; intro; [apply rep_ok_nil | congruence].
Qed.

Theorem check_sound_complete : forall e, walk_err e = true <-> crossing (leaves e).
Proof.
  intro e. unfold walk_err. destruct (walk_inv e) as [H0 H1]. split.
  - intro H. apply H1. intro Z. rewrite Z in H. discriminate.
  - intro Hc. destruct (N.eqb (snd (walk e)) 0) eqn:E; auto.
    apply N.eqb_eq in E. exfalso. exact (rep_ok_no_crossing _ _ (H0 E) Hc).
Qed.

(* no laundering: as long as no error was reported, the result carries the domain of every leaf
   that has one (so a later check against the result is a check against every leaf) *)
Theorem walk_no_laundering : forall e, walk_err e = false ->
  forall d, In d (leaves e) -> cls d <> None -> cls (walk_dom e) = cls d.
Proof.
  intros e H d Hd Hn. unfold walk_err in H. apply negb_false_iff, N.eqb_eq in H.
  destruct (walk_inv e) as [H0 _]. destruct (H0 H) as [Hall _].
  destruct (Hall d Hd); [congruence | symmetry; auto].
Qed.

Theorem walk_result_is_leaf : forall e, walk_err e = false ->
  cls (walk_dom e) <> None -> exists d, In d (leaves e) /\ cls d = cls (walk_dom e).
Proof.
  intros e H Hn. unfold walk_err in H. apply negb_false_iff, N.eqb_eq in H.
  destruct (walk_inv e) as [H0 _]. destruct (H0 H) as [_ Hex]. auto.
Qed.

(* ---------------------------------------------------------------- Explicit / Inferred *)

Lemma compatible_erase : forall a b, compatible (erase a) (erase b) = compatible a b.
Proof. intros a b; destruct a, b; reflexivity. Qed.

Lemma merge_erase : forall a b, merge (erase a) (erase b) = erase (merge a b).
Proof. intros a b; destruct a, b; reflexivity. Qed.

Lemma walk_fold_erase : forall es,
  Forall (fun e => walk (erase_expr e) = (erase (fst (walk e)), snd (walk e))) es ->
  forall acc n,
  walk_fold walk (map erase_expr es) (erase acc) n =
  (erase (fst (walk_fold walk es acc n)), snd (walk_fold walk es acc n)).
Proof.
  induction es as [|e tl IH]; intros HF acc n; simpl; auto.
  inversion HF as [|? ? He Htl]; subst. rewrite He.
  destruct (walk e) as [de ne]. simpl.
  rewrite merge_erase, compatible_erase. apply IH; auto.
Qed.

Theorem explicit_inferred_alike : forall e,
  walk (erase_expr e) = (erase (fst (walk e)), snd (walk e)).
Proof.
  induction e using expr_ind'; simpl; auto.
  - rewrite IHe1, IHe2. destruct (walk e1), (walk e2). simpl.
    rewrite merge_erase, compatible_erase. reflexivity.
  - rewrite IHe1, IHe2, IHe3. destruct (walk e1), (walk e2), (walk e3). simpl.
    rewrite !merge_erase, !compatible_erase. reflexivity.
  - change DNone with (erase DNone). apply walk_fold_erase; auto.
Qed.

(* ---------------------------------------------------------------- assignment *)

Lemma fold_conds_zero : forall dst conds,
  fold_right (fun c n => (if compatible dst c then 0 else 1) + n) 0 conds = 0 <->
  (forall c, In c conds -> compatible dst c = true).
Proof.
  induction conds as [|c tl IH]; simpl; split; intro H; auto; try tauto.
  - intros x [Hx|Hx]; subst.
    + destruct (compatible dst x); auto. lia.
    + apply IH; auto. destruct (compatible dst c); lia.
  - rewrite (H c (or_introl eq_refl)). simpl. apply IH. auto.
Qed.

Definition opt_list {A} (o : option A) : list A := match o with Some x => [x] | None => [] end.

(* errors reported for one assignment: inside the right-hand side, inside each enclosing
   condition, and by check_assign_clock_domain itself *)
Definition assign_total (dst : dom) (rhs : expr) (clock : option dom) (conds : list expr) : N :=
  snd (walk rhs) + fold_right (fun c n => snd (walk c) + n) 0 conds
  + assign_errors dst (walk_dom rhs) clock (map walk_dom conds).

Definition assign_parts (dst : dom) (rhs : expr) (clock : option dom) (conds : list expr) : list dom :=
  dst :: leaves rhs ++ opt_list clock ++ flat_map leaves conds.

Lemma rep_dst : forall dst r ds, cls dst <> None -> rep_ok r ds -> compatible dst r = true ->
  forall d, In d ds -> cls d = None \/ cls d = cls dst.
Proof.
  intros dst r ds Hn [Hall Hex] Hc d Hd. destruct (Hall d Hd) as [H|H]; auto.
  apply compatible_cls in Hc. destruct Hc as [Hc|[Hc|Hc]]; try congruence.
  - left. congruence.
  - right. congruence.
Qed.

Lemma rep_dst_cross : forall dst r ds, rep_ok r ds -> compatible dst r = false ->
  exists d, In d ds /\ differ dst d.
Proof.
  intros dst r ds [Hall Hex] Hc. apply incompatible_differ in Hc.
  destruct Hc as (ka & kb & Ea & Eb & Hne).
  destruct Hex as (d & Hd & Ed); try congruence.
  exists d. split; auto. exists ka, kb. repeat split; congruence.
Qed.

Lemma conds_sum_zero : forall conds,
  fold_right (fun c n => snd (walk c) + n) 0 conds = 0 <-> (forall c, In c conds -> snd (walk c) = 0).
Proof.
  induction conds as [|c tl IH]; simpl; split; intro H; auto; try tauto.
  - intros x [Hx|Hx]; subst; [lia | apply IH; auto; lia].
  - rewrite (H c (or_introl eq_refl)). simpl. apply IH; auto.
Qed.

Lemma parts_dst : forall dst rhs clock conds, In dst (assign_parts dst rhs clock conds).
Proof. intros; unfold assign_parts; simpl; auto. Qed.

Lemma parts_rhs : forall dst rhs clock conds d, In d (leaves rhs) -> In d (assign_parts dst rhs clock conds).
Proof. intros; unfold assign_parts; right; apply in_or_app; auto. Qed.

Lemma parts_clock : forall dst rhs c conds, In c (assign_parts dst rhs (Some c) conds).
Proof. intros; unfold assign_parts; right; apply in_or_app; right; apply in_or_app; left; simpl; auto. Qed.

Lemma parts_cond : forall dst rhs clock conds c d, In c conds -> In d (leaves c) ->
  In d (assign_parts dst rhs clock conds).
Proof.
  intros; unfold assign_parts; right; apply in_or_app; right; apply in_or_app; right.
  apply in_flat_map. exists c; auto.
Qed.

Lemma conds_first_bad : forall dst conds,
  fold_right (fun c n => (if compatible dst c then 0 else 1) + n) 0 (map walk_dom conds) <> 0 ->
  exists c', In c' conds /\ compatible dst (walk_dom c') = false.
Proof.
  induction conds as [|x tl IH]; simpl; intro Hcs; [congruence|].
  destruct (compatible dst (walk_dom x)) eqn:E.
  - destruct IH as (y & Hy & Hf); [lia|]. exists y; auto.
  - exists x; auto.
Qed.

Theorem assign_exact : forall dst rhs clock conds, cls dst <> None ->
  (assign_total dst rhs clock conds <> 0 <-> crossing (assign_parts dst rhs clock conds)).
Proof.
  intros dst rhs clock conds Hn. split.
  - unfold assign_total, assign_errors. intro H.
    destruct (N.eq_dec (snd (walk rhs)) 0) as [Zr|Zr].
    2:{ destruct (walk_inv rhs) as [_ Hc]. destruct (Hc Zr) as (a & b & Ha & Hb & Hd).
        exists a, b. repeat split; auto using parts_rhs. }
    destruct (N.eq_dec (fold_right (fun c n => snd (walk c) + n) 0 conds) 0) as [Zc|Zc].
    2:{ assert (exists c, In c conds /\ snd (walk c) <> 0) as (c & Hc & Hz).
        { clear -Zc. induction conds as [|c tl IH]; simpl in *; [congruence|].
          destruct (N.eq_dec (snd (walk c)) 0) as [Z|Z].
          - destruct IH as (x & Hx & Hz); [lia|]. exists x; auto.
          - exists c; auto. }
        destruct (walk_inv c) as [_ Hcr]. destruct (Hcr Hz) as (a & b & Ha & Hb & Hd).
        exists a, b. repeat split; eauto using parts_cond. }
    destruct (walk_inv rhs) as [Hr _]. specialize (Hr Zr).
    destruct (compatible dst (walk_dom rhs)) eqn:Er.
    2:{ destruct (rep_dst_cross dst _ _ Hr Er) as (d & Hd & Hdf).
        exists dst, d. repeat split; auto using parts_dst, parts_rhs. }
    assert (Hk : match clock with Some c => compatible dst c = false | None => False end \/
                 fold_right (fun c n => (if compatible dst c then 0 else 1) + n) 0 (map walk_dom conds) <> 0).
    { destruct clock as [c|]; [destruct (compatible dst c) eqn:Ec; auto|]; right; lia. }
    destruct Hk as [Hk|Hcs].
    + destruct clock as [c|]; [|tauto].
      exists dst, c. repeat split; auto using parts_dst, parts_clock.
      apply incompatible_differ; auto.
    + destruct (conds_first_bad dst conds Hcs) as (c' & Hc' & Hf).
      destruct (walk_inv c') as [Hc0 _]. rewrite conds_sum_zero in Zc. specialize (Hc0 (Zc c' Hc')).
      destruct (rep_dst_cross dst _ _ Hc0 Hf) as (d & Hd & Hdf).
      exists dst, d. repeat split; eauto using parts_dst, parts_cond.
  - unfold assign_total, assign_errors. intros Hcr Hz.
    assert (Zr : snd (walk rhs) = 0) by lia.
    assert (Zc : fold_right (fun c n => snd (walk c) + n) 0 conds = 0) by lia.
    assert (Er : compatible dst (walk_dom rhs) = true) by (destruct (compatible dst (walk_dom rhs)); auto; lia).
    assert (Ek : forall c, clock = Some c -> compatible dst c = true).
    { intros c Hc. subst. destruct (compatible dst c); auto. lia. }
    assert (Ecs : forall c, In c conds -> compatible dst (walk_dom c) = true).
    { intros c Hc. assert (Hf : fold_right (fun c n => (if compatible dst c then 0 else 1) + n) 0 (map walk_dom conds) = 0).
      { destruct clock as [k|]; [destruct (compatible dst k)|]; lia. }
      rewrite fold_conds_zero in Hf. apply Hf. apply in_map; auto. }
    assert (Hall : forall d, In d (assign_parts dst rhs clock conds) -> cls d = None \/ cls d = cls dst).
    { unfold assign_parts. intros d [Hd|Hd]; [subst; auto|].
      apply in_app_or in Hd. destruct Hd as [Hd|Hd].
      - destruct (walk_inv rhs) as [Hr _]. eapply rep_dst; eauto.
      - apply in_app_or in Hd. destruct Hd as [Hd|Hd].
        + destruct clock as [k|]; simpl in Hd; [|tauto]. destruct Hd as [Hd|[]]; subst.
          specialize (Ek d eq_refl). apply compatible_cls in Ek.
          destruct Ek as [E|[E|E]]; auto; congruence.
        + apply in_flat_map in Hd. destruct Hd as (c & Hc & Hd).
          destruct (walk_inv c) as [Hc0 _]. rewrite conds_sum_zero in Zc.
          eapply rep_dst; eauto. }
    destruct Hcr as (a & b & Ha & Hb & ka & kb & Ea & Eb & Hne).
    destruct (Hall a Ha), (Hall b Hb); congruence.
Qed.

(* the hypothesis of assign_exact is needed: with a domain-less destination the right-hand
   side is never compared with the enclosing condition *)
Theorem assign_domainless_dst_misses :
  assign_total DNone (Leaf (Explicit 1)) None [Leaf (Explicit 2)] = 0 /\
  crossing (assign_parts DNone (Leaf (Explicit 1)) None [Leaf (Explicit 2)]).
Proof.
  split; [reflexivity|]. apply crossingb_spec. reflexivity.
Qed.

(* Implicit destinations: after inference the destination has a domain *)
Lemma infer_dst_cls : forall dst in_ff clock rhs, cls dst <> None -> cls (infer_dst dst in_ff clock rhs) <> None.
Proof.
  intros dst in_ff clock rhs H. destruct dst; simpl in *; try congruence.
  destruct (if in_ff then domain_id clock else domain_id rhs); simpl; congruence.
Qed.

Lemma infer_dst_erase : forall dst in_ff clock rhs,
  erase (infer_dst dst in_ff clock rhs) = erase (infer_dst (erase dst) in_ff (erase clock) (erase rhs)).
Proof.
  intros dst in_ff clock rhs. destruct dst; simpl; auto.
  destruct in_ff; [destruct clock | destruct rhs]; reflexivity.
Qed.

(* ---------------------------------------------------------------- instances *)

Lemma group_errors_inv : forall ds rep seen, rep_ok rep seen ->
  (group_errors rep ds <> 0 <-> crossing (seen ++ ds)).
Proof.
  induction ds as [|d tl IH]; intros rep seen Hok; simpl.
  - rewrite app_nil_r. split; [congruence|]. intro H. exfalso. eapply rep_ok_no_crossing; eauto.
  - assert (Hd : rep_ok d [d]).
    { split; [intros x [Hx|[]]; subst; auto | intros _; exists d; simpl; auto]. }
    replace (seen ++ d :: tl) with ((seen ++ [d]) ++ tl) by (rewrite <- app_assoc; reflexivity).
    destruct (combine rep d seen [d] Hok Hd) as [Ht Hf].
    destruct (cls rep) as [k|] eqn:Ek.
    + assert (Hrep : group_errors rep (d :: tl) = (if compatible rep d then 0 else 1) + group_errors rep tl)
        by (destruct rep; simpl in *; try discriminate; reflexivity).
      simpl in Hrep.
      assert (Hg : match rep with DNone => group_errors d tl
                   | _ => (if compatible rep d then 0 else 1) + group_errors rep tl end
                   = (if compatible rep d then 0 else 1) + group_errors rep tl)
        by (destruct rep; simpl in *; try discriminate; reflexivity).
      rewrite Hg. destruct (compatible rep d) eqn:Ec.
      * rewrite N.add_0_l. apply IH.
        specialize (Ht eq_refl). unfold rep_ok in Ht.
        rewrite (merge_cls_compat rep d) in Ht by congruence. exact Ht.
      * split; [|lia]. intros _. apply crossing_app_l. auto.
    + assert (rep = DNone) by (destruct rep; simpl in Ek; congruence). subst rep.
      apply IH. specialize (Ht eq_refl). rewrite merge_cls_l in Ht by reflexivity. exact Ht.
Qed.

Theorem group_exact : forall ds, group_errors DNone ds <> 0 <-> crossing ds.
Proof. intro ds. apply (group_errors_inv ds DNone []). apply rep_ok_nil. Qed.

(* the algorithm before the fix misses a crossing behind a leading constant *)
Theorem group_first_refuted :
  exists ds, group_errors_first ds = 0 /\ crossing ds.
Proof.
  exists [DNone; Explicit 1; Explicit 2]. split; [reflexivity|].
  apply crossingb_spec. reflexivity.
Qed.

Lemma chain_errors_inv : forall ds p seen,
  cls p <> None -> In p seen -> (forall d, In d seen -> cls d = cls p) ->
  Forall (fun d => cls d <> None) ds ->
  (chain_errors (Some p) ds <> 0 <-> crossing (seen ++ ds)).
Proof.
  induction ds as [|d tl IH]; intros p seen Hp Hin Hall HF; simpl.
  - rewrite app_nil_r. split; [congruence|].
    intros (a & b & Ha & Hb & ka & kb & Ea & Eb & Hne). rewrite (Hall a Ha) in Ea. rewrite (Hall b Hb) in Eb. congruence.
  - inversion HF as [|? ? Hd Htl]; subst.
    replace (seen ++ d :: tl) with ((seen ++ [d]) ++ tl) by (rewrite <- app_assoc; reflexivity).
    destruct (compatible d p) eqn:Ec.
    + rewrite N.add_0_l. apply IH; auto.
      * apply in_or_app; right; simpl; auto.
      * intros x Hx. apply in_app_or in Hx. apply compatible_cls in Ec.
        destruct Hx as [Hx|[Hx|[]]]; subst; auto.
        rewrite (Hall x Hx). destruct Ec as [E|[E|E]]; congruence.
    + split; [|lia]. intros _. apply crossing_app_l.
      exists d, p. repeat split; auto using in_or_app.
      * apply in_or_app; right; simpl; auto.
      * apply incompatible_differ; auto.
Qed.

Theorem chain_exact : forall ds, Forall (fun d => cls d <> None) ds ->
  (chain_errors None ds <> 0 <-> crossing ds).
Proof.
  intros [|d tl] HF; simpl.
  - split; [congruence|]. intros (a & b & [] & _).
  - inversion HF; subst.
    apply (chain_errors_inv tl d [d]); auto; simpl; auto.
    intros x [Hx|[]]; subst; auto.
Qed.

(* unsafe (cdc): a guarded check never reports; an unguarded one reports iff incompatible *)
Theorem check_guard : forall g a b,
  check g a b = true <-> (g = false /\ differ a b).
Proof.
  intros g a b. unfold check. rewrite andb_true_iff, !negb_true_iff, incompatible_differ. tauto.
Qed.
