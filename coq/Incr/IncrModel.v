(* Incremental build driver — Gallina transcription of crates/veryl/src/incremental.rs
   (Incremental::open / dst_is_stale / try_restore / capture / save) and of the restore-or-emit
   decision of crates/veryl/src/pipeline.rs + cmd_build.rs + cmd_check.rs.

   Two layers, definitions only (proofs are in IncrProofs.v):

   1. EXECUTABLE, first-order part (no uninterpreted symbols): [open_miss], [restored_files],
      [emitted_files].  This is what ./check C04 evaluates with vm_compute on the real pre-state
      of every step of every generated history and compares with what the CLI did.

   2. SEMANTIC part (Section Semantics): project states, configuration, outputs, a [build] and a
      [check] command built on layer 1, with analysis/emission as uninterpreted Section functions.

   Numbers: file ids, hashes, times are unbounded N (paths / BLAKE3 digests / SystemTime are only
   compared for equality resp. order; overflow is not a concern of this property). *)
From Coq Require Import List NArith Bool.
From VV Require Import Incr.GeneratedKeyParts.
Import ListNotations.
Open Scope N_scope.

Definition file := N.
Definition hashv := N.
Definition time := N.

(* ------------------------------------------------------------------ layer 1: miss set *)

(* veryl_cache::FileEntry, the fields Incremental::open reads *)
Record entry := mkEntry {
  e_hash : hashv;                 (* hash of the source at the build that wrote the entry *)
  e_frag : bool;                  (* fragment.is_some() *)
  e_dependents : list file        (* transitive dependents, from the previous build *)
}.

(* manifest.files of a store whose schema and global key match; [] after a discard *)
Definition manifest := list (file * entry).

Fixpoint lookup {A : Type} (m : list (file * A)) (f : file) : option A :=
  match m with
  | [] => None
  | (g, a) :: r => if g =? f then Some a else lookup r f
  end.

Definition mem (f : file) (l : list file) : bool := existsb (N.eqb f) l.

(* what Incremental::open / try_restore observe about one PathSet *)
Record pathinfo := mkPath {
  p_file : file;
  p_hash : option hashv;          (* None: fs::read_to_string failed *)
  p_example : bool;               (* path.example *)
  p_gen : option time;            (* build_info.generated_files.get(dst) *)
  p_dst_exists : bool;
  p_map_exists : bool;
  p_mtime : time;                 (* modified time of the source *)
  p_blob_ok : bool                (* the fragment blob and, when one is recorded, the diagnostics
                                     blob load, decode and restore *)
}.

(* Incremental::dst_is_stale (with the missing-map clause of the repaired tree);
   [map_needed] = build.sourcemap_target != None *)
Definition dst_is_stale (map_needed : bool) (p : pathinfo) : bool :=
  match p_gen p with
  | None => true
  | Some g =>
      negb (p_dst_exists p)
      || (map_needed && negb (p_map_exists p))
      || (g <? p_mtime p)
  end.

(* the `hit` expression of Incremental::open; selected tests do not exist for build/check *)
Definition hit (consider_output map_needed : bool) (m : manifest) (p : pathinfo) : bool :=
  match p_hash p with
  | None => false
  | Some h =>
      match lookup m (p_file p) with
      | None => false
      | Some e =>
          (e_hash e =? h) && e_frag e
          && (negb consider_output || p_example p || negb (dst_is_stale map_needed p))
      end
  end.

Definition base_miss (co mn : bool) (m : manifest) (paths : list pathinfo) : list file :=
  map p_file (filter (fun p => negb (hit co mn m p)) paths).

Definition dependents_of (m : manifest) (fs : list file) : list file :=
  flat_map (fun f => match lookup m f with Some e => e_dependents e | None => [] end) fs.

(* the miss set: misses plus the previous build's dependents of every miss (one round: the
   stored map is already transitively closed) *)
Definition open_miss (co mn : bool) (m : manifest) (paths : list pathinfo) : list file :=
  let b := base_miss co mn m paths in b ++ dependents_of m b.

(* try_restore succeeds: not in the miss set, entry present, blobs usable *)
Definition restores (miss : list file) (m : manifest) (p : pathinfo) : bool :=
  negb (mem (p_file p) miss)
  && match lookup m (p_file p) with Some _ => true | None => false end
  && p_blob_ok p.

Definition restored_files (co mn : bool) (m : manifest) (paths : list pathinfo) : list file :=
  let miss := open_miss co mn m paths in
  map p_file (filter (restores miss m) paths).

(* files that go through parse + pass1 + pass2 (and emit, for build): everything not restored *)
Definition analysed_files (co mn : bool) (m : manifest) (paths : list pathinfo) : list file :=
  let miss := open_miss co mn m paths in
  map p_file (filter (fun p => negb (restores miss m p)) paths).

(* files whose .sv (and map) is written by `veryl build`: analysed and not under examples/ *)
Definition emitted_files (mn : bool) (m : manifest) (paths : list pathinfo) : list file :=
  let miss := open_miss true mn m paths in
  map p_file (filter (fun p => negb (restores miss m p) && negb (p_example p)) paths).

(* ------------------------------------------------------------------ configuration / key *)

Definition config := list (N * N).        (* section id |-> value id (value ids stand for the
                                             serialised section text; equal text = equal id) *)

Definition cfg_get (c : config) (s : N) : N :=
  match lookup c s with Some v => v | None => 0 end.

Definition project_secs (names : list N) (c : config) : list N := map (cfg_get c) names.

(* sections the emitter / analyzer read that the theorem talks about; [sec_components]
   (native testbench component manifests, read from files on disk) is outside the model *)
Definition exempt_sections : list N := [sec_components].

Definition sections_read : list N :=
  filter (fun s => negb (mem s exempt_sections)) (emitter_reads ++ analyzer_reads).

(* veryl_cache::global_key is BLAKE3 over the length-prefixed parts: injective up to hash
   collisions, so the key is modelled as the list of hashed parts itself *)
Definition key_of (c : config) : list N := project_secs key_parts c.
Definition secs_of (c : config) : list N := project_secs sections_read c.

Definition key_covers : bool :=
  forallb (fun s => mem s key_parts) sections_read.

Fixpoint list_eqb (a b : list N) : bool :=
  match a, b with
  | [], [] => true
  | x :: a', y :: b' => (x =? y) && list_eqb a' b'
  | _, _ => false
  end.

(* ------------------------------------------------------------------ layer 2: semantics *)

Section Semantics.

  Variable content : Type.
  Variable hash : content -> hashv.           (* veryl_cache::content_hash *)

  Variable out : Type.                        (* text of an emitted .sv (with its map) *)
  Variable dg : Type.                         (* a diagnostic: (file, code, message, spans) *)
  Variable dg_eqb : dg -> dg -> bool.

  Definition proj := list (file * content).   (* sources in path order *)

  (* analysis / emission of file f in project P under the sections read; uninterpreted.
     [deps P f]: the files f's analysis and emission depend on (transitively). *)
  Variable deps : proj -> file -> list file.
  Variable emit : proj -> list N -> file -> out.
  Variable diags : proj -> list N -> file -> list dg.      (* every diagnostic owned by f *)
  Variable rederived : proj -> list N -> file -> list dg.  (* those the global post-passes
                                                              derive again for a restored f *)
  Variable cacheable : proj -> list N -> file -> bool.     (* pass1 of f produced no diagnostic *)
  Variable has_error : proj -> list N -> file -> bool.
  Variable map_needed : list N -> bool.                    (* sourcemap_target != none *)

  Definition dom (P : proj) : list file := map fst P.

  Record state := mkState {
    s_src : proj;
    s_cfg : config;
    s_mtime : file -> time;
    s_now : time;
    (* .build/cache/manifest.toml: key, entries, cached diagnostics per file *)
    s_man : option (list N * manifest);
    s_cdiag : file -> list dg;
    (* .build/info.toml *)
    s_gen : file -> option time;
    (* target tree *)
    s_out : file -> option out;
    s_mapok : file -> bool;
    (* ghost: the (project, configuration) of the command that last saved the manifest *)
    s_snap : option (proj * config)
  }.

  Definition init (P : proj) (c : config) : state :=
    mkState P c (fun _ => 0) 1 None (fun _ => []) (fun _ => None) (fun _ => None) (fun _ => false) None.

  (* the store as Incremental::open sees it: discarded unless the key matches *)
  Definition eff_manifest (s : state) : manifest :=
    match s_man s with
    | Some (k, m) => if list_eqb k (key_of (s_cfg s)) then m else []
    | None => []
    end.

  Definition path_of (s : state) (fc : file * content) : pathinfo :=
    let f := fst fc in
    mkPath f (Some (hash (snd fc))) false (s_gen s f)
           (match s_out s f with Some _ => true | None => false end)
           (s_mapok s f) (s_mtime s f) true.

  Definition paths_of (s : state) : list pathinfo := map (path_of s) (s_src s).

  Definition mn_of (s : state) : bool := map_needed (secs_of (s_cfg s)).

  (* type_dag::dependent_files after the analysis of P: h depends on f *)
  Definition dependents_in (P : proj) (f : file) : list file :=
    filter (fun h => mem f (deps P h)) (dom P).

  (* Store::put for an analysed file / Store::keep for a restored one, then set_dependents for
     every file that has dependents in the fresh dependency graph (type_dag::dependent_files
     lists only files with a non-empty set: a kept entry otherwise keeps its old dependents) *)
  Definition kept_dependents (P : proj) (old : list file) (f : file) : list file :=
    match dependents_in P f with [] => old | d => d end.

  Definition new_entry (s : state) (analysed : list file) (fc : file * content) : entry :=
    let f := fst fc in
    let P := s_src s in
    let sec := secs_of (s_cfg s) in
    if mem f analysed
    then mkEntry (hash (snd fc)) (cacheable P sec f) (dependents_in P f)
    else match lookup (eff_manifest s) f with
         | Some e => mkEntry (e_hash e) (e_frag e) (kept_dependents P (e_dependents e) f)
         | None => mkEntry (hash (snd fc)) false (dependents_in P f)   (* unreachable *)
         end.

  Definition new_manifest (s : state) (analysed : list file) : manifest :=
    map (fun fc => (fst fc, new_entry s analysed fc)) (s_src s).

  (* CheckError::append_cached + drop_cached_duplicates for one restored file:
     fresh (re-derived) diagnostics, plus the cached ones no fresh one covers *)
  Definition replay (cached fresh : list dg) : list dg :=
    fresh ++ filter (fun c => negb (existsb (dg_eqb c) fresh)) cached.

  Definition file_diags (s : state) (analysed : list file) (f : file) : list dg :=
    let P := s_src s in
    let sec := secs_of (s_cfg s) in
    if mem f analysed then diags P sec f else replay (s_cdiag s f) (rederived P sec f).

  Inductive status := Done | Failed.

  Record result := mkResult {
    r_status : status;
    r_out : file -> option out;        (* target tree after the command *)
    r_mapok : file -> bool;
    r_diags : file -> list dg          (* diagnostics per owning file (when Done) *)
  }.

  (* `veryl build` *)
  Definition build (s : state) : state * result :=
    let P := s_src s in
    let sec := secs_of (s_cfg s) in
    let m := eff_manifest s in
    let mn := mn_of s in
    let an := analysed_files true mn m (paths_of s) in
    if existsb (has_error P sec) an
    then (s, mkResult Failed (s_out s) (s_mapok s) (fun _ => []))
    else
      let out' := fun f => if mem f an then Some (emit P sec f) else s_out s f in
      let mapok' := fun f => if mem f an then (mn || s_mapok s f) else s_mapok s f in
      let gen' := fun f => if mem f an then Some (s_now s) else s_gen s f in
      let cd' := fun f => if mem f an then diags P sec f else s_cdiag s f in
      (mkState P (s_cfg s) (s_mtime s) (s_now s + 1)
               (Some (key_of (s_cfg s), new_manifest s an)) cd' gen' out' mapok'
               (Some (P, s_cfg s)),
       mkResult Done out' mapok' (file_diags s an)).

  (* `veryl check`: no staleness, nothing emitted, manifest saved unless an error stopped it *)
  Definition check (s : state) : state * result :=
    let P := s_src s in
    let sec := secs_of (s_cfg s) in
    let m := eff_manifest s in
    let an := analysed_files false (mn_of s) m (paths_of s) in
    if existsb (has_error P sec) an
    then (s, mkResult Failed (s_out s) (s_mapok s) (fun _ => []))
    else
      let cd' := fun f => if mem f an then diags P sec f else s_cdiag s f in
      (mkState P (s_cfg s) (s_mtime s) (s_now s + 1)
               (Some (key_of (s_cfg s), new_manifest s an)) cd' (s_gen s) (s_out s) (s_mapok s)
               (Some (P, s_cfg s)),
       mkResult Done (s_out s) (s_mapok s) (file_diags s an)).

  (* the reference run: the same project and target tree with `.build` removed *)
  Definition forget (s : state) : state :=
    mkState (s_src s) (s_cfg s) (s_mtime s) (s_now s) None (fun _ => []) (fun _ => None)
            (s_out s) (s_mapok s) None.

  (* -------------------------------------------------------------- history steps *)

  Definition upd {A} (g : file -> A) (f : file) (a : A) : file -> A :=
    fun x => if x =? f then a else g x.

  Fixpoint pset (P : proj) (f : file) (c : content) : proj :=
    match P with
    | [] => [(f, c)]
    | (g, d) :: r => if g =? f then (f, c) :: r else (g, d) :: pset r f c
    end.

  Definition premove (P : proj) (f : file) : proj := filter (fun gc => negb (fst gc =? f)) P.

  Inductive step :=
  | Edit (f : file) (c : content)          (* write a source file: mtime := now *)
  | EditKeep (f : file) (c : content)      (* replace contents keeping the old mtime *)
  | Touch (f : file)
  | Delete (f : file)
  | SetCfg (c : config)
  | DelOut (f : file)                       (* remove target/f.sv *)
  | DelMap (f : file)                       (* remove target/f.sv.map *)
  | TamperOut (f : file) (o : out)          (* hand-edit / damage an output in place *)
  | Build
  | Check.

  Definition with_src s P mt now :=
    mkState P (s_cfg s) mt now (s_man s) (s_cdiag s) (s_gen s) (s_out s) (s_mapok s) (s_snap s).

  Definition apply (s : state) (st : step) : state :=
    match st with
    | Edit f c => with_src s (pset (s_src s) f c) (upd (s_mtime s) f (s_now s)) (s_now s + 1)
    | EditKeep f c => with_src s (pset (s_src s) f c) (s_mtime s) (s_now s)
    | Touch f => with_src s (s_src s) (upd (s_mtime s) f (s_now s)) (s_now s + 1)
    | Delete f => with_src s (premove (s_src s) f) (s_mtime s) (s_now s)
    | SetCfg c => mkState (s_src s) c (s_mtime s) (s_now s) (s_man s) (s_cdiag s) (s_gen s)
                          (s_out s) (s_mapok s) (s_snap s)
    | DelOut f => mkState (s_src s) (s_cfg s) (s_mtime s) (s_now s) (s_man s) (s_cdiag s) (s_gen s)
                          (upd (s_out s) f None) (s_mapok s) (s_snap s)
    | DelMap f => mkState (s_src s) (s_cfg s) (s_mtime s) (s_now s) (s_man s) (s_cdiag s) (s_gen s)
                          (s_out s) (upd (s_mapok s) f false) (s_snap s)
    | TamperOut f o => mkState (s_src s) (s_cfg s) (s_mtime s) (s_now s) (s_man s) (s_cdiag s)
                          (s_gen s) (upd (s_out s) f (Some o)) (s_mapok s) (s_snap s)
    | Build => fst (build s)
    | Check => fst (check s)
    end.

  Definition run (s : state) (h : list step) : state := fold_left apply h s.

End Semantics.
