(* C05, crash part: whatever point a build dies at, the state it leaves behind still satisfies
   the (generalised) invariant of IncrProofs, so the next build equals a clean build and
   re-establishes the invariant — provided outputs are replaced atomically.  With in-place
   (truncate-then-write) outputs the statement is false: witness below. *)
From Coq Require Import List NArith Bool Lia Permutation.
From VV Require Import Incr.GeneratedKeyParts Incr.IncrModel Incr.IncrProofs Incr.CrashModel Incr.IncrExamples.
Import ListNotations.
Open Scope N_scope.

Lemma firstn_incl_le : forall (A : Type) (l : list A) n m x, (n <= m)%nat -> In x (firstn n l) -> In x (firstn m l).
Proof.
  induction l as [|a l IH]; intros n m x Hle Hin.
  - rewrite firstn_nil in Hin. contradiction.
  - destruct n as [|n]; [contradiction|]. destruct m as [|m]; [lia|].
    simpl in *. destruct Hin as [->|Hin]; [left; reflexivity | right; apply (IH n m); [lia | exact Hin]].
Qed.

Lemma firstn_In : forall (A : Type) (l : list A) n x, In x (firstn n l) -> In x l.
Proof.
  intros A l n x H. rewrite <- (firstn_skipn n l). apply in_or_app. left. exact H.
Qed.

Section CrashCorrect.

  Variable content : Type.
  Variable hash : content -> hashv.
  Variable out : Type.
  Variable dg : Type.
  Variable dg_eqb : dg -> dg -> bool.
  Variable deps : list (file * content) -> file -> list file.
  Variable emit : list (file * content) -> list N -> file -> out.
  Variable diags : list (file * content) -> list N -> file -> list dg.
  Variable rederived : list (file * content) -> list N -> file -> list dg.
  Variable cacheable : list (file * content) -> list N -> file -> bool.
  Variable has_error : list (file * content) -> list N -> file -> bool.
  Variable map_needed : list N -> bool.

  Notation state := (state content out dg).
  Notation build := (build content hash out dg dg_eqb deps emit diags rederived cacheable has_error map_needed).
  Notation forget := (forget content out dg).
  Notation Inv := (Inv content hash out dg deps emit diags cacheable has_error map_needed).
  Notation InvG := (InvG content hash out dg deps emit diags cacheable has_error map_needed).
  Notation deps_present := (deps_present content hash out dg deps map_needed).
  Notation analysed := (analysed content hash out dg map_needed).
  Notation crashed := (crashed content hash out dg deps emit diags cacheable map_needed).
  Notation an_list := (an_list content hash out dg map_needed).
  Notation cp_wf := (cp_wf content hash out dg map_needed).
  Notation res_equiv := (res_equiv content out dg).

  Hypothesis hash_inj : forall a b, hash a = hash b -> a = b.
  Hypothesis dg_eqb_spec : forall a b, dg_eqb a b = true <-> a = b.
  Hypothesis locality : forall P P' sec f, agree_on content deps P P' f ->
    deps P' f = deps P f /\ emit P' sec f = emit P sec f /\ diags P' sec f = diags P sec f
    /\ rederived P' sec f = rederived P sec f /\ cacheable P' sec f = cacheable P sec f
    /\ has_error P' sec f = has_error P sec f.
  Hypothesis deps_closed : forall P sec f, In f (dom content P) -> has_error P sec f = false ->
    incl (deps P f) (dom content P).
  Hypothesis rederived_incl : forall P sec f, incl (rederived P sec f) (diags P sec f).
  Hypothesis diags_nodup : forall P sec f, NoDup (diags P sec f).
  Hypothesis rederived_nodup : forall P sec f, NoDup (rederived P sec f).

  Lemma an_list_analysed : forall s, an_list s = analysed true s.
  Proof. reflexivity. Qed.

  (* the state a dying build leaves behind satisfies the generalised invariant *)
  Theorem crashed_inv : forall s cp,
    Inv s -> deps_present true s ->
    existsb (has_error (s_src _ _ _ s) (secs_of (s_cfg _ _ _ s))) (an_list s) = false ->
    cp_wf s cp ->
    InvG true (crashed s cp).
  Proof.
    intros s cp HI Hdp Herr [Hle [Hman Hinfo]].
    pose proof HI as [Hnd [Htime Hi]].
    unfold crashed, crashed_gen. split; [exact Hnd|]. split; [intros f; simpl; specialize (Htime f); lia|].
    cbn [s_man s_snap].
    destruct (cp_man cp) eqn:Em.
    - (* manifest already replaced: every output is in place *)
      specialize (Hman eq_refl).
      assert (Hall : firstn (cp_outs cp) (an_list s) = an_list s) by (apply firstn_all2; lia).
      unfold snap_ok. cbn [s_cdiag s_out s_src s_cfg].
      split; [reflexivity|]. rewrite an_list_analysed in *.
      split; [apply (new_manifest_rel content hash out dg deps emit diags rederived cacheable has_error map_needed hash_inj locality deps_closed false true s HI Hdp)|].
      split; [exact Hnd|].
      split; [apply (no_error_all content hash out dg deps emit diags rederived cacheable has_error map_needed hash_inj locality deps_closed false true s HI Hdp Herr)|].
      split.
      + intros f Hf. destruct (mem f (analysed true s)) eqn:E; [reflexivity|]. apply mem_false in E.
        destruct (restored_sem content hash out dg deps emit diags rederived cacheable has_error map_needed hash_inj locality deps_closed false true s f HI Hdp Hf E) as [P0 [c0 [_ [_ [_ [_ [_ [Hcd _]]]]]]]]. exact Hcd.
      + intros f Hf _. left. rewrite Hall.
        destruct (mem f (analysed true s)) eqn:E; [reflexivity|]. apply mem_false in E.
        destruct (restored_sem content hash out dg deps emit diags rederived cacheable has_error map_needed hash_inj locality deps_closed false true s f HI Hdp Hf E) as [P0 [c0 [_ [_ [_ [_ [_ [_ [_ Ho]]]]]]]]].
        destruct (Ho eq_refl) as [_ Ho']. exact Ho'.
    - (* old manifest, old info.toml; a prefix of the outputs replaced *)
      assert (Hio : cp_info cp = InfoOld).
      { destruct (cp_info cp) eqn:E; [reflexivity | |]; exfalso;
          (assert (H : false = true) by (apply Hinfo; discriminate)); discriminate H. }
      destruct (s_man _ _ _ s) as [[k m]|]; destruct (s_snap _ _ _ s) as [[P0 c0]|]; auto.
      destruct Hi as [Hk [Hmm [Hnd0 [Herr0 [Hcd Hout]]]]].
      unfold snap_ok. cbn [s_cdiag s_out s_src s_cfg].
      split; [exact Hk|]. split; [exact Hmm|]. split; [exact Hnd0|]. split; [exact Herr0|].
      split; [exact Hcd|].
      intros f Hf0 [[Hown1 Hown2] Hcl]. cbn [s_out s_mapok] in *.
      destruct (mem f (firstn (cp_outs cp) (an_list s))) eqn:Ew.
      + right. split; reflexivity.
      + left. apply mem_false in Ew.
        assert (Ewm : mem f (firstn (cp_maps cp) (an_list s)) = false).
        { apply mem_false. intros H. apply Ew. eapply firstn_incl_le; [exact Hle | exact H]. }
        rewrite Ewm in Hown2.
        destruct (Hout f Hf0) as [H|[Hx _]]; [| exact H | discriminate Hx].
        split; [split; assumption|].
        intros g Hg. destruct (Hcl g Hg) as [t [H1 H2]]. rewrite Hio in H1. exists t. split; assumption.
  Qed.

  (* C05 (crash half): after a crash at ANY point of a build, the next build gives exactly what a
     clean build gives, and the cache is consistent again afterwards. *)
  Theorem recovery_after_crash : forall s cp,
    Inv s -> deps_present true s ->
    existsb (has_error (s_src _ _ _ s) (secs_of (s_cfg _ _ _ s))) (an_list s) = false ->
    cp_wf s cp ->
    let s' := crashed s cp in
    deps_present true s' ->
    res_equiv (s_src _ _ _ s') (snd (build s')) (snd (build (forget s')))
    /\ (r_status _ _ (snd (build s')) = Done -> Inv (fst (build s'))).
  Proof.
    intros s cp HI Hdp Herr Hwf s' Hdp'.
    pose proof (crashed_inv s cp HI Hdp Herr Hwf) as HG. fold s' in HG.
    split.
    - apply (build_eq_clean content hash out dg dg_eqb deps emit diags rederived cacheable has_error map_needed
               hash_inj dg_eqb_spec locality deps_closed rederived_incl diags_nodup rederived_nodup true s' HG Hdp').
    - apply (build_inv content hash out dg dg_eqb deps emit diags rederived cacheable has_error map_needed
               hash_inj locality deps_closed true s' HG Hdp').
  Qed.

End CrashCorrect.

(* ------------------------------------------------------------------ damaged cache data *)

(* every kind of damage the store can detect turns into a miss: an unusable fragment blob *)
Lemma bad_blob_is_analysed : forall co mn m ps p,
  In p ps -> p_blob_ok p = false -> In (p_file p) (analysed_files co mn m ps).
Proof.
  intros co mn m ps p Hin Hb. unfold analysed_files. apply in_map_iff. exists p. split; [reflexivity|].
  apply filter_In. split; [exact Hin|]. unfold restores. rewrite Hb. rewrite andb_false_r. reflexivity.
Qed.

(* ... an unreadable / unparsable / wrong-schema / wrong-key manifest (the store starts empty) *)
Lemma no_manifest_all_analysed : forall co mn ps p,
  In p ps -> In (p_file p) (analysed_files co mn [] ps).
Proof.
  intros co mn ps p Hin. unfold analysed_files. apply in_map_iff. exists p. split; [reflexivity|].
  apply filter_In. split; [exact Hin|]. unfold restores. simpl. rewrite andb_false_r. reflexivity.
Qed.

(* ... a lost or unparsable info.toml (no generated-file stamps): every emitted file is stale *)
Lemma no_info_all_emitted : forall mn m ps p,
  In p ps -> p_gen p = None -> p_example p = false -> In (p_file p) (emitted_files mn m ps).
Proof.
  intros mn m ps p Hin Hg He. unfold emitted_files. apply in_map_iff. exists p. split; [reflexivity|].
  apply filter_In. split; [exact Hin|]. rewrite He. simpl. rewrite andb_true_r. apply negb_true_iff.
  unfold restores. apply andb_false_iff. left. apply andb_false_iff. left. apply negb_false_iff. apply mem_In.
  unfold open_miss. apply in_or_app. left. unfold base_miss. apply in_map_iff. exists p. split; [reflexivity|].
  apply filter_In. split; [exact Hin|]. apply negb_true_iff. unfold hit.
  destruct (p_hash p); [|reflexivity]. destruct (lookup m (p_file p)); [|reflexivity].
  unfold dst_is_stale. rewrite Hg, He. simpl. rewrite andb_false_r. reflexivity.
Qed.

(* ------------------------------------------------------------------ in-place outputs: refuted *)

(* build; delete target/1.sv; build dying between the truncate and the write of 1.sv (the empty
   file exists); build: file 1 is restored and its output stays empty.  This is the behaviour of
   the pinned write_file_if_changed (OpenOptions::truncate then write_all). *)
Theorem recovery_in_place_refuted :
  exists h cp empty,
    let s := run N (fun c => c) tout N N.eqb tdeps temit tdiags tredo tcacheable terror tmapneeded (init N tout N [(1, 10)] cfgA) h in
    cp_wf N (fun c => c) tout N tmapneeded s cp /\
    let s' := crashed_inplace N (fun c => c) tout N tdeps temit tdiags tcacheable tmapneeded empty s cp in
    r_out _ _ (snd (build N (fun c => c) tout N N.eqb tdeps temit tdiags tredo tcacheable terror tmapneeded s')) 1 <>
    r_out _ _ (snd (build N (fun c => c) tout N N.eqb tdeps temit tdiags tredo tcacheable terror tmapneeded (forget N tout N s'))) 1.
Proof.
  exists [Build _ _; DelOut _ _ 1], (mkCP 0 0 false InfoOld), (None, [], []).
  split.
  - vm_compute. repeat split; intros; try lia; try discriminate; congruence.
  - vm_compute. intros H. discriminate H.
Qed.

(* the same crash point with atomic replacement: nothing is left behind, the file is still
   missing and is emitted again *)
Example recovery_atomic_same_point :
  let s := run N (fun c => c) tout N N.eqb tdeps temit tdiags tredo tcacheable terror tmapneeded (init N tout N [(1, 10)] cfgA) [Build _ _; DelOut _ _ 1] in
  let s' := crashed N (fun c => c) tout N tdeps temit tdiags tcacheable tmapneeded s (mkCP 0 0 false InfoOld) in
  r_out _ _ (snd (build N (fun c => c) tout N N.eqb tdeps temit tdiags tredo tcacheable terror tmapneeded s')) 1 =
  r_out _ _ (snd (build N (fun c => c) tout N N.eqb tdeps temit tdiags tredo tcacheable terror tmapneeded (forget N tout N s'))) 1.
Proof. vm_compute. reflexivity. Qed.
