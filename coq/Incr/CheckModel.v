(* C27 — control flow of `veryl fmt [--check]` (crates/veryl/src/cmd_fmt.rs) and of
   `veryl build [--check]` (crates/veryl/src/cmd_build.rs, utils::write_file_if_changed) over an
   abstract file system.  Definitions only; proofs in CheckProofs.v.

   Parsing / formatting / analysis / emission are uninterpreted: both modes run the same
   front end on the same sources, so what matters is which results are compared with which
   files (check mode) and which files are written (write mode). *)
From Coq Require Import List NArith Bool.
Import ListNotations.
Open Scope N_scope.

Definition path := N.

Section CheckModes.

  Variable text : Type.
  Variable text_eqb : text -> text -> bool.
  Variable empty : text.                           (* String::new() *)
  Variable append : text -> text -> text.

  Definition fsys := path -> option text.          (* None: the file does not exist *)

  Definition fwrite (fs : fsys) (p : path) (t : text) : fsys :=
    fun q => if q =? p then Some t else fs q.

  (* utils::write_file_if_changed: the file holds `t` afterwards (written only when it differs) *)
  Definition write_if_changed (fs : fsys) (p : path) (t : text) : fsys :=
    match fs p with
    | Some old => if text_eqb old t then fs else fwrite fs p t
    | None => fwrite fs p t
    end.

  (* ---------------------------------------------------------------- veryl fmt *)

  (* Parser::parse + Formatter::format of a source text; None = read/parse error (the command
     returns Err at that file) *)
  Variable format : text -> option text.

  Inductive outcome := Pass | Fail | Abort.

  (* CmdFmt::exec with opt.check: nothing is written; all_pass drops at the first difference,
     an unreadable / unparsable file aborts the command *)
  Fixpoint fmt_check (fs : fsys) (ps : list path) (all_pass : bool) : outcome :=
    match ps with
    | [] => if all_pass then Pass else Fail
    | p :: r =>
        match fs p with
        | None => Abort
        | Some input =>
            match format input with
            | None => Abort
            | Some formatted =>
                fmt_check fs r (all_pass && text_eqb input formatted)
            end
        end
    end.

  (* CmdFmt::exec without --check: a differing file is overwritten; all_pass stays true *)
  Fixpoint fmt_write (fs : fsys) (ps : list path) : fsys * outcome :=
    match ps with
    | [] => (fs, Pass)
    | p :: r =>
        match fs p with
        | None => (fs, Abort)
        | Some input =>
            match format input with
            | None => (fs, Abort)
            | Some formatted =>
                if text_eqb input formatted then fmt_write fs r
                else fmt_write (write_if_changed fs p formatted) r
            end
        end
    end.

  (* ---------------------------------------------------------------- veryl build *)

  (* what the emitter produced for one source file of `paths` (after a successful analysis) *)
  Record unit_out := mkUnit {
    u_dst : path;          (* path.dst *)
    u_map : path;          (* path.map *)
    u_sv : text;           (* emitter.as_str() *)
    u_smap : text;         (* source map bytes *)
    u_std : bool           (* path.prj == "$std" *)
  }.

  (* Target::Directory / Target::Source, --check: per file, unless it belongs to $std,
     `fs::read_to_string(dst).unwrap_or(String::new()) == emitter.as_str()`;
     source maps and the filelist are not looked at *)
  Definition read_or_empty (fs : fsys) (p : path) : text :=
    match fs p with Some t => t | None => empty end.

  Definition build_check_dir (fs : fsys) (us : list unit_out) : bool :=
    forallb (fun u => u_std u || text_eqb (read_or_empty fs (u_dst u)) (u_sv u)) us.

  (* write mode: .sv, then (sourcemap_target != none) the map, per file; then the filelist *)
  Definition build_write_unit (mapon : bool) (fs : fsys) (u : unit_out) : fsys :=
    let fs1 := write_if_changed fs (u_dst u) (u_sv u) in
    if mapon then write_if_changed fs1 (u_map u) (u_smap u) else fs1.

  Definition build_write_dir (mapon : bool) (fs : fsys) (us : list unit_out)
             (flist : path) (fltext : text) : fsys :=
    write_if_changed (fold_left (build_write_unit mapon) us fs) flist fltext.

  (* Target::Bundle: every file is staged in a temp dir (both modes); the bundle is the
     concatenation in filelist order.  --check compares only the bundle file
     (`read_to_string(target).unwrap_or_default() == text`); write mode writes the bundle and the
     filelist (one line naming the bundle). *)
  Definition bundle_text (us : list unit_out) : text :=
    fold_right (fun u acc => append (u_sv u) acc) empty us.

  Definition build_check_bundle (fs : fsys) (us : list unit_out) (bundle : path) : bool :=
    text_eqb (read_or_empty fs bundle) (bundle_text us).

  Definition build_write_bundle (fs : fsys) (us : list unit_out) (bundle flist : path) (fltext : text) : fsys :=
    write_if_changed (write_if_changed fs bundle (bundle_text us)) flist fltext.

End CheckModes.
