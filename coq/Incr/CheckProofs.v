(* C27 proofs: `fmt --check` passes exactly when `fmt` changes nothing; `build --check` agrees
   with `build` on the project's own .sv files and on the bundle, and does NOT agree on source
   maps, the filelist, missing outputs whose emitted text is empty, and $std outputs
   (witnesses, each replayed on the CLI by ./check C27). *)
From Coq Require Import List NArith Bool Lia.
From VV Require Import Incr.CheckModel.
Import ListNotations.
Open Scope N_scope.

Section Proofs.

  Variable text : Type.
  Variable text_eqb : text -> text -> bool.
  Variable empty : text.
  Variable append : text -> text -> text.
  Variable format : text -> option text.
  Hypothesis text_eqb_spec : forall a b, text_eqb a b = true <-> a = b.

  Notation fsys := (fsys text).
  Notation write_if_changed := (write_if_changed text text_eqb).
  Notation fmt_check := (fmt_check text text_eqb format).
  Notation fmt_write := (fmt_write text text_eqb format).

  Lemma eqb_refl : forall a, text_eqb a a = true.
  Proof. intros a. apply text_eqb_spec. reflexivity. Qed.

  Lemma write_at : forall (fs : fsys) p t, write_if_changed fs p t p = Some t.
  Proof.
    intros fs p t. unfold write_if_changed, CheckModel.write_if_changed, fwrite.
    destruct (fs p) as [old|] eqn:E.
    - destruct (text_eqb old t) eqn:Q.
      + apply text_eqb_spec in Q. subst. exact E.
      + rewrite N.eqb_refl. reflexivity.
    - rewrite N.eqb_refl. reflexivity.
  Qed.

  Lemma write_other : forall (fs : fsys) p t q, q <> p -> write_if_changed fs p t q = fs q.
  Proof.
    intros fs p t q H. unfold write_if_changed, CheckModel.write_if_changed, fwrite.
    destruct (fs p) as [old|]; [destruct (text_eqb old t); [reflexivity|]|];
      (destruct (q =? p) eqn:E; [apply N.eqb_eq in E; contradiction | reflexivity]).
  Qed.

  (* ---------------------------------------------------------------- fmt *)

  Definition clean (fs : fsys) (p : path) : Prop :=
    exists t, fs p = Some t /\ format t = Some t.

  Lemma fmt_check_acc : forall ps fs b, fmt_check fs ps b = Pass -> b = true.
  Proof.
    induction ps as [|p r IH]; simpl; intros fs b H.
    - destruct b; [reflexivity | discriminate].
    - destruct (fs p) as [t|]; [|discriminate]. destruct (format t) as [t'|]; [|discriminate].
      apply IH in H. apply andb_true_iff in H. tauto.
  Qed.

  Lemma fmt_check_pass_iff : forall ps fs,
    fmt_check fs ps true = Pass <-> forall p, In p ps -> clean fs p.
  Proof.
    induction ps as [|p r IH]; simpl; intros fs.
    - split; [intros _ p [] | reflexivity].
    - split.
      + intros H q Hq. destruct (fs p) as [t|] eqn:E; [|discriminate].
        destruct (format t) as [t'|] eqn:F; [|discriminate].
        destruct (text_eqb t t') eqn:Q.
        * apply text_eqb_spec in Q. subst t'. destruct Hq as [<-|Hq].
          -- exists t. split; assumption.
          -- apply (proj1 (IH fs) H). exact Hq.
        * apply fmt_check_acc in H. discriminate.
      + intros H. destruct (H p (or_introl eq_refl)) as [t [E F]]. rewrite E, F, eqb_refl. simpl.
        apply IH. intros q Hq. apply H. right. exact Hq.
  Qed.

  Lemma fmt_write_other : forall ps (fs : fsys) q, ~ In q ps -> fst (fmt_write fs ps) q = fs q.
  Proof.
    induction ps as [|p r IH]; simpl; intros fs q Hq; [reflexivity|].
    destruct (fs p) as [t|] eqn:E; [|reflexivity]. destruct (format t) as [t'|]; [|reflexivity].
    destruct (text_eqb t t').
    - apply IH. tauto.
    - rewrite IH; [|tauto]. apply write_other. intros ->. apply Hq. left. reflexivity.
  Qed.

  (* C27, fmt: --check passes exactly when write mode completes and leaves every file as it is *)
  Theorem fmt_check_iff_noop : forall ps fs, NoDup ps ->
    (fmt_check fs ps true = Pass
     <-> snd (fmt_write fs ps) = Pass /\ forall q, fst (fmt_write fs ps) q = fs q).
  Proof.
    intros ps fs Hnd. rewrite fmt_check_pass_iff. revert fs Hnd.
    induction ps as [|p r IH]; simpl; intros fs Hnd.
    - split; [intros _; split; reflexivity | intros _ p []].
    - inversion Hnd as [|? ? Hn Hnd']; subst. split.
      + intros H. destruct (H p (or_introl eq_refl)) as [t [E F]]. rewrite E, F, eqb_refl.
        apply IH; [exact Hnd'|]. intros q Hq. apply H. right. exact Hq.
      + intros [Hs Hq]. destruct (fs p) as [t|] eqn:E; [|discriminate Hs].
        destruct (format t) as [t'|] eqn:F; [|discriminate Hs].
        destruct (text_eqb t t') eqn:Q.
        * apply text_eqb_spec in Q. subst t'. intros q [<-|Hin].
          -- exists t. split; assumption.
          -- apply (proj2 (IH fs Hnd')); [split; assumption | exact Hin].
        * exfalso. specialize (Hq p). rewrite fmt_write_other in Hq; [|exact Hn].
          rewrite write_at in Hq. rewrite E in Hq. inversion Hq; subst.
          rewrite eqb_refl in Q. discriminate.
  Qed.

  (* ---------------------------------------------------------------- build: sequences of writes *)

  Notation unit_out := (unit_out text).
  Notation build_check_dir := (build_check_dir text text_eqb empty).
  Notation build_write_dir := (build_write_dir text text_eqb).
  Notation build_write_unit := (build_write_unit text text_eqb).
  Notation read_or_empty := (read_or_empty text empty).
  Notation build_check_bundle := (build_check_bundle text text_eqb empty append).
  Notation build_write_bundle := (build_write_bundle text text_eqb empty append).
  Notation bundle_text := (bundle_text text empty append).

  Definition apply_writes (fs : fsys) (ws : list (path * text)) : fsys :=
    fold_left (fun fs w => write_if_changed fs (fst w) (snd w)) ws fs.

  Definition unit_writes (mapon : bool) (u : unit_out) : list (path * text) :=
    if mapon then [(u_dst _ u, u_sv _ u); (u_map _ u, u_smap _ u)] else [(u_dst _ u, u_sv _ u)].

  (* every write of a build, in order *)
  Definition dir_writes (mapon : bool) (us : list unit_out) (flist : path) (fltext : text) : list (path * text) :=
    flat_map (unit_writes mapon) us ++ [(flist, fltext)].

  Lemma apply_app : forall a b fs, apply_writes fs (a ++ b) = apply_writes (apply_writes fs a) b.
  Proof. intros a b fs. unfold apply_writes. apply fold_left_app. Qed.

  Lemma fold_units : forall mapon us fs,
    fold_left (build_write_unit mapon) us fs = apply_writes fs (flat_map (unit_writes mapon) us).
  Proof.
    induction us as [|u r IH]; simpl; intros fs; [reflexivity|].
    rewrite apply_app. rewrite IH. f_equal.
    unfold build_write_unit, CheckModel.build_write_unit, unit_writes. destruct mapon; reflexivity.
  Qed.

  Lemma build_write_dir_writes : forall mapon fs us fl flt,
    build_write_dir mapon fs us fl flt = apply_writes fs (dir_writes mapon us fl flt).
  Proof.
    intros. unfold build_write_dir, CheckModel.build_write_dir, dir_writes. rewrite apply_app, fold_units. reflexivity.
  Qed.

  Lemma apply_other : forall ws fs q, ~ In q (map fst ws) -> apply_writes fs ws q = fs q.
  Proof.
    induction ws as [|[p t] r IH]; simpl; intros fs q H; [reflexivity|].
    unfold apply_writes in *. simpl. rewrite IH; [|tauto]. apply write_other. intros ->. apply H. left. reflexivity.
  Qed.

  Lemma apply_in : forall ws fs p t, NoDup (map fst ws) -> In (p, t) ws -> apply_writes fs ws p = Some t.
  Proof.
    induction ws as [|[p0 t0] r IH]; simpl; intros fs p t Hnd Hin; [contradiction|].
    inversion Hnd as [|? ? Hn Hnd']; subst. destruct Hin as [Hin|Hin].
    - inversion Hin; subst. change (apply_writes (write_if_changed fs p t) r p = Some t).
      rewrite apply_other; [apply write_at | exact Hn].
    - change (apply_writes (write_if_changed fs p0 t0) r p = Some t). apply IH; assumption.
  Qed.

  Lemma dst_in_writes : forall mapon us fl flt u, In u us -> In (u_dst _ u, u_sv _ u) (dir_writes mapon us fl flt).
  Proof.
    intros mapon us fl flt u H. unfold dir_writes. apply in_or_app. left. apply in_flat_map. exists u. split; [exact H|].
    unfold unit_writes. destruct mapon; left; reflexivity.
  Qed.

  (* the paths a build writes are pairwise different (outputs, maps and the filelist) *)
  Definition distinct (mapon : bool) (us : list unit_out) (fl : path) (flt : text) : Prop :=
    NoDup (map fst (dir_writes mapon us fl flt)).

  (* C27, build (directory / source targets), the direction that holds:
     if `veryl build` would change nothing then `veryl build --check` passes *)
  Theorem build_noop_check_passes : forall mapon fs us fl flt,
    distinct mapon us fl flt ->
    (forall q, build_write_dir mapon fs us fl flt q = fs q) ->
    build_check_dir fs us = true.
  Proof.
    intros mapon fs us fl flt Hd Hno. unfold build_check_dir, CheckModel.build_check_dir. apply forallb_forall. intros u Hu.
    apply orb_true_iff. right. apply text_eqb_spec.
    specialize (Hno (u_dst _ u)). rewrite build_write_dir_writes in Hno.
    rewrite (apply_in _ _ _ _ Hd (dst_in_writes mapon us fl flt u Hu)) in Hno.
    unfold read_or_empty, CheckModel.read_or_empty. rewrite <- Hno. reflexivity.
  Qed.

  (* ... and the part of the converse that holds: when --check passes, every EXISTING .sv of the
     project itself is left unchanged by `veryl build` *)
  Theorem build_check_pass_sv_unchanged : forall mapon fs us fl flt,
    distinct mapon us fl flt ->
    build_check_dir fs us = true ->
    forall u, In u us -> u_std _ u = false -> fs (u_dst _ u) <> None ->
    build_write_dir mapon fs us fl flt (u_dst _ u) = fs (u_dst _ u).
  Proof.
    intros mapon fs us fl flt Hd Hc u Hu Hstd Hex.
    unfold build_check_dir, CheckModel.build_check_dir in Hc. rewrite forallb_forall in Hc. specialize (Hc u Hu).
    rewrite Hstd in Hc. simpl in Hc. apply text_eqb_spec in Hc.
    rewrite build_write_dir_writes. rewrite (apply_in _ _ _ _ Hd (dst_in_writes mapon us fl flt u Hu)).
    unfold read_or_empty, CheckModel.read_or_empty in Hc. destruct (fs (u_dst _ u)); [congruence | contradiction].
  Qed.

  (* bundle target: --check passes exactly when the existing bundle file is what write mode
     would put there (the filelist is not compared in this mode either) *)
  Theorem bundle_check_iff_bundle_unchanged : forall fs us bundle fl flt,
    bundle <> fl -> fs bundle <> None ->
    (build_check_bundle fs us bundle = true
     <-> build_write_bundle fs us bundle fl flt bundle = fs bundle).
  Proof.
    intros fs us bundle fl flt Hne Hex. unfold build_check_bundle, CheckModel.build_check_bundle,
      build_write_bundle, CheckModel.build_write_bundle.
    rewrite write_other; [|exact Hne]. rewrite write_at. rewrite text_eqb_spec.
    unfold read_or_empty, CheckModel.read_or_empty. destruct (fs bundle) as [t|]; [|contradiction].
    split; intros H; [subst; reflexivity | inversion H; reflexivity].
  Qed.

End Proofs.

(* ---------------------------------------------------------------------- what does not hold *)
(* texts are numbers here: 0 is the empty text; path 1 = target/a.sv, 2 = target/a.sv.map,
   3 = the filelist *)

Definition wfs (l : list (path * N)) : fsys N := fun q =>
  match find (fun x => fst x =? q) l with Some x => Some (snd x) | None => None end.

Definition changes (a b : fsys N) : Prop := exists q, a q <> b q.

(* a stale / garbage source map: --check passes, build rewrites it *)
Theorem build_check_map_refuted :
  exists fs us fl flt,
    build_check_dir N N.eqb 0 fs us = true /\ changes (build_write_dir N N.eqb true fs us fl flt) fs.
Proof.
  exists (wfs [(1, 10); (2, 99); (3, 30)]), [mkUnit N 1 2 10 20 false], 3, 30.
  split; [reflexivity|]. exists 2. vm_compute. intros H. discriminate H.
Qed.

(* an edited filelist *)
Theorem build_check_filelist_refuted :
  exists fs us fl flt,
    build_check_dir N N.eqb 0 fs us = true /\ changes (build_write_dir N N.eqb true fs us fl flt) fs.
Proof.
  exists (wfs [(1, 10); (2, 20); (3, 31)]), [mkUnit N 1 2 10 20 false], 3, 30.
  split; [reflexivity|]. exists 3. vm_compute. intros H. discriminate H.
Qed.

(* a missing output whose emitted text is empty (read error treated as the empty string) *)
Theorem build_check_missing_refuted :
  exists fs us fl flt,
    build_check_dir N N.eqb 0 fs us = true /\ changes (build_write_dir N N.eqb false fs us fl flt) fs.
Proof.
  exists (wfs [(3, 30)]), [mkUnit N 1 2 0 20 false], 3, 30.
  split; [reflexivity|]. exists 1. vm_compute. intros H. discriminate H.
Qed.

(* a stale output of the standard library (exclude_check) *)
Theorem build_check_std_refuted :
  exists fs us fl flt,
    build_check_dir N N.eqb 0 fs us = true /\ changes (build_write_dir N N.eqb false fs us fl flt) fs.
Proof.
  exists (wfs [(1, 11); (3, 30)]), [mkUnit N 1 2 10 20 true], 3, 30.
  split; [reflexivity|]. exists 1. vm_compute. intros H. discriminate H.
Qed.

(* bundle target: the filelist is not compared *)
Theorem build_check_bundle_filelist_refuted :
  exists fs us bundle fl flt,
    build_check_bundle N N.eqb 0 N.add fs us bundle = true
    /\ changes (build_write_bundle N N.eqb 0 N.add fs us bundle fl flt) fs.
Proof.
  exists (wfs [(5, 30); (3, 31)]), [mkUnit N 1 2 10 20 false; mkUnit N 6 7 20 21 false], 5, 3, 30.
  split; [reflexivity|]. exists 3. vm_compute. intros H. discriminate H.
Qed.

(* non-vacuity of the hypotheses of the two build theorems *)
Example distinct_example : distinct N true [mkUnit N 1 2 10 20 false; mkUnit N 4 5 11 21 false] 3 30.
Proof. unfold distinct. vm_compute. repeat constructor; simpl; intuition discriminate. Qed.
