(* Proofs about the incremental build model (IncrModel.v): every history of edits, configuration
   changes, output deletions, builds and checks leaves the cache in a state from which the next
   `build` / `check` gives exactly the result of the same command on a fresh cache. *)
From Coq Require Import List NArith Bool Lia Permutation.
From VV Require Import Incr.GeneratedKeyParts Incr.IncrModel.
Import ListNotations.
Open Scope N_scope.

(* ------------------------------------------------------------------ small list facts *)

Lemma mem_In : forall f l, mem f l = true <-> In f l.
Proof.
  intros f l. unfold mem. rewrite existsb_exists. split.
  - intros [x [Hx He]]. apply N.eqb_eq in He. subst. exact Hx.
  - intros H. exists f. split; [exact H | apply N.eqb_refl].
Qed.

Lemma mem_false : forall f l, mem f l = false <-> ~ In f l.
Proof.
  intros f l. rewrite <- mem_In. destruct (mem f l); split; intros; congruence.
Qed.

Lemma list_eqb_eq : forall a b, list_eqb a b = true <-> a = b.
Proof.
  induction a as [|x a IH]; destruct b as [|y b]; simpl; split; intros H; try congruence; auto.
  - apply andb_true_iff in H. destruct H as [H1 H2]. apply N.eqb_eq in H1. apply IH in H2. congruence.
  - inversion H; subst. rewrite N.eqb_refl. simpl. apply IH. reflexivity.
Qed.

Lemma lookup_In : forall A (m : list (file * A)) f a, lookup m f = Some a -> In (f, a) m.
Proof.
  induction m as [|[g b] r IH]; simpl; intros f a H; [discriminate|].
  destruct (g =? f) eqn:E.
  - apply N.eqb_eq in E. inversion H; subst. left. reflexivity.
  - right. apply IH. exact H.
Qed.

Lemma lookup_None : forall A (m : list (file * A)) f, lookup m f = None <-> ~ In f (map fst m).
Proof.
  induction m as [|[g b] r IH]; simpl; intros f.
  - split; auto.
  - destruct (g =? f) eqn:E.
    + apply N.eqb_eq in E. subst. split; [discriminate | intros H; exfalso; apply H; left; reflexivity].
    + apply N.eqb_neq in E. rewrite IH. split; intros H; [intros [H1|H1]; auto | intros H1; apply H; right; exact H1].
Qed.

Lemma lookup_NoDup : forall A (m : list (file * A)) f a,
  NoDup (map fst m) -> In (f, a) m -> lookup m f = Some a.
Proof.
  induction m as [|[g b] r IH]; simpl; intros f a Hnd Hin; [contradiction|].
  inversion Hnd as [|? ? Hn Hnd']; subst.
  destruct Hin as [Hin|Hin].
  - inversion Hin; subst. rewrite N.eqb_refl. reflexivity.
  - destruct (g =? f) eqn:E.
    + apply N.eqb_eq in E. subst. exfalso. apply Hn. apply (in_map fst) in Hin. exact Hin.
    + apply IH; assumption.
Qed.

Lemma lookup_map_entry : forall A B (g : file * A -> B) (m : list (file * A)) f,
  lookup (map (fun x => (fst x, g x)) m) f =
  match lookup m f with Some a => Some (g (f, a)) | None => None end.
Proof.
  induction m as [|[h a] r IH]; simpl; intros f; [reflexivity|].
  destruct (h =? f) eqn:E.
  - apply N.eqb_eq in E. subst. reflexivity.
  - apply IH.
Qed.

Lemma lookup_some_dom : forall A (m : list (file * A)) f a, lookup m f = Some a -> In f (map fst m).
Proof.
  intros A m f a H. apply lookup_In in H. apply (in_map fst) in H. exact H.
Qed.

Lemma dom_lookup : forall A (m : list (file * A)) f, In f (map fst m) -> exists a, lookup m f = Some a.
Proof.
  intros A m f H. destruct (lookup m f) eqn:E; [eauto|]. apply lookup_None in E. contradiction.
Qed.

Lemma map_eq_pointwise : forall A B (f g : A -> B) l x, map f l = map g l -> In x l -> f x = g x.
Proof.
  induction l as [|a l IH]; simpl; intros x H Hin; [contradiction|].
  inversion H. destruct Hin as [->|Hin]; auto.
Qed.

(* ------------------------------------------------------------------ (K) key => sections *)

(* tied to the source: GeneratedKeyParts.v is rewritten from the Rust text on every run *)
Lemma key_covers_sections : key_covers = true.
Proof. vm_compute. reflexivity. Qed.

Lemma key_eq_secs_eq : forall c c', key_of c = key_of c' -> secs_of c = secs_of c'.
Proof.
  intros c c' H. unfold secs_of, project_secs. apply map_ext_in. intros s Hs.
  pose proof key_covers_sections as K. unfold key_covers in K. rewrite forallb_forall in K.
  specialize (K s Hs). apply mem_In in K.
  exact (map_eq_pointwise _ _ _ _ _ _ H K).
Qed.

(* ------------------------------------------------------------------ replay of cached diagnostics *)

Section Replay.
  Variable dg : Type.
  Variable dg_eqb : dg -> dg -> bool.
  Hypothesis dg_eqb_spec : forall a b, dg_eqb a b = true <-> a = b.

  Lemma existsb_dg : forall c l, existsb (dg_eqb c) l = true <-> In c l.
  Proof.
    intros c l. rewrite existsb_exists. split.
    - intros [x [Hx He]]. apply dg_eqb_spec in He. subst. exact Hx.
    - intros H. exists c. split; [exact H | apply dg_eqb_spec; reflexivity].
  Qed.

  Lemma NoDup_app_disj : forall (a b : list dg), NoDup a -> NoDup b -> (forall x, In x a -> ~ In x b) -> NoDup (a ++ b).
  Proof.
    induction a as [|x a IH]; simpl; intros b Ha Hb Hd; [exact Hb|].
    inversion Ha; subst. constructor.
    - rewrite in_app_iff. intros [H|H]; [contradiction | apply (Hd x); auto].
    - apply IH; auto.
  Qed.

  (* CheckError::append_cached + drop_cached_duplicates: when the fresh (re-derived) diagnostics
     are among the cached ones, the report is exactly the cached set, each once *)
  Lemma replay_perm : forall cached fresh,
    NoDup cached -> NoDup fresh -> incl fresh cached ->
    Permutation (replay dg dg_eqb cached fresh) cached.
  Proof.
    intros cached fresh Hc Hf Hi. unfold replay. apply NoDup_Permutation.
    - apply NoDup_app_disj; [exact Hf | apply NoDup_filter; exact Hc |].
      intros x Hx Hx'. apply filter_In in Hx'. destruct Hx' as [_ Hx'].
      apply negb_true_iff in Hx'. apply existsb_dg in Hx. congruence.
    - exact Hc.
    - intros x. rewrite in_app_iff, filter_In. split.
      + intros [H|[H _]]; auto.
      + intros H. destruct (existsb (dg_eqb x) fresh) eqn:E.
        * left. apply existsb_dg. exact E.
        * right. split; [exact H | reflexivity].
  Qed.
End Replay.

(* ------------------------------------------------------------------ main development *)

Section Correct.

  Variable content : Type.
  Variable hash : content -> hashv.
  Variable out : Type.
  Variable dg : Type.
  Variable dg_eqb : dg -> dg -> bool.
  Variable deps : list (file * content) -> file -> list file.
  Variable emit : list (file * content) -> list N -> file -> out.
  Variable diags : list (file * content) -> list N -> file -> list dg.
  Variable rederived : list (file * content) -> list N -> file -> list dg.
  Variable cacheable : list (file * content) -> list N -> file -> bool.
  Variable has_error : list (file * content) -> list N -> file -> bool.
  Variable map_needed : list N -> bool.

  Notation proj := (list (file * content)).
  Notation state := (state content out dg).
  Notation dom := (@dom content).
  Notation build := (build content hash out dg dg_eqb deps emit diags rederived cacheable has_error map_needed).
  Notation check := (check content hash out dg dg_eqb deps diags rederived cacheable has_error map_needed).
  Notation apply := (apply content hash out dg dg_eqb deps emit diags rederived cacheable has_error map_needed).
  Notation run := (run content hash out dg dg_eqb deps emit diags rederived cacheable has_error map_needed).
  Notation forget := (forget content out dg).
  Notation init := (init content out dg).
  Notation paths_of := (paths_of content hash out dg).
  Notation path_of := (path_of content hash out dg).
  Notation eff_manifest := (eff_manifest content out dg).
  Notation mn_of := (mn_of content out dg map_needed).
  Notation dependents_in := (dependents_in content deps).
  Notation new_manifest := (new_manifest content hash out dg deps cacheable).
  Notation kept_dependents := (kept_dependents content deps).
  Notation file_diags := (file_diags content out dg dg_eqb diags rederived).

  (* ---------------- hypotheses about the uninterpreted part, each named ---------------- *)

  (* (H) BLAKE3 is collision-free on the sources that occur *)
  Hypothesis hash_inj : forall a b, hash a = hash b -> a = b.

  Hypothesis dg_eqb_spec : forall a b, dg_eqb a b = true <-> a = b.

  (* (D) locality: what analysis and emission produce for f is determined by the contents of f
     and of the files it (transitively) depends on, and by the sections read.  In particular an
     edit cannot affect a file that does not depend on the edited one: the dependents recorded
     by a build over-approximate the files affected by any later edit. *)
  Definition agree_on (P P' : proj) (f : file) : Prop :=
    forall g, g = f \/ In g (deps P f) -> lookup P g = lookup P' g.

  Hypothesis locality : forall P P' sec f, agree_on P P' f ->
    deps P' f = deps P f /\ emit P' sec f = emit P sec f /\ diags P' sec f = diags P sec f
    /\ rederived P' sec f = rederived P sec f /\ cacheable P' sec f = cacheable P sec f
    /\ has_error P' sec f = has_error P sec f.

  (* (E) an error-free file's dependencies are all present in the project *)
  Hypothesis deps_closed : forall P sec f, In f (dom P) -> has_error P sec f = false ->
    incl (deps P f) (dom P).

  (* (W) the diagnostics the global post-passes re-derive for a restored file are among the
     diagnostics of its full analysis; each diagnostic is reported once *)
  Hypothesis rederived_incl : forall P sec f, incl (rederived P sec f) (diags P sec f).
  Hypothesis diags_nodup : forall P sec f, NoDup (diags P sec f).
  Hypothesis rederived_nodup : forall P sec f, NoDup (rederived P sec f).

  (* ---------------- invariant ---------------- *)

  (* the saved manifest describes project P0 under configuration c0: per file its hash, whether a
     fragment was captured, and AT LEAST its dependents (a kept entry may carry extra ones) *)
  Definition man_rel (P0 : proj) (c0 : config) (m : manifest) : Prop :=
    forall f, match lookup P0 f with
              | Some x => exists e, lookup m f = Some e /\ e_hash e = hash x
                                    /\ e_frag e = cacheable P0 (secs_of c0) f
                                    /\ incl (dependents_in P0 f) (e_dependents e)
              | None => lookup m f = None
              end.

  (* not dst_is_stale = the output (and map) exists and the source is not newer than its stamp *)
  Definition own_ok (mn : bool) (s : state) (f : file) : Prop :=
    s_out _ _ _ s f <> None /\ (mn = true -> s_mapok _ _ _ s f = true).

  Definition time_fresh (s : state) (g : file) : Prop :=
    exists t, s_gen _ _ _ s g = Some t /\ s_mtime _ _ _ s g <= t.

  Definition fresh_out (mn : bool) (s : state) (g : file) : Prop := own_ok mn s g /\ time_fresh s g.

  (* f's own output exists, and neither f nor anything it depends on has been touched since its
     recorded emission time (the EXISTENCE of the dependencies' outputs does not matter) *)
  Definition closure_fresh (mn : bool) (s : state) (P : proj) (f : file) : Prop :=
    own_ok mn s f /\ forall g, g = f \/ In g (deps P f) -> time_fresh s g.

  (* [alt]: the state right after a crashed build may also hold outputs already written for the
     CURRENT project (CrashProofs.v); alt = false everywhere else *)
  Definition snap_ok (alt : bool) (s : state) (k : list N) (m : manifest) (P0 : proj) (c0 : config) : Prop :=
    k = key_of c0 /\ man_rel P0 c0 m /\ NoDup (dom P0)
    /\ (forall f, In f (dom P0) -> has_error P0 (secs_of c0) f = false)
    /\ (forall f, In f (dom P0) -> s_cdiag _ _ _ s f = diags P0 (secs_of c0) f)
    /\ (forall f, In f (dom P0) -> closure_fresh (map_needed (secs_of c0)) s P0 f ->
                  s_out _ _ _ s f = Some (emit P0 (secs_of c0) f)
                  \/ (alt = true /\ s_out _ _ _ s f = Some (emit (s_src _ _ _ s) (secs_of (s_cfg _ _ _ s)) f))).

  Definition InvG (alt : bool) (s : state) : Prop :=
    NoDup (dom (s_src _ _ _ s))
    /\ (forall f, s_mtime _ _ _ s f <= s_now _ _ _ s)
    /\ match s_man _ _ _ s, s_snap _ _ _ s with
       | None, None => True
       | Some (k, m), Some (P0, c0) => snap_ok alt s k m P0 c0
       | _, _ => False
       end.

  Definition Inv (s : state) : Prop := InvG false s.

  (* side conditions on a command (see design/C04.md):
     every restored file's previous dependencies still exist *)
  Definition analysed (co : bool) (s : state) : list file :=
    analysed_files co (mn_of s) (eff_manifest s) (paths_of s).

  Definition deps_present (co : bool) (s : state) : Prop :=
    match s_snap _ _ _ s with
    | None => True
    | Some (P0, _) =>
        forall f, In f (dom (s_src _ _ _ s)) -> ~ In f (analysed co s) ->
        forall g, In g (deps P0 f) -> In g (dom (s_src _ _ _ s))
    end.

  (* a check must not refresh the recorded hash of a file whose output would then count as
     fresh: every file it re-analyses has something stale in its dependency closure *)
  Definition check_safe (s : state) : Prop :=
    forall f, In f (dom (s_src _ _ _ s)) -> In f (analysed false s) ->
    ~ closure_fresh (mn_of s) s (s_src _ _ _ s) f.

  (* ---------------- facts about layer 1 ---------------- *)

  Lemma paths_files : forall s, map p_file (paths_of s) = dom (s_src _ _ _ s).
  Proof.
    intros s. unfold paths_of, IncrModel.paths_of, IncrModel.dom. rewrite map_map. apply map_ext. intros [f c]. reflexivity.
  Qed.

  Lemma in_paths : forall s p, In p (paths_of s) -> exists c, In (p_file p, c) (s_src _ _ _ s) /\ p = path_of s (p_file p, c).
  Proof.
    intros s p H. unfold paths_of, IncrModel.paths_of in H. apply in_map_iff in H. destruct H as [[f c] [Hp Hin]].
    exists c. subst p. simpl. split; [exact Hin | reflexivity].
  Qed.

  Lemma analysed_sub : forall co mn m ps f, In f (analysed_files co mn m ps) -> In f (map p_file ps).
  Proof.
    intros co mn m ps f H. unfold analysed_files in H. apply in_map_iff in H. destruct H as [p [Hp Hin]].
    apply filter_In in Hin. destruct Hin as [Hin _]. apply in_map_iff. exists p. auto.
  Qed.

  Lemma not_analysed : forall co mn m ps p, In p ps -> ~ In (p_file p) (analysed_files co mn m ps) ->
    restores (open_miss co mn m ps) m p = true.
  Proof.
    intros co mn m ps p Hin Hn. destruct (restores (open_miss co mn m ps) m p) eqn:E; [reflexivity|].
    exfalso. apply Hn. unfold analysed_files. apply in_map_iff. exists p. split; [reflexivity|].
    apply filter_In. split; [exact Hin | rewrite E; reflexivity].
  Qed.

  Lemma restores_hit : forall co mn m ps p, In p ps -> restores (open_miss co mn m ps) m p = true ->
    hit co mn m p = true /\ ~ In (p_file p) (dependents_of m (base_miss co mn m ps)).
  Proof.
    intros co mn m ps p Hin H. unfold restores in H. apply andb_true_iff in H. destruct H as [H _].
    apply andb_true_iff in H. destruct H as [H _]. apply negb_true_iff in H. apply mem_false in H.
    unfold open_miss in H. rewrite in_app_iff in H. split.
    - destruct (hit co mn m p) eqn:E; [reflexivity|]. exfalso. apply H. left.
      unfold base_miss. apply in_map_iff. exists p. split; [reflexivity|]. apply filter_In. split; [exact Hin| rewrite E; reflexivity].
    - intros Hd. apply H. right. exact Hd.
  Qed.

  Lemma in_dependents_of : forall m fs g e f, In g fs -> lookup m g = Some e -> In f (e_dependents e) -> In f (dependents_of m fs).
  Proof.
    intros m fs g e f Hg Hl Hf. unfold dependents_of. apply in_flat_map. exists g. split; [exact Hg|]. rewrite Hl. exact Hf.
  Qed.

  Lemma eff_empty_all_analysed : forall co s f, eff_manifest s = [] -> In f (dom (s_src _ _ _ s)) -> In f (analysed co s).
  Proof.
    intros co s f He Hf. unfold analysed. rewrite He. rewrite <- paths_files in Hf. apply in_map_iff in Hf. destruct Hf as [p [Hp Hin]].
    unfold analysed_files. apply in_map_iff. exists p. split; [exact Hp|]. apply filter_In. split; [exact Hin|].
    unfold restores. simpl. rewrite andb_false_r. reflexivity.
  Qed.

  Lemma in_dependents_in : forall P f h, In h (dom P) -> In f (deps P h) -> In h (dependents_in P f).
  Proof.
    intros P f h Hh Hf. unfold dependents_in, IncrModel.dependents_in. apply filter_In. split; [exact Hh | apply mem_In; exact Hf].
  Qed.

  (* ---------------- the key lemma: a restored file and everything it depended on is unchanged ---------------- *)

  Lemma stale_fresh : forall mn s f c, dst_is_stale mn (path_of s (f, c)) = false -> fresh_out mn s f.
  Proof.
    intros mn s f c H. unfold dst_is_stale in H. simpl in H.
    destruct (s_gen _ _ _ s f) as [t|] eqn:G; [|discriminate].
    apply orb_false_iff in H. destruct H as [H H3]. apply orb_false_iff in H. destruct H as [H1 H2].
    split; [split|].
    - destruct (s_out _ _ _ s f); [discriminate | simpl in H1; discriminate].
    - intros ->. simpl in H2. apply negb_false_iff in H2. exact H2.
    - exists t. split; [exact G|]. apply N.ltb_ge in H3. exact H3.
  Qed.

  Lemma hit_facts : forall co mn s P0 c0 f c,
    man_rel P0 c0 (eff_manifest s) ->
    hit co mn (eff_manifest s) (path_of s (f, c)) = true ->
    lookup P0 f = Some c /\ (co = true -> fresh_out mn s f).
  Proof.
    intros co mn s P0 c0 f c He H. unfold hit in H. simpl in H. specialize (He f).
    destruct (lookup P0 f) as [x|] eqn:L.
    - destruct He as [e [Hl [Hh _]]]. rewrite Hl in H.
      apply andb_true_iff in H. destruct H as [H H3]. apply andb_true_iff in H. destruct H as [H1 _].
      apply N.eqb_eq in H1. rewrite Hh in H1. apply hash_inj in H1. subst x. split; [reflexivity|].
      intros ->. simpl in H3. apply negb_true_iff in H3. eapply stale_fresh. exact H3.
    - rewrite He in H. discriminate.
  Qed.

  Lemma restored_unchanged : forall co s P0 c0 f,
    NoDup (dom (s_src _ _ _ s)) -> NoDup (dom P0) ->
    man_rel P0 c0 (eff_manifest s) ->
    (forall h, In h (dom P0) -> has_error P0 (secs_of c0) h = false) ->
    (forall g, In g (deps P0 f) -> In g (dom (s_src _ _ _ s))) ->
    In f (dom (s_src _ _ _ s)) -> ~ In f (analysed co s) ->
    In f (dom P0) /\ agree_on P0 (s_src _ _ _ s) f
    /\ (co = true -> closure_fresh (mn_of s) s P0 f).
  Proof.
    intros co s P0 c0 f Hnd Hnd0 He Herr Hpres Hf Hna.
    set (P := s_src _ _ _ s) in *.
    assert (Hp : forall g, In g (dom P) -> exists c, In (path_of s (g, c)) (paths_of s) /\ lookup P g = Some c).
    { intros g Hg. apply dom_lookup in Hg. destruct Hg as [c Hc]. exists c. split; [|exact Hc].
      unfold paths_of, IncrModel.paths_of. apply in_map. apply lookup_In. exact Hc. }
    destruct (Hp f Hf) as [c [Hpin Hlc]].
    pose proof (not_analysed co (mn_of s) (eff_manifest s) (paths_of s) _ Hpin Hna) as Hr.
    destruct (restores_hit _ _ _ _ _ Hpin Hr) as [Hhit Hnd'].
    destruct (hit_facts _ _ _ _ _ _ _ He Hhit) as [Hl0 Hfr].
    assert (Hf0 : In f (dom P0)) by (eapply lookup_some_dom; exact Hl0).
    (* every dependency g of f (in the snapshot) is a hit *)
    assert (Hdep : forall g, In g (deps P0 f) -> lookup P0 g = lookup P g /\ (co = true -> fresh_out (mn_of s) s g)).
    { intros g Hg. pose proof (Hpres g Hg) as HgP. destruct (Hp g HgP) as [cg [Hgin Hlg]].
      assert (Hg0 : In g (dom P0)) by (eapply deps_closed; [exact Hf0 | apply Herr; exact Hf0 | exact Hg]).
      destruct (hit (co) (mn_of s) (eff_manifest s) (path_of s (g, cg))) eqn:Hh.
      - destruct (hit_facts _ _ _ _ _ _ _ He Hh) as [Hlg0 Hfrg]. split; [congruence | exact Hfrg].
      - exfalso. apply Hnd'. simpl.
        destruct (dom_lookup _ _ _ Hg0) as [x Hx].
        pose proof (He g) as Heg. rewrite Hx in Heg. destruct Heg as [e [Hle [_ [_ Hinc]]]].
        eapply in_dependents_of with (g := g).
        + unfold base_miss. apply in_map_iff. exists (path_of s (g, cg)). split; [reflexivity|].
          apply filter_In. split; [exact Hgin | rewrite Hh; reflexivity].
        + exact Hle.
        + apply Hinc. apply in_dependents_in; assumption. }
    split; [exact Hf0|]. split.
    - intros g [->|Hg]; [congruence | apply Hdep; exact Hg].
    - intros Hco. split; [apply (Hfr Hco)|].
      intros g [->|Hg]; [apply (Hfr Hco) | apply (proj2 (Hdep g Hg) Hco)].
  Qed.

  (* when something is restored, the store's key matched *)
  Lemma eff_cases : forall alt s, InvG alt s ->
    eff_manifest s = [] \/
    exists P0 c0 k m, s_man _ _ _ s = Some (k, m) /\ s_snap _ _ _ s = Some (P0, c0) /\ snap_ok alt s k m P0 c0
                      /\ man_rel P0 c0 (eff_manifest s) /\ secs_of c0 = secs_of (s_cfg _ _ _ s).
  Proof.
    intros alt s [_ [_ Hi]]. unfold eff_manifest, IncrModel.eff_manifest.
    destruct (s_man _ _ _ s) as [[k m]|] eqn:Hm; [|left; reflexivity].
    destruct (s_snap _ _ _ s) as [[P0 c0]|] eqn:Hs; [|contradiction].
    destruct (list_eqb k (key_of (s_cfg _ _ _ s))) eqn:E; [|left; reflexivity].
    right. exists P0, c0, k, m. apply list_eqb_eq in E.
    split; [reflexivity|]. split; [reflexivity|]. split; [exact Hi|].
    destruct Hi as [Hk [Hmm _]]. split; [exact Hmm | apply key_eq_secs_eq; congruence].
  Qed.

  (* ---------------- results ---------------- *)

  Definition res_equiv (P : proj) (r1 r2 : result out dg) : Prop :=
    r_status _ _ r1 = r_status _ _ r2
    /\ (forall f, r_out _ _ r1 f = r_out _ _ r2 f)
    /\ (forall f, r_mapok _ _ r1 f = r_mapok _ _ r2 f)
    /\ (forall f, In f (dom P) -> Permutation (r_diags _ _ r1 f) (r_diags _ _ r2 f)).

  Lemma forget_all_analysed : forall co s f, In f (dom (s_src _ _ _ s)) -> In f (analysed co (forget s)).
  Proof. intros co s f H. apply eff_empty_all_analysed; [reflexivity | exact H]. Qed.

  Lemma analysed_in_dom : forall co s f, In f (analysed co s) -> In f (dom (s_src _ _ _ s)).
  Proof. intros co s f H. apply analysed_sub in H. rewrite paths_files in H. exact H. Qed.

  (* what is known about a restored file *)
  Lemma restored_sem : forall alt co s f, InvG alt s -> deps_present co s ->
    In f (dom (s_src _ _ _ s)) -> ~ In f (analysed co s) ->
    let P := s_src _ _ _ s in let sec := secs_of (s_cfg _ _ _ s) in
    exists P0 c0, s_snap _ _ _ s = Some (P0, c0) /\ secs_of c0 = sec /\ In f (dom P0)
      /\ agree_on P0 P f
      /\ has_error P sec f = false
      /\ s_cdiag _ _ _ s f = diags P sec f
      /\ (exists e, lookup (eff_manifest s) f = Some e /\ e_hash e = match lookup P f with Some c => hash c | None => 0 end
                    /\ e_frag e = cacheable P sec f)
      /\ (co = true -> closure_fresh (mn_of s) s P0 f /\ s_out _ _ _ s f = Some (emit P sec f)).
  Proof.
    intros alt co s f HI Hdp Hf Hna P sec.
    destruct (eff_cases alt s HI) as [He | [P0 [c0 [k [m [Hm [Hs [Hok [He Hsec]]]]]]]]].
    { exfalso. apply Hna. apply eff_empty_all_analysed; assumption. }
    destruct HI as [Hnd [Htime _]].
    destruct Hok as [Hk [Hmm [Hnd0 [Herr [Hcd Hout]]]]].
    unfold deps_present in Hdp. rewrite Hs in Hdp.
    destruct (restored_unchanged co s P0 c0 f Hnd Hnd0 He Herr (Hdp f Hf Hna) Hf Hna) as [Hf0 [Hag Hfr]].
    destruct (locality P0 P (secs_of c0) f Hag) as [Ld [Le [Ldi [Lr [Lc Lh]]]]].
    exists P0, c0. split; [exact Hs|]. split; [exact Hsec|]. split; [exact Hf0|]. split; [exact Hag|].
    fold sec in Hsec. rewrite Hsec in *. split; [|split; [|split]].
    - rewrite Lh. apply Herr. exact Hf0.
    - rewrite Ldi. apply Hcd. exact Hf0.
    - pose proof (Hag f (or_introl eq_refl)) as Hlf. fold P in Hlf.
      destruct (dom_lookup _ _ _ Hf0) as [x Hx]. pose proof (He f) as Hef. rewrite Hx in Hef.
      destruct Hef as [e [Hle [Hh [Hfrg _]]]]. exists e. split; [exact Hle|].
      rewrite <- Hlf, Hx. split; [exact Hh|]. rewrite Hfrg. rewrite Hsec. symmetry. exact Lc.
    - intros Hco. specialize (Hfr Hco). split; [exact Hfr|].
      assert (Hfr' : closure_fresh (map_needed sec) s P0 f).
      { unfold mn_of, IncrModel.mn_of in Hfr. fold sec in Hfr. exact Hfr. }
      destruct (Hout f Hf0 Hfr') as [Ho|[_ Ho]]; [rewrite Le; exact Ho | exact Ho].
  Qed.

  Lemma existsb_error_eq : forall alt co s, InvG alt s -> deps_present co s ->
    existsb (has_error (s_src _ _ _ s) (secs_of (s_cfg _ _ _ s))) (analysed co s)
    = existsb (has_error (s_src _ _ _ s) (secs_of (s_cfg _ _ _ s))) (analysed co (forget s)).
  Proof.
    intros alt co s HI Hdp. apply eq_true_iff_eq. rewrite !existsb_exists. split.
    - intros [f [Hf He]]. exists f. split; [|exact He]. apply forget_all_analysed. eapply analysed_in_dom. exact Hf.
    - intros [f [Hf He]]. pose proof (analysed_in_dom _ _ _ Hf) as Hd. simpl in Hd.
      destruct (in_dec N.eq_dec f (analysed co s)) as [Hin|Hn]; [exists f; auto|].
      destruct (restored_sem alt co s f HI Hdp Hd Hn) as [P0 [c0 [_ [_ [_ [_ [Herr _]]]]]]]. congruence.
  Qed.

  Lemma mapok_restored : forall s f, own_ok (mn_of s) s f -> (mn_of s || s_mapok _ _ _ s f) = s_mapok _ _ _ s f.
  Proof.
    intros s f [_ Hm]. destruct (mn_of s); [rewrite Hm; reflexivity | reflexivity].
  Qed.

  Lemma file_diags_analysed : forall s an f, In f an ->
    file_diags s an f = diags (s_src _ _ _ s) (secs_of (s_cfg _ _ _ s)) f.
  Proof. intros s an f H. unfold IncrModel.file_diags. rewrite (proj2 (mem_In _ _) H). reflexivity. Qed.

  Lemma file_diags_restored : forall alt co s f, InvG alt s -> deps_present co s ->
    In f (dom (s_src _ _ _ s)) -> ~ In f (analysed co s) ->
    Permutation (file_diags s (analysed co s) f) (diags (s_src _ _ _ s) (secs_of (s_cfg _ _ _ s)) f).
  Proof.
    intros alt co s f HI Hdp Hf Hn. unfold file_diags, IncrModel.file_diags.
    apply mem_false in Hn. rewrite Hn.
    destruct (restored_sem alt co s f HI Hdp Hf (proj1 (mem_false _ _) Hn)) as [P0 [c0 [_ [_ [_ [_ [_ [Hcd _]]]]]]]].
    rewrite Hcd. apply replay_perm; auto.
  Qed.

  (* ---------------- single commands ---------------- *)

  Theorem build_eq_clean : forall alt s, InvG alt s -> deps_present true s ->
    res_equiv (s_src _ _ _ s) (snd (build s)) (snd (build (forget s))).
  Proof.
    intros alt s HI Hdp. unfold build, IncrModel.build.
    change (analysed_files true (mn_of s) (eff_manifest s) (paths_of s)) with (analysed true s).
    change (analysed_files true (mn_of (forget s)) (eff_manifest (forget s)) (paths_of (forget s))) with (analysed true (forget s)).
    simpl (s_src _ _ _ (forget s)). simpl (s_cfg _ _ _ (forget s)).
    rewrite <- (existsb_error_eq alt true s HI Hdp).
    destruct (existsb _ (analysed true s)) eqn:Eerr.
    { unfold res_equiv; cbv beta iota delta [snd r_status r_out r_mapok r_diags]. repeat split; auto. }
    unfold res_equiv; cbv beta iota delta [snd r_status r_out r_mapok r_diags]. split; [reflexivity|]. split; [|split].
    - intros f. destruct (in_dec N.eq_dec f (dom (s_src _ _ _ s))) as [Hd|Hd].
      + rewrite (proj2 (mem_In _ _) (forget_all_analysed true s f Hd)).
        destruct (mem f (analysed true s)) eqn:Em; [reflexivity|].
        apply mem_false in Em.
        destruct (restored_sem alt true s f HI Hdp Hd Em) as [P0 [c0 [_ [_ [_ [_ [_ [_ [_ Ho]]]]]]]]].
        destruct (Ho eq_refl) as [_ Ho']. exact Ho'.
      + assert (H1 : mem f (analysed true s) = false) by (apply mem_false; intros H; apply Hd; eapply analysed_in_dom; exact H).
        assert (H2 : mem f (analysed true (forget s)) = false) by (apply mem_false; intros H; apply Hd; apply analysed_in_dom in H; exact H).
        rewrite H1, H2. reflexivity.
    - intros f. destruct (in_dec N.eq_dec f (dom (s_src _ _ _ s))) as [Hd|Hd].
      + rewrite (proj2 (mem_In _ _) (forget_all_analysed true s f Hd)).
        destruct (mem f (analysed true s)) eqn:Em; [reflexivity|].
        apply mem_false in Em.
        destruct (restored_sem alt true s f HI Hdp Hd Em) as [P0 [c0 [_ [_ [_ [_ [_ [_ [_ Ho]]]]]]]]].
        destruct (Ho eq_refl) as [Hfr _]. symmetry.
        change (mn_of (forget s)) with (mn_of s). change (s_mapok _ _ _ (forget s) f) with (s_mapok _ _ _ s f). apply mapok_restored. apply Hfr.
      + assert (H1 : mem f (analysed true s) = false) by (apply mem_false; intros H; apply Hd; eapply analysed_in_dom; exact H).
        assert (H2 : mem f (analysed true (forget s)) = false) by (apply mem_false; intros H; apply Hd; apply analysed_in_dom in H; exact H).
        rewrite H1, H2. reflexivity.
    - intros f Hd. rewrite (file_diags_analysed (forget s) _ f (forget_all_analysed true s f Hd)).
      simpl (s_src _ _ _ (forget s)). simpl (s_cfg _ _ _ (forget s)).
      destruct (in_dec N.eq_dec f (analysed true s)) as [Hin|Hn].
      + rewrite (file_diags_analysed s _ f Hin). apply Permutation_refl.
      + eapply file_diags_restored; eassumption.
  Qed.

  Theorem check_eq_clean : forall s, Inv s -> deps_present false s ->
    res_equiv (s_src _ _ _ s) (snd (check s)) (snd (check (forget s))).
  Proof.
    intros s HI Hdp. unfold check, IncrModel.check.
    change (analysed_files false (mn_of s) (eff_manifest s) (paths_of s)) with (analysed false s).
    change (analysed_files false (mn_of (forget s)) (eff_manifest (forget s)) (paths_of (forget s))) with (analysed false (forget s)).
    simpl (s_src _ _ _ (forget s)). simpl (s_cfg _ _ _ (forget s)).
    rewrite <- (existsb_error_eq false false s HI Hdp).
    destruct (existsb _ (analysed false s)) eqn:Eerr.
    { unfold res_equiv; cbv beta iota delta [snd r_status r_out r_mapok r_diags]. repeat split; auto. }
    unfold res_equiv; cbv beta iota delta [snd r_status r_out r_mapok r_diags]. split; [reflexivity|]. split; [reflexivity|]. split; [reflexivity|].
    intros f Hd. rewrite (file_diags_analysed (forget s) _ f (forget_all_analysed false s f Hd)).
    simpl (s_src _ _ _ (forget s)). simpl (s_cfg _ _ _ (forget s)).
    destruct (in_dec N.eq_dec f (analysed false s)) as [Hin|Hn].
    - rewrite (file_diags_analysed s _ f Hin). apply Permutation_refl.
    - eapply file_diags_restored; eassumption.
  Qed.

  (* ---------------- the invariant is preserved ---------------- *)

  Lemma new_manifest_rel : forall alt co s, InvG alt s -> deps_present co s ->
    man_rel (s_src _ _ _ s) (s_cfg _ _ _ s) (new_manifest s (analysed co s)).
  Proof.
    intros alt co s HI Hdp f. unfold new_manifest, IncrModel.new_manifest.
    rewrite (lookup_map_entry content entry (new_entry content hash out dg deps cacheable s (analysed co s)) (s_src _ _ _ s) f).
    destruct (lookup (s_src _ _ _ s) f) as [x|] eqn:L; [|reflexivity].
    eexists. split; [reflexivity|]. unfold new_entry. simpl.
    destruct (mem f (analysed co s)) eqn:Em.
    - simpl. repeat split. apply incl_refl.
    - apply mem_false in Em.
      assert (Hd : In f (dom (s_src _ _ _ s))) by (eapply lookup_some_dom; exact L).
      destruct (restored_sem alt co s f HI Hdp Hd Em) as [P0 [c0 [_ [_ [_ [_ [_ [_ [[e [Hl [Hh Hfr]]] _]]]]]]]]].
      rewrite Hl. rewrite L in Hh. simpl. split; [exact Hh|]. split; [exact Hfr|].
      unfold kept_dependents. destruct (dependents_in (s_src _ _ _ s) f) eqn:Ed.
      + intros y [].
      + apply incl_refl.
  Qed.

  Lemma no_error_all : forall alt co s, InvG alt s -> deps_present co s ->
    existsb (has_error (s_src _ _ _ s) (secs_of (s_cfg _ _ _ s))) (analysed co s) = false ->
    forall f, In f (dom (s_src _ _ _ s)) -> has_error (s_src _ _ _ s) (secs_of (s_cfg _ _ _ s)) f = false.
  Proof.
    intros alt co s HI Hdp He f Hf. destruct (in_dec N.eq_dec f (analysed co s)) as [Hin|Hn].
    - destruct (has_error _ _ f) eqn:E; [|reflexivity]. exfalso.
      assert (existsb (has_error (s_src _ _ _ s) (secs_of (s_cfg _ _ _ s))) (analysed co s) = true) by (apply existsb_exists; eauto).
      congruence.
    - destruct (restored_sem alt co s f HI Hdp Hf Hn) as [P0 [c0 [_ [_ [_ [_ [Herr _]]]]]]]. exact Herr.
  Qed.

  Lemma build_inv : forall alt s, InvG alt s -> deps_present true s ->
    InvG alt (fst (build s)) /\ (r_status _ _ (snd (build s)) = Done -> Inv (fst (build s))).
  Proof.
    intros alt s HI Hdp. pose proof HI as [Hnd [Htime Hi]].
    unfold build, IncrModel.build.
    change (analysed_files true (mn_of s) (eff_manifest s) (paths_of s)) with (analysed true s).
    destruct (existsb _ (analysed true s)) eqn:Eerr; [split; [exact HI | simpl; discriminate]|].
    assert (HG : forall a, InvG a (fst (mkState content out dg (s_src _ _ _ s) (s_cfg _ _ _ s) (s_mtime _ _ _ s) (s_now _ _ _ s + 1)
               (Some (key_of (s_cfg _ _ _ s), new_manifest s (analysed true s)))
               (fun f => if mem f (analysed true s) then diags (s_src _ _ _ s) (secs_of (s_cfg _ _ _ s)) f else s_cdiag _ _ _ s f)
               (fun f => if mem f (analysed true s) then Some (s_now _ _ _ s) else s_gen _ _ _ s f)
               (fun f => if mem f (analysed true s) then Some (emit (s_src _ _ _ s) (secs_of (s_cfg _ _ _ s)) f) else s_out _ _ _ s f)
               (fun f => if mem f (analysed true s) then (mn_of s || s_mapok _ _ _ s f) else s_mapok _ _ _ s f)
               (Some (s_src _ _ _ s, s_cfg _ _ _ s)), tt))).
    { intros a. simpl. split; [exact Hnd|]. split; [intros f; simpl; specialize (Htime f); lia|].
      simpl. unfold snap_ok. simpl.
      split; [reflexivity|]. split; [apply (new_manifest_rel alt true); assumption|].
      split; [exact Hnd|]. split; [apply (no_error_all alt true); assumption|]. split.
      - intros f Hf. destruct (mem f (analysed true s)) eqn:Em; [reflexivity|].
        apply mem_false in Em.
        destruct (restored_sem alt true s f HI Hdp Hf Em) as [P0 [c0 [_ [_ [_ [_ [_ [Hcd _]]]]]]]]. exact Hcd.
      - intros f Hf _. left. destruct (mem f (analysed true s)) eqn:Em; [reflexivity|].
        apply mem_false in Em.
        destruct (restored_sem alt true s f HI Hdp Hf Em) as [P0 [c0 [_ [_ [_ [_ [_ [_ [_ Ho]]]]]]]]].
        destruct (Ho eq_refl) as [_ Ho']. exact Ho'. }
    split; [exact (HG alt) | intros _; exact (HG false)].
  Qed.

  Lemma check_inv : forall s, Inv s -> deps_present false s -> check_safe s -> Inv (fst (check s)).
  Proof.
    intros s HI Hdp Hsafe. pose proof HI as [Hnd [Htime Hi]].
    unfold check, IncrModel.check.
    change (analysed_files false (mn_of s) (eff_manifest s) (paths_of s)) with (analysed false s).
    destruct (existsb _ (analysed false s)) eqn:Eerr; [exact HI|].
    simpl. split; [exact Hnd|]. split; [intros f; simpl; specialize (Htime f); lia|].
    simpl. unfold snap_ok. simpl.
    split; [reflexivity|]. split; [apply (new_manifest_rel false false); assumption|].
    split; [exact Hnd|]. split; [apply (no_error_all false false); assumption|]. split.
    - intros f Hf. destruct (mem f (analysed false s)) eqn:Em; [reflexivity|].
      apply mem_false in Em.
      destruct (restored_sem false false s f HI Hdp Hf Em) as [P0 [c0 [_ [_ [_ [_ [_ [Hcd _]]]]]]]]. exact Hcd.
    - intros f Hf Hcl.
      destruct (in_dec N.eq_dec f (analysed false s)) as [Hin|Hn].
      + exfalso. apply (Hsafe f Hf Hin). exact Hcl.
      + (* restored by the check: its closure is the snapshot's closure, unchanged *)
        destruct (eff_cases false s HI) as [He | [P0 [c0 [k [m [Hm [Hs [Hok [He Hsec]]]]]]]]].
        { exfalso. apply Hn. apply eff_empty_all_analysed; assumption. }
        destruct Hok as [Hk [Hmm [Hnd0 [Herr [Hcd Hout]]]]].
        unfold deps_present in Hdp. rewrite Hs in Hdp.
        destruct (restored_unchanged false s P0 c0 f Hnd Hnd0 He Herr (Hdp f Hf Hn) Hf Hn) as [Hf0 [Hag _]].
        destruct (locality P0 (s_src _ _ _ s) (secs_of c0) f Hag) as [Ld [Le _]].
        left. rewrite <- Hsec. rewrite Le.
        assert (Hcl0 : closure_fresh (map_needed (secs_of c0)) s P0 f).
        { destruct Hcl as [Hown Hcl]. split; [rewrite Hsec; exact Hown|].
          intros g Hg. rewrite <- Ld in Hg. exact (Hcl g Hg). }
        destruct (Hout f Hf0 Hcl0) as [Ho|[Hx _]]; [exact Ho | discriminate Hx].
  Qed.

  (* ---------------- histories ---------------- *)

  Definition step_ok (s : state) (st : step content out) : Prop :=
    match st with
    | Build _ _ => deps_present true s
    | Check _ _ => deps_present false s /\ check_safe s
    | TamperOut _ _ _ _ => False           (* outputs are written only by veryl, or deleted *)
    | _ => True
    end.

  Fixpoint safe (s : state) (h : list (step content out)) : Prop :=
    match h with
    | [] => True
    | st :: r => step_ok s st /\ safe (apply s st) r
    end.

  Lemma dom_pset : forall (P : proj) f c g, In g (dom (pset content P f c)) <-> g = f \/ In g (dom P).
  Proof.
    induction P as [|[h d] r IH]; simpl; intros f c g.
    - split; [intros [H|[]]; auto | intros [H|[]]; auto].
    - destruct (h =? f) eqn:E; simpl.
      + apply N.eqb_eq in E. subst. split; [intros [H|H]; auto | intros [H|[H|H]]; auto].
      + rewrite IH. split; [intros [H|[H|H]]; auto | intros [H|[H|H]]; auto].
  Qed.

  Lemma nodup_pset : forall (P : proj) f c, NoDup (dom P) -> NoDup (dom (pset content P f c)).
  Proof.
    induction P as [|[h d] r IH]; simpl; intros f c H.
    - constructor; [intros [] | constructor].
    - inversion H as [|? ? Hn Hr]; subst. destruct (h =? f) eqn:E; simpl.
      + apply N.eqb_eq in E. subst. constructor; assumption.
      + constructor; [|apply IH; exact Hr]. rewrite dom_pset. intros [->|H1]; [rewrite N.eqb_refl in E; discriminate | contradiction].
  Qed.

  Lemma nodup_premove : forall (P : proj) f, NoDup (dom P) -> NoDup (dom (premove content P f)).
  Proof.
    induction P as [|[h d] r IH]; simpl; intros f H; [constructor|].
    inversion H as [|? ? Hn Hr]; subst. destruct (negb (h =? f)); simpl; [|apply IH; exact Hr].
    constructor; [|apply IH; exact Hr]. intros Hin. apply Hn.
    unfold premove, IncrModel.dom in Hin. apply in_map_iff in Hin. destruct Hin as [[x y] [Hx Hin]]. apply filter_In in Hin. destruct Hin as [Hin _].
    simpl in Hx. subst. apply (in_map fst) in Hin. exact Hin.
  Qed.

  (* steps that only change sources / configuration / remove outputs keep the invariant: they
     can only make fewer outputs count as fresh *)
  Lemma inv_weaken : forall s s',
    Inv s ->
    NoDup (dom (s_src _ _ _ s')) ->
    (forall f, s_mtime _ _ _ s' f <= s_now _ _ _ s') ->
    s_man _ _ _ s' = s_man _ _ _ s -> s_snap _ _ _ s' = s_snap _ _ _ s ->
    s_cdiag _ _ _ s' = s_cdiag _ _ _ s ->
    (forall g, time_fresh s' g -> time_fresh s g) ->
    (forall mn f, own_ok mn s' f -> own_ok mn s f /\ s_out _ _ _ s' f = s_out _ _ _ s f) ->
    Inv s'.
  Proof.
    intros s s' [Hnd [Ht Hi]] Hnd' Ht' Hm Hs Hc Htf Hown. split; [exact Hnd'|]. split; [exact Ht'|].
    rewrite Hm, Hs. destruct (s_man _ _ _ s) as [[k m]|]; destruct (s_snap _ _ _ s) as [[P0 c0]|]; auto.
    destruct Hi as [Hk [Hmm [Hnd0 [Herr [Hcd Hout]]]]]. unfold snap_ok. rewrite Hc.
    repeat split; auto.
    intros f Hf0 [Ho Hcl]. destruct (Hown _ _ Ho) as [Ho' He]. rewrite He. left.
    assert (Hcl0 : closure_fresh (map_needed (secs_of c0)) s P0 f).
    { split; [exact Ho'|]. intros g Hg. apply Htf. exact (Hcl g Hg). }
    destruct (Hout f Hf0 Hcl0) as [H|[Hx _]]; [exact H | discriminate Hx].
  Qed.

  Lemma step_inv : forall s st, Inv s -> step_ok s st -> Inv (apply s st).
  Proof.
    intros s st HI Hok. pose proof HI as [Hnd [Ht _]]. destruct st; simpl in *.
    - (* Edit *) apply (inv_weaken s); simpl; auto.
      + apply nodup_pset; exact Hnd.
      + intros g. unfold upd. destruct (g =? f); [lia | specialize (Ht g); lia].
      + intros g [t [H1 H4]]. simpl in *. exists t. split; [exact H1|].
        unfold upd in H4. destruct (g =? f) eqn:E; [|exact H4]. apply N.eqb_eq in E. subst. specialize (Ht f). lia.
    - (* EditKeep *) apply (inv_weaken s); simpl; auto. apply nodup_pset; exact Hnd.
    - (* Touch *) apply (inv_weaken s); simpl; auto.
      + intros g. unfold upd. destruct (g =? f); [lia | specialize (Ht g); lia].
      + intros g [t [H1 H4]]. simpl in *. exists t. split; [exact H1|].
        unfold upd in H4. destruct (g =? f) eqn:E; [|exact H4]. apply N.eqb_eq in E. subst. specialize (Ht f). lia.
    - (* Delete *) apply (inv_weaken s); simpl; auto. apply nodup_premove; exact Hnd.
    - (* SetCfg *) apply (inv_weaken s); simpl; auto.
    - (* DelOut *) apply (inv_weaken s); simpl; auto.
      intros mn g [H2 H3]. simpl in *. unfold upd in *. destruct (g =? f) eqn:E; [congruence|].
      split; [split; assumption | reflexivity].
    - (* DelMap *) apply (inv_weaken s); simpl; auto.
      intros mn g [H2 H3]. simpl in *. split; [|reflexivity]. split; [exact H2|].
      intros Hmn. specialize (H3 Hmn). unfold upd in H3. destruct (g =? f); [discriminate | exact H3].
    - (* TamperOut *) contradiction.
    - (* Build *) exact (proj1 (build_inv false s HI Hok)).
    - (* Check *) destruct Hok. apply check_inv; assumption.
  Qed.

  Lemma init_inv : forall P c, NoDup (dom P) -> Inv (init P c).
  Proof. intros P c H. split; [exact H|]. split; [intros f; simpl; lia | simpl; exact I]. Qed.

  Lemma run_inv : forall h s, Inv s -> safe s h -> Inv (run s h).
  Proof.
    induction h as [|st r IH]; simpl; intros s HI Hs; [exact HI|].
    destruct Hs as [H1 H2]. apply IH; [apply step_inv; assumption | exact H2].
  Qed.

  (* C04: after every safe history, building (checking) incrementally gives what the same
     command gives with `.build` removed. *)
  Theorem incr_eq_clean : forall P c h, NoDup (dom P) -> safe (init P c) h ->
    let s := run (init P c) h in
    (deps_present true s -> res_equiv (s_src _ _ _ s) (snd (build s)) (snd (build (forget s))))
    /\ (deps_present false s -> res_equiv (s_src _ _ _ s) (snd (check s)) (snd (check (forget s)))).
  Proof.
    intros P c h Hnd Hs s. assert (HI : Inv s) by (apply run_inv; [apply init_inv; exact Hnd | exact Hs]).
    split; intros Hd; [apply (build_eq_clean false) | apply check_eq_clean]; assumption.
  Qed.

End Correct.
