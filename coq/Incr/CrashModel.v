(* Crash model for `veryl build` (C05): the order in which a successful build changes the disk,
   and the states a process death can leave behind.

   Order of the writes of one build (crates/veryl/src/cmd_build.rs, incremental.rs, main.rs):
     A. during analysis: one fragment blob per re-analysed cacheable file
        (Store::put -> write_blob -> atomic_write: temp file, rename)        — no entry refers to
        a new blob before the manifest is replaced, so this phase is invisible to the next run;
     B. emission, per re-analysed file in path order: the .sv, then its .sv.map
        (utils::write_file_if_changed);
     C. the filelist (always rewritten, never read back by the miss computation);
     D. Incremental::save: diagnostics blobs, then manifest.toml (atomic_write), then gc;
     E. main.rs: .build/info.toml (BuildInfo::save = fs::write: truncate, then write).
   A crash point says how far the build got.  With outputs written through temp+rename (the
   repaired write_file_if_changed) a file is either not yet replaced or complete; the in-place
   variant (truncate, then write) additionally allows ONE output to be left empty. *)
From Coq Require Import List NArith Bool.
From VV Require Import Incr.GeneratedKeyParts Incr.IncrModel.
Import ListNotations.
Open Scope N_scope.

Inductive info_state := InfoOld | InfoTruncated | InfoNew.

Record crash_point := mkCP {
  cp_outs : nat;            (* .sv files already in place (prefix of the re-analysed files) *)
  cp_maps : nat;            (* .sv.map files already in place *)
  cp_man : bool;            (* manifest.toml renamed into place *)
  cp_info : info_state      (* info.toml: untouched / truncated / rewritten *)
}.

Section Crash.

  Variable content : Type.
  Variable hash : content -> hashv.
  Variable out : Type.
  Variable dg : Type.
  Variable deps : proj content -> file -> list file.
  Variable emit : proj content -> list N -> file -> out.
  Variable diags : proj content -> list N -> file -> list dg.
  Variable cacheable : proj content -> list N -> file -> bool.
  Variable map_needed : list N -> bool.

  Notation state := (state content out dg).

  Definition an_list (s : state) : list file :=
    analysed_files true (mn_of content out dg map_needed s) (eff_manifest content out dg s)
                   (paths_of content hash out dg s).

  (* phases are ordered: maps follow their .sv, the manifest follows every output, info.toml
     follows the manifest *)
  Definition cp_wf (s : state) (cp : crash_point) : Prop :=
    (cp_maps cp <= cp_outs cp)%nat
    /\ (cp_man cp = true -> (length (an_list s) <= cp_maps cp)%nat)
    /\ (cp_info cp <> InfoOld -> cp_man cp = true).

  (* state left by a build of s that died at cp; [trunc]: Some o = the in-place writer died
     between truncating and writing the next .sv, leaving o (the empty file) there *)
  Definition crashed_gen (trunc : option out) (s : state) (cp : crash_point) : state :=
    let P := s_src _ _ _ s in
    let sec := secs_of (s_cfg _ _ _ s) in
    let an := an_list s in
    let mn := mn_of content out dg map_needed s in
    let wout := firstn (cp_outs cp) an in
    let wmap := firstn (cp_maps cp) an in
    let next := match skipn (cp_outs cp) an with f :: _ => Some f | [] => None end in
    mkState content out dg P (s_cfg _ _ _ s) (s_mtime _ _ _ s) (s_now _ _ _ s + 1)
      (if cp_man cp then Some (key_of (s_cfg _ _ _ s), new_manifest content hash out dg deps cacheable s an)
       else s_man _ _ _ s)
      (if cp_man cp then (fun f => if mem f an then diags P sec f else s_cdiag _ _ _ s f)
       else s_cdiag _ _ _ s)
      (match cp_info cp with
       | InfoOld => s_gen _ _ _ s
       | InfoTruncated => fun _ => None
       | InfoNew => fun f => if mem f an then Some (s_now _ _ _ s) else s_gen _ _ _ s f
       end)
      (fun f => if mem f wout then Some (emit P sec f)
                else match trunc, next with
                     | Some o, Some g => if f =? g then Some o else s_out _ _ _ s f
                     | _, _ => s_out _ _ _ s f
                     end)
      (fun f => if mem f wmap then (mn || s_mapok _ _ _ s f) else s_mapok _ _ _ s f)
      (if cp_man cp then Some (P, s_cfg _ _ _ s) else s_snap _ _ _ s).

  Definition crashed := crashed_gen None.
  Definition crashed_inplace (empty : out) := crashed_gen (Some empty).

End Crash.
