(* Concrete instances of the incremental build model:
   - a toy analysis satisfying every hypothesis of IncrProofs.incr_eq_clean (non-vacuity), with a
     history (edit, check, configuration change, output deletion, builds) that meets the side
     conditions;
   - witnesses showing that each side condition / hypothesis is necessary; each one is a defect
     class replayed on the real CLI by ./check C04 (see design/C04.md, KNOWN_FINDINGS.txt). *)
From Coq Require Import List NArith Bool Lia Permutation.
From VV Require Import Incr.GeneratedKeyParts Incr.IncrModel Incr.IncrProofs.
Import ListNotations.
Open Scope N_scope.

(* ---------------- toy analysis: file 2 depends on file 1 ---------------- *)

Definition tout := (option N * list (option N) * list N)%type.

Definition tdeps (P : list (file * N)) (f : file) : list file := if f =? 2 then [1] else [].
Definition temit (P : list (file * N)) (sec : list N) (f : file) : tout :=
  (lookup P f, map (lookup P) (tdeps P f), sec).
Definition tdiags (P : list (file * N)) (sec : list N) (f : file) : list N :=
  match lookup P f with Some c => if c =? 7 then [f] else [] | None => [] end.   (* content 7 = a warning *)
Definition tredo (P : list (file * N)) (sec : list N) (f : file) : list N := tdiags P sec f.
Definition tcacheable (P : list (file * N)) (sec : list N) (f : file) : bool := true.
Definition terror (P : list (file * N)) (sec : list N) (f : file) : bool :=
  negb (forallb (fun g => mem g (map fst P)) (tdeps P f)).
Definition tmapneeded (sec : list N) : bool := true.

Notation tstate := (state N tout N).
Notation tbuild := (build N (fun c => c) tout N N.eqb tdeps temit tdiags tredo tcacheable terror tmapneeded).
Notation tcheck := (check N (fun c => c) tout N N.eqb tdeps tdiags tredo tcacheable terror tmapneeded).
Notation trun := (run N (fun c => c) tout N N.eqb tdeps temit tdiags tredo tcacheable terror tmapneeded).
Notation tapply := (apply N (fun c => c) tout N N.eqb tdeps temit tdiags tredo tcacheable terror tmapneeded).
Notation tinit := (init N tout N).
Notation tforget := (forget N tout N).
Notation tsafe := (safe N (fun c => c) tout N N.eqb tdeps temit tdiags tredo tcacheable terror tmapneeded).
Notation tres_equiv := (res_equiv N tout N).
Notation tdeps_present := (deps_present N (fun c => c) tout N tdeps tmapneeded).

Lemma lookup_dom_iff : forall (P : list (file * N)) g, mem g (map fst P) = match lookup P g with Some _ => true | None => false end.
Proof.
  intros P g. destruct (lookup P g) eqn:E.
  - apply mem_In. eapply lookup_some_dom. exact E.
  - apply mem_false. apply lookup_None. exact E.
Qed.

Lemma toy_locality : forall P P' sec f,
  (forall g, g = f \/ In g (tdeps P f) -> lookup P g = lookup P' g) ->
  tdeps P' f = tdeps P f /\ temit P' sec f = temit P sec f /\ tdiags P' sec f = tdiags P sec f
  /\ tredo P' sec f = tredo P sec f /\ tcacheable P' sec f = tcacheable P sec f
  /\ terror P' sec f = terror P sec f.
Proof.
  intros P P' sec f H. unfold tredo. unfold temit, tdiags, tcacheable, terror, tdeps in *.
  pose proof (H f (or_introl eq_refl)) as Hf.
  destruct (f =? 2) eqn:E.
  - pose proof (H 1 (or_intror (or_introl eq_refl))) as H1. simpl. rewrite !lookup_dom_iff. rewrite Hf, H1. repeat split.
  - simpl. rewrite Hf. repeat split.
Qed.

Lemma toy_deps_closed : forall (P : list (file * N)) sec f, In f (map fst P) -> terror P sec f = false -> incl (tdeps P f) (map fst P).
Proof.
  intros P sec f _ H. unfold terror in H. apply negb_false_iff in H. rewrite forallb_forall in H.
  intros g Hg. apply mem_In. apply H. exact Hg.
Qed.

Lemma toy_nodup : forall P sec f, NoDup (tdiags P sec f).
Proof.
  intros. unfold tdiags. destruct (lookup P f); [|constructor]. destruct (n =? 7); repeat constructor. intros [].
Qed.

(* the theorem, instantiated: every hypothesis is discharged for the toy analysis *)
Theorem toy_incr_eq_clean : forall P c h, NoDup (map fst P) -> tsafe (tinit P c) h ->
  let s := trun (tinit P c) h in
  (tdeps_present true s -> tres_equiv (s_src _ _ _ s) (snd (tbuild s)) (snd (tbuild (tforget s))))
  /\ (tdeps_present false s -> tres_equiv (s_src _ _ _ s) (snd (tcheck s)) (snd (tcheck (tforget s)))).
Proof.
  apply (incr_eq_clean N (fun c => c) tout N N.eqb tdeps temit tdiags tredo tcacheable terror tmapneeded).
  - intros a b H. exact H.
  - intros a b. apply N.eqb_eq.
  - exact toy_locality.
  - exact toy_deps_closed.
  - intros P sec f. apply incl_refl.
  - exact toy_nodup.
  - exact toy_nodup.
Qed.

(* ---------------- a history that meets the side conditions ---------------- *)

Definition P12 : list (file * N) := [(1, 10); (2, 20)].
Definition cfgA : config := [(sec_build, 1); (sec_format, 1)].
Definition cfgB : config := [(sec_build, 1); (sec_format, 2)].

(* build; edit the dependency; check (re-analyses 1 and 2, both with a stale output in their
   closure); build; change [format]; build; delete an output; build *)
Definition good_history : list (step N tout) :=
  [Build _ _; Edit _ _ 1 11; Check _ _; Build _ _; SetCfg _ _ cfgB; Build _ _; DelOut _ _ 2; Build _ _;
   Edit _ _ 2 7; Check _ _].

(* boolean versions of the side conditions, so that [safe] of a concrete history is decided by
   one vm_compute *)
Notation tanalysed := (analysed N (fun c => c) tout N tmapneeded).
Notation tcheck_safe := (check_safe N (fun c => c) tout N tdeps tmapneeded).

Definition dp_b (co : bool) (s : tstate) : bool :=
  match s_snap _ _ _ s with
  | None => true
  | Some (P0, _) =>
      forallb (fun f => mem f (tanalysed co s)
                        || forallb (fun g => mem g (map fst (s_src _ _ _ s))) (tdeps P0 f))
              (map fst (s_src _ _ _ s))
  end.

Definition time_fresh_b (s : tstate) (g : file) : bool :=
  match s_gen _ _ _ s g with Some t => s_mtime _ _ _ s g <=? t | None => false end.

Definition cs_b (s : tstate) : bool :=
  forallb (fun f => negb (mem f (tanalysed false s))
                    || negb (forallb (time_fresh_b s) (f :: tdeps (s_src _ _ _ s) f)))
          (map fst (s_src _ _ _ s)).

Definition step_ok_b (s : tstate) (st : step N tout) : bool :=
  match st with
  | Build _ _ => dp_b true s
  | Check _ _ => dp_b false s && cs_b s
  | TamperOut _ _ _ _ => false
  | _ => true
  end.

Fixpoint safe_b (s : tstate) (h : list (step N tout)) : bool :=
  match h with
  | [] => true
  | st :: r => step_ok_b s st && safe_b (tapply s st) r
  end.

Lemma dp_b_ok : forall co s, dp_b co s = true -> tdeps_present co s.
Proof.
  intros co s H. unfold dp_b in H. unfold deps_present.
  destruct (s_snap _ _ _ s) as [[P0 c0]|]; [|exact I].
  rewrite forallb_forall in H. intros f Hf Hn g Hg. specialize (H f Hf).
  apply orb_true_iff in H. destruct H as [H|H].
  - apply mem_In in H. contradiction.
  - rewrite forallb_forall in H. apply mem_In. apply H. exact Hg.
Qed.

Lemma cs_b_ok : forall s, cs_b s = true -> tcheck_safe s.
Proof.
  intros s H. unfold cs_b in H. rewrite forallb_forall in H. intros f Hf Hin [_ Hcl].
  specialize (H f Hf). apply orb_true_iff in H. destruct H as [H|H].
  - apply negb_true_iff in H. apply mem_false in H. contradiction.
  - apply negb_true_iff in H. assert (Ht : forallb (time_fresh_b s) (f :: tdeps (s_src _ _ _ s) f) = true); [|congruence].
    apply forallb_forall. intros g Hg. destruct (Hcl g) as [t [H1 H2]].
    + simpl in Hg. destruct Hg as [<-|Hg]; [left; reflexivity | right; exact Hg].
    + unfold time_fresh_b. rewrite H1. apply N.leb_le. exact H2.
Qed.

Lemma safe_b_ok : forall h s, safe_b s h = true -> tsafe s h.
Proof.
  induction h as [|st r IH]; simpl; intros s H; [exact I|].
  apply andb_true_iff in H. destruct H as [H1 H2]. split; [|apply IH; exact H2].
  destruct st; simpl in *; try exact I; try discriminate.
  - apply dp_b_ok. exact H1.
  - apply andb_true_iff in H1. destruct H1. split; [apply dp_b_ok | apply cs_b_ok]; assumption.
Qed.

Lemma good_history_safe : tsafe (tinit P12 cfgA) good_history.
Proof. apply safe_b_ok. vm_compute. reflexivity. Qed.

(* and it exercises restores: the last build restores file 1, the last check restores file 1 *)
Example good_history_restores :
  let s := trun (tinit P12 cfgA) [Build _ _; Edit _ _ 1 11; Check _ _; Build _ _; SetCfg _ _ cfgB; Build _ _; DelOut _ _ 2] in
  analysed_files true true (eff_manifest _ _ _ s) (paths_of N (fun c => c) tout N s) = [2].
Proof. vm_compute. reflexivity. Qed.

(* ---------------- witnesses: what happens outside the side conditions ---------------- *)

(* (1) check_safe is necessary.  Configuration change, `veryl check`, `veryl build`: the check
   re-analyses file 1 under the new key and records it; the build then finds the hash and key
   matching and the old output not older than the source, restores, and keeps the output emitted
   under the OLD configuration.  Replayed on the CLI: KNOWN_FINDINGS key check-refreshes-cache. *)
Theorem check_then_build_refuted :
  exists h, let s := trun (tinit [(1, 10)] cfgA) h in
  r_out _ _ (snd (tbuild s)) 1 <> r_out _ _ (snd (tbuild (tforget s))) 1.
Proof.
  exists [Build _ _; SetCfg _ _ cfgB; Check _ _]. vm_compute. intros H. discriminate H.
Qed.

(* the same through an mtime-preserving replacement of the source *)
Theorem check_then_build_keep_mtime_refuted :
  exists h, let s := trun (tinit [(1, 10)] cfgA) h in
  r_out _ _ (snd (tbuild s)) 1 <> r_out _ _ (snd (tbuild (tforget s))) 1.
Proof.
  exists [Build _ _; EditKeep _ _ 1 11; Check _ _]. vm_compute. intros H. discriminate H.
Qed.

(* (2) outputs damaged in place are kept (TamperOut is excluded from safe histories):
   KNOWN_FINDINGS key output-content-not-verified *)
Theorem tampered_output_refuted :
  exists h, let s := trun (tinit [(1, 10)] cfgA) h in
  r_out _ _ (snd (tbuild s)) 1 <> r_out _ _ (snd (tbuild (tforget s))) 1.
Proof.
  exists [Build _ _; TamperOut _ _ 1 (None, [], [])]. vm_compute. intros H. discriminate H.
Qed.

(* (3) locality (D) is necessary: an emitter whose output for file 1 also depends on file 2,
   which file 1 does not depend on (a generic definition specialised by its users), keeps a
   stale output for 1 when 2 is edited: KNOWN_FINDINGS key generic-definition-restored *)
Definition gemit (P : list (file * N)) (sec : list N) (f : file) : tout :=
  (lookup P f, if f =? 1 then [lookup P 2] else [], sec).
Notation gbuild := (build N (fun c => c) tout N N.eqb tdeps gemit tdiags tredo tcacheable terror tmapneeded).
Notation grun := (run N (fun c => c) tout N N.eqb tdeps gemit tdiags tredo tcacheable terror tmapneeded).

Theorem reverse_dependency_refuted :
  exists h, let s := grun (tinit P12 cfgA) h in
  r_out _ _ (snd (gbuild s)) 1 <> r_out _ _ (snd (gbuild (tforget s))) 1.
Proof.
  exists [Build _ _; Edit _ _ 2 21]. vm_compute. intros H. discriminate H.
Qed.

(* with the [format] section in the key the configuration change alone is handled (this is the
   repaired defect: before the fix key_parts lacked sec_format and key_covers was false) *)
Example format_change_rebuilds :
  let s := trun (tinit [(1, 10)] cfgA) [Build _ _; SetCfg _ _ cfgB] in
  r_out _ _ (snd (tbuild s)) 1 = r_out _ _ (snd (tbuild (tforget s))) 1.
Proof. vm_compute. reflexivity. Qed.
