(* L3: Gallina transcription of crates/simulator/src/wide_ops.rs.

   A wide value is a `list N` of little-endian 64-bit limbs (the byte buffers of the Rust code
   read with `rd(ptr, i)` = limb i).  Every helper is transcribed loop for loop / branch for
   branch; `u64` arithmetic is made explicit (`mod W`, overflow flags as comparisons), the u128
   accumulator of wide_mul is an unbounded N (WideProofs.mul_inner_no_overflow shows it stays
   below 2^128).  usize index arithmetic is unbounded (nat / N): the helpers are only reachable
   with nb < 65536.

   Definitions only: this file must still evaluate when a proof in WideProofs.v breaks. *)
From Coq Require Import List NArith ZArith Bool.
Import ListNotations.
Open Scope N_scope.

Definition W : N := 18446744073709551616.          (* 2^64 *)
Definition MAXW : N := 18446744073709551615.       (* u64::MAX *)

Definition limbs_val (l : list N) : N := fold_right (fun x acc => x + W * acc) 0 l.
Definition wf (l : list N) : Prop := Forall (fun x => x < W) l.

(* rd(ptr, i) *)
Definition rd (l : list N) (i : nat) : N := nth i l 0.
(* wr(ptr, i, v) *)
Fixpoint upd (l : list N) (i : nat) (v : N) : list N :=
  match l, i with
  | [], _ => []
  | _ :: t, O => v :: t
  | h :: t, S i' => h :: upd t i' v
  end.

Definition not64 (x : N) : N := N.lnot x 64.        (* !x on u64 *)
Definition shl64 (x s : N) : N := (N.shiftl x s) mod W.   (* x << s, s < 64 *)
Definition b2n (b : bool) : N := if b then 1 else 0.

(* pack_nb_width(nb, width): (nb as u32) | ((width as u32) << 16) *)
Definition U32 : N := 4294967296.
Definition pack_nb_width (nb width : N) : N :=
  N.lor (nb mod U32) ((N.shiftl (width mod U32) 16) mod U32).
(* unpack_nb_width(packed) = (packed & 0xFFFF, packed >> 16) *)
Definition unpack_nb (packed : N) : N := N.land packed 65535.
Definition unpack_width (packed : N) : N := N.shiftr packed 16.
(* nw(nb) = nb / 8 *)
Definition nw (nb : N) : nat := N.to_nat (nb / 8).

(* ------------------------------------------------------------------ element-wise loops
   for i in 0..n { wr(dst, i, f(rd(a, i), rd(b, i))) }   (pointer walking) *)
Fixpoint map2n (f : N -> N -> N) (n : nat) (a b : list N) : list N :=
  match n with
  | O => []
  | S n' => f (hd 0 a) (hd 0 b) :: map2n f n' (tl a) (tl b)
  end.
Fixpoint map1n (f : N -> N) (n : nat) (a : list N) : list N :=
  match n with
  | O => []
  | S n' => f (hd 0 a) :: map1n f n' (tl a)
  end.

Definition wide_band (n : nat) (a b : list N) := map2n N.land n a b.
Definition wide_bor (n : nat) (a b : list N) := map2n N.lor n a b.
Definition wide_bxor (n : nat) (a b : list N) := map2n N.lxor n a b.
Definition wide_bxor_not (n : nat) (a b : list N) := map2n (fun x y => not64 (N.lxor x y)) n a b.
Definition wide_band_not (n : nat) (a b : list N) := map2n (fun x y => N.land x (not64 y)) n a b.
Definition wide_bnot (n : nat) (a : list N) := map1n not64 n a.
Definition wide_copy (n : nat) (a : list N) := map1n (fun x => x) n a.

(* ------------------------------------------------------------------ arithmetic *)
(* overflowing_add: (sum mod 2^64, carry flag) *)
Definition oadd (x y : N) : N * bool := ((x + y) mod W, W <=? x + y).
(* overflowing_sub: (wrapping difference, borrow flag) *)
Definition osub (x y : N) : N * bool := ((x + W - y) mod W, x <? y).

Fixpoint add_loop (n : nat) (a b : list N) (carry : N) : list N :=
  match n with
  | O => []
  | S n' =>
      let '(sum1, c1) := oadd (hd 0 a) (hd 0 b) in
      let '(sum2, c2) := oadd sum1 carry in
      sum2 :: add_loop n' (tl a) (tl b) (b2n c1 + b2n c2)
  end.
Definition wide_add (n : nat) (a b : list N) := add_loop n a b 0.

Fixpoint sub_loop (n : nat) (a b : list N) (borrow : N) : list N :=
  match n with
  | O => []
  | S n' =>
      let '(diff1, b1) := osub (hd 0 a) (hd 0 b) in
      let '(diff2, b2) := osub diff1 borrow in
      diff2 :: sub_loop n' (tl a) (tl b) (b2n b1 + b2n b2)
  end.
Definition wide_sub (n : nat) (a b : list N) := sub_loop n a b 0.

Fixpoint neg_loop (n : nat) (a : list N) (carry : N) : list N :=
  match n with
  | O => []
  | S n' =>
      let '(sum, c) := oadd (not64 (hd 0 a)) carry in
      sum :: neg_loop n' (tl a) (b2n c)
  end.
Definition wide_negate (n : nat) (a : list N) := neg_loop n a 1.

(* wide_mul: dst zeroed; for i { ai = a[i]; if ai == 0 continue; carry = 0u128;
     for j { if i + j >= n break; prod = ai*b[j] + dst[i+j] + carry; dst[i+j] = prod as u64;
             carry = prod >> 64 } }
   `d` below is the part dst[i..n] of the destination; dst[i] is final after outer iteration i. *)
Fixpoint mul_inner (ai : N) (b d : list N) (carry : N) : list N :=
  match d, b with
  | dj :: d', bj :: b' =>
      let prod := ai * bj + dj + carry in
      (prod mod W) :: mul_inner ai b' d' (prod / W)
  | _, _ => d
  end.
Fixpoint mul_outer (a b d : list N) : list N :=
  match a with
  | [] => d
  | ai :: a' =>
      let d1 := if ai =? 0 then d else mul_inner ai b d 0 in
      match d1 with
      | [] => []
      | h :: t => h :: mul_outer a' b t
      end
  end.
Definition wide_mul (n : nat) (a b : list N) : list N :=
  mul_outer (map1n (fun x => x) n a) (map1n (fun x => x) n b) (repeat 0 n).

(* ------------------------------------------------------------------ comparisons (i64 results) *)
Open Scope Z_scope.
Fixpoint wide_eq (n : nat) (a b : list N) : Z :=
  match n with
  | O => 1
  | S n' => if negb (hd 0%N a =? hd 0%N b)%N then 0 else wide_eq n' (tl a) (tl b)
  end.
Fixpoint wide_ne (n : nat) (a b : list N) : Z :=
  match n with
  | O => 0
  | S n' => if negb (hd 0%N a =? hd 0%N b)%N then 1 else wide_ne n' (tl a) (tl b)
  end.
(* for i in (0..n).rev() *)
Fixpoint wide_ucmp (n : nat) (a b : list N) : Z :=
  match n with
  | O => 0
  | S i =>
      let ai := rd a i in
      let bi := rd b i in
      if (ai <? bi)%N then -1 else if (bi <? ai)%N then 1 else wide_ucmp i a b
  end.
Close Scope Z_scope.

(* (rd(a, (w-1)/64) >> ((w-1)%64)) & 1 *)
Definition sign_of (a : list N) (width : N) : N :=
  N.land (N.shiftr (rd a (N.to_nat ((width - 1) / 64))) ((width - 1) mod 64)) 1.

Definition wide_scmp (a b : list N) (packed : N) : Z :=
  let nb := unpack_nb packed in
  let width := unpack_width packed in
  if (width =? 0) || (nb =? 0) then 0%Z
  else
    let a_sign := sign_of a width in
    let b_sign := sign_of b width in
    if negb (a_sign =? b_sign) then (if a_sign =? 1 then (-1)%Z else 1%Z)
    else wide_ucmp (nw nb) a b.

Definition sext_word (l : list N) (i : nat) (width : N) (sign : N) : N :=
  let bits_below := N.of_nat i * 64 in
  if width <=? bits_below then (if sign =? 1 then MAXW else 0)
  else
    let raw := rd l i in
    let top := width - bits_below in
    if 64 <=? top then raw
    else
      let mask := N.shiftl 1 top - 1 in
      N.lor (N.land raw mask) (if sign =? 1 then not64 mask else 0).

Fixpoint scmp_asym_loop (i : nat) (a b : list N) (a_w b_w a_sign b_sign : N) : Z :=
  match i with
  | O => 0%Z
  | S i' =>
      let av := sext_word a i' a_w a_sign in
      let bv := sext_word b i' b_w b_sign in
      if av <? bv then (-1)%Z else if bv <? av then 1%Z
      else scmp_asym_loop i' a b a_w b_w a_sign b_sign
  end.
Definition wide_scmp_asym (a b : list N) (a_packed b_packed : N) : Z :=
  let a_nb := unpack_nb a_packed in let a_w := unpack_width a_packed in
  let b_nb := unpack_nb b_packed in let b_w := unpack_width b_packed in
  if (a_w =? 0) || (b_w =? 0) || (a_nb =? 0) || (b_nb =? 0) then 0%Z
  else
    let a_sign := sign_of a a_w in
    let b_sign := sign_of b b_w in
    if negb (a_sign =? b_sign) then (if a_sign =? 1 then (-1)%Z else 1%Z)
    else scmp_asym_loop (Nat.max (nw a_nb) (nw b_nb)) a b a_w b_w a_sign b_sign.

(* wide_resize(dst, src, src_info, dst_nb): src_info = pack(nb, width) | signed << 32 *)
Definition wide_resize (src : list N) (src_info : N) (dst_nb : N) : list N :=
  let src_w := unpack_width (src_info mod U32) in
  let signed := N.land (N.shiftr src_info 32) 1 =? 1 in
  let n := nw dst_nb in
  if src_w =? 0 then repeat 0 n
  else
    let sign := if signed then sign_of src src_w else 0 in
    map (fun i => sext_word src i src_w sign) (seq 0 n).

(* ------------------------------------------------------------------ shifts
   amount is a u64; word_shift = amount / 64, bit_shift = amount % 64 *)
Definition shl_word (a : list N) (ws : nat) (bs : N) (i : nat) : N :=
  (* src_idx = i - word_shift (isize) *)
  let lo := if (ws <=? i)%nat then rd a (i - ws) else 0 in
  let hi := if (ws <? i)%nat then rd a (i - ws - 1) else 0 in
  if bs =? 0 then lo else N.lor (shl64 lo bs) (N.shiftr hi (64 - bs)).

Definition wide_shl (n : nat) (a : list N) (amount : N) : list N :=
  let word_shift := amount / 64 in
  let bit_shift := amount mod 64 in
  if N.of_nat n <=? word_shift then repeat 0 n
  else map (shl_word a (N.to_nat word_shift) bit_shift) (seq 0 n).

Definition lshr_word (n : nat) (a : list N) (ws : nat) (bs : N) (i : nat) : N :=
  let src_idx := (i + ws)%nat in
  let lo := if (src_idx <? n)%nat then rd a src_idx else 0 in
  let hi := if (src_idx + 1 <? n)%nat then rd a (src_idx + 1) else 0 in
  if bs =? 0 then lo else N.lor (N.shiftr lo bs) (shl64 hi (64 - bs)).

Definition wide_lshr (n : nat) (a : list N) (amount : N) : list N :=
  let word_shift := amount / 64 in
  let bit_shift := amount mod 64 in
  if N.of_nat n <=? word_shift then repeat 0 n
  else map (lshr_word n a (N.to_nat word_shift) bit_shift) (seq 0 n).

(* one iteration of the sign-fill loop of wide_ashr *)
Definition set_bit (n : nat) (d : list N) (bit_pos : nat) : list N :=
  let word := (bit_pos / 64)%nat in
  let bit := N.of_nat (bit_pos mod 64) in
  if (word <? n)%nat then upd d word (N.lor (rd d word) (N.shiftl 1 bit)) else d.

(* wide_ashr(dst, a, amount, packed); dst0 = previous content of dst (kept when the helper
   returns early) *)
Definition wide_ashr (dst0 a : list N) (amount packed : N) : list N :=
  let nb := unpack_nb packed in
  let width := unpack_width packed in
  let n := nw nb in
  if (nb =? 0) || (width =? 0) then dst0
  else
    let sign := sign_of a width in
    let d := wide_lshr n a amount in
    if (sign =? 1) && (0 <? amount) then
      let fill_start := if width <=? amount then 0 else width - amount in
      fold_left (set_bit n) (seq (N.to_nat fill_start) (N.to_nat (width - fill_start))) d
    else d.

(* ------------------------------------------------------------------ reductions *)
Fixpoint wide_is_nonzero (n : nat) (a : list N) : Z :=
  match n with
  | O => 0%Z
  | S n' => if negb (hd 0 a =? 0) then 1%Z else wide_is_nonzero n' (tl a)
  end.

Fixpoint all_max (k : nat) (a : list N) : bool :=
  match k with
  | O => true
  | S k' => if negb (hd 0 a =? MAXW) then false else all_max k' (tl a)
  end.
Definition wide_is_all_ones (a : list N) (packed : N) : Z :=
  let width := unpack_width packed in
  if width =? 0 then 1%Z
  else
    let full_words := N.to_nat (width / 64) in
    let remaining := width mod 64 in
    if negb (all_max full_words a) then 0%Z
    else if (0 <? remaining) &&
            (let mask := N.shiftl 1 remaining - 1 in negb (N.land (rd a full_words) mask =? mask))
         then 0%Z else 1%Z.

(* u64::count_ones *)
Fixpoint pos_popcount (p : positive) : N :=
  match p with
  | xH => 1
  | xO p' => pos_popcount p'
  | xI p' => 1 + pos_popcount p'
  end.
Definition count_ones (x : N) : N := match x with 0 => 0 | Npos p => pos_popcount p end.
Fixpoint popcnt_loop (n : nat) (a : list N) (total : N) : N :=
  match n with
  | O => total
  | S n' => popcnt_loop n' (tl a) (N.lxor total (count_ones (hd 0 a)))
  end.
Definition wide_popcnt_parity (n : nat) (a : list N) : Z := Z.of_N (N.land (popcnt_loop n a 0) 1).

(* ------------------------------------------------------------------ masks (in place on dst) *)
Definition zero_from (d : list N) (from n : nat) : list N :=
  fold_left (fun d i => upd d i 0) (seq from (n - from)) d.
(* full_words + if remaining > 0 { 1 } else { 0 } *)
Definition first_clear (full_words : nat) (remaining : N) : nat :=
  if 0 <? remaining then S full_words else full_words.

Definition wide_apply_mask (dst : list N) (packed : N) : list N :=
  let nb := unpack_nb packed in
  let width := unpack_width packed in
  if (width =? 0) || (nb =? 0) then dst
  else
    let n := nw nb in
    let full_words := N.to_nat (width / 64) in
    let remaining := width mod 64 in
    let d1 := if (0 <? remaining) && (full_words <? n)%nat
              then upd dst full_words (N.land (rd dst full_words) (N.shiftl 1 remaining - 1))
              else dst in
    zero_from d1 (first_clear full_words remaining) n.

Definition wide_fill_ones (dst : list N) (packed : N) : list N :=
  let nb := unpack_nb packed in
  let width := unpack_width packed in
  if nb =? 0 then dst
  else
    let n := nw nb in
    let full_words := N.to_nat (width / 64) in
    let remaining := width mod 64 in
    let d0 := fold_left (fun d i => upd d i MAXW) (seq 0 (Nat.min full_words n)) dst in
    let d1 := if (0 <? remaining) && (full_words <? n)%nat
              then upd d0 full_words (N.shiftl 1 remaining - 1)
              else d0 in
    zero_from d1 (first_clear full_words remaining) n.
