(* wide_scmp_asym: signed comparison of operands with different value widths. *)
From VV Require Import BV.Ops1800 Wide.WideModel Wide.WideArith Wide.WideBits Wide.WideShift Wide.WideExt Wide.WideCmp Wide.WideMask Wide.WideAshr.
Open Scope N_scope.

(* the list of sign-extended words the comparison loop looks at *)
Definition sext_list (a : list N) (w : N) (sg : bool) (m : nat) : list N :=
  map (fun i => sext_word a i w (N.b2n sg)) (seq 0 m).

Lemma sext_list_wf : forall a w sg m, wf a -> wf (sext_list a w sg m).
Proof.
  intros. apply wf_forall_rd. intros i. unfold sext_list. rewrite rd_map_seq.
  destruct (i <? m)%nat. apply sext_word_lt; auto. reflexivity.
Qed.
Lemma sext_list_length : forall a w sg m, length (sext_list a w sg m) = m.
Proof. intros. unfold sext_list. rewrite map_length, seq_length. reflexivity. Qed.

(* sign extension as a number: v + (2^M - 2^w) when the sign is set *)
Lemma sext_list_val : forall a w sg m, wf a -> 0 < w -> w <= 64 * N.of_nat m ->
  limbs_val (sext_list a w sg m) =
  (limbs_val a mod 2 ^ w) + (if sg then 2 ^ (64 * N.of_nat m) - 2 ^ w else 0).
Proof.
  intros a w sg m Ha Hw Hwm.
  set (v := limbs_val a mod 2 ^ w).
  assert (Hv : v < 2 ^ w) by (apply N.mod_lt, N.pow_nonzero; discriminate).
  set (fill := if sg then N.ones (64 * N.of_nat m) - N.ones w else 0).
  assert (Efill : (if sg then 2 ^ (64 * N.of_nat m) - 2 ^ w else 0) = fill).
  { unfold fill. destruct sg; auto. rewrite !N.ones_equiv, !N.pred_sub.
    assert (0 < 2 ^ w) by (apply N.neq_0_lt_0, N.pow_nonzero; discriminate).
    assert (2 ^ w <= 2 ^ (64 * N.of_nat m)) by (apply N.pow_le_mono_r; [discriminate | auto]). lia. }
  rewrite Efill.
  assert (Bfill : forall k, N.testbit fill k = sg && (w <=? k) && (k <? 64 * N.of_nat m)).
  { intros k. unfold fill. destruct sg; cbn [andb]. apply ones_diff_bits; auto. apply N.bits_0. }
  assert (Disj : N.land v fill = 0).
  { apply N.bits_inj. intros k. rewrite N.land_spec, Bfill, N.bits_0. unfold v. rewrite testbit_mod_pow2.
    destruct (N.ltb_spec k w), (N.leb_spec w k); cbn [andb]; try lia; rewrite ?andb_false_r; reflexivity. }
  rewrite N.add_nocarry_lxor by auto.
  apply limbs_val_ext. apply sext_list_wf; auto.
  intros i j Hj. unfold sext_list. rewrite rd_map_seq, N.lxor_spec, Bfill. unfold v. rewrite testbit_mod_pow2.
  rewrite (idx_lt m) by auto.
  destruct (i <? m)%nat eqn:Ei.
  - rewrite sext_word_spec by auto. rewrite <- testbit_limbs_val_ij by auto.
    destruct (N.ltb_spec (64 * N.of_nat i + j) w), (N.leb_spec w (64 * N.of_nat i + j)); cbn [andb]; try lia;
      rewrite ?andb_false_r, ?andb_true_r, ?xorb_false_r, ?xorb_false_l; try reflexivity.
  - rewrite N.bits_0, andb_false_r.
    apply Nat.ltb_ge in Ei.
    replace (64 * N.of_nat i + j <? w) with false by (symmetry; apply N.ltb_ge; lia). reflexivity.
Qed.

Lemma scmp_asym_loop_ucmp : forall m i a b aw bw sa sb, (i <= m)%nat ->
  scmp_asym_loop i a b aw bw (N.b2n sa) (N.b2n sb) =
  wide_ucmp i (sext_list a aw sa m) (sext_list b bw sb m).
Proof.
  induction i; intros a b aw bw sa sb Hi.
  - reflexivity.
  - cbn [scmp_asym_loop wide_ucmp]. unfold sext_list at 1 2 3 4. rewrite !rd_map_seq.
    replace (i <? m)%nat with true by (symmetry; apply Nat.ltb_lt; lia).
    rewrite IHi by lia. reflexivity.
Qed.

Lemma sval_mod : forall w v, 0 < w -> v < 2 ^ w ->
  sval w v = (Z.of_N v - (if N.testbit v (w - 1) then 2 ^ Z.of_N w else 0))%Z.
Proof. intros. rewrite sval_cases by auto. destruct (N.testbit v (w - 1)); lia. Qed.

Theorem wide_scmp_asym_spec : forall na nb aw bw a b,
  wf a -> wf b -> 0 < N.of_nat na < 8192 -> 0 < N.of_nat nb < 8192 -> 0 < aw < 65536 -> 0 < bw < 65536 ->
  aw <= 64 * N.of_nat (Nat.max na nb) -> bw <= 64 * N.of_nat (Nat.max na nb) ->
  wide_scmp_asym a b (pack_nb_width (8 * N.of_nat na) aw) (pack_nb_width (8 * N.of_nat nb) bw) =
  cmpZ (sval aw (limbs_val a mod 2 ^ aw) ?= sval bw (limbs_val b mod 2 ^ bw))%Z.
Proof.
  intros na nb aw bw a b Ha Hb Hna Hnb Haw Hbw Ham Hbm.
  unfold wide_scmp_asym.
  destruct (unpack_pack (8 * N.of_nat na) aw ltac:(lia) ltac:(lia)) as [-> ->].
  destruct (unpack_pack (8 * N.of_nat nb) bw ltac:(lia) ltac:(lia)) as [-> ->].
  replace (aw =? 0) with false by (symmetry; apply N.eqb_neq; lia).
  replace (bw =? 0) with false by (symmetry; apply N.eqb_neq; lia).
  replace (8 * N.of_nat na =? 0) with false by (symmetry; apply N.eqb_neq; lia).
  replace (8 * N.of_nat nb =? 0) with false by (symmetry; apply N.eqb_neq; lia).
  cbn [orb]. rewrite !nw_8n, !sign_of_spec by (auto; lia).
  set (m := Nat.max na nb) in *.
  set (va := limbs_val a mod 2 ^ aw). set (vb := limbs_val b mod 2 ^ bw).
  assert (Hva : va < 2 ^ aw) by (apply N.mod_lt, N.pow_nonzero; discriminate).
  assert (Hvb : vb < 2 ^ bw) by (apply N.mod_lt, N.pow_nonzero; discriminate).
  assert (Sa : N.testbit (limbs_val a) (aw - 1) = N.testbit va (aw - 1)).
  { unfold va. rewrite testbit_mod_pow2. replace (aw - 1 <? aw) with true by (symmetry; apply N.ltb_lt; lia). reflexivity. }
  assert (Sb : N.testbit (limbs_val b) (bw - 1) = N.testbit vb (bw - 1)).
  { unfold vb. rewrite testbit_mod_pow2. replace (bw - 1 <? bw) with true by (symmetry; apply N.ltb_lt; lia). reflexivity. }
  rewrite (sval_mod aw va), (sval_mod bw vb) by (auto; lia).
  rewrite Sa, Sb.
  pose proof (pow2_Z aw) as Pa. pose proof (pow2_Z bw) as Pb.
  set (sa := N.testbit va (aw - 1)) in *. set (sb := N.testbit vb (bw - 1)) in *.
  rewrite (scmp_asym_loop_ucmp m) by lia.
  rewrite (wide_ucmp_spec m) by (auto using sext_list_wf, sext_list_length).
  rewrite !sext_list_val by (auto; lia). fold va vb.
  pose proof (pow2_Z (64 * N.of_nat m)) as PM.
  assert (2 ^ aw <= 2 ^ (64 * N.of_nat m)) by (apply N.pow_le_mono_r; [discriminate | auto]).
  assert (2 ^ bw <= 2 ^ (64 * N.of_nat m)) by (apply N.pow_le_mono_r; [discriminate | auto]).
  destruct sa, sb; cbn [N.b2n N.eqb Pos.eqb negb].
  - f_equal. rewrite <- N2Z.inj_compare.
    rewrite !N2Z.inj_add, !N2Z.inj_sub by auto. rewrite PM, Pa, Pb.
    replace (Z.of_N va + (2 ^ Z.of_N (64 * N.of_nat m) - 2 ^ Z.of_N aw))%Z
      with (2 ^ Z.of_N (64 * N.of_nat m) + (Z.of_N va - 2 ^ Z.of_N aw))%Z by lia.
    replace (Z.of_N vb + (2 ^ Z.of_N (64 * N.of_nat m) - 2 ^ Z.of_N bw))%Z
      with (2 ^ Z.of_N (64 * N.of_nat m) + (Z.of_N vb - 2 ^ Z.of_N bw))%Z by lia.
    apply Z.add_compare_mono_l.
  - symmetry. replace (Z.of_N va - 2 ^ Z.of_N aw ?= Z.of_N vb - 0)%Z with Lt; auto.
    symmetry. apply Z.compare_lt_iff. lia.
  - symmetry. replace (Z.of_N va - 0 ?= Z.of_N vb - 2 ^ Z.of_N bw)%Z with Gt; auto.
    symmetry. apply Z.compare_gt_iff. lia.
  - rewrite !N.add_0_r, !Z.sub_0_r. f_equal. symmetry. apply N2Z.inj_compare.
Qed.
