(* Comparisons: eq / ne / ucmp / scmp / scmp_asym; pack / unpack. *)
From VV Require Import BV.Ops1800 Wide.WideModel Wide.WideArith Wide.WideBits Wide.WideShift Wide.WideExt.
Open Scope N_scope.

Definition cmpZ (c : comparison) : Z := match c with Lt => (-1)%Z | Eq => 0%Z | Gt => 1%Z end.

(* ------------------------------------------------------------------ pack / unpack *)
Lemma unpack_pack : forall nb w, nb < 65536 -> w < 65536 ->
  unpack_nb (pack_nb_width nb w) = nb /\ unpack_width (pack_nb_width nb w) = w.
Proof.
  intros nb w Hnb Hw. unfold unpack_nb, unpack_width, pack_nb_width, U32.
  rewrite (N.mod_small nb) by lia. rewrite (N.mod_small w) by lia.
  assert (Hs : N.shiftl w 16 mod 4294967296 = N.shiftl w 16).
  { apply N.mod_small. rewrite N.shiftl_mul_pow2. change (2 ^ 16) with 65536. lia. }
  rewrite Hs. split.
  - change 65535 with (N.ones 16). rewrite N.land_lor_distr_l, !N.land_ones.
    rewrite N.shiftl_mul_pow2, N.mod_mul by discriminate. rewrite N.lor_0_r.
    apply N.mod_small. exact Hnb.
  - rewrite N.shiftr_lor. rewrite N.shiftr_shiftl_l by (apply N.le_refl). rewrite N.sub_diag, N.shiftl_0_r.
    rewrite N.shiftr_div_pow2, N.div_small by exact Hnb. apply N.lor_0_l.
Qed.

Lemma nw_8n : forall n, nw (8 * N.of_nat n) = n.
Proof. intros. unfold nw. rewrite N.mul_comm, N.div_mul by discriminate. apply Nat2N.id. Qed.

(* ------------------------------------------------------------------ eq / ne / is_nonzero *)
Lemma limb_split_eq : forall x y u v, x < W -> y < W -> x + W * u = y + W * v -> x = y /\ u = v.
Proof.
  intros x y u v Hx Hy E. pose proof W_pos.
  destruct (N.lt_trichotomy u v) as [L|[L|L]].
  - assert (W * u + W <= W * v) by nia. lia.
  - subst. lia.
  - assert (W * v + W <= W * u) by nia. lia.
Qed.

Lemma wide_eq_spec : forall n a b, length a = n -> length b = n -> wf a -> wf b ->
  wide_eq n a b = if limbs_val a =? limbs_val b then 1%Z else 0%Z.
Proof.
  induction n; intros [|x a] [|y b] La Lb Ha Hb; simpl in La, Lb; try discriminate.
  - reflexivity.
  - apply wf_cons in Ha, Hb. destruct Ha as [Hx Ha], Hb as [Hy Hb].
    cbn [wide_eq hd tl]. rewrite !limbs_val_cons.
    destruct (x =? y) eqn:E; cbn [negb].
    + apply N.eqb_eq in E. subst y. rewrite IHn by (auto; lia).
      destruct (limbs_val a =? limbs_val b) eqn:E2.
      * apply N.eqb_eq in E2. rewrite E2, N.eqb_refl. reflexivity.
      * apply N.eqb_neq in E2. symmetry.
        destruct (x + W * limbs_val a =? x + W * limbs_val b) eqn:E3; auto.
        apply N.eqb_eq in E3. apply limb_split_eq in E3; auto. tauto.
    + apply N.eqb_neq in E. symmetry.
      destruct (x + W * limbs_val a =? y + W * limbs_val b) eqn:E3; auto.
      apply N.eqb_eq in E3. apply limb_split_eq in E3; auto. tauto.
Qed.

Lemma wide_ne_eq : forall n a b, wide_ne n a b = (1 - wide_eq n a b)%Z.
Proof. induction n; intros; cbn [wide_ne wide_eq]. reflexivity. destruct (negb _); auto. Qed.

Lemma wide_ne_spec : forall n a b, length a = n -> length b = n -> wf a -> wf b ->
  wide_ne n a b = if limbs_val a =? limbs_val b then 0%Z else 1%Z.
Proof. intros. rewrite wide_ne_eq, wide_eq_spec by auto. destruct (_ =? _); reflexivity. Qed.

Lemma wide_is_nonzero_spec : forall n a, length a = n ->
  wide_is_nonzero n a = if limbs_val a =? 0 then 0%Z else 1%Z.
Proof.
  induction n; intros [|x a] La; simpl in La; try discriminate.
  - reflexivity.
  - cbn [wide_is_nonzero hd tl]. rewrite limbs_val_cons.
    destruct (x =? 0) eqn:E; cbn [negb].
    + apply N.eqb_eq in E. subst x. rewrite IHn by lia.
      destruct (limbs_val a =? 0) eqn:E2.
      * apply N.eqb_eq in E2. rewrite E2. reflexivity.
      * apply N.eqb_neq in E2. replace (0 + W * limbs_val a =? 0) with false; auto.
        symmetry. apply N.eqb_neq. pose proof W_pos. nia.
    + apply N.eqb_neq in E. replace (x + W * limbs_val a =? 0) with false; auto.
      symmetry. apply N.eqb_neq. lia.
Qed.

(* ------------------------------------------------------------------ ucmp *)
Lemma limbs_val_app : forall l l', limbs_val (l ++ l') = limbs_val l + Wn (length l) * limbs_val l'.
Proof.
  induction l; intros; simpl app; simpl length.
  - rewrite Wn_0. cbn [limbs_val fold_right]. lia.
  - rewrite !limbs_val_cons, IHl, Wn_S. lia.
Qed.

Lemma firstn_S_rd : forall i (l : list N), (i < length l)%nat -> firstn (S i) l = firstn i l ++ [rd l i].
Proof.
  induction i; intros [|x l] H; simpl in H; try lia.
  - reflexivity.
  - change (firstn (S (S i)) (x :: l)) with (x :: firstn (S i) l).
    rewrite IHi by lia. reflexivity.
Qed.

Lemma wf_firstn : forall i l, wf l -> wf (firstn i l).
Proof.
  induction i; intros [|x l] H; simpl; auto using wf_nil.
  apply wf_cons in H. apply wf_cons. split; [tauto | apply IHi; tauto].
Qed.

Lemma cmp_top : forall la lb M x y, la < M -> lb < M ->
  (la + M * x ?= lb + M * y) = match x ?= y with Eq => la ?= lb | c => c end.
Proof.
  intros. destruct (x ?= y) eqn:E.
  - apply N.compare_eq in E. subst y. destruct (la ?= lb) eqn:E2.
    + apply N.compare_eq in E2. subst. apply N.compare_refl.
    + rewrite N.compare_lt_iff in E2. apply N.compare_lt_iff. lia.
    + rewrite N.compare_gt_iff in E2. apply N.compare_gt_iff. lia.
  - rewrite N.compare_lt_iff in E. apply N.compare_lt_iff. nia.
  - rewrite N.compare_gt_iff in E. apply N.compare_gt_iff. nia.
Qed.

Lemma wide_ucmp_firstn : forall i a b, (i <= length a)%nat -> (i <= length b)%nat -> wf a -> wf b ->
  wide_ucmp i a b = cmpZ (limbs_val (firstn i a) ?= limbs_val (firstn i b)).
Proof.
  induction i; intros a b La Lb Ha Hb.
  - reflexivity.
  - cbn [wide_ucmp]. rewrite !firstn_S_rd by lia. rewrite !limbs_val_app.
    rewrite !firstn_length, !Nat.min_l by lia.
    cbn [limbs_val fold_right]. rewrite !N.mul_0_r, !N.add_0_r.
    rewrite cmp_top.
    2,3: (pose proof (limbs_val_bound (firstn i a) (wf_firstn i a Ha)) as B1;
          pose proof (limbs_val_bound (firstn i b) (wf_firstn i b Hb)) as B2;
          rewrite firstn_length, Nat.min_l in B1, B2 by lia; assumption).
    destruct (rd a i ?= rd b i) eqn:E.
    + apply N.compare_eq in E. rewrite E, !N.ltb_irrefl. apply IHi; auto; lia.
    + rewrite N.compare_lt_iff in E. apply N.ltb_lt in E. rewrite E. reflexivity.
    + rewrite N.compare_gt_iff in E. assert (E' := E). apply N.ltb_lt in E. rewrite E.
      replace (rd a i <? rd b i) with false by (symmetry; apply N.ltb_ge; lia). reflexivity.
Qed.

Theorem wide_ucmp_spec : forall n a b, length a = n -> length b = n -> wf a -> wf b ->
  wide_ucmp n a b = cmpZ (limbs_val a ?= limbs_val b).
Proof.
  intros n a b La Lb Ha Hb. rewrite wide_ucmp_firstn by (auto; lia).
  rewrite <- La at 1. rewrite <- Lb at 1. rewrite !firstn_all. reflexivity.
Qed.

(* ------------------------------------------------------------------ scmp *)
Lemma sval_cases : forall w v, 0 < w -> v < 2 ^ w ->
  sval w v = if N.testbit v (w - 1) then (Z.of_N v - 2 ^ Z.of_N w)%Z else Z.of_N v.
Proof. intros w v Hw Hv. unfold sval. apply N.ltb_lt in Hw. rewrite Hw. reflexivity. Qed.

Lemma testbit_top : forall w v, 0 < w -> v < 2 ^ w -> N.testbit v (w - 1) = (2 ^ (w - 1) <=? v).
Proof.
  intros w v Hw Hv.
  assert (E : 2 ^ w = 2 * 2 ^ (w - 1)).
  { rewrite <- N.pow_succ_r'. f_equal. lia. }
  rewrite N.testbit_eqb.
  destruct (2 ^ (w - 1) <=? v) eqn:L; [apply N.leb_le in L | apply N.leb_gt in L].
  - assert (v / 2 ^ (w - 1) = 1).
    { symmetry. apply N.div_unique with (r := v - 2 ^ (w - 1)); lia. }
    rewrite H. reflexivity.
  - rewrite N.div_small by auto. reflexivity.
Qed.

Lemma pow2_Z : forall w, Z.of_N (2 ^ w) = (2 ^ Z.of_N w)%Z.
Proof. intros. rewrite N2Z.inj_pow. reflexivity. Qed.

Lemma scmp_core : forall w va vb, 0 < w -> va < 2 ^ w -> vb < 2 ^ w ->
  (if negb (N.b2n (N.testbit va (w - 1)) =? N.b2n (N.testbit vb (w - 1)))
   then (if N.b2n (N.testbit va (w - 1)) =? 1 then (-1)%Z else 1%Z)
   else cmpZ (va ?= vb)) = cmpZ (sval w va ?= sval w vb)%Z.
Proof.
  intros w va vb Hw Ha Hb. rewrite !sval_cases by auto.
  pose proof (pow2_Z w) as P. assert (0 < 2 ^ w) by (apply N.neq_0_lt_0, N.pow_nonzero; discriminate).
  destruct (N.testbit va (w - 1)), (N.testbit vb (w - 1)); cbn [N.b2n N.eqb Pos.eqb negb].
  - f_equal. unfold Z.sub. rewrite (Z.add_comm (Z.of_N va)), (Z.add_comm (Z.of_N vb)), Z.add_compare_mono_l. symmetry. apply N2Z.inj_compare.
  - symmetry. replace (Z.of_N va - 2 ^ Z.of_N w ?= Z.of_N vb)%Z with Lt; auto. symmetry. apply Z.compare_lt_iff. lia.
  - symmetry. replace (Z.of_N va ?= Z.of_N vb - 2 ^ Z.of_N w)%Z with Gt; auto. symmetry. apply Z.compare_gt_iff. lia.
  - f_equal. symmetry. apply N2Z.inj_compare.
Qed.

Theorem wide_scmp_spec : forall n w a b, length a = n -> length b = n -> wf a -> wf b ->
  0 < N.of_nat n < 8192 -> 0 < w < 65536 -> limbs_val a < 2 ^ w -> limbs_val b < 2 ^ w ->
  wide_scmp a b (pack_nb_width (8 * N.of_nat n) w) = cmpZ (sval w (limbs_val a) ?= sval w (limbs_val b))%Z.
Proof.
  intros n w a b La Lb Ha Hb Hn Hw Va Vb. unfold wide_scmp.
  destruct (unpack_pack (8 * N.of_nat n) w ltac:(lia) ltac:(lia)) as [-> ->].
  replace (w =? 0) with false by (symmetry; apply N.eqb_neq; lia).
  replace (8 * N.of_nat n =? 0) with false by (symmetry; apply N.eqb_neq; lia).
  cbn [orb]. rewrite !sign_of_spec by (auto; lia). rewrite nw_8n.
  rewrite wide_ucmp_spec by auto. apply scmp_core; auto; lia.
Qed.
