(* resize / sign extension, signed comparisons, arithmetic shift right. *)
From VV Require Import BV.Ops1800 Wide.WideModel Wide.WideArith Wide.WideBits Wide.WideShift.
Open Scope N_scope.

Lemma land_1_bit0 : forall x, N.land x 1 = N.b2n (N.testbit x 0).
Proof.
  intros. change 1 with (N.ones 1). rewrite N.land_ones. rewrite N.bit0_mod. reflexivity.
Qed.

Lemma sign_of_spec : forall a w, wf a -> 0 < w ->
  sign_of a w = N.b2n (N.testbit (limbs_val a) (w - 1)).
Proof.
  intros a w Ha Hw. unfold sign_of. rewrite land_1_bit0, N.shiftr_spec', N.add_0_l.
  rewrite <- testbit_limbs_val by auto. reflexivity.
Qed.

Lemma b2n_eqb_1 : forall b, (N.b2n b =? 1) = b.
Proof. destruct b; reflexivity. Qed.

Lemma MAXW_bits : forall j, N.testbit MAXW j = (j <? 64).
Proof.
  intros. change MAXW with (N.ones 64). destruct (j <? 64) eqn:E.
  apply N.ltb_lt in E. apply N.ones_spec_low; auto. apply N.ltb_ge in E. apply N.ones_spec_high; auto.
Qed.

Lemma shiftl1_sub1 : forall t, N.shiftl 1 t - 1 = N.ones t.
Proof. intros. unfold N.ones. rewrite N.sub_1_r. reflexivity. Qed.

Lemma ones_bits : forall t j, N.testbit (N.ones t) j = (j <? t).
Proof.
  intros. destruct (j <? t) eqn:E.
  apply N.ltb_lt in E. apply N.ones_spec_low; auto. apply N.ltb_ge in E. apply N.ones_spec_high; auto.
Qed.

Lemma ones_lt_W : forall t, t <= 64 -> N.ones t < W.
Proof.
  intros. apply bits_high_lt_W. intros j Hj. rewrite ones_bits. apply N.ltb_ge. lia.
Qed.

(* bit j of the i-th sign-extended word *)
Lemma sext_word_spec : forall l i width sg j, wf l -> j < 64 ->
  N.testbit (sext_word l i width (N.b2n sg)) j =
  if 64 * N.of_nat i + j <? width then N.testbit (rd l i) j else sg.
Proof.
  intros l i width sg j Hl Hj. unfold sext_word. rewrite b2n_eqb_1.
  replace (N.of_nat i * 64) with (64 * N.of_nat i) by lia.
  destruct (width <=? 64 * N.of_nat i) eqn:E1; [apply N.leb_le in E1 | apply N.leb_gt in E1].
  - replace (64 * N.of_nat i + j <? width) with false by (symmetry; apply N.ltb_ge; lia).
    destruct sg. rewrite MAXW_bits. apply N.ltb_lt; auto. apply N.bits_0.
  - destruct (64 <=? width - 64 * N.of_nat i) eqn:E2; [apply N.leb_le in E2 | apply N.leb_gt in E2].
    + replace (64 * N.of_nat i + j <? width) with true by (symmetry; apply N.ltb_lt; lia). reflexivity.
    + rewrite shiftl1_sub1, N.lor_spec, N.land_spec, ones_bits.
      set (top := width - 64 * N.of_nat i) in *.
      replace (64 * N.of_nat i + j <? width) with (j <? top).
      2:{ destruct (j <? top) eqn:E3; [apply N.ltb_lt in E3 | apply N.ltb_ge in E3]; symmetry;
          [apply N.ltb_lt | apply N.ltb_ge]; unfold top in *; lia. }
      destruct sg.
      * rewrite not64_spec by (apply ones_lt_W; lia). rewrite ones_bits.
        apply N.ltb_lt in Hj. rewrite Hj. destruct (j <? top); cbn [andb negb orb].
        rewrite andb_true_r. apply orb_false_r. rewrite andb_false_r. reflexivity.
      * rewrite N.bits_0, orb_false_r. destruct (j <? top); [apply andb_true_r | apply andb_false_r].
Qed.

Lemma sext_word_lt : forall l i width sg, wf l -> sext_word l i width (N.b2n sg) < W.
Proof.
  intros l i width sg Hl. unfold sext_word. rewrite b2n_eqb_1.
  destruct (_ <=? _). destruct sg; reflexivity.
  destruct (64 <=? _) eqn:E. apply rd_wf; auto.
  apply N.leb_gt in E. rewrite shiftl1_sub1.
  apply lor_lt_W. apply land_lt_W. apply rd_wf; auto. apply ones_lt_W; lia.
  destruct sg. apply not64_lt, ones_lt_W; lia. reflexivity.
Qed.

(* the value a resize produces, bit by bit: bits below src_w from the source, the sign above *)
Definition resize_bit (v : N) (src_w : N) (sg : bool) (k : N) : bool :=
  if k <? src_w then N.testbit v k else sg.

Lemma unpack_width_mod : forall info, unpack_width (info mod U32) = (info / 65536) mod 65536.
Proof.
  intros. unfold unpack_width, U32. rewrite N.shiftr_div_pow2.
  change 4294967296 with (65536 * 65536). change (2 ^ 16) with 65536.
  rewrite N.mod_mul_r by discriminate.
  rewrite N.mul_comm, N.div_add by discriminate.
  rewrite N.div_small by (apply N.mod_lt; discriminate). reflexivity.
Qed.

Section Resize.
  Variables (src : list N) (info dst_nb : N).
  Hypothesis Hs : wf src.
  Let src_w := unpack_width (info mod U32).
  Let signed := N.land (N.shiftr info 32) 1 =? 1.
  Let n := nw dst_nb.
  Let sg := signed && (0 <? src_w) && N.testbit (limbs_val src) (src_w - 1).

  Lemma wide_resize_wf : wf (wide_resize src info dst_nb).
  Proof.
    unfold wide_resize. fold src_w. fold signed. fold n.
    destruct (src_w =? 0) eqn:E0. apply wf_repeat0. apply N.eqb_neq in E0.
    apply wf_forall_rd. intros i. rewrite rd_map_seq. destruct (i <? n)%nat; [|reflexivity].
    destruct signed.
    - rewrite sign_of_spec by (auto; lia). apply sext_word_lt; auto.
    - change 0 with (N.b2n false). apply sext_word_lt; auto.
  Qed.

  Lemma wide_resize_length : length (wide_resize src info dst_nb) = n.
  Proof.
    unfold wide_resize. fold src_w. fold signed. fold n.
    destruct (src_w =? 0). apply repeat_length. rewrite map_length, seq_length. reflexivity.
  Qed.

  Theorem wide_resize_bits : forall k,
    N.testbit (limbs_val (wide_resize src info dst_nb)) k =
    (k <? 64 * N.of_nat n) && resize_bit (limbs_val src) src_w sg k.
  Proof.
    intros k. rewrite testbit_limbs_val by apply wide_resize_wf.
    destruct (split64 k) as [Ek Hj]. set (i := N.to_nat (k / 64)) in *. set (j := k mod 64) in *.
    clearbody i j. subst k. rewrite (idx_lt n) by auto.
    unfold wide_resize. fold src_w. fold signed. fold n.
    destruct (src_w =? 0) eqn:E0.
    - apply N.eqb_eq in E0. rewrite rd_repeat0, N.bits_0. unfold resize_bit, sg. rewrite E0.
      replace (64 * N.of_nat i + j <? 0) with false by (symmetry; apply N.ltb_ge; lia).
      cbn. rewrite andb_false_r. cbn. rewrite andb_false_r. reflexivity.
    - apply N.eqb_neq in E0. rewrite rd_map_seq.
      destruct (i <? n)%nat; [|rewrite N.bits_0; reflexivity]. cbn [andb].
      assert (Esg : (if signed then sign_of src src_w else 0) = N.b2n sg).
      { unfold sg. destruct signed; cbn [andb]; auto.
        rewrite sign_of_spec by (auto; lia).
        replace (0 <? src_w) with true by (symmetry; apply N.ltb_lt; lia). reflexivity. }
      rewrite Esg, sext_word_spec by auto.
      unfold resize_bit. rewrite <- testbit_limbs_val_ij by auto. reflexivity.
  Qed.

  (* reads stay inside the words the source width covers: extra limbs never matter *)
  Theorem wide_resize_ignores_above : forall junk,
    (N.to_nat ((src_w + 63) / 64) <= length src)%nat ->
    wide_resize (src ++ junk) info dst_nb = wide_resize src info dst_nb.
  Proof.
    intros junk Hlen. unfold wide_resize. fold src_w. fold signed. fold n.
    destruct (src_w =? 0) eqn:E0; auto. apply N.eqb_neq in E0.
    assert (Hw : (N.to_nat ((src_w - 1) / 64) < length src)%nat).
    { assert ((src_w - 1) / 64 < (src_w + 63) / 64).
      { replace (src_w + 63) with ((src_w - 1) + 1 * 64) by lia. rewrite N.div_add by discriminate. lia. }
      lia. }
    assert (Esign : sign_of (src ++ junk) src_w = sign_of src src_w).
    { unfold sign_of, rd. rewrite app_nth1 by auto. reflexivity. }
    rewrite Esign. apply map_ext_in. intros i _.
    unfold sext_word.
    destruct (src_w <=? N.of_nat i * 64) eqn:E1; auto. apply N.leb_gt in E1.
    assert (Hi : (i < length src)%nat).
    { assert (N.of_nat i < (src_w + 63) / 64).
      { assert (N.of_nat i + 1 <= (src_w + 63) / 64) by (apply N.div_le_lower_bound; [discriminate | lia]). lia. }
      lia. }
    unfold rd. rewrite app_nth1 by auto. reflexivity.
  Qed.
End Resize.
