(* The executable shortcut of the reference evaluator: clamping a shift amount to the context
   width does not change the IEEE result. *)
From VV Require Import BV.Ops1800 Wide.ExprEval.
Open Scope N_scope.

Lemma shl_clamp_val : forall p s w, N.shiftl p s mod 2 ^ w = N.shiftl p (N.min s w) mod 2 ^ w.
Proof.
  intros p s w. destruct (N.le_gt_cases s w) as [L|L].
  - rewrite N.min_l by auto. reflexivity.
  - rewrite N.min_r by lia.
    rewrite !N.shiftl_mul_pow2.
    replace (2 ^ s) with (2 ^ (s - w) * 2 ^ w) by (rewrite <- N.pow_add_r; f_equal; lia).
    rewrite N.mul_assoc, !N.mod_mul by (apply N.pow_nonzero; discriminate). reflexivity.
Qed.

Theorem shift_clamp_shl : forall w a s, s_shl w a (Some s) = s_shl w a (Some (N.min s w)).
Proof. intros. unfold s_shl. rewrite <- !shl_clamp_val. reflexivity. Qed.

Lemma shr_clamp_val : forall x s w, x < 2 ^ w -> N.shiftr x s = N.shiftr x (N.min s w).
Proof.
  intros x s w Hx. destruct (N.le_gt_cases s w) as [L|L].
  - rewrite N.min_l by auto. reflexivity.
  - rewrite N.min_r by lia.
    assert (P : forall k, w <= k -> N.shiftr x k = 0).
    { intros k Hk. rewrite N.shiftr_div_pow2. apply N.div_small.
      eapply N.lt_le_trans; eauto. apply N.pow_le_mono_r; [discriminate | auto]. }
    rewrite (P s) by lia. rewrite (P w) by lia. reflexivity.
Qed.

Theorem shift_clamp_shr : forall w a s, s_shr w a (Some s) = s_shr w a (Some (N.min s w)).
Proof.
  intros. unfold s_shr.
  rewrite <- !(shr_clamp_val _ s w) by (apply N.mod_lt, N.pow_nonzero; discriminate). reflexivity.
Qed.

Theorem shift_clamp_ashr : forall sg w a s, s_ashr sg w a (Some s) = s_ashr sg w a (Some (N.min s w)).
Proof.
  intros. unfold s_ashr.
  rewrite <- !(shr_clamp_val _ s w) by (apply N.mod_lt, N.pow_nonzero; discriminate).
  replace (w - N.min s w) with (w - s) by lia. reflexivity.
Qed.

Theorem shift_clamp_all : forall sg w a s,
  s_shl w a (Some s) = s_shl w a (Some (N.min s w)) /\
  s_shr w a (Some s) = s_shr w a (Some (N.min s w)) /\
  s_ashr sg w a (Some s) = s_ashr sg w a (Some (N.min s w)).
Proof. intros. split; [apply shift_clamp_shl | split; [apply shift_clamp_shr | apply shift_clamp_ashr]]. Qed.
