(* Entry point of the wide_ops proofs: re-exports the proof files and restates, without the
   unused section parameters, the few theorems that picked some up. *)
From VV Require Export BV.Ops1800 Wide.WideModel Wide.WideArith Wide.WideBits Wide.WideShift Wide.WideExt
  Wide.WideCmp Wide.WideMask Wide.WideAshr Wide.WideAsym Wide.Wide1800.
Open Scope N_scope.

Theorem wide_bnot_spec' : forall n a, length a = n -> wf a ->
  limbs_val (wide_bnot n a) = N.lnot (limbs_val a) (64 * N.of_nat n).
Proof. intros n a La Ha. exact (wide_bnot_spec n a a La La Ha). Qed.

Theorem wide_lshr_is_1800' : forall n w a amount, length a = n -> wf a ->
  0 < N.of_nat n < 8192 -> 0 < w < 65536 -> w <= 64 * N.of_nat n -> limbs_val a < 2 ^ w ->
  v2 (limbs_val (wide_apply_mask (wide_lshr n a amount) (pack_nb_width (8 * N.of_nat n) w))) =
  s_shr w (v2 (limbs_val a)) (Some amount).
Proof. intros n w a amount La Ha Hn Hw Hwn Va. exact (wide_lshr_is_1800 n w a a La La Ha Hn Hw Hwn amount Va). Qed.

Theorem wide_ashr_is_1800' : forall n w a dst0 amount, length a = n -> wf a ->
  0 < N.of_nat n < 8192 -> 0 < w < 65536 -> w <= 64 * N.of_nat n -> limbs_val a < 2 ^ w ->
  v2 (limbs_val (wide_ashr dst0 a amount (pack_nb_width (8 * N.of_nat n) w))) =
  s_ashr true w (v2 (limbs_val a)) (Some amount).
Proof. intros n w a dst0 amount La Ha Hn Hw Hwn Va. exact (wide_ashr_is_1800 n w a a La La Ha Hn Hw Hwn dst0 amount Va). Qed.

Theorem wide_ucmp_is_1800' : forall n w a b fz, length a = n -> length b = n -> wf a -> wf b ->
  fz = Z.ltb \/ fz = Z.leb \/ fz = Z.gtb \/ fz = Z.geb ->
  s_rel false w (v2 (limbs_val a)) (v2 (limbs_val b)) fz = v2 (if rel_of fz (wide_ucmp n a b) then 1 else 0).
Proof. intros n w a b fz La Lb Ha Hb Hf. exact (wide_ucmp_is_1800 n w a b La Lb Ha Hb fz Hf). Qed.

Theorem wide_scmp_is_1800' : forall n w a b fz, length a = n -> length b = n -> wf a -> wf b ->
  0 < N.of_nat n < 8192 -> 0 < w < 65536 -> limbs_val a < 2 ^ w -> limbs_val b < 2 ^ w ->
  fz = Z.ltb \/ fz = Z.leb \/ fz = Z.gtb \/ fz = Z.geb ->
  s_rel true w (v2 (limbs_val a)) (v2 (limbs_val b)) fz =
  v2 (if rel_of fz (wide_scmp a b (pack_nb_width (8 * N.of_nat n) w)) then 1 else 0).
Proof. intros n w a b fz La Lb Ha Hb Hn Hw Va Vb Hf. exact (wide_scmp_is_1800 n w a b La Lb Ha Hb Hn Hw fz Hf Va Vb). Qed.

Lemma lxor_eqb' : forall x y, (N.lxor x y =? 0) = (x =? y).
Proof.
  intros. destruct (N.eqb_spec x y).
  - subst. rewrite N.lxor_nilpotent. reflexivity.
  - apply N.eqb_neq. intro E. apply N.lxor_eq in E. auto.
Qed.

Theorem wide_eq_is_1800' : forall n a b, length a = n -> length b = n -> wf a -> wf b ->
  s_eq (v2 (limbs_val a)) (v2 (limbs_val b)) = v2 (Z.to_N (wide_eq n a b)) /\
  s_ne (v2 (limbs_val a)) (v2 (limbs_val b)) = v2 (Z.to_N (wide_ne n a b)).
Proof.
  intros n a b La Lb Ha Hb. split.
  - unfold s_eq, definite_mismatch, v2. cbn [known vm vp N.eqb andb].
    rewrite !N.ldiff_0_r, lxor_eqb', (wide_eq_spec n) by auto.
    destruct (limbs_val a =? limbs_val b); reflexivity.
  - unfold s_ne, definite_mismatch, v2. cbn [known vm vp N.eqb andb].
    rewrite !N.ldiff_0_r, lxor_eqb', (wide_ne_spec n) by auto.
    destruct (limbs_val a =? limbs_val b); reflexivity.
Qed.
