(* The helpers, followed by apply_mask at the operation width w, are the IEEE 1800 operators of
   BV/Ops1800.v on 2-state operands. *)
From VV Require Import BV.Ops1800 Wide.WideModel Wide.WideArith Wide.WideBits Wide.WideShift Wide.WideExt Wide.WideCmp Wide.WideMask Wide.WideAshr.
Open Scope N_scope.

(* a 2-state vector *)
Definition v2 (x : N) : vec := mkVec x 0.

Lemma mod_Wn_mod_pow : forall n w x, w <= 64 * N.of_nat n -> (x mod Wn n) mod 2 ^ w = x mod 2 ^ w.
Proof.
  intros. apply N.bits_inj. intros k. rewrite Wn_pow2, !testbit_mod_pow2.
  destruct (N.ltb_spec k w), (N.ltb_spec k (64 * N.of_nat n)); cbn [andb]; auto; lia.
Qed.

Lemma Wn_multiple : forall n w, w <= 64 * N.of_nat n -> exists K, 0 < K /\ Wn n = 2 ^ w * K.
Proof.
  intros. exists (2 ^ (64 * N.of_nat n - w)). split.
  apply N.neq_0_lt_0, N.pow_nonzero; discriminate.
  rewrite Wn_pow2, <- N.pow_add_r. f_equal. lia.
Qed.

(* (x + (M - y)) mod 2^w for a multiple M of 2^w with y < M *)
Lemma sub_mod_multiple : forall x y w K, 0 < K -> y < 2 ^ w * K ->
  (x + (2 ^ w * K - y)) mod 2 ^ w = (x + 2 ^ w - y mod 2 ^ w) mod 2 ^ w.
Proof.
  intros x y w K HK Hy.
  assert (P : 0 < 2 ^ w) by (apply N.neq_0_lt_0, N.pow_nonzero; discriminate).
  pose proof (N.div_mod y (2 ^ w) ltac:(lia)) as E.
  pose proof (N.mod_lt y (2 ^ w) ltac:(lia)) as R.
  set (q := y / 2 ^ w) in *. set (r := y mod 2 ^ w) in *.
  assert (q < K) by nia.
  replace (x + (2 ^ w * K - y)) with ((x + 2 ^ w - r) + (K - q - 1) * 2 ^ w) by nia.
  apply N.mod_add. lia.
Qed.

Section Arith1800.
  Variables (n : nat) (w : N) (a b : list N).
  Hypothesis La : length a = n.
  Hypothesis Lb : length b = n.
  Hypothesis Ha : wf a.
  Hypothesis Hb : wf b.
  Hypothesis Hn : 0 < N.of_nat n < 8192.
  Hypothesis Hw : 0 < w < 65536.
  Hypothesis Hwn : w <= 64 * N.of_nat n.
  Let packed := pack_nb_width (8 * N.of_nat n) w.
  Let va := limbs_val a.
  Let vb := limbs_val b.

  Theorem wide_add_is_1800 :
    v2 (limbs_val (wide_apply_mask (wide_add n a b) packed)) = s_add w (v2 va) (v2 vb).
  Proof.
    unfold packed. rewrite wide_apply_mask_spec; auto using add_loop_length, add_loop_wf.
    2: apply add_loop_length. 2: apply add_loop_wf.
    rewrite wide_add_spec, mod_Wn_mod_pow by auto. reflexivity.
  Qed.

  Theorem wide_mul_is_1800 :
    v2 (limbs_val (wide_apply_mask (wide_mul n a b) packed)) = s_mul w (v2 va) (v2 vb).
  Proof.
    destruct (wide_mul_spec n a b La Lb Ha Hb) as [V [Wf L]].
    unfold packed. rewrite wide_apply_mask_spec by auto.
    rewrite V, mod_Wn_mod_pow by auto. reflexivity.
  Qed.

  Theorem wide_sub_is_1800 :
    v2 (limbs_val (wide_apply_mask (wide_sub n a b) packed)) = s_sub w (v2 va) (v2 vb).
  Proof.
    unfold packed. rewrite wide_apply_mask_spec.
    2: apply sub_loop_length. 2: apply sub_loop_wf. 2,3: auto.
    rewrite wide_sub_spec, mod_Wn_mod_pow by auto.
    destruct (Wn_multiple n w Hwn) as [K [HK EK]]. rewrite EK.
    unfold s_sub, arith, v2. cbn [known vm vp N.eqb andb]. f_equal.
    apply sub_mod_multiple; auto. rewrite <- EK.
    pose proof (limbs_val_bound _ Hb) as B. rewrite Lb in B. exact B.
  Qed.

  Theorem wide_negate_is_1800 :
    v2 (limbs_val (wide_apply_mask (wide_negate n a) packed)) = s_neg w (v2 va).
  Proof.
    unfold packed. rewrite wide_apply_mask_spec.
    2: apply neg_loop_length. 2: apply neg_loop_wf. 2,3: auto.
    rewrite wide_negate_spec, mod_Wn_mod_pow by auto.
    destruct (Wn_multiple n w Hwn) as [K [HK EK]]. rewrite EK.
    unfold s_neg, v2. cbn [known vm vp N.eqb]. f_equal.
    pose proof (limbs_val_bound _ Ha) as B. rewrite La, EK in B.
    pose proof (sub_mod_multiple 0 (limbs_val a) w K HK B) as E. rewrite !N.add_0_l in E. exact E.
  Qed.

  Theorem wide_shl_is_1800 : forall amount,
    v2 (limbs_val (wide_apply_mask (wide_shl n a amount) packed)) = s_shl w (v2 va) (Some amount).
  Proof.
    intros. destruct (wide_shl_spec n a amount La Ha) as [V [Wf L]].
    unfold packed. rewrite wide_apply_mask_spec by auto.
    rewrite V, mod_Wn_mod_pow by auto. unfold s_shl, v2. cbn [vp vm].
    rewrite N.shiftl_0_l, N.mod_0_l by (apply N.pow_nonzero; discriminate). reflexivity.
  Qed.

  Theorem wide_lshr_is_1800 : forall amount, va < 2 ^ w ->
    v2 (limbs_val (wide_apply_mask (wide_lshr n a amount) packed)) = s_shr w (v2 va) (Some amount).
  Proof.
    intros amount Va. destruct (wide_lshr_spec n a amount La Ha) as [V [Wf L]].
    unfold packed. rewrite wide_apply_mask_spec by auto.
    rewrite V. unfold s_shr, v2. cbn [vp vm]. fold va.
    rewrite (N.mod_small va) by auto.
    rewrite N.mod_0_l by (apply N.pow_nonzero; discriminate). rewrite N.shiftr_0_l.
    f_equal. apply N.mod_small.
    rewrite N.shiftr_div_pow2.
    assert (0 < 2 ^ amount) by (apply N.neq_0_lt_0, N.pow_nonzero; discriminate).
    pose proof (N.div_le_upper_bound va (2 ^ amount) va ltac:(lia)) as D.
    assert (va / 2 ^ amount <= va) by (apply D; nia). lia.
  Qed.

  Theorem wide_ashr_is_1800 : forall dst0 amount, va < 2 ^ w ->
    v2 (limbs_val (wide_ashr dst0 a amount packed)) = s_ashr true w (v2 va) (Some amount).
  Proof.
    intros dst0 amount Va. unfold packed. rewrite wide_ashr_spec by auto.
    unfold s_ashr, v2. replace (0 <? w) with true by (symmetry; apply N.ltb_lt; lia).
    cbn [andb vp vm]. rewrite N.mod_0_l by (apply N.pow_nonzero; discriminate).
    rewrite N.shiftr_0_l, N.bits_0. reflexivity.
  Qed.

  (* relational operators from the three-way comparison results *)
  Definition rel_of (fz : Z -> Z -> bool) (c : Z) : bool := fz c 0%Z.

  Lemma cmpZ_rel : forall fz x y, (fz = Z.ltb \/ fz = Z.leb \/ fz = Z.gtb \/ fz = Z.geb) ->
    fz x y = rel_of fz (cmpZ (x ?= y)%Z).
  Proof.
    intros fz x y H. unfold rel_of.
    destruct H as [H|[H|[H|H]]]; subst fz; unfold Z.ltb, Z.leb, Z.gtb, Z.geb; destruct (x ?= y)%Z; reflexivity.
  Qed.

  Theorem wide_ucmp_is_1800 : forall fz, (fz = Z.ltb \/ fz = Z.leb \/ fz = Z.gtb \/ fz = Z.geb) ->
    s_rel false w (v2 va) (v2 vb) fz = v2 (if rel_of fz (wide_ucmp n a b) then 1 else 0).
  Proof.
    intros fz Hf. unfold s_rel, v2. cbn [known vm vp N.eqb andb].
    rewrite (cmpZ_rel fz _ _ Hf), wide_ucmp_spec by auto. fold va vb.
    rewrite <- N2Z.inj_compare. destruct (rel_of _ _); reflexivity.
  Qed.

  Theorem wide_scmp_is_1800 : forall fz, (fz = Z.ltb \/ fz = Z.leb \/ fz = Z.gtb \/ fz = Z.geb) ->
    va < 2 ^ w -> vb < 2 ^ w ->
    s_rel true w (v2 va) (v2 vb) fz = v2 (if rel_of fz (wide_scmp a b packed) then 1 else 0).
  Proof.
    intros fz Hf Va Vb. unfold s_rel, v2. cbn [known vm vp N.eqb andb].
    unfold packed. rewrite (cmpZ_rel fz _ _ Hf), (wide_scmp_spec n) by auto.
    destruct (rel_of _ _); reflexivity.
  Qed.

  Lemma lxor_eqb : forall x y, (N.lxor x y =? 0) = (x =? y).
  Proof.
    intros. destruct (N.eqb_spec x y).
    - subst. rewrite N.lxor_nilpotent. reflexivity.
    - apply N.eqb_neq. intro E. apply N.lxor_eq in E. auto.
  Qed.

  Theorem wide_eq_is_1800 : s_eq (v2 va) (v2 vb) = v2 (Z.to_N (wide_eq n a b)).
  Proof.
    unfold s_eq, definite_mismatch, v2. cbn [known vm vp N.eqb andb].
    rewrite !N.ldiff_0_r, lxor_eqb, wide_eq_spec by auto. fold va vb.
    destruct (va =? vb); reflexivity.
  Qed.
  Theorem wide_ne_is_1800 : s_ne (v2 va) (v2 vb) = v2 (Z.to_N (wide_ne n a b)).
  Proof.
    unfold s_ne, definite_mismatch, v2. cbn [known vm vp N.eqb andb].
    rewrite !N.ldiff_0_r, lxor_eqb, wide_ne_spec by auto. fold va vb.
    destruct (va =? vb); reflexivity.
  Qed.

  Theorem wide_is_nonzero_is_truth :
    truth (v2 va) = if (wide_is_nonzero n a =? 1)%Z then TT else TF.
  Proof.
    unfold truth, v2. cbn [vm vp N.eqb]. rewrite N.ldiff_0_r, wide_is_nonzero_spec by auto. fold va.
    destruct (va =? 0); reflexivity.
  Qed.
End Arith1800.

(* ------------------------------------------------------------------ bitwise operators *)
Lemma of_bits_nat_bits : forall f k i,
  N.testbit (vp (of_bits_nat f k)) i = (i <? N.of_nat k) && pbit (f i) /\
  N.testbit (vm (of_bits_nat f k)) i = (i <? N.of_nat k) && mbit (f i).
Proof.
  induction k; intros i.
  - cbn [of_bits_nat vp vm]. rewrite N.bits_0. split; symmetry; apply andb_false_intro1; apply N.ltb_ge; lia.
  - cbn [of_bits_nat vp vm]. destruct (IHk i) as [IP IM].
    assert (Hc : (i <? N.of_nat (S k)) = (N.of_nat k =? i) || (i <? N.of_nat k)).
    { destruct (N.ltb_spec i (N.of_nat (S k))), (N.eqb_spec (N.of_nat k) i), (N.ltb_spec i (N.of_nat k)); cbn [orb]; auto; lia. }
    split.
    + destruct (pbit (f (N.of_nat k))) eqn:E.
      * rewrite N.setbit_eqb, IP, Hc. destruct (N.eqb_spec (N.of_nat k) i); cbn [orb andb]; auto.
        subst i. rewrite E. reflexivity.
      * rewrite IP, Hc. destruct (N.eqb_spec (N.of_nat k) i); cbn [orb andb]; auto.
        subst i. rewrite E. replace (N.of_nat k <? N.of_nat k) with false by (symmetry; apply N.ltb_irrefl). reflexivity.
    + destruct (mbit (f (N.of_nat k))) eqn:E.
      * rewrite N.setbit_eqb, IM, Hc. destruct (N.eqb_spec (N.of_nat k) i); cbn [orb andb]; auto.
        subst i. rewrite E. reflexivity.
      * rewrite IM, Hc. destruct (N.eqb_spec (N.of_nat k) i); cbn [orb andb]; auto.
        subst i. rewrite E. replace (N.of_nat k <? N.of_nat k) with false by (symmetry; apply N.ltb_irrefl). reflexivity.
Qed.

Lemma getbit_v2 : forall x i, getbit (v2 x) i = if N.testbit x i then B1 else B0.
Proof. intros. unfold getbit, v2. cbn [vm vp]. rewrite N.bits_0. reflexivity. Qed.

(* a bitwise operator of Ops1800 on 2-state vectors, from its action on booleans *)
Lemma lift2_v2 : forall (f4 : bit4 -> bit4 -> bit4) (fb : bool -> bool -> bool) (g : N -> N -> N) w x y,
  (forall p q : bool, f4 (if p then B1 else B0) (if q then B1 else B0) = if fb p q then B1 else B0) ->
  (forall k, k < w -> N.testbit (g x y) k = fb (N.testbit x k) (N.testbit y k)) ->
  lift2 f4 w (v2 x) (v2 y) = v2 (g x y mod 2 ^ w).
Proof.
  intros f4 fb g w x y Hf Hg. unfold lift2, of_bits.
  set (F := fun i => f4 (getbit (v2 x) i) (getbit (v2 y) i)).
  pose proof (of_bits_nat_bits F (N.to_nat w)) as B. rewrite N2Nat.id in B.
  destruct (of_bits_nat F (N.to_nat w)) as [P M] eqn:EV. cbn [vp vm] in B. unfold v2. f_equal.
  - apply N.bits_inj. intros k. destruct (B k) as [BP _]. rewrite BP, testbit_mod_pow2.
    destruct (N.ltb_spec k w); cbn [andb]; auto.
    unfold F. rewrite !getbit_v2, Hf, Hg by auto. destruct (fb _ _); reflexivity.
  - apply N.bits_inj. intros k. destruct (B k) as [_ BM]. rewrite BM, N.bits_0.
    unfold F. rewrite !getbit_v2, Hf. destruct (fb _ _); apply andb_false_r.
Qed.

Section Bitwise1800.
  Variables (n : nat) (w : N) (a b : list N).
  Hypothesis La : length a = n.
  Hypothesis Lb : length b = n.
  Hypothesis Ha : wf a.
  Hypothesis Hb : wf b.
  Hypothesis Hn : 0 < N.of_nat n < 8192.
  Hypothesis Hw : 0 < w < 65536.
  Hypothesis Hwn : w <= 64 * N.of_nat n.
  Let packed := pack_nb_width (8 * N.of_nat n) w.
  Let va := limbs_val a.
  Let vb := limbs_val b.

  Theorem wide_band_is_1800 :
    v2 (limbs_val (wide_apply_mask (wide_band n a b) packed)) = s_and w (v2 va) (v2 vb).
  Proof.
    unfold packed. rewrite wide_apply_mask_spec; auto.
    2: apply map2n_length. 2: apply wf_map2n; auto using land_lt_W.
    rewrite wide_band_spec by auto. symmetry. apply (lift2_v2 and4 andb N.land).
    - intros [|] [|]; reflexivity.
    - intros. apply N.land_spec.
  Qed.
  Theorem wide_bor_is_1800 :
    v2 (limbs_val (wide_apply_mask (wide_bor n a b) packed)) = s_or w (v2 va) (v2 vb).
  Proof.
    unfold packed. rewrite wide_apply_mask_spec; auto.
    2: apply map2n_length. 2: apply wf_map2n; auto using lor_lt_W.
    rewrite wide_bor_spec by auto. symmetry. apply (lift2_v2 or4 orb N.lor).
    - intros [|] [|]; reflexivity.
    - intros. apply N.lor_spec.
  Qed.
  Theorem wide_bxor_is_1800 :
    v2 (limbs_val (wide_apply_mask (wide_bxor n a b) packed)) = s_xor w (v2 va) (v2 vb).
  Proof.
    unfold packed. rewrite wide_apply_mask_spec; auto.
    2: apply map2n_length. 2: apply wf_map2n; auto using lxor_lt_W.
    rewrite wide_bxor_spec by auto. symmetry. apply (lift2_v2 xor4 xorb N.lxor).
    - intros [|] [|]; reflexivity.
    - intros. apply N.lxor_spec.
  Qed.
  Theorem wide_bxor_not_is_1800 :
    v2 (limbs_val (wide_apply_mask (wide_bxor_not n a b) packed)) = s_xnor w (v2 va) (v2 vb).
  Proof.
    unfold packed. rewrite wide_apply_mask_spec; auto.
    2: apply map2n_length. 2: (apply wf_map2n; auto; intros; apply not64_lt, lxor_lt_W; auto).
    rewrite wide_bxor_not_spec by auto. symmetry.
    apply (lift2_v2 xnor4 (fun p q => negb (xorb p q)) (fun x y => N.lnot (N.lxor x y) (64 * N.of_nat n))).
    - intros [|] [|]; reflexivity.
    - intros k Hk. rewrite lnot_bits, N.lxor_spec.
      replace (k <? 64 * N.of_nat n) with true by (symmetry; apply N.ltb_lt; lia).
      rewrite xorb_true_r. reflexivity.
  Qed.
End Bitwise1800.
