(* Arithmetic shift right (lshr + sign fill loop). *)
From VV Require Import BV.Ops1800 Wide.WideModel Wide.WideArith Wide.WideBits Wide.WideShift Wide.WideExt Wide.WideCmp Wide.WideMask.
Open Scope N_scope.

Lemma pow2_bit : forall b j, N.testbit (N.shiftl 1 b) j = (j =? b).
Proof.
  intros. rewrite N.shiftl_1_l, N.pow2_bits_eqb. apply N.eqb_sym.
Qed.

Lemma shiftl1_lt_W : forall b, b < 64 -> N.shiftl 1 b < W.
Proof.
  intros. apply bits_high_lt_W. intros j Hj. rewrite pow2_bit. apply N.eqb_neq. lia.
Qed.

Lemma set_bit_length : forall n d bp, length (set_bit n d bp) = length d.
Proof. intros. unfold set_bit. destruct (_ <? _)%nat; auto. apply upd_length. Qed.

Lemma set_bit_wf : forall n d bp, wf d -> wf (set_bit n d bp).
Proof.
  intros. unfold set_bit. destruct (_ <? _)%nat; auto. apply wf_upd; auto.
  apply lor_lt_W. apply rd_wf; auto. apply shiftl1_lt_W.
  pose proof (Nat.mod_upper_bound bp 64). lia.
Qed.

Lemma fold_set_bit_length : forall n cnt s d, length (fold_left (set_bit n) (seq s cnt) d) = length d.
Proof. induction cnt; intros; simpl; auto. rewrite IHcnt, set_bit_length. reflexivity. Qed.
Lemma fold_set_bit_wf : forall n cnt s d, wf d -> wf (fold_left (set_bit n) (seq s cnt) d).
Proof. induction cnt; intros; simpl; auto. apply IHcnt, set_bit_wf; auto. Qed.

Lemma nat_divmod64 : forall bp i j, j < 64 -> N.of_nat bp = 64 * N.of_nat i + j ->
  (bp / 64)%nat = i /\ N.of_nat (bp mod 64) = j.
Proof.
  intros bp i j Hj E.
  assert (bp = 64 * i + N.to_nat j)%nat by lia.
  assert (N.to_nat j < 64)%nat by lia.
  split.
  - subst bp. rewrite Nat.mul_comm, Nat.div_add_l by lia. rewrite Nat.div_small by lia. lia.
  - subst bp. rewrite Nat.add_comm, Nat.mul_comm, Nat.mod_add by lia. rewrite Nat.mod_small by lia. lia.
Qed.

(* effect of one set_bit on bit (i, j) *)
Lemma set_bit_spec : forall n d bp i j, j < 64 -> (i < length d)%nat -> length d = n ->
  N.testbit (rd (set_bit n d bp) i) j =
  N.testbit (rd d i) j || (N.of_nat bp =? 64 * N.of_nat i + j).
Proof.
  intros n d bp i j Hj Hi Ln. unfold set_bit.
  destruct (Nat.ltb_spec (bp / 64) n) as [Hw|Hw].
  - rewrite rd_upd.
    destruct (Nat.eqb_spec i (bp / 64)) as [E|E], (Nat.ltb_spec (bp / 64) (length d)); cbn [andb]; try lia.
    + rewrite N.lor_spec, pow2_bit, <- E. f_equal.
      destruct (N.eqb_spec j (N.of_nat (bp mod 64))) as [E2|E2], (N.eqb_spec (N.of_nat bp) (64 * N.of_nat i + j)) as [E3|E3]; auto.
      * exfalso. apply E3. pose proof (Nat.div_mod bp 64). lia.
      * exfalso. apply E2. destruct (nat_divmod64 bp i j Hj E3). lia.
    + destruct (N.eqb_spec (N.of_nat bp) (64 * N.of_nat i + j)) as [E3|E3]; [|rewrite orb_false_r; reflexivity].
      exfalso. destruct (nat_divmod64 bp i j Hj E3). lia.
  - destruct (N.eqb_spec (N.of_nat bp) (64 * N.of_nat i + j)) as [E3|E3]; [|rewrite orb_false_r; reflexivity].
    exfalso. destruct (nat_divmod64 bp i j Hj E3). lia.
Qed.

Lemma fold_set_bit_spec : forall n cnt s d i j, j < 64 -> (i < length d)%nat -> length d = n ->
  N.testbit (rd (fold_left (set_bit n) (seq s cnt) d) i) j =
  N.testbit (rd d i) j || ((N.of_nat s <=? 64 * N.of_nat i + j) && (64 * N.of_nat i + j <? N.of_nat (s + cnt))).
Proof.
  induction cnt; intros s d i j Hj Hi Ln.
  - cbn [seq fold_left]. replace ((N.of_nat s <=? 64 * N.of_nat i + j) && (64 * N.of_nat i + j <? N.of_nat (s + 0))) with false.
    rewrite orb_false_r. reflexivity.
    symmetry. destruct (N.leb_spec (N.of_nat s) (64 * N.of_nat i + j)), (N.ltb_spec (64 * N.of_nat i + j) (N.of_nat (s + 0))); auto; lia.
  - cbn [seq fold_left]. rewrite IHcnt by (rewrite ?set_bit_length; auto).
    rewrite set_bit_spec by auto. rewrite <- orb_assoc. f_equal.
    destruct (N.eqb_spec (N.of_nat s) (64 * N.of_nat i + j)),
      (N.leb_spec (N.of_nat (S s)) (64 * N.of_nat i + j)), (N.ltb_spec (64 * N.of_nat i + j) (N.of_nat (S s + cnt))),
      (N.leb_spec (N.of_nat s) (64 * N.of_nat i + j)), (N.ltb_spec (64 * N.of_nat i + j) (N.of_nat (s + S cnt)));
      cbn [andb orb]; auto; lia.
Qed.

(* bits of the sign fill of Ops1800.s_ashr: ones w - ones (w - s) covers [w - s, w) *)
Lemma ones_diff_bits : forall w lo k, lo <= w ->
  N.testbit (N.ones w - N.ones lo) k = (lo <=? k) && (k <? w).
Proof.
  intros w lo k H.
  assert (E : N.ones w - N.ones lo = N.shiftl (N.ones (w - lo)) lo).
  { rewrite N.shiftl_mul_pow2, !N.ones_equiv, !N.pred_sub.
    assert (0 < 2 ^ lo) by (apply N.neq_0_lt_0, N.pow_nonzero; discriminate).
    assert (0 < 2 ^ (w - lo)) by (apply N.neq_0_lt_0, N.pow_nonzero; discriminate).
    assert (2 ^ w = 2 ^ (w - lo) * 2 ^ lo) by (rewrite <- N.pow_add_r; f_equal; lia).
    nia. }
  rewrite E, testbit_shiftl, ones_bits.
  destruct (N.leb_spec lo k), (N.ltb_spec (k - lo) (w - lo)), (N.ltb_spec k w); cbn [andb]; auto; lia.
Qed.

Lemma ones_eq : forall w, ones w = N.ones w.
Proof. intros. unfold ones. rewrite N.ones_equiv, N.pred_sub. reflexivity. Qed.

Section Ashr.
  Variables (n : nat) (w : N) (a dst0 : list N) (amount : N).
  Hypothesis La : length a = n.
  Hypothesis Ha : wf a.
  Hypothesis Hn : 0 < N.of_nat n < 8192.
  Hypothesis Hw : 0 < w < 65536.
  Hypothesis Hwn : w <= 64 * N.of_nat n.
  Hypothesis Va : limbs_val a < 2 ^ w.
  Let packed := pack_nb_width (8 * N.of_nat n) w.

  Lemma wide_ashr_wf_len : wf (wide_ashr dst0 a amount packed) /\ length (wide_ashr dst0 a amount packed) = n.
  Proof.
    unfold wide_ashr, packed. destruct (unpack_pack (8 * N.of_nat n) w ltac:(lia) ltac:(lia)) as [-> ->].
    replace (w =? 0) with false by (symmetry; apply N.eqb_neq; lia).
    replace (8 * N.of_nat n =? 0) with false by (symmetry; apply N.eqb_neq; lia).
    cbn [orb]. rewrite nw_8n.
    destruct (wide_lshr_spec n a amount La Ha) as [_ [Wl Ll]].
    destruct (_ && _).
    - split. apply fold_set_bit_wf; auto. rewrite fold_set_bit_length; auto.
    - auto.
  Qed.

  (* the IEEE arithmetic shift of the w-bit signed value *)
  Theorem wide_ashr_spec :
    limbs_val (wide_ashr dst0 a amount packed) = vp (s_ashr true w (mkVec (limbs_val a) 0) (Some amount)).
  Proof.
    apply limbs_val_ext. apply wide_ashr_wf_len.
    intros i j Hj.
    unfold s_ashr. replace (0 <? w) with true by (symmetry; apply N.ltb_lt; lia). cbn [andb vp].
    rewrite (N.mod_small _ _ Va).
    unfold wide_ashr, packed. destruct (unpack_pack (8 * N.of_nat n) w ltac:(lia) ltac:(lia)) as [-> ->].
    replace (w =? 0) with false by (symmetry; apply N.eqb_neq; lia).
    replace (8 * N.of_nat n =? 0) with false by (symmetry; apply N.eqb_neq; lia).
    cbn [orb]. rewrite nw_8n, sign_of_spec, b2n_eqb_1 by (auto; lia).
    destruct (wide_lshr_spec n a amount La Ha) as [Vl [Wl Ll]].
    assert (Bl : N.testbit (rd (wide_lshr n a amount) i) j = N.testbit (limbs_val a) (64 * N.of_nat i + j + amount)).
    { rewrite <- testbit_limbs_val_ij by auto. rewrite Vl. apply N.shiftr_spec'. }
    assert (Hhigh : forall k, w <= k -> N.testbit (limbs_val a) k = false).
    { intros k Hk. rewrite <- (N.mod_small _ _ Va), testbit_mod_pow2.
      replace (k <? w) with false by (symmetry; apply N.ltb_ge; lia). reflexivity. }
    destruct (N.testbit (limbs_val a) (w - 1)) eqn:Es; cbn [andb].
    2:{ rewrite Bl, N.shiftr_spec'. reflexivity. }
    destruct (0 <? amount) eqn:E0; [apply N.ltb_lt in E0 | apply N.ltb_ge in E0].
    2:{ assert (amount = 0) by lia. subst amount.
        rewrite Bl, N.lor_spec, N.shiftr_spec', N.sub_0_r, N.sub_diag, N.bits_0, orb_false_r. reflexivity. }
    rewrite !ones_eq, N.lor_spec, N.shiftr_spec', ones_diff_bits by lia.
    destruct (Nat.ltb_spec i n) as [Hi|Hi].
    - rewrite fold_set_bit_spec by (auto; lia). rewrite Bl. f_equal.
      destruct (w <=? amount) eqn:E1; [apply N.leb_le in E1 | apply N.leb_gt in E1].
      + replace (w - amount) with 0 by lia. rewrite N.sub_0_r.
        replace (N.of_nat (N.to_nat 0)) with 0 by reflexivity.
        replace (N.of_nat (N.to_nat 0 + N.to_nat w)) with w by lia. reflexivity.
      + replace (N.of_nat (N.to_nat (w - amount))) with (w - amount) by lia.
        replace (N.of_nat (N.to_nat (w - amount) + N.to_nat (w - (w - amount)))) with w by lia. reflexivity.
    - rewrite rd_beyond by (rewrite fold_set_bit_length; lia).
      rewrite N.bits_0, Hhigh by lia.
      replace (64 * N.of_nat i + j <? w) with false by (symmetry; apply N.ltb_ge; lia).
      rewrite andb_false_r. reflexivity.
  Qed.
End Ashr.
