(* Bit-level facts about limb lists and the proofs of the bitwise / shift / resize / mask helpers. *)
From VV Require Import BV.Ops1800 Wide.WideModel Wide.WideArith.
Open Scope N_scope.

Lemma lt_W_bits_high : forall x j, x < W -> 64 <= j -> N.testbit x j = false.
Proof.
  intros x j Hx Hj. rewrite <- (N.mod_small x W Hx). rewrite W_eq.
  apply N.mod_pow2_bits_high. exact Hj.
Qed.

Lemma bits_high_lt_W : forall x, (forall j, 64 <= j -> N.testbit x j = false) -> x < W.
Proof.
  intros x H. rewrite W_eq.
  destruct (N.eq_dec x 0) as [->|Hn]. reflexivity.
  apply N.log2_lt_pow2; [lia|].
  destruct (N.lt_ge_cases (N.log2 x) 64) as [L|L]; auto.
  pose proof (N.bit_log2 x Hn) as B. rewrite (H _ L) in B. discriminate.
Qed.

Lemma limb_cons_lor : forall x v, x < W -> x + W * v = N.lxor x (N.shiftl v 64).
Proof.
  intros x v Hx. rewrite N.shiftl_mul_pow2, <- W_eq, (N.mul_comm v W).
  apply N.add_nocarry_lxor. apply N.bits_inj. intros k.
  rewrite N.land_spec, N.bits_0.
  destruct (N.lt_ge_cases k 64) as [L|L].
  - rewrite N.mul_comm, W_eq, N.mul_pow2_bits_low by auto. apply andb_false_r.
  - rewrite lt_W_bits_high by auto. reflexivity.
Qed.

Lemma rd_nil : forall i, rd [] i = 0.
Proof. intros [|i]; reflexivity. Qed.

Lemma testbit_limbs_val_ij : forall l i j, wf l -> j < 64 ->
  N.testbit (limbs_val l) (64 * N.of_nat i + j) = N.testbit (rd l i) j.
Proof.
  induction l as [|x l IH]; intros i j Hl Hj.
  - rewrite rd_nil. reflexivity.
  - apply wf_cons in Hl. destruct Hl as [Hx Hl].
    rewrite limbs_val_cons, limb_cons_lor by auto. rewrite N.lxor_spec.
    destruct i as [|i].
    + simpl N.of_nat. rewrite N.mul_0_r, N.add_0_l. unfold rd; simpl nth.
      rewrite N.shiftl_spec_low by auto. apply xorb_false_r.
    + rewrite Nat2N.inj_succ.
      replace (64 * N.succ (N.of_nat i) + j) with ((64 * N.of_nat i + j) + 64) by lia.
      rewrite lt_W_bits_high by (auto; lia).
      rewrite N.shiftl_spec_high' by lia.
      replace (64 * N.of_nat i + j + 64 - 64) with (64 * N.of_nat i + j) by lia.
      rewrite IH by auto. rewrite xorb_false_l. reflexivity.
Qed.

Lemma split64 : forall k, k = 64 * N.of_nat (N.to_nat (k / 64)) + k mod 64 /\ k mod 64 < 64.
Proof.
  intros k. rewrite N2Nat.id. split. apply N.div_mod. discriminate. apply N.mod_lt. discriminate.
Qed.

Lemma testbit_limbs_val : forall l k, wf l ->
  N.testbit (limbs_val l) k = N.testbit (rd l (N.to_nat (k / 64))) (k mod 64).
Proof.
  intros l k Hl. destruct (split64 k) as [E L]. rewrite E at 1. apply testbit_limbs_val_ij; auto.
Qed.

(* extensionality: a wf limb list whose limbs carry the bits of v has value v *)
Lemma limbs_val_ext : forall l v, wf l ->
  (forall i j, j < 64 -> N.testbit (rd l i) j = N.testbit v (64 * N.of_nat i + j)) ->
  limbs_val l = v.
Proof.
  intros l v Hl H. apply N.bits_inj. intros k.
  destruct (split64 k) as [E L]. rewrite E. rewrite testbit_limbs_val_ij by auto. apply H; auto.
Qed.

Lemma rd_beyond : forall l i, (length l <= i)%nat -> rd l i = 0.
Proof. intros. unfold rd. apply nth_overflow. auto. Qed.

Lemma rd_wf : forall l i, wf l -> rd l i < W.
Proof.
  intros l i Hl. unfold rd. destruct (Nat.lt_ge_cases i (length l)) as [L|L].
  - unfold wf in Hl. rewrite Forall_forall in Hl. apply Hl. apply nth_In. auto.
  - rewrite nth_overflow by auto. reflexivity.
Qed.

Lemma rd_cons_S : forall x l i, rd (x :: l) (S i) = rd l i. Proof. reflexivity. Qed.
Lemma rd_cons_0 : forall x l, rd (x :: l) 0 = x. Proof. reflexivity. Qed.
Lemma rd_hd_tl : forall l i, rd l (S i) = rd (tl l) i.
Proof. intros [|x l] i. rewrite rd_nil. simpl. rewrite rd_nil. reflexivity. reflexivity. Qed.
Lemma rd_0_hd : forall l, rd l 0 = hd 0 l.
Proof. intros [|x l]; reflexivity. Qed.

Lemma rd_map2n : forall f n a b i, rd (map2n f n a b) i = if (i <? n)%nat then f (rd a i) (rd b i) else 0.
Proof.
  induction n; intros a b i.
  - simpl. apply rd_nil.
  - destruct i as [|i]; cbn [map2n].
    + rewrite rd_cons_0, !rd_0_hd. reflexivity.
    + rewrite rd_cons_S, IHn, <- !rd_hd_tl. reflexivity.
Qed.
Lemma rd_map1n : forall f n a i, rd (map1n f n a) i = if (i <? n)%nat then f (rd a i) else 0.
Proof.
  induction n; intros a i.
  - simpl. apply rd_nil.
  - destruct i as [|i]; cbn [map1n].
    + rewrite rd_cons_0, !rd_0_hd. reflexivity.
    + rewrite rd_cons_S, IHn, <- !rd_hd_tl. reflexivity.
Qed.
Lemma rd_map_seq : forall (f : nat -> N) n i, rd (map f (seq 0 n)) i = if (i <? n)%nat then f i else 0.
Proof.
  intros f n i. unfold rd. destruct (i <? n)%nat eqn:E.
  - apply Nat.ltb_lt in E.
    rewrite nth_indep with (d' := f 0%nat) by (rewrite map_length, seq_length; auto).
    rewrite map_nth, seq_nth by auto. reflexivity.
  - apply Nat.ltb_ge in E. apply nth_overflow. rewrite map_length, seq_length. auto.
Qed.
Lemma rd_repeat0 : forall n i, rd (repeat 0 n) i = 0.
Proof. induction n; intros [|i]; simpl; auto. apply IHn. Qed.

Lemma wf_forall_rd : forall l, (forall i, rd l i < W) -> wf l.
Proof.
  induction l; intros H. apply wf_nil. apply wf_cons. split. apply (H 0%nat).
  apply IHl. intros i. apply (H (S i)).
Qed.

Lemma wf_map2n : forall f n a b, (forall x y, x < W -> y < W -> f x y < W) -> wf a -> wf b -> wf (map2n f n a b).
Proof.
  intros f n a b Hf Ha Hb. apply wf_forall_rd. intros i. rewrite rd_map2n.
  destruct (i <? n)%nat. apply Hf; apply rd_wf; auto. reflexivity.
Qed.
Lemma wf_map1n : forall f n a, (forall x, x < W -> f x < W) -> wf a -> wf (map1n f n a).
Proof.
  intros f n a Hf Ha. apply wf_forall_rd. intros i. rewrite rd_map1n.
  destruct (i <? n)%nat. apply Hf; apply rd_wf; auto. reflexivity.
Qed.

Lemma land_lt_W : forall x y, x < W -> y < W -> N.land x y < W.
Proof. intros. apply bits_high_lt_W. intros j Hj. rewrite N.land_spec, lt_W_bits_high by auto. reflexivity. Qed.
Lemma lor_lt_W : forall x y, x < W -> y < W -> N.lor x y < W.
Proof. intros. apply bits_high_lt_W. intros j Hj. rewrite N.lor_spec, !lt_W_bits_high by auto. reflexivity. Qed.
Lemma lxor_lt_W : forall x y, x < W -> y < W -> N.lxor x y < W.
Proof. intros. apply bits_high_lt_W. intros j Hj. rewrite N.lxor_spec, !lt_W_bits_high by auto. reflexivity. Qed.

Lemma not64_spec : forall x j, x < W -> N.testbit (not64 x) j = (j <? 64) && negb (N.testbit x j).
Proof.
  intros x j Hx. unfold not64. destruct (j <? 64) eqn:E.
  - apply N.ltb_lt in E. rewrite N.lnot_spec_low by auto. reflexivity.
  - apply N.ltb_ge in E. rewrite N.lnot_spec_high by auto. apply lt_W_bits_high; auto.
Qed.

Lemma idx_lt : forall n i j, j < 64 -> (64 * N.of_nat i + j <? 64 * N.of_nat n) = (i <? n)%nat.
Proof.
  intros n i j Hj. destruct (i <? n)%nat eqn:E.
  - apply Nat.ltb_lt in E. apply N.ltb_lt. lia.
  - apply Nat.ltb_ge in E. apply N.ltb_ge. lia.
Qed.

Lemma lnot_bits : forall v k m, N.testbit (N.lnot v m) k = xorb (N.testbit v k) (k <? m).
Proof.
  intros. unfold N.lnot. rewrite N.lxor_spec. f_equal.
  destruct (k <? m) eqn:E. apply N.ltb_lt in E. apply N.ones_spec_low; auto.
  apply N.ltb_ge in E. apply N.ones_spec_high; auto.
Qed.

(* when every limb index beyond n reads 0 in a and b (length = n) *)
Section Elementwise.
  Variables (n : nat) (a b : list N).
  Hypothesis La : length a = n.
  Hypothesis Lb : length b = n.
  Hypothesis Ha : wf a.
  Hypothesis Hb : wf b.

  Lemma bit_of_a : forall i j, j < 64 -> N.testbit (limbs_val a) (64 * N.of_nat i + j) = N.testbit (rd a i) j.
  Proof. intros. apply testbit_limbs_val_ij; auto. Qed.
  Lemma bit_of_b : forall i j, j < 64 -> N.testbit (limbs_val b) (64 * N.of_nat i + j) = N.testbit (rd b i) j.
  Proof. intros. apply testbit_limbs_val_ij; auto. Qed.

  Theorem wide_band_spec : limbs_val (wide_band n a b) = N.land (limbs_val a) (limbs_val b).
  Proof.
    apply limbs_val_ext. apply wf_map2n; auto using land_lt_W.
    intros i j Hj. unfold wide_band. rewrite rd_map2n, N.land_spec, bit_of_a, bit_of_b by auto.
    destruct (i <? n)%nat eqn:E. apply N.land_spec.
    apply Nat.ltb_ge in E. rewrite (rd_beyond a) by lia. reflexivity.
  Qed.
  Theorem wide_bor_spec : limbs_val (wide_bor n a b) = N.lor (limbs_val a) (limbs_val b).
  Proof.
    apply limbs_val_ext. apply wf_map2n; auto using lor_lt_W.
    intros i j Hj. unfold wide_bor. rewrite rd_map2n, N.lor_spec, bit_of_a, bit_of_b by auto.
    destruct (i <? n)%nat eqn:E. apply N.lor_spec.
    apply Nat.ltb_ge in E. rewrite (rd_beyond a), (rd_beyond b) by lia. reflexivity.
  Qed.
  Theorem wide_bxor_spec : limbs_val (wide_bxor n a b) = N.lxor (limbs_val a) (limbs_val b).
  Proof.
    apply limbs_val_ext. apply wf_map2n; auto using lxor_lt_W.
    intros i j Hj. unfold wide_bxor. rewrite rd_map2n, N.lxor_spec, bit_of_a, bit_of_b by auto.
    destruct (i <? n)%nat eqn:E. apply N.lxor_spec.
    apply Nat.ltb_ge in E. rewrite (rd_beyond a), (rd_beyond b) by lia. reflexivity.
  Qed.

  (* ~(a ^ b) over the 64n bits of the buffer *)
  Theorem wide_bxor_not_spec :
    limbs_val (wide_bxor_not n a b) = N.lnot (N.lxor (limbs_val a) (limbs_val b)) (64 * N.of_nat n).
  Proof.
    apply limbs_val_ext. apply wf_map2n; auto. intros. apply not64_lt, lxor_lt_W; auto.
    intros i j Hj. unfold wide_bxor_not. rewrite rd_map2n, lnot_bits, N.lxor_spec, bit_of_a, bit_of_b, (idx_lt n) by auto.
    destruct (i <? n)%nat eqn:E.
    - rewrite not64_spec by (apply lxor_lt_W; apply rd_wf; auto).
      apply N.ltb_lt in Hj. rewrite Hj, N.lxor_spec. simpl. rewrite xorb_true_r. reflexivity.
    - apply Nat.ltb_ge in E. rewrite (rd_beyond a), (rd_beyond b) by lia. reflexivity.
  Qed.
  Theorem wide_band_not_spec : limbs_val (wide_band_not n a b) = N.ldiff (limbs_val a) (limbs_val b).
  Proof.
    apply limbs_val_ext. apply wf_map2n; auto. intros. apply land_lt_W; auto using not64_lt.
    intros i j Hj. unfold wide_band_not. rewrite rd_map2n, N.ldiff_spec, bit_of_a, bit_of_b by auto.
    destruct (i <? n)%nat eqn:E.
    - rewrite N.land_spec, not64_spec by (apply rd_wf; auto). apply N.ltb_lt in Hj. rewrite Hj. reflexivity.
    - apply Nat.ltb_ge in E. rewrite (rd_beyond a) by lia. reflexivity.
  Qed.
  Theorem wide_bnot_spec : limbs_val (wide_bnot n a) = N.lnot (limbs_val a) (64 * N.of_nat n).
  Proof.
    apply limbs_val_ext. apply wf_map1n; auto using not64_lt.
    intros i j Hj. unfold wide_bnot. rewrite rd_map1n, lnot_bits, bit_of_a, (idx_lt n) by auto.
    destruct (i <? n)%nat eqn:E.
    - rewrite not64_spec by (apply rd_wf; auto). apply N.ltb_lt in Hj. rewrite Hj. simpl. rewrite xorb_true_r. reflexivity.
    - apply Nat.ltb_ge in E. rewrite (rd_beyond a) by lia. reflexivity.
  Qed.
  Theorem wide_copy_spec : wide_copy n a = a.
  Proof. apply map1n_id; auto. Qed.
End Elementwise.
