(* Shifts, resize / sign extension, comparisons, masks. *)
From VV Require Import BV.Ops1800 Wide.WideModel Wide.WideArith Wide.WideBits.
Open Scope N_scope.

Lemma shl64_spec : forall x s j, N.testbit (shl64 x s) j = (j <? 64) && (s <=? j) && N.testbit x (j - s).
Proof.
  intros. unfold shl64. rewrite W_eq.
  destruct (j <? 64) eqn:E.
  - apply N.ltb_lt in E. rewrite N.mod_pow2_bits_low by auto.
    destruct (s <=? j) eqn:E2.
    + apply N.leb_le in E2. rewrite N.shiftl_spec_high' by auto. reflexivity.
    + apply N.leb_gt in E2. rewrite N.shiftl_spec_low by auto. reflexivity.
  - apply N.ltb_ge in E. rewrite N.mod_pow2_bits_high by auto. reflexivity.
Qed.
Lemma shl64_lt : forall x s, shl64 x s < W.
Proof. intros. apply mod_W_lt. Qed.

Lemma shiftr_lt_W : forall x s, x < W -> N.shiftr x s < W.
Proof.
  intros. apply bits_high_lt_W. intros j Hj. rewrite N.shiftr_spec'. apply lt_W_bits_high; auto. lia.
Qed.

Lemma testbit_mod_pow2 : forall v m k, N.testbit (v mod 2 ^ m) k = (k <? m) && N.testbit v k.
Proof.
  intros. destruct (k <? m) eqn:E.
  - apply N.ltb_lt in E. apply N.mod_pow2_bits_low; auto.
  - apply N.ltb_ge in E. apply N.mod_pow2_bits_high; auto.
Qed.
Lemma testbit_shiftl : forall v s k, N.testbit (N.shiftl v s) k = (s <=? k) && N.testbit v (k - s).
Proof.
  intros. destruct (s <=? k) eqn:E.
  - apply N.leb_le in E. apply N.shiftl_spec_high'; auto.
  - apply N.leb_gt in E. apply N.shiftl_spec_low; auto.
Qed.

Lemma divmod64 : forall amount, exists ws bs, amount / 64 = ws /\ amount mod 64 = bs /\ amount = 64 * ws + bs /\ bs < 64.
Proof.
  intros. exists (amount / 64), (amount mod 64). repeat split.
  apply N.div_mod. discriminate. apply N.mod_lt. discriminate.
Qed.

Theorem wide_shl_spec : forall n a amount, length a = n -> wf a ->
  limbs_val (wide_shl n a amount) = (N.shiftl (limbs_val a) amount) mod Wn n
  /\ wf (wide_shl n a amount) /\ length (wide_shl n a amount) = n.
Proof.
  intros n a amount La Ha.
  destruct (divmod64 amount) as [ws [bs [Ews [Ebs [E Hbs]]]]].
  assert (Hwf : wf (wide_shl n a amount)).
  { unfold wide_shl. destruct (N.of_nat n <=? amount / 64). apply wf_repeat0.
    apply wf_forall_rd. intros i. rewrite rd_map_seq. destruct (i <? n)%nat; [|reflexivity].
    unfold shl_word. destruct (amount mod 64 =? 0).
    - destruct (_ <=? _)%nat; [apply rd_wf; auto | reflexivity].
    - apply lor_lt_W. apply shl64_lt. apply shiftr_lt_W. destruct (_ <? _)%nat; [apply rd_wf; auto | reflexivity]. }
  split; [| split; auto].
  2:{ unfold wide_shl. destruct (_ <=? _). apply repeat_length. rewrite map_length, seq_length. reflexivity. }
  apply limbs_val_ext; auto.
  intros i j Hj. rewrite Wn_pow2, testbit_mod_pow2, testbit_shiftl.
  unfold wide_shl. rewrite Ews, Ebs. clear Ews Ebs.
  destruct (N.of_nat n <=? ws) eqn:Ebig.
  - apply N.leb_le in Ebig. rewrite rd_repeat0, N.bits_0.
    destruct (64 * N.of_nat i + j <? 64 * N.of_nat n) eqn:E1; auto. apply N.ltb_lt in E1.
    replace (amount <=? 64 * N.of_nat i + j) with false by (symmetry; apply N.leb_gt; lia). reflexivity.
  - apply N.leb_gt in Ebig. rewrite rd_map_seq, (idx_lt n) by auto.
    destruct (i <? n)%nat eqn:Ein; [|rewrite N.bits_0; reflexivity]. cbn [andb].
    apply Nat.ltb_lt in Ein. unfold shl_word.
    destruct (bs =? 0) eqn:Ebs0.
    + apply N.eqb_eq in Ebs0. subst bs. rewrite N.add_0_r in E.
      destruct (N.to_nat ws <=? i)%nat eqn:Ei; [apply Nat.leb_le in Ei | apply Nat.leb_gt in Ei].
      * replace (amount <=? 64 * N.of_nat i + j) with true by (symmetry; apply N.leb_le; lia).
        replace (64 * N.of_nat i + j - amount) with (64 * N.of_nat (i - N.to_nat ws) + j) by lia.
        rewrite testbit_limbs_val_ij by auto. reflexivity.
      * replace (amount <=? 64 * N.of_nat i + j) with false by (symmetry; apply N.leb_gt; lia).
        rewrite N.bits_0. reflexivity.
    + apply N.eqb_neq in Ebs0.
      rewrite N.lor_spec, shl64_spec, N.shiftr_spec'.
      apply N.ltb_lt in Hj. rewrite Hj. apply N.ltb_lt in Hj. cbn [andb].
      destruct (bs <=? j) eqn:Ej; [apply N.leb_le in Ej | apply N.leb_gt in Ej].
      * (* bit comes from lo *)
        rewrite (lt_W_bits_high _ (j + (64 - bs))) by first [lia | destruct (_ <? _)%nat; [apply rd_wf; auto | reflexivity]].
        rewrite orb_false_r. cbn [andb].
        destruct (N.to_nat ws <=? i)%nat eqn:Ei; [apply Nat.leb_le in Ei | apply Nat.leb_gt in Ei].
        -- replace (amount <=? 64 * N.of_nat i + j) with true by (symmetry; apply N.leb_le; lia).
           replace (64 * N.of_nat i + j - amount) with (64 * N.of_nat (i - N.to_nat ws) + (j - bs)) by lia.
           rewrite testbit_limbs_val_ij by (auto; lia). reflexivity.
        -- replace (amount <=? 64 * N.of_nat i + j) with false by (symmetry; apply N.leb_gt; lia).
           rewrite N.bits_0. reflexivity.
      * cbn [andb]. rewrite orb_false_l.
        destruct (N.to_nat ws <? i)%nat eqn:Ei; [apply Nat.ltb_lt in Ei | apply Nat.ltb_ge in Ei].
        -- replace (amount <=? 64 * N.of_nat i + j) with true by (symmetry; apply N.leb_le; lia).
           replace (64 * N.of_nat i + j - amount) with (64 * N.of_nat (i - N.to_nat ws - 1) + (j + (64 - bs))) by lia.
           rewrite testbit_limbs_val_ij by (auto; lia). reflexivity.
        -- replace (amount <=? 64 * N.of_nat i + j) with false by (symmetry; apply N.leb_gt; lia).
           rewrite N.bits_0. reflexivity.
Qed.

Lemma guarded_rd : forall n a k, length a = n -> (if (k <? n)%nat then rd a k else 0) = rd a k.
Proof.
  intros n a k L. destruct (k <? n)%nat eqn:E; auto. apply Nat.ltb_ge in E. rewrite rd_beyond by lia. reflexivity.
Qed.

Theorem wide_lshr_spec : forall n a amount, length a = n -> wf a ->
  limbs_val (wide_lshr n a amount) = N.shiftr (limbs_val a) amount
  /\ wf (wide_lshr n a amount) /\ length (wide_lshr n a amount) = n.
Proof.
  intros n a amount La Ha.
  destruct (divmod64 amount) as [ws [bs [Ews [Ebs [E Hbs]]]]].
  assert (Hwf : wf (wide_lshr n a amount)).
  { unfold wide_lshr. destruct (N.of_nat n <=? amount / 64). apply wf_repeat0.
    apply wf_forall_rd. intros i. rewrite rd_map_seq. destruct (i <? n)%nat; [|reflexivity].
    unfold lshr_word. rewrite !guarded_rd by auto. destruct (amount mod 64 =? 0).
    - apply rd_wf; auto.
    - apply lor_lt_W. apply shiftr_lt_W, rd_wf; auto. apply shl64_lt. }
  split; [| split; auto].
  2:{ unfold wide_lshr. destruct (_ <=? _). apply repeat_length. rewrite map_length, seq_length. reflexivity. }
  apply limbs_val_ext; auto.
  intros i j Hj. rewrite N.shiftr_spec'.
  unfold wide_lshr. rewrite Ews, Ebs. clear Ews Ebs.
  destruct (N.of_nat n <=? ws) eqn:Ebig.
  - apply N.leb_le in Ebig. rewrite rd_repeat0, N.bits_0.
    destruct (N.lt_ge_cases (j + bs) 64) as [Hlo|Hhi].
    + replace (64 * N.of_nat i + j + amount) with (64 * N.of_nat (i + N.to_nat ws) + (j + bs)) by lia.
      rewrite testbit_limbs_val_ij, rd_beyond by (auto; lia). reflexivity.
    + replace (64 * N.of_nat i + j + amount) with (64 * N.of_nat (i + N.to_nat ws + 1) + (j + bs - 64)) by lia.
      rewrite testbit_limbs_val_ij, rd_beyond by (auto; lia). reflexivity.
  - apply N.leb_gt in Ebig. rewrite rd_map_seq.
    destruct (i <? n)%nat eqn:Ein.
    2:{ apply Nat.ltb_ge in Ein. rewrite N.bits_0.
        destruct (N.lt_ge_cases (j + bs) 64) as [Hlo|Hhi].
        + replace (64 * N.of_nat i + j + amount) with (64 * N.of_nat (i + N.to_nat ws) + (j + bs)) by lia.
          rewrite testbit_limbs_val_ij, rd_beyond by (auto; lia). reflexivity.
        + replace (64 * N.of_nat i + j + amount) with (64 * N.of_nat (i + N.to_nat ws + 1) + (j + bs - 64)) by lia.
          rewrite testbit_limbs_val_ij, rd_beyond by (auto; lia). reflexivity. }
    apply Nat.ltb_lt in Ein. unfold lshr_word. rewrite !guarded_rd by auto.
    destruct (bs =? 0) eqn:Ebs0.
    + apply N.eqb_eq in Ebs0. subst bs. rewrite N.add_0_r in E.
      replace (64 * N.of_nat i + j + amount) with (64 * N.of_nat (i + N.to_nat ws) + j) by lia.
      rewrite testbit_limbs_val_ij by auto. reflexivity.
    + apply N.eqb_neq in Ebs0.
      rewrite N.lor_spec, shl64_spec, N.shiftr_spec'.
      apply N.ltb_lt in Hj. rewrite Hj. apply N.ltb_lt in Hj. cbn [andb].
      destruct (N.lt_ge_cases (j + bs) 64) as [Hlo|Hhi].
      * replace (64 - bs <=? j) with false by (symmetry; apply N.leb_gt; lia).
        cbn [andb]. rewrite orb_false_r.
        replace (64 * N.of_nat i + j + amount) with (64 * N.of_nat (i + N.to_nat ws) + (j + bs)) by lia.
        rewrite testbit_limbs_val_ij by auto. reflexivity.
      * replace (64 - bs <=? j) with true by (symmetry; apply N.leb_le; lia).
        cbn [andb]. rewrite (lt_W_bits_high _ (j + bs)) by (auto using rd_wf). rewrite orb_false_l.
        replace (64 * N.of_nat i + j + amount) with (64 * N.of_nat (i + N.to_nat ws + 1) + (j + bs - 64)) by lia.
        rewrite testbit_limbs_val_ij by (auto; lia). f_equal. lia.
Qed.
