(* In-place mask helpers: apply_mask, fill_ones; is_all_ones. *)
From VV Require Import BV.Ops1800 Wide.WideModel Wide.WideArith Wide.WideBits Wide.WideShift Wide.WideExt Wide.WideCmp.
Open Scope N_scope.

Lemma upd_length : forall l i v, length (upd l i v) = length l.
Proof. induction l; intros [|i] v; simpl; auto. Qed.

Lemma rd_upd : forall l i v k,
  rd (upd l i v) k = if ((k =? i) && (i <? length l))%nat then v else rd l k.
Proof.
  induction l; intros i v k.
  - simpl. rewrite rd_nil, andb_false_r. reflexivity.
  - destruct i as [|i], k as [|k]; cbn [upd length]; try reflexivity.
    rewrite !rd_cons_S, IHl. reflexivity.
Qed.

Lemma wf_upd : forall l i v, v < W -> wf l -> wf (upd l i v).
Proof.
  intros l i v Hv Hl. apply wf_forall_rd. intros k. rewrite rd_upd.
  destruct (_ && _); auto. apply rd_wf; auto.
Qed.

Lemma fill_seq_length : forall c cnt from d,
  length (fold_left (fun d i => upd d i c) (seq from cnt) d) = length d.
Proof. induction cnt; intros; simpl; auto. rewrite IHcnt, upd_length. reflexivity. Qed.

Lemma rd_fill_seq : forall c cnt from d k,
  rd (fold_left (fun d i => upd d i c) (seq from cnt) d) k =
  if ((from <=? k) && (k <? from + cnt) && (k <? length d))%nat then c else rd d k.
Proof.
  induction cnt; intros from d k.
  - simpl. replace ((from <=? k)%nat && (k <? from + 0)%nat) with false. reflexivity.
    symmetry. destruct (Nat.leb_spec from k), (Nat.ltb_spec k (from + 0)); auto; lia.
  - cbn [seq fold_left]. rewrite IHcnt, upd_length, rd_upd.
    destruct (Nat.leb_spec (S from) k), (Nat.ltb_spec k (S from + cnt)), (Nat.ltb_spec k (length d)),
      (Nat.leb_spec from k), (Nat.ltb_spec k (from + S cnt)), (Nat.eqb_spec k from), (Nat.ltb_spec from (length d));
      cbn [andb]; try reflexivity; try lia.
Qed.

Lemma wf_fill_seq : forall c cnt from d, c < W -> wf d -> wf (fold_left (fun d i => upd d i c) (seq from cnt) d).
Proof.
  intros. apply wf_forall_rd. intros k. rewrite rd_fill_seq. destruct (_ && _); auto. apply rd_wf; auto.
Qed.

Lemma w_split : forall w, w = 64 * N.of_nat (N.to_nat (w / 64)) + w mod 64 /\ w mod 64 < 64.
Proof. apply split64. Qed.

Lemma land_ones_bits : forall x t j, N.testbit (N.land x (N.ones t)) j = N.testbit x j && (j <? t).
Proof. intros. rewrite N.land_spec, ones_bits. reflexivity. Qed.

Section Masks.
  Variables (n : nat) (w : N) (dst : list N).
  Hypothesis Ld : length dst = n.
  Hypothesis Hd : wf dst.
  Hypothesis Hn : 0 < N.of_nat n < 8192.
  Hypothesis Hw : 0 < w < 65536.
  Let packed := pack_nb_width (8 * N.of_nat n) w.
  Let full := N.to_nat (w / 64).
  Let rem := w mod 64.

  Lemma mask_unpack : unpack_nb packed = 8 * N.of_nat n /\ unpack_width packed = w.
  Proof. apply unpack_pack; lia. Qed.

  Lemma apply_mask_wf_len : wf (wide_apply_mask dst packed) /\ length (wide_apply_mask dst packed) = n.
  Proof.
    unfold wide_apply_mask. destruct mask_unpack as [-> ->].
    replace (w =? 0) with false by (symmetry; apply N.eqb_neq; lia).
    replace (8 * N.of_nat n =? 0) with false by (symmetry; apply N.eqb_neq; lia).
    cbn [orb]. rewrite nw_8n. fold full. fold rem.
    unfold zero_from. split.
    - apply wf_fill_seq. reflexivity.
      destruct (_ && _); auto. apply wf_upd; auto. apply land_lt_W. apply rd_wf; auto.
      rewrite shiftl1_sub1. apply ones_lt_W. unfold rem. pose proof (N.mod_lt w 64). lia.
    - rewrite fill_seq_length. destruct (_ && _); auto. rewrite upd_length. auto.
  Qed.

  Theorem wide_apply_mask_spec : limbs_val (wide_apply_mask dst packed) = limbs_val dst mod 2 ^ w.
  Proof.
    apply limbs_val_ext. apply apply_mask_wf_len.
    intros i j Hj. rewrite testbit_mod_pow2, testbit_limbs_val_ij by auto.
    unfold wide_apply_mask. destruct mask_unpack as [-> ->].
    replace (w =? 0) with false by (symmetry; apply N.eqb_neq; lia).
    replace (8 * N.of_nat n =? 0) with false by (symmetry; apply N.eqb_neq; lia).
    cbn [orb]. rewrite nw_8n. fold full. fold rem.
    destruct (w_split w) as [Ew Hrem]. fold full in Ew. fold rem in Ew, Hrem. clearbody full rem.
    unfold zero_from, first_clear. rewrite rd_fill_seq.
    set (d1 := if (0 <? rem) && (full <? n)%nat
               then upd dst full (N.land (rd dst full) (N.shiftl 1 rem - 1)) else dst).
    assert (Hlen : length d1 = n).
    { unfold d1. destruct (_ && _); auto. rewrite upd_length; auto. }
    rewrite Hlen.
    destruct (Nat.ltb_spec i n) as [Hin|Hin].
    2:{ rewrite andb_false_r. rewrite (rd_beyond dst i), (rd_beyond d1 i) by lia.
        rewrite N.bits_0, andb_false_r. reflexivity. }
    unfold d1. clear Hlen d1.
    rewrite andb_true_r.
    destruct (0 <? rem) eqn:Erem; [apply N.ltb_lt in Erem | apply N.ltb_ge in Erem]; cbn [andb].
    - destruct (Nat.leb_spec (S full) i), (Nat.ltb_spec i (S full + (n - S full))); cbn [andb]; try lia.
      + rewrite N.bits_0. replace (64 * N.of_nat i + j <? w) with false by (symmetry; apply N.ltb_ge; lia). reflexivity.
      + destruct (Nat.ltb_spec full n).
        2:{ replace (64 * N.of_nat i + j <? w) with true by (symmetry; apply N.ltb_lt; lia). reflexivity. }
        rewrite rd_upd.
        destruct (Nat.eqb_spec i full), (Nat.ltb_spec full (length dst)); cbn [andb]; try lia.
        * subst i. rewrite shiftl1_sub1, land_ones_bits.
          rewrite andb_comm. f_equal.
          destruct (N.ltb_spec j rem), (N.ltb_spec (64 * N.of_nat full + j) w); auto; lia.
        * replace (64 * N.of_nat i + j <? w) with true by (symmetry; apply N.ltb_lt; lia). reflexivity.
    - assert (rem = 0) by lia.
      destruct (Nat.leb_spec full i), (Nat.ltb_spec i (full + (n - full))); cbn [andb]; try lia.
      + rewrite N.bits_0. replace (64 * N.of_nat i + j <? w) with false by (symmetry; apply N.ltb_ge; lia). reflexivity.
      + replace (64 * N.of_nat i + j <? w) with true by (symmetry; apply N.ltb_lt; lia). reflexivity.
  Qed.

  Lemma fill_ones_wf_len : wf (wide_fill_ones dst packed) /\ length (wide_fill_ones dst packed) = n.
  Proof.
    unfold wide_fill_ones. destruct mask_unpack as [-> ->].
    replace (8 * N.of_nat n =? 0) with false by (symmetry; apply N.eqb_neq; lia).
    rewrite nw_8n. fold full. fold rem. unfold zero_from. split.
    - apply wf_fill_seq. reflexivity.
      destruct (_ && _). apply wf_upd. rewrite shiftl1_sub1. apply ones_lt_W. unfold rem. pose proof (N.mod_lt w 64). lia.
      apply wf_fill_seq; auto. reflexivity. apply wf_fill_seq; auto. reflexivity.
    - rewrite fill_seq_length. destruct (_ && _). rewrite upd_length. rewrite fill_seq_length. auto.
      rewrite fill_seq_length. auto.
  Qed.

  Theorem wide_fill_ones_spec : limbs_val (wide_fill_ones dst packed) = N.ones (N.min w (64 * N.of_nat n)).
  Proof.
    apply limbs_val_ext. apply fill_ones_wf_len.
    intros i j Hj. rewrite ones_bits.
    unfold wide_fill_ones. destruct mask_unpack as [-> ->].
    replace (8 * N.of_nat n =? 0) with false by (symmetry; apply N.eqb_neq; lia).
    rewrite nw_8n. fold full. fold rem.
    destruct (w_split w) as [Ew Hrem]. fold full in Ew. fold rem in Ew, Hrem. clearbody full rem.
    unfold zero_from, first_clear. rewrite rd_fill_seq.
    set (d0 := fold_left (fun d i => upd d i MAXW) (seq 0 (Nat.min full n)) dst).
    assert (L0 : length d0 = n) by (unfold d0; rewrite fill_seq_length; auto).
    set (d1 := if (0 <? rem) && (full <? n)%nat then upd d0 full (N.shiftl 1 rem - 1) else d0).
    assert (Hlen : length d1 = n).
    { unfold d1. destruct (_ && _); auto. rewrite upd_length; auto. }
    rewrite Hlen.
    destruct (Nat.ltb_spec i n) as [Hin|Hin].
    2:{ rewrite andb_false_r.
        replace (64 * N.of_nat i + j <? N.min w (64 * N.of_nat n)) with false by (symmetry; apply N.ltb_ge; lia).
        rewrite (rd_beyond d1 i) by lia. apply N.bits_0. }
    unfold d1. clear Hlen d1.
    rewrite andb_true_r.
    replace (64 * N.of_nat i + j <? N.min w (64 * N.of_nat n)) with (64 * N.of_nat i + j <? w).
    2:{ destruct (N.ltb_spec (64 * N.of_nat i + j) w), (N.ltb_spec (64 * N.of_nat i + j) (N.min w (64 * N.of_nat n))); auto; lia. }
    assert (R0 : forall k, (k < Nat.min full n)%nat -> rd d0 k = MAXW).
    { intros k Hk. unfold d0. rewrite rd_fill_seq.
      destruct (Nat.leb_spec 0 k), (Nat.ltb_spec k (0 + Nat.min full n)), (Nat.ltb_spec k (length dst)); cbn [andb]; auto; lia. }
    destruct (0 <? rem) eqn:Erem; [apply N.ltb_lt in Erem | apply N.ltb_ge in Erem]; cbn [andb].
    - destruct (Nat.leb_spec (S full) i), (Nat.ltb_spec i (S full + (n - S full))); cbn [andb]; try lia.
      + rewrite N.bits_0. symmetry; apply N.ltb_ge; lia.
      + destruct (Nat.ltb_spec full n).
        2:{ rewrite R0 by lia. rewrite MAXW_bits.
            replace (64 * N.of_nat i + j <? w) with true by (symmetry; apply N.ltb_lt; lia). apply N.ltb_lt; auto. }
        rewrite rd_upd.
        destruct (Nat.eqb_spec i full), (Nat.ltb_spec full (length d0)); cbn [andb]; try lia.
        * subst i. rewrite shiftl1_sub1, ones_bits.
          destruct (N.ltb_spec j rem), (N.ltb_spec (64 * N.of_nat full + j) w); auto; lia.
        * rewrite R0 by lia. rewrite MAXW_bits.
          replace (64 * N.of_nat i + j <? w) with true by (symmetry; apply N.ltb_lt; lia). apply N.ltb_lt; auto.
    - assert (rem = 0) by lia.
      destruct (Nat.leb_spec full i), (Nat.ltb_spec i (full + (n - full))); cbn [andb]; try lia.
      + rewrite N.bits_0. symmetry; apply N.ltb_ge; lia.
      + rewrite R0 by lia. rewrite MAXW_bits.
        replace (64 * N.of_nat i + j <? w) with true by (symmetry; apply N.ltb_lt; lia). apply N.ltb_lt; auto.
  Qed.
End Masks.
