(* Proofs about the arithmetic helpers of wide_ops.rs (add, sub, negate, mul) and the basic
   facts about limbs_val used everywhere else. *)
From VV Require Import BV.Ops1800 Wide.WideModel.
Open Scope N_scope.

Lemma W_eq : W = 2 ^ 64. Proof. reflexivity. Qed.
Lemma W_pos : 0 < W. Proof. reflexivity. Qed.
Lemma MAXW_eq : MAXW = W - 1. Proof. reflexivity. Qed.

Definition Wn (n : nat) : N := W ^ N.of_nat n.

Lemma Wn_0 : Wn 0 = 1. Proof. reflexivity. Qed.
Lemma Wn_S : forall n, Wn (S n) = W * Wn n.
Proof. intros. unfold Wn. rewrite Nat2N.inj_succ, N.pow_succ_r'. reflexivity. Qed.
Lemma Wn_pos : forall n, 0 < Wn n.
Proof. intros. unfold Wn. apply N.neq_0_lt_0, N.pow_nonzero. discriminate. Qed.
Lemma Wn_pow2 : forall n, Wn n = 2 ^ (64 * N.of_nat n).
Proof. intros. unfold Wn. rewrite W_eq, <- N.pow_mul_r. reflexivity. Qed.

Lemma limbs_val_cons : forall x l, limbs_val (x :: l) = x + W * limbs_val l.
Proof. reflexivity. Qed.
Lemma limbs_val_nil : limbs_val [] = 0.
Proof. reflexivity. Qed.

Lemma wf_cons : forall x l, wf (x :: l) <-> x < W /\ wf l.
Proof. intros. unfold wf. split; intros H. inversion H; auto. destruct H; constructor; auto. Qed.
Lemma wf_nil : wf []. Proof. constructor. Qed.
Lemma wf_tl : forall l, wf l -> wf (tl l).
Proof. intros [|x l] H; simpl; auto. apply wf_cons in H. tauto. Qed.
Lemma wf_hd : forall l, wf l -> hd 0 l < W.
Proof. intros [|x l] H; simpl. reflexivity. apply wf_cons in H. tauto. Qed.

Lemma limbs_val_bound : forall l, wf l -> limbs_val l < Wn (length l).
Proof.
  induction l; intros H.
  - reflexivity.
  - apply wf_cons in H. destruct H as [Ha Hl]. specialize (IHl Hl).
    simpl length. rewrite Wn_S, limbs_val_cons.
    assert (W * limbs_val l + W <= W * Wn (length l)) by nia. lia.
Qed.

(* (r + W q) mod (W M) = r + W (q mod M) *)
Lemma mod_split : forall r q M, r < W -> 0 < M -> (r + W * q) mod (W * M) = r + W * (q mod M).
Proof.
  intros r q M Hr HM.
  symmetry. apply N.mod_unique with (q := q / M).
  - assert (q mod M < M) by (apply N.mod_lt; lia). nia.
  - pose proof (N.div_mod q M ltac:(lia)) as E. nia.
Qed.

Lemma mod_W_cases : forall s, s < 2 * W -> s mod W = if W <=? s then s - W else s.
Proof.
  intros s Hs. destruct (W <=? s) eqn:E.
  - apply N.leb_le in E. symmetry. apply N.mod_unique with (q := 1); lia.
  - apply N.leb_gt in E. apply N.mod_small; lia.
Qed.

(* a value known to be below the modulus and congruent is the remainder *)
Lemma mod_from_carry : forall v S M co, v < M -> v + M * co = S -> v = S mod M.
Proof. intros v S M co Hv E. apply N.mod_unique with (q := co); lia. Qed.

(* ------------------------------------------------------------------ lengths / wf of the loops *)
Lemma map2n_length : forall f n a b, length (map2n f n a b) = n.
Proof. induction n; intros; simpl; auto. Qed.
Lemma map1n_length : forall f n a, length (map1n f n a) = n.
Proof. induction n; intros; simpl; auto. Qed.

Lemma map1n_id : forall n a, length a = n -> map1n (fun x => x) n a = a.
Proof. induction n; intros [|x a] H; simpl in *; try discriminate; auto. f_equal. apply IHn. lia. Qed.

Lemma add_loop_length : forall n a b c, length (add_loop n a b c) = n.
Proof. induction n; intros; simpl; auto. Qed.
Lemma sub_loop_length : forall n a b c, length (sub_loop n a b c) = n.
Proof. induction n; intros; simpl; auto. Qed.
Lemma neg_loop_length : forall n a c, length (neg_loop n a c) = n.
Proof. induction n; intros; simpl; auto. Qed.

Lemma mod_W_lt : forall x, x mod W < W.
Proof. intros. apply N.mod_lt. discriminate. Qed.

Lemma add_loop_wf : forall n a b c, wf (add_loop n a b c).
Proof. induction n; intros; simpl. apply wf_nil. apply wf_cons. split; auto. apply mod_W_lt. Qed.
Lemma sub_loop_wf : forall n a b c, wf (sub_loop n a b c).
Proof. induction n; intros; simpl. apply wf_nil. apply wf_cons. split; auto. apply mod_W_lt. Qed.
Lemma neg_loop_wf : forall n a c, wf (neg_loop n a c).
Proof. induction n; intros; simpl. apply wf_nil. apply wf_cons. split; auto. apply mod_W_lt. Qed.

(* ------------------------------------------------------------------ wide_add *)
Lemma add_step : forall x y c, x < W -> y < W -> c <= 1 ->
  let s1 := (x + y) mod W in let c1 := b2n (W <=? x + y) in
  let s2 := (s1 + c) mod W in let c2 := b2n (W <=? s1 + c) in
  s2 + W * (c1 + c2) = x + y + c /\ c1 + c2 <= 1.
Proof.
  intros x y c Hx Hy Hc. cbv zeta.
  rewrite (mod_W_cases (x + y)) by lia.
  destruct (W <=? x + y) eqn:E1; [apply N.leb_le in E1 | apply N.leb_gt in E1]; cbn [b2n].
  - rewrite (mod_W_cases (x + y - W + c)) by lia.
    destruct (W <=? x + y - W + c) eqn:E2; [apply N.leb_le in E2 | apply N.leb_gt in E2]; cbn [b2n]; lia.
  - rewrite (mod_W_cases (x + y + c)) by lia.
    destruct (W <=? x + y + c) eqn:E2; [apply N.leb_le in E2 | apply N.leb_gt in E2]; cbn [b2n]; lia.
Qed.

Lemma add_loop_carry : forall n a b c, length a = n -> length b = n -> wf a -> wf b -> c <= 1 ->
  exists co, co <= 1 /\ limbs_val (add_loop n a b c) + Wn n * co = limbs_val a + limbs_val b + c.
Proof.
  induction n; intros [|x a] [|y b] c La Lb Ha Hb Hc; simpl in La, Lb; try discriminate.
  - exists c. rewrite Wn_0. cbn [add_loop sub_loop limbs_val fold_right]. split; lia.
  - apply wf_cons in Ha, Hb. destruct Ha as [Hx Ha], Hb as [Hy Hb].
    cbn [add_loop oadd hd tl].
    destruct (add_step x y c Hx Hy Hc) as [E Hc'].
    destruct (IHn a b _ ltac:(lia) ltac:(lia) Ha Hb Hc') as [co [Hco IH]].
    exists co. split; auto.
    rewrite !limbs_val_cons, Wn_S. nia.
Qed.

Theorem wide_add_spec : forall n a b, length a = n -> length b = n -> wf a -> wf b ->
  limbs_val (wide_add n a b) = (limbs_val a + limbs_val b) mod Wn n.
Proof.
  intros n a b La Lb Ha Hb. unfold wide_add.
  destruct (add_loop_carry n a b 0 La Lb Ha Hb ltac:(lia)) as [co [_ E]].
  rewrite N.add_0_r in E. eapply mod_from_carry; eauto.
  pose proof (limbs_val_bound _ (add_loop_wf n a b 0)) as B. rewrite add_loop_length in B. exact B.
Qed.

(* ------------------------------------------------------------------ wide_sub *)
Lemma sub_step : forall x y c, x < W -> y < W -> c <= 1 ->
  let d1 := (x + W - y) mod W in let b1 := b2n (x <? y) in
  let d2 := (d1 + W - c) mod W in let b2 := b2n (d1 <? c) in
  d2 + y + c = x + W * (b1 + b2) /\ b1 + b2 <= 1.
Proof.
  intros x y c Hx Hy Hc. cbv zeta.
  rewrite (mod_W_cases (x + W - y)) by lia.
  destruct (x <? y) eqn:E1; [apply N.ltb_lt in E1 | apply N.ltb_ge in E1]; cbn [b2n].
  - replace (W <=? x + W - y) with false by (symmetry; apply N.leb_gt; lia).
    rewrite (mod_W_cases (x + W - y + W - c)) by lia.
    replace (W <=? x + W - y + W - c) with true by (symmetry; apply N.leb_le; lia).
    replace (x + W - y <? c) with false by (symmetry; apply N.ltb_ge; lia). cbn [b2n]. lia.
  - replace (W <=? x + W - y) with true by (symmetry; apply N.leb_le; lia).
    rewrite (mod_W_cases (x + W - y - W + W - c)) by lia.
    destruct (x + W - y - W <? c) eqn:E2; [apply N.ltb_lt in E2 | apply N.ltb_ge in E2]; cbn [b2n].
    + replace (W <=? x + W - y - W + W - c) with false by (symmetry; apply N.leb_gt; lia). lia.
    + replace (W <=? x + W - y - W + W - c) with true by (symmetry; apply N.leb_le; lia). lia.
Qed.

Lemma sub_loop_borrow : forall n a b c, length a = n -> length b = n -> wf a -> wf b -> c <= 1 ->
  exists bo, bo <= 1 /\ limbs_val (sub_loop n a b c) + limbs_val b + c = limbs_val a + Wn n * bo.
Proof.
  induction n; intros [|x a] [|y b] c La Lb Ha Hb Hc; simpl in La, Lb; try discriminate.
  - exists c. rewrite Wn_0. cbn [add_loop sub_loop limbs_val fold_right]. split; lia.
  - apply wf_cons in Ha, Hb. destruct Ha as [Hx Ha], Hb as [Hy Hb].
    cbn [sub_loop osub hd tl].
    destruct (sub_step x y c Hx Hy Hc) as [E Hc'].
    destruct (IHn a b _ ltac:(lia) ltac:(lia) Ha Hb Hc') as [bo [Hbo IH]].
    exists bo. split; auto.
    rewrite !limbs_val_cons, Wn_S. nia.
Qed.

(* a - b modulo 2^(64n), written without truncated subtraction *)
Theorem wide_sub_spec : forall n a b, length a = n -> length b = n -> wf a -> wf b ->
  limbs_val (wide_sub n a b) = (limbs_val a + (Wn n - limbs_val b)) mod Wn n.
Proof.
  intros n a b La Lb Ha Hb. unfold wide_sub.
  destruct (sub_loop_borrow n a b 0 La Lb Ha Hb ltac:(lia)) as [bo [Hbo E]].
  pose proof (limbs_val_bound _ (sub_loop_wf n a b 0)) as B. rewrite sub_loop_length in B.
  pose proof (limbs_val_bound _ Hb) as Bb. rewrite Lb in Bb.
  pose proof (limbs_val_bound _ Ha) as Ba. rewrite La in Ba.
  apply N.mod_unique with (q := 1 - bo); auto.
  assert (bo = 0 \/ bo = 1) as [-> | ->] by lia; lia.
Qed.

(* ------------------------------------------------------------------ wide_negate *)
Lemma lt_W_log2 : forall x, x < W -> N.log2 x < 64.
Proof.
  intros x Hx. destruct (N.eq_dec x 0) as [->|Hn]. reflexivity.
  apply N.log2_lt_pow2; [lia | exact Hx].
Qed.

Lemma not64_eq : forall x, x < W -> not64 x = W - 1 - x.
Proof. intros x Hx. unfold not64. rewrite N.lnot_sub_low by (apply lt_W_log2; auto). reflexivity. Qed.

Lemma not64_lt : forall x, x < W -> not64 x < W.
Proof. intros x Hx. pose proof W_pos. rewrite not64_eq by auto. lia. Qed.

Lemma neg_loop_carry : forall n a c, length a = n -> wf a -> c <= 1 ->
  exists co, co <= 1 /\ limbs_val (neg_loop n a c) + Wn n * co + 1 + limbs_val a = Wn n + c.
Proof.
  induction n; intros [|x a] c La Ha Hc; simpl in La; try discriminate.
  - exists c. rewrite Wn_0. cbn [neg_loop limbs_val fold_right]. split; lia.
  - apply wf_cons in Ha. destruct Ha as [Hx Ha].
    cbn [neg_loop oadd hd tl]. rewrite not64_eq by auto.
    pose proof W_pos as HW.
    assert (Hs : (W - 1 - x + c) mod W + W * b2n (W <=? W - 1 - x + c) = W - 1 - x + c
                 /\ b2n (W <=? W - 1 - x + c) <= 1).
    { rewrite mod_W_cases by lia.
      destruct (W <=? W - 1 - x + c) eqn:E; [apply N.leb_le in E | apply N.leb_gt in E]; cbn [b2n]; lia. }
    destruct Hs as [Es Hc'].
    destruct (IHn a _ ltac:(lia) Ha Hc') as [co [Hco IH]].
    exists co. split; auto.
    rewrite !limbs_val_cons, Wn_S. nia.
Qed.

Theorem wide_negate_spec : forall n a, length a = n -> wf a ->
  limbs_val (wide_negate n a) = (Wn n - limbs_val a) mod Wn n.
Proof.
  intros n a La Ha. unfold wide_negate.
  destruct (neg_loop_carry n a 1 La Ha ltac:(lia)) as [co [Hco E]].
  pose proof (limbs_val_bound _ (neg_loop_wf n a 1)) as B. rewrite neg_loop_length in B.
  pose proof (limbs_val_bound _ Ha) as Ba. rewrite La in Ba.
  apply N.mod_unique with (q := co); auto.
  assert (co = 0 \/ co = 1) as [-> | ->] by lia; lia.
Qed.

(* ------------------------------------------------------------------ wide_mul *)
Lemma mul_inner_length : forall ai b d c, length (mul_inner ai b d c) = length d.
Proof. induction b; intros [|dj d] c; simpl; auto. Qed.

Lemma mul_inner_wf : forall ai b d c, wf d -> wf (mul_inner ai b d c).
Proof.
  induction b; intros [|dj d] c H; simpl; auto.
  apply wf_cons in H. apply wf_cons. split. apply mod_W_lt. apply IHb. tauto.
Qed.

Lemma mul_inner_spec : forall ai b d c, (length d <= length b)%nat ->
  limbs_val (mul_inner ai b d c) = (limbs_val d + ai * limbs_val b + c) mod Wn (length d).
Proof.
  induction b; intros [|dj d] c L; simpl in L.
  - simpl. rewrite Wn_0, N.mod_1_r. reflexivity.
  - lia.
  - simpl. rewrite Wn_0, N.mod_1_r. reflexivity.
  - cbn [mul_inner length]. rewrite limbs_val_cons, IHb by lia.
    rewrite !limbs_val_cons, Wn_S.
    set (prod := ai * a + dj + c).
    pose proof (N.div_mod prod W ltac:(discriminate)) as E.
    replace (dj + W * limbs_val d + ai * (a + W * limbs_val b) + c)
      with (prod mod W + W * (limbs_val d + ai * limbs_val b + prod / W)) by (unfold prod in *; nia).
    rewrite mod_split; auto using mod_W_lt, Wn_pos.
Qed.

(* the u128 accumulator never overflows *)
Fixpoint mul_inner_prods_ok (ai : N) (b d : list N) (carry : N) : Prop :=
  match d, b with
  | dj :: d', bj :: b' =>
      let prod := ai * bj + dj + carry in
      prod < W * W /\ mul_inner_prods_ok ai b' d' (prod / W)
  | _, _ => True
  end.
Lemma mul_inner_no_overflow : forall ai b d c, ai < W -> wf b -> wf d -> c < W ->
  mul_inner_prods_ok ai b d c.
Proof.
  induction b; intros [|dj d] c Hai Hb Hd Hc; simpl; auto.
  apply wf_cons in Hb, Hd. destruct Hb as [Ha Hb], Hd as [Hdj Hd].
  assert (P : ai * a + dj + c < W * W) by nia.
  split; auto. apply IHb; auto.
  apply N.div_lt_upper_bound; [discriminate | exact P].
Qed.

Lemma mul_outer_spec : forall a b d, length a = length d -> (length d <= length b)%nat -> wf d ->
  limbs_val (mul_outer a b d) = (limbs_val d + limbs_val a * limbs_val b) mod Wn (length d)
  /\ wf (mul_outer a b d) /\ length (mul_outer a b d) = length d.
Proof.
  induction a as [|ai a IH]; intros b d La Lb Hd.
  - destruct d; simpl in La; try discriminate. simpl. rewrite Wn_0, N.mod_1_r. auto using wf_nil.
  - destruct d as [|d0 d]; simpl in La; try discriminate.
    cbn [mul_outer].
    set (d1 := if ai =? 0 then d0 :: d else mul_inner ai b (d0 :: d) 0).
    assert (H1 : limbs_val d1 = (limbs_val (d0 :: d) + ai * limbs_val b) mod Wn (length (d0 :: d))
                 /\ wf d1 /\ length d1 = length (d0 :: d)).
    { unfold d1. destruct (ai =? 0) eqn:E.
      - apply N.eqb_eq in E. subst ai. rewrite N.mul_0_l, N.add_0_r.
        rewrite N.mod_small by (apply limbs_val_bound; auto). auto.
      - rewrite mul_inner_spec by auto. rewrite N.add_0_r.
        auto using mul_inner_wf, mul_inner_length. }
    destruct H1 as [V1 [W1 L1]].
    destruct d1 as [|h t]; simpl in L1; try discriminate.
    apply wf_cons in W1. destruct W1 as [Hh Ht].
    destruct (IH b t ltac:(lia) ltac:(simpl in Lb; lia) Ht) as [IV [IW IL]].
    split; [| split].
    + rewrite limbs_val_cons, IV.
      replace (length t) with (length d) by lia.
      cbn [length] in *. rewrite Wn_S in *.
      rewrite (limbs_val_cons ai a).
      replace (limbs_val (d0 :: d) + (ai + W * limbs_val a) * limbs_val b)
        with ((limbs_val (d0 :: d) + ai * limbs_val b) + W * (limbs_val a * limbs_val b)) by nia.
      rewrite <- (N.add_mod_idemp_l (limbs_val (d0 :: d) + ai * limbs_val b)) by (pose proof (Wn_pos (length d)); pose proof W_pos; nia).
      rewrite <- V1, limbs_val_cons.
      replace (h + W * limbs_val t + W * (limbs_val a * limbs_val b))
        with (h + W * (limbs_val t + limbs_val a * limbs_val b)) by nia.
      rewrite mod_split; auto using Wn_pos.
    + apply wf_cons. auto.
    + simpl. lia.
Qed.

Lemma wf_repeat0 : forall n, wf (repeat 0 n).
Proof. induction n; simpl. apply wf_nil. apply wf_cons. split; auto. reflexivity. Qed.
Lemma limbs_val_repeat0 : forall n, limbs_val (repeat 0 n) = 0.
Proof. induction n; simpl; auto. rewrite IHn. reflexivity. Qed.

Theorem wide_mul_spec : forall n a b, length a = n -> length b = n -> wf a -> wf b ->
  limbs_val (wide_mul n a b) = (limbs_val a * limbs_val b) mod Wn n
  /\ wf (wide_mul n a b) /\ length (wide_mul n a b) = n.
Proof.
  intros n a b La Lb Ha Hb. unfold wide_mul. rewrite !map1n_id by auto.
  destruct (mul_outer_spec a b (repeat 0 n)) as [V [Wf L]].
  - rewrite repeat_length. auto.
  - rewrite repeat_length. lia.
  - apply wf_repeat0.
  - rewrite repeat_length in *. rewrite limbs_val_repeat0, N.add_0_l in V. auto.
Qed.
