(* Reference evaluation of an operator expression over 4-state operands with the IEEE 1800-2017
   sizing and signedness rules (11.6 expression bit lengths, 11.8 expression types and
   propagation), on top of the operator semantics of BV/Ops1800.v.

   This is the oracle for the run-time engines (C18 second stream): it does not mention any
   veryl code.  Definitions only. *)
From VV Require Import BV.Ops1800.
Open Scope N_scope.

Inductive uop := UPlus | UMinus | UNot | URAnd | URNand | UROr | URNor | URXor | URXnor | ULNot.
Inductive bop :=
  | BAdd | BSub | BMul | BDiv | BRem | BAnd | BOr | BXor | BXnor
  | BEq | BNe | BWeq | BWne | BLt | BLe | BGt | BGe | BLAnd | BLOr
  | BShl | BShr | BAShl | BAShr | BPow.

Inductive expr :=
  | EVar (w : N) (s : bool) (v : vec)        (* an operand of width w, signedness s, value v *)
  | EUn (o : uop) (x : expr)
  | EBin (o : bop) (x y : expr)
  | ECond (c x y : expr)                      (* c ? x : y   (veryl: if c ? x : y) *)
  | ECat (xs : list expr).                    (* {a, b, ...}: self-determined, unsigned *)

Definition uop_reduces (o : uop) : bool :=
  match o with UPlus | UMinus | UNot => false | _ => true end.

Inductive bclass := KArith | KRel | KLogic | KShift.
Definition bop_class (o : bop) : bclass :=
  match o with
  | BAdd | BSub | BMul | BDiv | BRem | BAnd | BOr | BXor | BXnor => KArith
  | BEq | BNe | BWeq | BWne | BLt | BLe | BGt | BGe => KRel
  | BLAnd | BLOr => KLogic
  | BShl | BShr | BAShl | BAShr | BPow => KShift
  end.

(* 11.6.1, Table 11-21: self-determined width *)
Fixpoint selfw (e : expr) : N :=
  match e with
  | EVar w _ _ => w
  | EUn o x => if uop_reduces o then 1 else selfw x
  | EBin o x y =>
      match bop_class o with
      | KArith => N.max (selfw x) (selfw y)
      | KRel | KLogic => 1
      | KShift => selfw x
      end
  | ECond _ x y => N.max (selfw x) (selfw y)
  | ECat xs => fold_right (fun x acc => selfw x + acc) 0 xs
  end.

(* 11.8.1: type of the expression from its operands only *)
Fixpoint sgn (e : expr) : bool :=
  match e with
  | EVar _ s _ => s
  | EUn o x => if uop_reduces o then false else sgn x
  | EBin o x y =>
      match bop_class o with
      | KArith => sgn x && sgn y
      | KRel | KLogic => false
      | KShift => sgn x
      end
  | ECond _ x y => sgn x && sgn y
  | ECat _ => false
  end.

Definition trunc (w : N) (v : vec) : vec := mkVec (vp v mod 2 ^ w) (vm v mod 2 ^ w).

(* a 1-bit result placed in a wider context: zero extended *)
Definition one_bit (v : vec) : vec := v.

(* shift amount (always unsigned).  Amounts beyond the context width W are clamped to W: the
   shifted-out result is the same (lemmas shift_clamp in ExprEvalProofs), and the reference stays
   executable for 300-bit amounts *)
Definition amount_of (W : N) (v : vec) : option N := if known v then Some (N.min (vp v) W) else None.
Definition exponent_of (signed : bool) (w : N) (v : vec) : option Z :=
  if known v then Some (if signed then sval w (vp v) else Z.of_N (vp v)) else None.

(* merge of the two arms of ?: when the condition is unknown (11.4.11, Table 11-20) *)
Definition cond_merge (w : N) (a b : vec) : vec :=
  let same := N.land (N.lnot (N.lxor (vp a) (vp b)) w) (N.lnot (N.lor (vm a) (vm b)) w) in
  mkVec (N.land (vp a) same) (N.lnot same w).

(* eval e W S: value of e in a context of width W >= selfw e and signedness S (11.8.2: the
   size and type of the whole expression are propagated down to the context-determined
   operands; a leaf is extended according to the propagated type). Result has width W. *)
Fixpoint eval (e : expr) (W : N) (S : bool) : vec :=
  match e with
  | EVar w s v => trunc W (ext S w W v)
  | EUn o x =>
      match o with
      | UPlus => eval x W S
      | UMinus => s_neg W (eval x W S)
      | UNot => s_not W (eval x W S)
      | _ =>
          let wx := selfw x in
          let vx := eval x wx (sgn x) in
          match o with
          | URAnd => s_red_and wx vx
          | URNand => s_red_nand wx vx
          | UROr => s_red_or wx vx
          | URNor => s_red_nor wx vx
          | URXor => s_red_xor wx vx
          | URXnor => s_red_xnor wx vx
          | _ => s_lnot vx
          end
      end
  | EBin o x y =>
      match bop_class o with
      | KArith =>
          let a := eval x W S in
          let b := eval y W S in
          match o with
          | BAdd => s_add W a b
          | BSub => s_sub W a b
          | BMul => s_mul W a b
          | BDiv => s_div S W a b
          | BRem => s_rem S W a b
          | BAnd => s_and W a b
          | BOr => s_or W a b
          | BXor => s_xor W a b
          | _ => s_xnor W a b
          end
      | KRel =>
          let w := N.max (selfw x) (selfw y) in
          let s := sgn x && sgn y in
          let a := eval x w s in
          let b := eval y w s in
          match o with
          | BEq => s_eq a b
          | BNe => s_ne a b
          | BWeq => s_weq a b
          | BWne => s_wne a b
          | BLt => s_rel s w a b Z.ltb
          | BLe => s_rel s w a b Z.leb
          | BGt => s_rel s w a b Z.gtb
          | _ => s_rel s w a b Z.geb
          end
      | KLogic =>
          let a := eval x (selfw x) (sgn x) in
          let b := eval y (selfw y) (sgn y) in
          match o with BLAnd => s_land a b | _ => s_lor a b end
      | KShift =>
          let a := eval x W S in
          let wy := selfw y in
          let b := eval y wy (sgn y) in
          match o with
          | BShl | BAShl => s_shl W a (amount_of W b)
          | BShr => s_shr W a (amount_of W b)
          | BAShr => s_ashr S W a (amount_of W b)
          | _ => s_pow S W a (exponent_of (sgn y) wy b)
          end
      end
  | ECond c x y =>
      let vc := eval c (selfw c) (sgn c) in
      let a := eval x W S in
      let b := eval y W S in
      match truth vc with
      | TT => a
      | TF => b
      | TU => cond_merge W a b
      end
  | ECat xs =>
      (* operands self-determined; first element is most significant; zero extended to W *)
      fold_left (fun acc x =>
                   let w := selfw x in
                   let v := eval x w (sgn x) in
                   mkVec (N.lor (N.shiftl (vp acc) w) (vp v)) (N.lor (N.shiftl (vm acc) w) (vm v)))
                xs (mkVec 0 0)
  end.

(* assign o = e   with o of width wo: the right-hand side is evaluated in a context of width
   max(selfw e, wo) and its own type, then truncated to wo (11.6, 11.8.2; 10.7). *)
Definition eval_assign (wo : N) (e : expr) : vec :=
  trunc wo (eval e (N.max (selfw e) wo) (sgn e)).
