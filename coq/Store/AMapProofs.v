(* Lemmas about association-list maps (all through `lookup`). *)
Require Import NArith List Bool Lia.
From VV Require Import Store.AMap.
Import ListNotations.
Open Scope N_scope.

Lemma lookup_remove : forall V k k' (m : amap V),
  lookup k' (remove k m) = if k =? k' then None else lookup k' m.
Proof.
  induction m as [|[a v] r IH]; simpl.
  - destruct (k =? k'); reflexivity.
  - destruct (a =? k) eqn:E; simpl.
    + apply N.eqb_eq in E; subst a. rewrite IH. destruct (k =? k'); reflexivity.
    + destruct (a =? k') eqn:E2.
      * apply N.eqb_eq in E2; subst a. rewrite N.eqb_sym in E. rewrite E. reflexivity.
      * exact IH.
Qed.

Lemma lookup_ins : forall V k k' (v : V) m,
  lookup k' (ins k v m) = if k =? k' then Some v else lookup k' m.
Proof.
  intros. unfold ins. simpl. rewrite lookup_remove. destruct (k =? k'); reflexivity.
Qed.

Lemma lookup_upd : forall V k k' (f : V -> V) m,
  lookup k' (upd k f m) = if k =? k' then omap f (lookup k' m) else lookup k' m.
Proof.
  intros. unfold upd. destruct (lookup k m) eqn:E.
  - rewrite lookup_ins. destruct (k =? k') eqn:E2; auto.
    apply N.eqb_eq in E2; subst. rewrite E. reflexivity.
  - destruct (k =? k') eqn:E2; auto. apply N.eqb_eq in E2; subst. rewrite E. reflexivity.
Qed.

Lemma lookup_in_keys : forall V k (m : amap V) v, lookup k m = Some v -> In k (keys m).
Proof.
  induction m as [|[a w] r IH]; simpl; intros; try discriminate.
  destruct (a =? k) eqn:E.
  - left. apply N.eqb_eq; auto.
  - right. eauto.
Qed.

Lemma list_eqb_spec : forall A (eqb : A -> A -> bool),
  (forall a b, eqb a b = true <-> a = b) ->
  forall a b, list_eqb eqb a b = true <-> a = b.
Proof.
  intros A eqb Hs. induction a as [|x a IH]; destruct b as [|y b]; simpl; split; intros; try discriminate; auto.
  - apply andb_true_iff in H as [H1 H2]. apply Hs in H1. apply IH in H2. subst; auto.
  - inversion H; subst. apply andb_true_iff; split. apply Hs; auto. apply IH; auto.
Qed.

Lemma opt_eqb_spec : forall A (eqb : A -> A -> bool),
  (forall a b, eqb a b = true <-> a = b) ->
  forall a b, opt_eqb eqb a b = true <-> a = b.
Proof.
  intros A eqb Hs [x|] [y|]; simpl; split; intros; try discriminate; auto.
  - apply Hs in H. subst; auto.
  - inversion H; subst. apply Hs; auto.
Qed.

Lemma sub_eqb_spec : forall V (veqb : V -> V -> bool),
  (forall a b, veqb a b = true <-> a = b) ->
  forall m1 m2, sub_eqb veqb m1 m2 = true <->
                (forall k v, lookup k m1 = Some v -> lookup k m2 = Some v).
Proof.
  intros V veqb Hs m1 m2. unfold sub_eqb. rewrite forallb_forall. split.
  - intros Hall k v Hl. specialize (Hall k (lookup_in_keys _ _ _ _ Hl)).
    apply (opt_eqb_spec _ _ Hs) in Hall. congruence.
  - intros Hall k Hin. apply (opt_eqb_spec _ _ Hs).
    destruct (lookup k m1) eqn:E; auto.
    + symmetry. apply Hall; auto.
    + (* k in keys m1 but lookup None: impossible, yet harmless: need lookup k m2 = None *)
      exfalso. clear - E Hin. revert E. induction m1 as [|[a w] r IH]; simpl in *; auto.
      intros. destruct (a =? k) eqn:E2; try discriminate.
      destruct Hin as [H|H]; [subst; rewrite N.eqb_refl in E2; discriminate | auto].
Qed.

Lemma map_eqb_spec : forall V (veqb : V -> V -> bool),
  (forall a b, veqb a b = true <-> a = b) ->
  forall m1 m2, map_eqb veqb m1 m2 = true <-> (forall k, lookup k m1 = lookup k m2).
Proof.
  intros V veqb Hs m1 m2. unfold map_eqb. rewrite andb_true_iff.
  rewrite !(sub_eqb_spec _ _ Hs). split.
  - intros [H1 H2] k. destruct (lookup k m1) eqn:E1.
    + symmetry; auto.
    + destruct (lookup k m2) eqn:E2; auto. apply H2 in E2. congruence.
  - intros H; split; intros k v; rewrite H; auto.
Qed.

(* Two maps related pointwise by a relation on values compare equal exactly when ... : the generic
   fact used for the skip-save test: if f is injective on the values present, equality of the
   images is equality of the maps. *)
Lemma map_eqb_ext : forall V (veqb : V -> V -> bool) m1 m2 m1' m2',
  (forall a b, veqb a b = true <-> a = b) ->
  (forall k, lookup k m1 = lookup k m1') ->
  (forall k, lookup k m2 = lookup k m2') ->
  map_eqb veqb m1 m2 = map_eqb veqb m1' m2'.
Proof.
  intros. apply eq_true_iff_eq. rewrite !(map_eqb_spec _ _ H). split; intros.
  - rewrite <- H0, <- H1; auto.
  - rewrite H0, H1; auto.
Qed.
