(* Association-list maps keyed by N (definitions only).  `ins` removes older bindings, so the
   list of bindings of a map never holds a key twice; every lemma is stated through `lookup`. *)
Require Import NArith List Bool.
Import ListNotations.
Open Scope N_scope.

Definition amap (V : Type) := list (N * V).

Fixpoint lookup {V} (k : N) (m : amap V) : option V :=
  match m with
  | [] => None
  | (k', v) :: r => if k' =? k then Some v else lookup k r
  end.

Definition remove {V} (k : N) (m : amap V) : amap V :=
  filter (fun x => negb (fst x =? k)) m.

Definition ins {V} (k : N) (v : V) (m : amap V) : amap V := (k, v) :: remove k m.

(* BTreeMap::get_mut(k).map(f) *)
Definition upd {V} (k : N) (f : V -> V) (m : amap V) : amap V :=
  match lookup k m with
  | Some v => ins k (f v) m
  | None => m
  end.

Definition keys {V} (m : amap V) : list N := map fst m.

Definition opt_eqb {V} (veqb : V -> V -> bool) (a b : option V) : bool :=
  match a, b with
  | Some x, Some y => veqb x y
  | None, None => true
  | _, _ => false
  end.

Definition sub_eqb {V} (veqb : V -> V -> bool) (m1 m2 : amap V) : bool :=
  forallb (fun k => opt_eqb veqb (lookup k m1) (lookup k m2)) (keys m1).

(* extensional equality of two maps (BTreeMap ==) *)
Definition map_eqb {V} (veqb : V -> V -> bool) (m1 m2 : amap V) : bool :=
  sub_eqb veqb m1 m2 && sub_eqb veqb m2 m1.

Fixpoint list_eqb {A} (eqb : A -> A -> bool) (a b : list A) : bool :=
  match a, b with
  | [], [] => true
  | x :: a', y :: b' => eqb x y && list_eqb eqb a' b'
  | _, _ => false
  end.

Definition omap {A B} (f : A -> B) (o : option A) : option B :=
  match o with Some a => Some (f a) | None => None end.

Definition obind {A B} (o : option A) (f : A -> option B) : option B :=
  match o with Some a => f a | None => None end.
