(* L6 — Gallina model of crates/cache/src/lib.rs (`Store`), definitions only.

   Disk   = on-disk manifest (absent / unparsable = None) + content-addressed blob files.
   Handle = an open `Store` (key, manifest.files, next_files, on_disk_current).
   One process, one handle at a time (the store lock, property C30, provides that discipline).

   Not modelled: I/O failures (write_blob / atomic_write returning Err, toml serialisation error),
   the `lock` file and directory creation, blob files tampered behind the store's back.
   usize/u32 are unbounded N; SCHEMA < 2^32 is checked on the generated constant.

   The content hash is the section variable H; the theorems (StoreProofs.v) assume it injective
   (blake3 collision-freedom: trusted base).  The executable instance `run_id` used by the
   correspondence check takes the blob's bytes themselves as its name (H = identity). *)
Require Import NArith List Bool.
From VV Require Import Store.AMap Store.StoreConsts.
Import ListNotations.
Open Scope N_scope.

(* ---------------------------------------------------------------- blob framing *)

Definition le32 (n : N) : list N :=
  [n mod 256; (n / 256) mod 256; (n / 65536) mod 256; (n / 16777216) mod 256].

Definition from_le32 (b0 b1 b2 b3 : N) : N := b0 + 256 * b1 + 65536 * b2 + 16777216 * b3.

(* write_blob: BLOB_MAGIC ++ SCHEMA_VERSION.to_le_bytes() ++ payload *)
Definition frame (payload : list N) : list N := MAGIC ++ le32 SCHEMA ++ payload.

Fixpoint strip_prefix (p d : list N) : option (list N) :=
  match p, d with
  | [], _ => Some d
  | x :: p', y :: d' => if x =? y then strip_prefix p' d' else None
  | _ :: _, [] => None
  end.

(* read_blob after fs::read and the content-address check: strip_prefix(MAGIC), split_first_chunk::<4>, version check *)
Definition unframe (d : list N) : option (list N) :=
  match strip_prefix MAGIC d with
  | Some (b0 :: b1 :: b2 :: b3 :: pl) =>
      if from_le32 b0 b1 b2 b3 =? SCHEMA then Some pl else None
  | _ => None
  end.

(* ---------------------------------------------------------------- operations *)

Inductive op :=
| Open (k : N)                                  (* Store::open / try_open (drops a live handle first) *)
| Put (p h : N) (b : option (list N))           (* put(src, hash, blob) *)
| SetDiag (p : N) (b : list N)                  (* set_diagnostics *)
| Keep (p : N)
| Invalidate (p : N)
| SetDeps (p : N) (l : list N)
| SetTests (p : N) (l : list N)
| Save
| Drop                                          (* drop(store) *)
| ExtRm                                         (* external: manifest.toml deleted *)
| ExtBadSchema (n : N).                         (* external: manifest's schema field := n (n <> SCHEMA) *)

Section Store.
  Variable name : Type.
  Variable name_eqb : name -> name -> bool.
  Variable H : list N -> name.                  (* content_hash of the framed data -> file name *)

  Record entry := mkEntry {
    e_hash : N;
    e_frag : option name;
    e_deps : list N;
    e_tests : list N;
    e_diag : option name }.

  Definition entry_eqb (a b : entry) : bool :=
    (e_hash a =? e_hash b) && opt_eqb name_eqb (e_frag a) (e_frag b) &&
    list_eqb N.eqb (e_deps a) (e_deps b) && list_eqb N.eqb (e_tests a) (e_tests b) &&
    opt_eqb name_eqb (e_diag a) (e_diag b).

  Definition blobs := list (name * list N).

  Fixpoint blob_lookup (n : name) (bs : blobs) : option (list N) :=
    match bs with
    | [] => None
    | (n', d) :: r => if name_eqb n' n then Some d else blob_lookup n r
    end.

  Record disk := mkDisk {
    d_man : option (N * N * amap entry);        (* schema, global_key, files *)
    d_blobs : blobs }.

  Record handle := mkHandle {
    h_key : N;
    h_files : amap entry;                       (* manifest.files *)
    h_next : amap entry;                        (* next_files *)
    h_cur : bool }.                             (* on_disk_current *)

  Definition state := (disk * option handle)%type.

  Definition init : state := (mkDisk None [], None).

  (* open_with_lock *)
  Definition open_store (d : disk) (k : N) : handle :=
    match d_man d with
    | Some (s, k', files) =>
        if (s =? SCHEMA) && (k' =? k) then mkHandle k files [] true
        else mkHandle k [] [] false
    | None => mkHandle k [] [] false
    end.

  (* write_blob: reuse an existing file of that name, else create it *)
  Definition write_blob (bs : blobs) (payload : list N) : blobs * name :=
    let data := frame payload in
    let n := H data in
    match blob_lookup n bs with
    | Some _ => (bs, n)
    | None => ((n, data) :: bs, n)
    end.

  (* read_blob: a file whose bytes no longer hash to its name is damaged = a miss *)
  Definition read_blob (bs : blobs) (n : name) : option (list N) :=
    obind (blob_lookup n bs) (fun d => if name_eqb (H d) n then unframe d else None).

  Definition names (e : entry) : list name :=
    match e_frag e with Some n => [n] | None => [] end ++
    match e_diag e with Some n => [n] | None => [] end.

  (* gc: `referenced` = fragment and diagnostics of every value of manifest.files *)
  Definition refs (m : amap entry) : list name :=
    flat_map (fun k => match lookup k m with Some e => names e | None => [] end) (keys m).

  Definition gc (bs : blobs) (m : amap entry) : blobs :=
    filter (fun x => existsb (name_eqb (fst x)) (refs m)) bs.

  Definition with_blobs (d : disk) (bs : blobs) : disk := mkDisk (d_man d) bs.

  Definition step (o : op) (s : state) : state :=
    let (d, oh) := s in
    match o, oh with
    | Open k, _ => (d, Some (open_store d k))
    | Drop, _ => (d, None)
    | ExtRm, _ => (mkDisk None (d_blobs d), oh)
    | ExtBadSchema n, _ =>
        if n =? SCHEMA then s
        else match d_man d with
             | Some (_, k, f) => (mkDisk (Some (n, k, f)) (d_blobs d), oh)
             | None => s
             end
    | _, None => s
    | Put p h b, Some hd =>
        let (bs, frag) :=
          match b with
          | Some payload => let (bs, n) := write_blob (d_blobs d) payload in (bs, Some n)
          | None => (d_blobs d, None)
          end in
        (with_blobs d bs,
         Some (mkHandle (h_key hd) (h_files hd) (ins p (mkEntry h frag [] [] None) (h_next hd)) (h_cur hd)))
    | SetDiag p b, Some hd =>
        match lookup p (h_next hd) with
        | None => s
        | Some e =>
            match e_frag e with
            | None => s
            | Some _ =>
                let (bs, n) := write_blob (d_blobs d) b in
                (with_blobs d bs,
                 Some (mkHandle (h_key hd) (h_files hd)
                         (upd p (fun e => mkEntry (e_hash e) (e_frag e) (e_deps e) (e_tests e) (Some n)) (h_next hd))
                         (h_cur hd)))
            end
        end
    | Keep p, Some hd =>
        match lookup p (h_files hd) with
        | Some e => (d, Some (mkHandle (h_key hd) (h_files hd) (ins p e (h_next hd)) (h_cur hd)))
        | None => s
        end
    | Invalidate p, Some hd =>
        (d, Some (mkHandle (h_key hd) (h_files hd)
                    (upd p (fun e => mkEntry (e_hash e) None (e_deps e) (e_tests e) (e_diag e)) (h_next hd))
                    (h_cur hd)))
    | SetDeps p l, Some hd =>
        (d, Some (mkHandle (h_key hd) (h_files hd)
                    (upd p (fun e => mkEntry (e_hash e) (e_frag e) l (e_tests e) (e_diag e)) (h_next hd))
                    (h_cur hd)))
    | SetTests p l, Some hd =>
        (d, Some (mkHandle (h_key hd) (h_files hd)
                    (upd p (fun e => mkEntry (e_hash e) (e_frag e) (e_deps e) l (e_diag e)) (h_next hd))
                    (h_cur hd)))
    | Save, Some hd =>
        if h_cur hd && map_eqb entry_eqb (h_next hd) (h_files hd) then
          (d, Some (mkHandle (h_key hd) (h_files hd) [] (h_cur hd)))
        else
          let files := h_next hd in
          (mkDisk (Some (SCHEMA, h_key hd, files)) (gc (d_blobs d) files),
           Some (mkHandle (h_key hd) files [] true))
    end.

  Definition run (ops : list op) (s : state) : state := fold_left (fun s o => step o s) ops s.

  (* what a client sees for source path p: entry(p) with load / load_diagnostics applied *)
  Definition obs (s : state) (p : N) : option (N * list N * list N * option (list N) * option (list N)) :=
    match snd s with
    | None => None
    | Some hd =>
        omap (fun e => (e_hash e, e_deps e, e_tests e,
                        obind (e_frag e) (read_blob (d_blobs (fst s))),
                        obind (e_diag e) (read_blob (d_blobs (fst s)))))
             (lookup p (h_files hd))
    end.
End Store.

Arguments mkEntry {name}.
Arguments e_hash {name}.
Arguments e_frag {name}.
Arguments e_deps {name}.
Arguments e_tests {name}.
Arguments e_diag {name}.
Arguments mkDisk {name}.
Arguments d_man {name}.
Arguments d_blobs {name}.
Arguments mkHandle {name}.
Arguments h_key {name}.
Arguments h_files {name}.
Arguments h_next {name}.
Arguments h_cur {name}.
Arguments init {name}.
Arguments names {name}.
Arguments obs {name}.

(* ---------------------------------------------------------------- abstract specification *)
(* A versioned key-value map: one saved version (key, path -> value); a session has a view of the
   saved version (empty when the key differs), collects the build in progress and commits it with
   save.  `skip = true` additionally describes the skipped write of an identical re-scan. *)

Record aentry := mkA {
  a_hash : N;
  a_frag : option (list N);       (* blob bytes *)
  a_deps : list N;
  a_tests : list N;
  a_diag : option (list N) }.     (* diagnostics bytes *)

Definition bytes_eqb := list_eqb N.eqb.

Definition aentry_eqb (a b : aentry) : bool :=
  (a_hash a =? a_hash b) && opt_eqb bytes_eqb (a_frag a) (a_frag b) &&
  list_eqb N.eqb (a_deps a) (a_deps b) && list_eqb N.eqb (a_tests a) (a_tests b) &&
  opt_eqb bytes_eqb (a_diag a) (a_diag b).

Record ahandle := mkAH {
  ah_key : N;
  ah_view : amap aentry;
  ah_pend : amap aentry;
  ah_cur : bool }.

Record astate := mkAS {
  a_saved : option (N * amap aentry);
  a_h : option ahandle }.

Definition ainit : astate := mkAS None None.

Definition aopen (saved : option (N * amap aentry)) (k : N) : ahandle :=
  match saved with
  | Some (k', m) => if k' =? k then mkAH k m [] true else mkAH k [] [] false
  | None => mkAH k [] [] false
  end.

Definition astep (skip : bool) (o : op) (s : astate) : astate :=
  match o, a_h s with
  | Open k, _ => mkAS (a_saved s) (Some (aopen (a_saved s) k))
  | Drop, _ => mkAS (a_saved s) None
  | ExtRm, _ => mkAS None (a_h s)
  | ExtBadSchema n, _ => if n =? SCHEMA then s else mkAS None (a_h s)
  | _, None => s
  | Put p h b, Some hd =>
      mkAS (a_saved s) (Some (mkAH (ah_key hd) (ah_view hd) (ins p (mkA h b [] [] None) (ah_pend hd)) (ah_cur hd)))
  | SetDiag p b, Some hd =>
      match lookup p (ah_pend hd) with
      | None => s
      | Some e =>
          match a_frag e with
          | None => s
          | Some _ =>
              mkAS (a_saved s)
                   (Some (mkAH (ah_key hd) (ah_view hd)
                            (upd p (fun e => mkA (a_hash e) (a_frag e) (a_deps e) (a_tests e) (Some b)) (ah_pend hd))
                            (ah_cur hd)))
          end
      end
  | Keep p, Some hd =>
      match lookup p (ah_view hd) with
      | Some e => mkAS (a_saved s) (Some (mkAH (ah_key hd) (ah_view hd) (ins p e (ah_pend hd)) (ah_cur hd)))
      | None => s
      end
  | Invalidate p, Some hd =>
      mkAS (a_saved s)
           (Some (mkAH (ah_key hd) (ah_view hd)
                    (upd p (fun e => mkA (a_hash e) None (a_deps e) (a_tests e) (a_diag e)) (ah_pend hd)) (ah_cur hd)))
  | SetDeps p l, Some hd =>
      mkAS (a_saved s)
           (Some (mkAH (ah_key hd) (ah_view hd)
                    (upd p (fun e => mkA (a_hash e) (a_frag e) l (a_tests e) (a_diag e)) (ah_pend hd)) (ah_cur hd)))
  | SetTests p l, Some hd =>
      mkAS (a_saved s)
           (Some (mkAH (ah_key hd) (ah_view hd)
                    (upd p (fun e => mkA (a_hash e) (a_frag e) (a_deps e) l (a_diag e)) (ah_pend hd)) (ah_cur hd)))
  | Save, Some hd =>
      if skip && ah_cur hd && map_eqb aentry_eqb (ah_pend hd) (ah_view hd) then
        mkAS (a_saved s) (Some (mkAH (ah_key hd) (ah_view hd) [] (ah_cur hd)))
      else
        mkAS (Some (ah_key hd, ah_pend hd)) (Some (mkAH (ah_key hd) (ah_pend hd) [] true))
  end.

Definition arun (skip : bool) (ops : list op) (s : astate) : astate :=
  fold_left (fun s o => astep skip o s) ops s.

Definition aobs (s : astate) (p : N) : option (N * list N * list N * option (list N) * option (list N)) :=
  match a_h s with
  | None => None
  | Some hd => omap (fun e => (a_hash e, a_deps e, a_tests e, a_frag e, a_diag e)) (lookup p (ah_view hd))
  end.

(* External tampering only while no store is open (otherwise on_disk_current may be stale). *)
Fixpoint disciplined (is_open : bool) (ops : list op) : bool :=
  match ops with
  | [] => true
  | Open _ :: r => disciplined true r
  | Drop :: r => disciplined false r
  | ExtRm :: r => negb is_open && disciplined is_open r
  | ExtBadSchema _ :: r => negb is_open && disciplined is_open r
  | _ :: r => disciplined is_open r
  end.

(* ---------------------------------------------------------------- executable instance *)
(* name = the framed bytes themselves, H = identity (trivially injective). *)

Definition idname := list N.
Definition run_id (ops : list op) : state idname := run idname bytes_eqb (fun d => d) ops init.
Definition step_id := step idname bytes_eqb (fun d => d).

(* per-step observation used by the correspondence check:
   (manifest present, blob files, per path: entry with names and loads) *)
Definition view_id (paths : list N) (s : state idname) :=
  (match d_man (fst s) with Some (sch, k, _) => Some (sch, k) | None => None end,
   map snd (d_blobs (fst s)),
   match snd s with
   | None => None
   | Some hd =>
       Some (map (fun p => omap (fun e => (e_hash e, e_frag e, e_deps e, e_tests e, e_diag e,
                                            obind (e_frag e) (read_blob idname bytes_eqb (fun d => d) (d_blobs (fst s))),
                                            obind (e_diag e) (read_blob idname bytes_eqb (fun d => d) (d_blobs (fst s)))))
                                 (lookup p (h_files hd))) paths)
   end).

Fixpoint trace_id (paths : list N) (ops : list op) (s : state idname) :=
  match ops with
  | [] => []
  | o :: r => let s' := step_id o s in view_id paths s' :: trace_id paths r s'
  end.
