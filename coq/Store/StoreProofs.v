(* Proofs about the cache-store model (C29): refinement of the abstract versioned map. *)
Require Import NArith List Bool Lia.
From VV Require Import Store.AMap Store.AMapProofs Store.StoreConsts Store.StoreModel.
Import ListNotations.
Open Scope N_scope.

(* ---------------------------------------------------------------- framing *)

Lemma strip_prefix_app : forall p d, strip_prefix p (p ++ d) = Some d.
Proof. induction p; simpl; intros; auto. rewrite N.eqb_refl. auto. Qed.

(* depends on the generated constants: SCHEMA_VERSION fits a u32 *)
Lemma le32_shape : exists b0 b1 b2 b3,
  le32 SCHEMA = [b0; b1; b2; b3] /\ (from_le32 b0 b1 b2 b3 =? SCHEMA) = true.
Proof. do 4 eexists. split; [reflexivity | vm_compute; reflexivity]. Qed.

Lemma unframe_frame : forall p, unframe (frame p) = Some p.
Proof.
  intros. unfold unframe, frame. rewrite strip_prefix_app.
  destruct le32_shape as (b0 & b1 & b2 & b3 & E & R). rewrite E. cbn [app]. rewrite R. reflexivity.
Qed.

Lemma frame_inj : forall p q, frame p = frame q -> p = q.
Proof.
  intros p q E. assert (Some p = Some q) as X by (rewrite <- !unframe_frame, E; reflexivity).
  inversion X; auto.
Qed.

Lemma bytes_eqb_spec : forall a b, bytes_eqb a b = true <-> a = b.
Proof. apply list_eqb_spec. intros; apply N.eqb_eq. Qed.

Lemma aentry_eqb_spec : forall a b, aentry_eqb a b = true <-> a = b.
Proof.
  intros [h f d t g] [h' f' d' t' g']. unfold aentry_eqb; simpl.
  rewrite !andb_true_iff, N.eqb_eq,
    !(opt_eqb_spec _ _ bytes_eqb_spec), !(list_eqb_spec _ _ N.eqb_eq).
  split.
  - intros [[[[-> ->] ->] ->] ->]. reflexivity.
  - intros E; inversion E; subst; auto.
Qed.

Section Proofs.
  Variable name : Type.
  Variable name_eqb : name -> name -> bool.
  Variable H : list N -> name.
  Hypothesis name_eqb_spec : forall a b, name_eqb a b = true <-> a = b.
  (* blake3 is treated as collision-free (trusted base) *)
  Hypothesis H_inj : forall a b, H a = H b -> a = b.

  Notation entry := (entry name).
  Notation state := (state name).
  Notation blobs := (blobs name).
  Notation blob_lookup := (blob_lookup name name_eqb).
  Notation read_blob := (read_blob name name_eqb H).
  Notation write_blob := (write_blob name name_eqb H).
  Notation gc := (gc name name_eqb).
  Notation refs := (refs name).
  Notation step := (step name name_eqb H).
  Notation run := (run name name_eqb H).
  Notation entry_eqb := (entry_eqb name name_eqb).

  Lemma entry_eqb_spec : forall a b : entry, entry_eqb a b = true <-> a = b.
  Proof.
    intros [h f d t g] [h' f' d' t' g']. unfold StoreModel.entry_eqb; simpl.
    rewrite !andb_true_iff, N.eqb_eq,
      !(opt_eqb_spec _ _ name_eqb_spec), !(list_eqb_spec _ _ N.eqb_eq).
    split.
    - intros [[[[-> ->] ->] ->] ->]. reflexivity.
    - intros E; inversion E; subst; auto.
  Qed.

  Lemma name_eqb_refl : forall n, name_eqb n n = true.
  Proof. intros. apply name_eqb_spec. reflexivity. Qed.

  (* ------------------------------------------------------------ invariants *)

  (* every blob file holds a framed payload and is named by the hash of its bytes *)
  Definition BOK (bs : blobs) : Prop :=
    forall n d, blob_lookup n bs = Some d -> exists pl, d = frame pl /\ n = H d.

  (* every name an entry of m refers to is a file *)
  Definition Present (bs : blobs) (m : amap entry) : Prop :=
    forall p e n, lookup p m = Some e -> In n (names e) -> exists d, blob_lookup n bs = Some d.

  Definition resolve (bs : blobs) (e : entry) : aentry :=
    mkA (e_hash e) (obind (e_frag e) (read_blob bs)) (e_deps e) (e_tests e)
        (obind (e_diag e) (read_blob bs)).

  Definition MR (bs : blobs) (m : amap entry) (m' : amap aentry) : Prop :=
    forall p, omap (resolve bs) (lookup p m) = lookup p m'.

  Definition Inv (s : state) : Prop :=
    BOK (d_blobs (fst s)) /\
    match snd s with
    | Some h => Present (d_blobs (fst s)) (h_files h) /\ Present (d_blobs (fst s)) (h_next h)
    | None => True
    end /\
    match d_man (fst s) with
    | Some (_, _, f) => Present (d_blobs (fst s)) f
    | None => True
    end.

  Definition R (s : state) (a : astate) : Prop :=
    match d_man (fst s) with
    | Some (sc, k, f) =>
        if sc =? SCHEMA then exists m', a_saved a = Some (k, m') /\ MR (d_blobs (fst s)) f m'
        else a_saved a = None
    | None => a_saved a = None
    end /\
    match snd s, a_h a with
    | None, None => True
    | Some h, Some ah =>
        h_key h = ah_key ah /\ h_cur h = ah_cur ah /\
        MR (d_blobs (fst s)) (h_files h) (ah_view ah) /\
        MR (d_blobs (fst s)) (h_next h) (ah_pend ah)
    | _, _ => False
    end.

  (* ------------------------------------------------------------ blobs *)

  Lemma In_refs : forall (m : amap entry) n,
    In n (refs m) <-> exists p e, lookup p m = Some e /\ In n (names e).
  Proof.
    intros. unfold StoreModel.refs. rewrite in_flat_map. split.
    - intros [k [_ Hin]]. destruct (lookup k m) eqn:E; [|contradiction]. eauto.
    - intros [p [e [Hl Hin]]]. exists p. split.
      + eapply lookup_in_keys; eauto.
      + rewrite Hl; auto.
  Qed.

  Lemma read_present : forall bs n d, BOK bs -> blob_lookup n bs = Some d ->
    exists pl, d = frame pl /\ read_blob bs n = Some pl /\ n = H (frame pl).
  Proof.
    intros bs n d B L. destruct (B _ _ L) as [pl [-> ->]]. exists pl. repeat split; auto.
    unfold StoreModel.read_blob. rewrite L. simpl. rewrite name_eqb_refl. apply unframe_frame.
  Qed.

  Lemma resolve_agree : forall bs bs' (e : entry),
    (forall n, In n (names e) -> blob_lookup n bs' = blob_lookup n bs) ->
    resolve bs' e = resolve bs e.
  Proof.
    intros bs bs' [h f d t g] A. unfold resolve, names, StoreModel.read_blob in *; simpl in *. f_equal.
    - destruct f; simpl; auto. rewrite A; auto. apply in_or_app; left; simpl; auto.
    - destruct g; simpl; auto. rewrite A; auto. apply in_or_app; right; simpl; auto.
  Qed.

  Lemma transport : forall bs bs' (m : amap entry),
    (forall n, In n (refs m) -> blob_lookup n bs' = blob_lookup n bs) ->
    (Present bs m -> Present bs' m) /\ (forall m', MR bs m m' -> MR bs' m m').
  Proof.
    intros bs bs' m A. split.
    - intros P p e n L I. destruct (P p e n L I) as [d Hd]. exists d.
      rewrite A; auto. apply In_refs; eauto.
    - intros m' M p. rewrite <- M. destruct (lookup p m) eqn:L; simpl; auto. f_equal.
      apply resolve_agree. intros n I. apply A. apply In_refs; eauto.
  Qed.

  Definition extends (bs bs' : blobs) : Prop :=
    forall n d, blob_lookup n bs = Some d -> blob_lookup n bs' = Some d.

  Lemma extends_agree : forall bs bs' (m : amap entry), extends bs bs' -> Present bs m ->
    forall n, In n (refs m) -> blob_lookup n bs' = blob_lookup n bs.
  Proof.
    intros bs bs' m E P n I. apply In_refs in I as [p [e [L I]]].
    destruct (P p e n L I) as [d Hd]. rewrite Hd. apply E; auto.
  Qed.

  Lemma write_blob_spec : forall bs pl bs' n, BOK bs -> write_blob bs pl = (bs', n) ->
    BOK bs' /\ extends bs bs' /\ blob_lookup n bs' = Some (frame pl) /\ read_blob bs' n = Some pl.
  Proof.
    intros bs pl bs' n B W. unfold StoreModel.write_blob in W.
    destruct (blob_lookup (H (frame pl)) bs) eqn:L; inversion W; subst; clear W.
    - destruct (B _ _ L) as [pl' [-> E]]. apply H_inj in E. rewrite <- E in *.
      repeat split; auto.
      + intros n d; auto.
      + unfold StoreModel.read_blob. rewrite L. simpl. rewrite name_eqb_refl. apply unframe_frame.
    - assert (X : blob_lookup (H (frame pl)) ((H (frame pl), frame pl) :: bs) = Some (frame pl))
        by (simpl; rewrite name_eqb_refl; auto).
      repeat split; auto.
      + intros n d. simpl. destruct (name_eqb (H (frame pl)) n) eqn:E.
        * intros X'; inversion X'; subst. apply name_eqb_spec in E. subst. eauto.
        * apply B.
      + intros n d L'. simpl. destruct (name_eqb (H (frame pl)) n) eqn:E; auto.
        apply name_eqb_spec in E. subst. congruence.
      + unfold StoreModel.read_blob. rewrite X. simpl. rewrite name_eqb_refl. apply unframe_frame.
  Qed.

  Lemma blob_lookup_filter : forall (P : name -> bool) bs n,
    blob_lookup n (filter (fun x => P (fst x)) bs) = if P n then blob_lookup n bs else None.
  Proof.
    induction bs as [|[n' d] r IH]; simpl; intros.
    - destruct (P n); auto.
    - destruct (P n') eqn:E; simpl.
      + destruct (name_eqb n' n) eqn:E2.
        * apply name_eqb_spec in E2; subst. rewrite E. auto.
        * apply IH.
      + rewrite IH. destruct (name_eqb n' n) eqn:E2; auto.
        apply name_eqb_spec in E2; subst. rewrite E. auto.
  Qed.

  Lemma existsb_name : forall n l, existsb (name_eqb n) l = true <-> In n l.
  Proof.
    intros. rewrite existsb_exists. split.
    - intros [x [I E]]. apply name_eqb_spec in E. subst; auto.
    - intros I. exists n. split; auto. apply name_eqb_refl.
  Qed.

  Lemma gc_lookup : forall bs (m : amap entry) n,
    blob_lookup n (gc bs m) = if existsb (name_eqb n) (refs m) then blob_lookup n bs else None.
  Proof.
    intros. unfold StoreModel.gc.
    apply (blob_lookup_filter (fun n => existsb (name_eqb n) (refs m))).
  Qed.

  Lemma gc_agree : forall bs (m : amap entry) n, In n (refs m) ->
    blob_lookup n (gc bs m) = blob_lookup n bs.
  Proof.
    intros. rewrite gc_lookup. apply existsb_name in H0. rewrite H0. auto.
  Qed.

  Lemma gc_BOK : forall bs m, BOK bs -> BOK (gc bs m).
  Proof.
    intros bs m B n d L. rewrite gc_lookup in L.
    destruct (existsb (name_eqb n) (refs m)); try discriminate. apply B; auto.
  Qed.

  (* ------------------------------------------------------------ resolve is injective on live entries *)

  Lemma obind_read_inj : forall bs (a b : option name), BOK bs ->
    (forall n, a = Some n -> exists d, blob_lookup n bs = Some d) ->
    (forall n, b = Some n -> exists d, blob_lookup n bs = Some d) ->
    obind a (read_blob bs) = obind b (read_blob bs) -> a = b.
  Proof.
    intros bs [n1|] [n2|] B P1 P2 E; simpl in E; auto.
    - destruct (P1 _ eq_refl) as [d1 L1]. destruct (P2 _ eq_refl) as [d2 L2].
      destruct (read_present _ _ _ B L1) as [p1 [_ [R1 N1]]].
      destruct (read_present _ _ _ B L2) as [p2 [_ [R2 N2]]].
      rewrite R1, R2 in E. inversion E; subst. reflexivity.
    - destruct (P1 _ eq_refl) as [d1 L1].
      destruct (read_present _ _ _ B L1) as [p1 [_ [R1 _]]]. rewrite R1 in E. discriminate.
    - destruct (P2 _ eq_refl) as [d2 L2].
      destruct (read_present _ _ _ B L2) as [p2 [_ [R2 _]]]. rewrite R2 in E. discriminate.
  Qed.

  Lemma resolve_inj : forall bs (e1 e2 : entry), BOK bs ->
    (forall n, In n (names e1) -> exists d, blob_lookup n bs = Some d) ->
    (forall n, In n (names e2) -> exists d, blob_lookup n bs = Some d) ->
    resolve bs e1 = resolve bs e2 -> e1 = e2.
  Proof.
    intros bs [h f d t g] [h' f' d' t' g'] B P1 P2 E. unfold resolve, names in *; simpl in *.
    inversion E; subst. f_equal.
    - eapply obind_read_inj; eauto; intros n ->.
      + apply P1. apply in_or_app; left; simpl; auto.
      + apply P2. apply in_or_app; left; simpl; auto.
    - eapply obind_read_inj; eauto; intros n ->.
      + apply P1. apply in_or_app; right; simpl; auto.
      + apply P2. apply in_or_app; right; simpl; auto.
  Qed.

  Lemma map_eqb_resolve : forall bs (m1 m2 : amap entry) a1 a2, BOK bs ->
    Present bs m1 -> Present bs m2 -> MR bs m1 a1 -> MR bs m2 a2 ->
    map_eqb entry_eqb m1 m2 = map_eqb aentry_eqb a1 a2.
  Proof.
    intros bs m1 m2 a1 a2 B P1 P2 M1 M2. apply eq_true_iff_eq.
    rewrite (map_eqb_spec _ _ entry_eqb_spec), (map_eqb_spec _ _ aentry_eqb_spec). split.
    - intros E k. rewrite <- M1, <- M2, E. reflexivity.
    - intros E k. specialize (E k). rewrite <- M1, <- M2 in E.
      destruct (lookup k m1) eqn:L1, (lookup k m2) eqn:L2; simpl in E; try discriminate; auto.
      assert (E' : resolve bs e = resolve bs e0) by congruence. f_equal. exact (resolve_inj bs e e0 B (fun n I => P1 k e n L1 I) (fun n I => P2 k e0 n L2 I) E').
  Qed.

  (* ------------------------------------------------------------ map relation under the handle operations *)

  Lemma MR_nil : forall bs, MR bs [] [].
  Proof. intros bs p. reflexivity. Qed.

  Lemma Present_nil : forall bs, Present bs [].
  Proof. intros bs p e n L. discriminate. Qed.

  Lemma MR_ins : forall bs m m' p e, MR bs m m' -> MR bs (ins p e m) (ins p (resolve bs e) m').
  Proof.
    intros bs m m' p e M k. rewrite !lookup_ins. destruct (p =? k); auto.
  Qed.

  Lemma Present_ins : forall bs (m : amap entry) p e, Present bs m ->
    (forall n, In n (names e) -> exists d, blob_lookup n bs = Some d) -> Present bs (ins p e m).
  Proof.
    intros bs m p e P Pe k e' n L I. rewrite lookup_ins in L. destruct (p =? k).
    - inversion L; subst; auto.
    - eapply P; eauto.
  Qed.

  Lemma MR_upd : forall bs m m' p (f : entry -> entry) (g : aentry -> aentry), MR bs m m' ->
    (forall e, lookup p m = Some e -> resolve bs (f e) = g (resolve bs e)) ->
    MR bs (upd p f m) (upd p g m').
  Proof.
    intros bs m m' p f g M C k. rewrite !lookup_upd. destruct (p =? k) eqn:E; auto.
    apply N.eqb_eq in E; subst k. rewrite <- M. destruct (lookup p m) eqn:L; simpl; auto.
    f_equal. auto.
  Qed.

  Lemma Present_upd : forall bs (m : amap entry) p (f : entry -> entry), Present bs m ->
    (forall e n, lookup p m = Some e -> In n (names (f e)) ->
                 In n (names e) \/ exists d, blob_lookup n bs = Some d) ->
    Present bs (upd p f m).
  Proof.
    intros bs m p f P C k e' n L I. rewrite lookup_upd in L. destruct (p =? k) eqn:E.
    - apply N.eqb_eq in E; subst k. destruct (lookup p m) eqn:L0; simpl in L; inversion L; subst.
      destruct (C _ _ eq_refl I); eauto.
    - eapply P; eauto.
  Qed.

  (* ------------------------------------------------------------ one step *)

  Ltac inv_simpl := unfold Inv, R in *; simpl in *.

  Lemma step_refines : forall o s a, Inv s -> R s a ->
    Inv (step o s) /\ R (step o s) (astep true o a).
  Proof.
    intros o [d oh] a I Rl.
    destruct I as [B [Ih Id]]. destruct Rl as [Rd Rh]. simpl in *.
    destruct o.
    - (* Open *)
      simpl. unfold Inv, R; simpl.
      unfold open_store, aopen.
      destruct (d_man d) as [[[sc k'] f]|] eqn:Dm.
      + destruct (sc =? SCHEMA) eqn:Es; simpl.
        * destruct Rd as [m' [Sv M]]. rewrite Sv.
          destruct (k' =? k) eqn:Ek; simpl; rewrite ?Dm, ?Es; repeat split; auto;
            try apply Present_nil; try apply MR_nil; eauto.
        * rewrite Rd. simpl; rewrite ?Dm, ?Es. repeat split; auto; try apply Present_nil; try apply MR_nil.
      + rewrite Rd. simpl; rewrite ?Dm. repeat split; auto; try apply Present_nil; try apply MR_nil.
    - (* Put *)
      destruct oh as [hd|]; destruct (a_h a) as [ah|] eqn:Ah; try contradiction;
        [|simpl; rewrite Ah; unfold Inv, R; simpl; rewrite Ah; auto].
      destruct Ih as [Pf Pn]. destruct Rh as [Kk [Kc [Mf Mn]]].
      simpl. rewrite Ah.
      destruct b as [payload|].
      + destruct (write_blob (d_blobs d) payload) as [bs' n] eqn:W.
        destruct (write_blob_spec _ _ _ _ B W) as [B' [Ex [Ln Rn]]].
        assert (Af := extends_agree _ _ _ Ex Pf). assert (An := extends_agree _ _ _ Ex Pn).
        destruct (transport _ _ _ Af) as [Tf1 Tf2]. destruct (transport _ _ _ An) as [Tn1 Tn2].
        unfold Inv, R; simpl. repeat split; auto.
        * apply Present_ins; auto. intros n0 I0. unfold names in I0; simpl in I0.
          destruct I0 as [<-|[]]. eauto.
        * destruct (d_man d) as [[[sc k'] f]|]; auto.
          destruct (transport _ _ _ (extends_agree _ _ _ Ex Id)) as [T1 _]. auto.
        * destruct (d_man d) as [[[sc k'] f]|]; auto. destruct (sc =? SCHEMA); auto.
          destruct Rd as [m' [Sv M]]. exists m'. split; auto.
          destruct (transport _ _ _ (extends_agree _ _ _ Ex Id)) as [_ T2]. auto.
        * replace (mkA h (Some payload) [] [] None) with (resolve bs' (mkEntry h (Some n) [] [] None)).
          -- apply MR_ins; auto.
          -- unfold resolve; simpl. rewrite Rn. reflexivity.
      + destruct d as [dm dbs]; simpl in *. unfold Inv, R; simpl. repeat split; auto.
        * apply Present_ins; auto. intros n0 I0. inversion I0.
        * replace (mkA h None [] [] None) with (resolve dbs (mkEntry h None [] [] None)) by reflexivity.
          apply MR_ins; auto.
    - (* SetDiag *)
      destruct oh as [hd|]; destruct (a_h a) as [ah|] eqn:Ah; try contradiction;
        [|simpl; rewrite Ah; unfold Inv, R; simpl; rewrite Ah; auto].
      destruct Ih as [Pf Pn]. destruct Rh as [Kk [Kc [Mf Mn]]].
      simpl. rewrite Ah. pose proof (Mn p) as Mp.
      destruct (lookup p (h_next hd)) as [e|] eqn:Le; simpl in Mp; rewrite <- Mp.
      2:{ unfold Inv, R; simpl. rewrite Ah. repeat split; auto. }
      destruct (e_frag e) as [nf|] eqn:Ef.
      2:{ assert (Af : a_frag (resolve (d_blobs d) e) = None)
            by (unfold resolve; simpl; rewrite Ef; reflexivity).
          rewrite Af. unfold Inv, R; simpl. rewrite Ah. repeat split; auto. }
      destruct (Pn p e nf Le) as [df Ldf]. { unfold names. rewrite Ef. simpl; auto. }
      destruct (read_present _ _ _ B Ldf) as [pf [_ [Rf _]]].
      assert (Af : a_frag (resolve (d_blobs d) e) = Some pf)
        by (unfold resolve; simpl; rewrite Ef; simpl; exact Rf).
      rewrite Af.
      destruct (write_blob (d_blobs d) b) as [bs' n] eqn:W.
      destruct (write_blob_spec _ _ _ _ B W) as [B' [Ex [Ln Rn]]].
      assert (Afl := extends_agree _ _ _ Ex Pf). assert (An := extends_agree _ _ _ Ex Pn).
      destruct (transport _ _ _ Afl) as [Tf1 Tf2]. destruct (transport _ _ _ An) as [Tn1 Tn2].
      unfold Inv, R; simpl. repeat split; auto.
      + apply Present_upd; auto. intros e0 n0 L0 I0. unfold names in *; simpl in *.
        apply in_app_or in I0 as [I0|I0].
        * left. apply in_or_app; auto.
        * destruct I0 as [<-|[]]. right; eauto.
      + destruct (d_man d) as [[[sc k'] f]|]; auto.
        destruct (transport _ _ _ (extends_agree _ _ _ Ex Id)) as [T1 _]. auto.
      + destruct (d_man d) as [[[sc k'] f]|]; auto. destruct (sc =? SCHEMA); auto.
        destruct Rd as [m' [Sv M]]. exists m'. split; auto.
        destruct (transport _ _ _ (extends_agree _ _ _ Ex Id)) as [_ T2]. auto.
      + apply MR_upd; auto. intros e0 L0. unfold resolve; simpl. rewrite Rn. reflexivity.
    - (* Keep *)
      destruct oh as [hd|]; destruct (a_h a) as [ah|] eqn:Ah; try contradiction;
        [|simpl; rewrite Ah; unfold Inv, R; simpl; rewrite Ah; auto].
      destruct Ih as [Pf Pn]. destruct Rh as [Kk [Kc [Mf Mn]]].
      simpl. rewrite Ah. pose proof (Mf p) as Mp.
      destruct (lookup p (h_files hd)) as [e|] eqn:Le; simpl in Mp; rewrite <- Mp.
      + unfold Inv, R; simpl. repeat split; auto.
        * apply Present_ins; auto. intros n I. eapply Pf; eauto.
        * apply MR_ins; auto.
      + unfold Inv, R; simpl. rewrite Ah. repeat split; auto.
    - (* Invalidate *)
      destruct oh as [hd|]; destruct (a_h a) as [ah|] eqn:Ah; try contradiction;
        [|simpl; rewrite Ah; unfold Inv, R; simpl; rewrite Ah; auto].
      destruct Ih as [Pf Pn]. destruct Rh as [Kk [Kc [Mf Mn]]].
      simpl. rewrite Ah. unfold Inv, R; simpl. repeat split; auto.
      + apply Present_upd; auto. intros e0 n0 L0 I0. left. unfold names in *; simpl in *.
        apply in_or_app; right; auto.
      + apply MR_upd; auto.
    - (* SetDeps *)
      destruct oh as [hd|]; destruct (a_h a) as [ah|] eqn:Ah; try contradiction;
        [|simpl; rewrite Ah; unfold Inv, R; simpl; rewrite Ah; auto].
      destruct Ih as [Pf Pn]. destruct Rh as [Kk [Kc [Mf Mn]]].
      simpl. rewrite Ah. unfold Inv, R; simpl. repeat split; auto.
      + apply Present_upd; auto.
      + apply MR_upd; auto.
    - (* SetTests *)
      destruct oh as [hd|]; destruct (a_h a) as [ah|] eqn:Ah; try contradiction;
        [|simpl; rewrite Ah; unfold Inv, R; simpl; rewrite Ah; auto].
      destruct Ih as [Pf Pn]. destruct Rh as [Kk [Kc [Mf Mn]]].
      simpl. rewrite Ah. unfold Inv, R; simpl. repeat split; auto.
      + apply Present_upd; auto.
      + apply MR_upd; auto.
    - (* Save *)
      destruct oh as [hd|]; destruct (a_h a) as [ah|] eqn:Ah; try contradiction;
        [|simpl; rewrite Ah; unfold Inv, R; simpl; rewrite Ah; auto].
      destruct Ih as [Pf Pn]. destruct Rh as [Kk [Kc [Mf Mn]]].
      simpl. rewrite Ah.
      rewrite (map_eqb_resolve _ _ _ _ _ B Pn Pf Mn Mf). rewrite <- Kc.
      destruct (h_cur hd && map_eqb aentry_eqb (ah_pend ah) (ah_view ah)) eqn:Sk.
      + unfold Inv, R; simpl. repeat split; auto; try apply Present_nil; try apply MR_nil.
      + assert (Ag : forall n, In n (refs (h_next hd)) ->
                              blob_lookup n (gc (d_blobs d) (h_next hd)) = blob_lookup n (d_blobs d))
          by (intros; apply gc_agree; auto).
        destruct (transport _ _ _ Ag) as [T1 T2].
        unfold Inv, R; simpl. rewrite ?N.eqb_refl.
        repeat split; auto; try apply Present_nil; try apply MR_nil; try (apply gc_BOK; auto).
        exists (ah_pend ah). rewrite Kk. split; auto.
    - (* Drop *)
      simpl. unfold Inv, R; simpl. repeat split; auto.
    - (* ExtRm *)
      simpl. unfold Inv, R; simpl. repeat split; auto.
    - (* ExtBadSchema *)
      simpl. destruct (n =? SCHEMA) eqn:En.
      + unfold Inv, R; simpl. repeat split; auto.
      + destruct (d_man d) as [[[sc k'] f]|] eqn:Dm.
        * unfold Inv, R; simpl. rewrite En. repeat split; auto.
        * unfold Inv, R; simpl. rewrite Dm. repeat split; auto.
  Qed.

  Lemma init_ok : Inv init /\ R init ainit.
  Proof.
    unfold Inv, R; simpl. repeat split; auto. intros n d L. discriminate.
  Qed.

  Lemma run_refines : forall ops s a, Inv s -> R s a ->
    Inv (run ops s) /\ R (run ops s) (arun true ops a).
  Proof.
    induction ops as [|o r IH]; simpl; intros; auto.
    destruct (step_refines o s a H0 H1). apply IH; auto.
  Qed.

  Lemma R_obs : forall s a, Inv s -> R s a -> forall p, obs name_eqb H s p = aobs a p.
  Proof.
    intros [d oh] a I [_ Rh] p. unfold obs, aobs; simpl in *.
    destruct oh as [hd|], (a_h a) as [ah|]; try contradiction; auto.
    destruct Rh as [_ [_ [Mf _]]]. rewrite <- Mf. destruct (lookup p (h_files hd)); reflexivity.
  Qed.

  (* MAIN: the store refines the abstract versioned map for every operation sequence *)
  Theorem store_refines_map : forall ops p,
    obs name_eqb H (run ops init) p = aobs (arun true ops ainit) p.
  Proof.
    intros. destruct init_ok as [I0 R0]. destruct (run_refines ops _ _ I0 R0). apply R_obs; auto.
  Qed.

  Lemma reachable_inv : forall ops, Inv (run ops init).
  Proof. intros. destruct init_ok as [I0 R0]. destruct (run_refines ops _ _ I0 R0); auto. Qed.

  (* every blob the on-disk manifest refers to is a file holding a well-formed frame *)
  Theorem manifest_blobs_present : forall ops sc k f n,
    d_man (fst (run ops init)) = Some (sc, k, f) -> In n (refs f) ->
    exists payload, blob_lookup n (d_blobs (fst (run ops init))) = Some (frame payload) /\
                    read_blob (d_blobs (fst (run ops init))) n = Some payload.
  Proof.
    intros ops sc k f n Dm I. destruct (reachable_inv ops) as [B [_ Id]]. rewrite Dm in Id.
    apply In_refs in I as [p [e [L I]]]. destruct (Id p e n L I) as [d Ld].
    destruct (read_present _ _ _ B Ld) as [pl [-> [Rd _]]]. eauto.
  Qed.

  (* save (and the gc it runs) never deletes or alters a blob the manifest it leaves on disk refers to *)
  Theorem save_keeps_referenced : forall ops sc k f n,
    let s := run ops init in
    let s' := step Save s in
    d_man (fst s') = Some (sc, k, f) -> In n (refs f) ->
    blob_lookup n (d_blobs (fst s')) = blob_lookup n (d_blobs (fst s)) /\
    exists payload, blob_lookup n (d_blobs (fst s')) = Some (frame payload).
  Proof.
    intros ops sc k f n s s' Dm I.
    assert (X : exists payload, blob_lookup n (d_blobs (fst s')) = Some (frame payload)).
    { destruct (manifest_blobs_present (ops ++ [Save]) sc k f n) as [pl [L _]].
      - unfold StoreModel.run. rewrite fold_left_app. exact Dm.
      - exact I.
      - exists pl. unfold StoreModel.run in L. rewrite fold_left_app in L. exact L. }
    split; auto.
    subst s'. destruct s as [d oh]. simpl in *. destruct oh as [hd|]; auto.
    destruct (h_cur hd && map_eqb entry_eqb (h_next hd) (h_files hd)); simpl in *; auto.
    inversion Dm; subst. apply gc_agree; auto.
  Qed.

  (* a different key or schema on disk: the opened store has no entries *)
  Theorem other_key_or_schema_empty : forall ops k p,
    match d_man (fst (run ops init)) with
    | Some (sc, k', _) => sc <> SCHEMA \/ k' <> k
    | None => True
    end ->
    obs name_eqb H (step (Open k) (run ops init)) p = None.
  Proof.
    intros ops k p. destruct (run ops init) as [d oh]. simpl. unfold obs, open_store; simpl.
    destruct (d_man d) as [[[sc k'] f]|]; auto.
    intros [Ne|Ne].
    - apply N.eqb_neq in Ne. rewrite Ne. reflexivity.
    - apply N.eqb_neq in Ne. rewrite Ne, andb_false_r. reflexivity.
  Qed.
End Proofs.

(* ---------------------------------------------------------------- the skipped save loses nothing *)
(* Purely about the specification: with external tampering confined to moments when no store is
   open, the machine that skips identical re-scans and the one that always commits are
   observationally equal. *)

Definition meq {V} (m m' : amap V) : Prop := forall p, lookup p m = lookup p m'.

Definition aequiv (a b : astate) : Prop :=
  match a_saved a, a_saved b with
  | None, None => True
  | Some (k, m), Some (k', m') => k = k' /\ meq m m'
  | _, _ => False
  end /\
  match a_h a, a_h b with
  | None, None => True
  | Some x, Some y => ah_key x = ah_key y /\ ah_cur x = ah_cur y /\
                      meq (ah_view x) (ah_view y) /\ meq (ah_pend x) (ah_pend y)
  | _, _ => False
  end.

(* on_disk_current is truthful *)
Definition J (a : astate) : Prop :=
  match a_h a with
  | Some x => ah_cur x = true -> exists m, a_saved a = Some (ah_key x, m) /\ meq m (ah_view x)
  | None => True
  end.

Definition isopen (a : astate) : bool := match a_h a with Some _ => true | None => false end.

Definition next_open (o : op) (b : bool) : bool :=
  match o with Open _ => true | Drop => false | _ => b end.

Definition op_allowed (o : op) (is_open : bool) : bool :=
  match o with ExtRm | ExtBadSchema _ => negb is_open | _ => true end.

Lemma disciplined_cons : forall o r b,
  disciplined b (o :: r) = op_allowed o b && disciplined (next_open o b) r.
Proof. intros. destruct o; simpl; auto. Qed.

Lemma meq_ins : forall V p (v : V) m m', meq m m' -> meq (ins p v m) (ins p v m').
Proof. intros V p v m m' E k. rewrite !lookup_ins. destruct (p =? k); auto. Qed.

Lemma meq_upd : forall V p (f : V -> V) m m', meq m m' -> meq (upd p f m) (upd p f m').
Proof. intros V p f m m' E k. rewrite !lookup_upd. rewrite E. reflexivity. Qed.

Lemma meq_refl : forall V (m : amap V), meq m m.
Proof. intros V m k. reflexivity. Qed.

Lemma meq_trans : forall V (a b c : amap V), meq a b -> meq b c -> meq a c.
Proof. intros V a b c X Y k. rewrite X. apply Y. Qed.

Lemma meq_sym : forall V (a b : amap V), meq a b -> meq b a.
Proof. intros V a b X k. symmetry. apply X. Qed.

Lemma skip_step : forall o a b,
  op_allowed o (isopen a) = true -> J a -> aequiv a b ->
  J (astep true o a) /\ aequiv (astep true o a) (astep false o b) /\
  isopen (astep true o a) = next_open o (isopen a).
Proof.
  intros o a b Al Ja [Es Eh].
  destruct a as [sa ha], b as [sb hb]. unfold J, aequiv, isopen in *. simpl in *.
  destruct o; simpl.
  - (* Open *)
    unfold aopen. destruct sa as [[k1 m1]|], sb as [[k2 m2]|]; try contradiction; simpl.
    + destruct Es as [<- Em]. destruct (k1 =? k) eqn:Ek; simpl; repeat split; auto using meq_refl.
      * intros _. apply N.eqb_eq in Ek. subst. exists m1. split; auto using meq_refl.
      * discriminate.
    + repeat split; auto using meq_refl. discriminate.
  - (* Put *)
    destruct ha as [x|], hb as [y|]; try contradiction; simpl; auto.
    destruct Eh as [K [C [V P]]]. repeat split; auto using meq_ins.
  - (* SetDiag *)
    destruct ha as [x|], hb as [y|]; try contradiction; simpl; auto.
    destruct Eh as [K [C [V P]]]. rewrite <- (P p).
    destruct (lookup p (ah_pend x)) as [e|]; simpl; auto.
    + destruct (a_frag e); simpl; repeat split; auto using meq_upd.
    + repeat split; auto.
  - (* Keep *)
    destruct ha as [x|], hb as [y|]; try contradiction; simpl; auto.
    destruct Eh as [K [C [V P]]]. rewrite <- (V p).
    destruct (lookup p (ah_view x)) as [e|]; simpl; repeat split; auto using meq_ins.
  - (* Invalidate *)
    destruct ha as [x|], hb as [y|]; try contradiction; simpl; auto.
    destruct Eh as [K [C [V P]]]. repeat split; auto using meq_upd.
  - destruct ha as [x|], hb as [y|]; try contradiction; simpl; auto.
    destruct Eh as [K [C [V P]]]. repeat split; auto using meq_upd.
  - destruct ha as [x|], hb as [y|]; try contradiction; simpl; auto.
    destruct Eh as [K [C [V P]]]. repeat split; auto using meq_upd.
  - (* Save *)
    destruct ha as [x|], hb as [y|]; try contradiction; simpl; auto.
    destruct Eh as [K [C [V P]]].
    destruct (ah_cur x && map_eqb aentry_eqb (ah_pend x) (ah_view x)) eqn:Sk; simpl.
    + apply andb_true_iff in Sk as [Cx Me].
      pose proof (proj1 (map_eqb_spec _ _ aentry_eqb_spec _ _) Me) as Me'. clear Me. rename Me' into Me.
      destruct (Ja Cx) as [m [Sv Em]]. rewrite Sv in *.
      split; [intros _; exists m; split; auto|].
      split; [|reflexivity].
      split.
      * split; auto. eapply meq_trans; [exact Em|]. eapply meq_trans; [apply meq_sym; exact Me|]. exact P.
      * repeat split; auto using meq_refl. eapply meq_trans; [apply meq_sym; exact Me|]. exact P.
    + repeat split; auto using meq_refl.
      intros _. exists (ah_pend x). split; auto using meq_refl.
  - (* Drop *)
    repeat split; auto.
  - (* ExtRm *)
    destruct ha as [x|]; simpl in Al; try discriminate.
    destruct hb; try contradiction. repeat split; auto.
  - (* ExtBadSchema *)
    destruct ha as [x|]; simpl in Al; try discriminate.
    destruct hb; try contradiction. destruct (n =? SCHEMA); simpl; repeat split; auto.
Qed.

Lemma skip_run : forall ops a b,
  disciplined (isopen a) ops = true -> J a -> aequiv a b ->
  aequiv (arun true ops a) (arun false ops b).
Proof.
  induction ops as [|o r IH]; simpl; intros a b D Ja E; auto.
  change (disciplined (isopen a) (o :: r) = true) in D.
  rewrite disciplined_cons in D. apply andb_true_iff in D as [Al D].
  destruct (skip_step o a b Al Ja E) as [J' [E' O']].
  apply IH; auto. rewrite O'. exact D.
Qed.

Lemma aequiv_obs : forall a b, aequiv a b -> forall p, aobs a p = aobs b p.
Proof.
  intros a b [_ Eh] p. unfold aobs. destruct (a_h a), (a_h b); try contradiction; auto.
  destruct Eh as [_ [_ [V _]]]. rewrite (V p). reflexivity.
Qed.

Theorem skip_save_loses_nothing : forall ops p,
  disciplined false ops = true ->
  aobs (arun true ops ainit) p = aobs (arun false ops ainit) p.
Proof.
  intros ops p D. apply aequiv_obs. apply skip_run; auto.
  - unfold J; simpl; auto.
  - unfold aequiv; simpl; auto.
Qed.

Lemma disciplined_app_noext : forall ops b tail,
  disciplined b ops = true ->
  (forall b', disciplined b' tail = true) ->
  disciplined b (ops ++ tail) = true.
Proof.
  induction ops as [|o r IH]; simpl; intros; auto.
  change (disciplined b (o :: r ++ tail) = true). rewrite disciplined_cons.
  change (disciplined b (o :: r) = true) in H. rewrite disciplined_cons in H.
  apply andb_true_iff in H as [A D]. rewrite A. simpl. apply IH; auto.
Qed.

Lemma arun_app : forall sk ops tail a, arun sk (ops ++ tail) a = arun sk tail (arun sk ops a).
Proof. intros. unfold arun. apply fold_left_app. Qed.

Section Corollaries.
  Variable name : Type.
  Variable name_eqb : name -> name -> bool.
  Variable H : list N -> name.
  Hypothesis name_eqb_spec : forall a b, name_eqb a b = true <-> a = b.
  Hypothesis H_inj : forall a b, H a = H b -> a = b.

  (* the store refines the always-committing specification *)
  Theorem store_refines_pure_map : forall ops p,
    disciplined false ops = true ->
    obs name_eqb H (run name name_eqb H ops init) p = aobs (arun false ops ainit) p.
  Proof.
    intros. rewrite (store_refines_map name name_eqb H name_eqb_spec H_inj).
    apply skip_save_loses_nothing; auto.
  Qed.

  (* "reopening with the same key returns exactly the entry and blob bytes of the last saved build" *)
  Theorem reopen_returns_last_saved_build : forall ops ah p,
    disciplined false ops = true ->
    a_h (arun false ops ainit) = Some ah ->
    obs name_eqb H (run name name_eqb H (ops ++ [Save; Drop; Open (ah_key ah)]) init) p =
    omap (fun e => (a_hash e, a_deps e, a_tests e, a_frag e, a_diag e)) (lookup p (ah_pend ah)).
  Proof.
    intros ops ah p D Ah. rewrite store_refines_pure_map.
    - rewrite arun_app. simpl. rewrite Ah. simpl. unfold aobs, aopen; simpl.
      rewrite N.eqb_refl. reflexivity.
    - apply disciplined_app_noext; auto.
  Qed.

  (* after a build saved under key k, a store opened with another key sees nothing *)
  Theorem reopen_other_key_empty : forall ops ah k' p,
    disciplined false ops = true ->
    a_h (arun false ops ainit) = Some ah -> k' <> ah_key ah ->
    obs name_eqb H (run name name_eqb H (ops ++ [Save; Drop; Open k']) init) p = None.
  Proof.
    intros ops ah k' p D Ah Ne. rewrite store_refines_pure_map.
    - rewrite arun_app. simpl. rewrite Ah. simpl. unfold aobs, aopen; simpl.
      assert (E : ah_key ah =? k' = false) by (apply N.eqb_neq; auto).
      rewrite E. reflexivity.
    - apply disciplined_app_noext; auto.
  Qed.
End Corollaries.
