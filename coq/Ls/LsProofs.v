(* C07 — proofs about the language-server model: refinement of the buffer-only specification by
   induction on the history, and the converse witness schema for a table that is written but
   neither dropped nor drained. *)
From Coq Require Import List Bool Arith Lia.
Import ListNotations.
From VV Require Import Ls.LsModel.

Section LsProofs.
  Variable table : Type.
  Variable content : Type.
  Variable fact : Type.
  Variable diag : Type.
  Variable written dropped drained observable : table -> bool.
  Variable close_handled remove_forgets : bool.
  Variable pass1 : file -> content -> table -> list fact.
  Variable diagf : file -> (table -> file -> list fact) -> diag.

  Notation srv := (srv table content fact).
  Notation world := (world content).
  Notation tables := (tables table fact).
  Notation contrib := (contrib table content fact written pass1).
  Notation contrib_opt := (contrib_opt table content fact written pass1).
  Notation drop_file := (drop_file table fact dropped).
  Notation write_file := (write_file table content fact written pass1).
  Notation post_pass := (post_pass table fact drained).
  Notation on_change := (on_change table content fact diag written dropped drained pass1 diagf).
  Notation background := (background table content fact written dropped drained pass1).
  Notation on_remove := (on_remove table content fact dropped remove_forgets).
  Notation forget := (forget table content fact dropped).
  Notation step := (step table content fact diag written dropped drained close_handled remove_forgets pass1 diagf).
  Notation run := (run table content fact diag written dropped drained close_handled remove_forgets pass1 diagf).
  Notation refresh := (refresh table content fact diag written dropped drained pass1 diagf).
  Notation spec_tables := (spec_tables table content fact written drained pass1).
  Notation diags_spec := (diags_spec table content fact diag written drained pass1 diagf).
  Notation hist_ok := (hist_ok table content fact diag written dropped drained close_handled remove_forgets pass1 diagf).
  Notation ev_ok := (ev_ok table content fact close_handled).
  Notation cur := (cur content).

  (* ------------------------------------------------------------------ invariant *)
  Definition Inv (st : world * srv) : Prop :=
    let (w, s) := st in
    (forall f c, editor _ w f = Some c -> docmap _ _ _ s f = Some c) /\
    (forall t g, drained t = true -> tabs _ _ _ s t g = []) /\
    (forall t g, written t = false -> tabs _ _ _ s t g = []) /\
    (if analysed _ _ _ s
     then forall t g, drained t = false -> dropped t = true ->
                      tabs _ _ _ s t g = contrib_opt g (cur w g) t
     else (forall t g, tabs _ _ _ s t g = []) /\ (forall g, docmap _ _ _ s g = None)).

  Arguments Inv : simpl never.

  Lemma contrib_unwritten : forall g c t, written t = false -> contrib g c t = [].
  Proof. intros. unfold LsModel.contrib. rewrite H. reflexivity. Qed.

  Lemma contrib_opt_unwritten : forall g oc t, written t = false -> contrib_opt g oc t = [].
  Proof. intros. destruct oc; simpl; auto using contrib_unwritten. Qed.

  Lemma inv_init : forall w0, (forall f, editor _ w0 f = None) -> Inv (w0, init_srv table content fact).
  Proof.
    intros w0 H. unfold Inv, init_srv, empty_tables. simpl.
    repeat split; intros; auto. rewrite H in H0. discriminate.
  Qed.

  Ltac eqb_cases :=
    repeat match goal with
           | |- context [?a =? ?b] => destruct (Nat.eqb_spec a b); subst
           | H : context [?a =? ?b] |- _ => destruct (Nat.eqb_spec a b); subst
           end.

  (* tables after on_change *)
  Lemma on_change_tabs : forall f c s t g,
    tabs _ _ _ (snd (on_change f c s)) t g =
    if drained t then []
    else if g =? f then (if dropped t then [] else tabs _ _ _ s t f) ++ contrib f c t
         else tabs _ _ _ s t g.
  Proof.
    intros. unfold LsModel.on_change, LsModel.post_pass, LsModel.write_file, LsModel.drop_file. simpl.
    destruct (drained t); auto. eqb_cases; auto.
    - rewrite andb_true_r. destruct (dropped t); reflexivity.
    - rewrite andb_false_r. reflexivity.
  Qed.

  Lemma background_tabs : forall w s t g,
    tabs _ _ _ (background w s) t g =
    if drained t then []
    else match docmap _ _ _ s g with
         | Some _ => tabs _ _ _ s t g
         | None => match disk _ w g with
                   | Some d => (if dropped t then [] else tabs _ _ _ s t g) ++ contrib g d t
                   | None => tabs _ _ _ s t g
                   end
         end.
  Proof.
    intros. unfold LsModel.background, LsModel.post_pass, LsModel.write_file, LsModel.drop_file. simpl.
    destruct (drained t); auto.
    destruct (docmap _ _ _ s g); auto. destruct (disk _ w g); auto.
    rewrite Nat.eqb_refl. rewrite andb_true_r. destruct (dropped t); reflexivity.
  Qed.

  Lemma inv_analysed_of_open : forall w s f c,
    Inv (w, s) -> editor _ w f = Some c -> analysed _ _ _ s = true.
  Proof.
    intros w s f c (I1 & _ & _ & I4) E. destruct (analysed _ _ _ s); auto.
    destruct I4 as [_ D]. apply I1 in E. rewrite D in E. discriminate.
  Qed.

  (* on_change of an open (or just opened) buffer keeps the invariant once analysed *)
  Lemma inv_on_change : forall w s f c,
    Inv (w, s) -> analysed _ _ _ s = true ->
    Inv (mkWorld _ (disk _ w) (upd (editor _ w) f (Some c)), snd (on_change f c s)).
  Proof.
    intros w s f c (I1 & I2 & I3 & I4) A. rewrite A in I4.
    unfold Inv. repeat split.
    - intros g c0. simpl. unfold upd. eqb_cases; auto.
    - intros. rewrite on_change_tabs. rewrite H. reflexivity.
    - intros. rewrite on_change_tabs. destruct (drained t); auto.
      rewrite contrib_unwritten by auto. rewrite !I3 by auto.
      destruct (g =? f); destruct (dropped t); reflexivity.
    - simpl analysed. rewrite A. intros t g Hd Hp. rewrite on_change_tabs. rewrite Hd, Hp.
      unfold LsModel.cur. simpl. unfold upd. eqb_cases; simpl; auto.
      apply I4; auto.
  Qed.

  (* a background task re-synchronises every file that is not in document_map; the disk may have
     changed (None -> Some) exactly at such files since the invariant was established *)
  Lemma inv_background_resync : forall w s w' wb,
    Inv (w, s) ->
    (forall h, editor _ w' h = editor _ w h) ->
    (forall h, disk _ w' h = disk _ w h \/ (docmap _ _ _ s h = None /\ disk _ w h = None)) ->
    (forall h, disk _ wb h = disk _ w' h) ->
    Inv (w', background wb s).
  Proof.
    intros w s w' wb (I1 & I2 & I3 & I4) HE HD HB. unfold Inv. repeat split.
    - intros f c. rewrite HE. apply I1.
    - intros. rewrite background_tabs. rewrite H. reflexivity.
    - intros. rewrite background_tabs. destruct (drained t); auto.
      destruct (docmap _ _ _ s g); auto. destruct (disk _ wb g); auto.
      rewrite contrib_unwritten by auto. rewrite I3 by auto. destruct (dropped t); reflexivity.
    - simpl analysed. intros t g Hd Hp. rewrite background_tabs. rewrite Hd, Hp. rewrite HB.
      unfold LsModel.cur. rewrite HE.
      destruct (analysed _ _ _ s) eqn:A.
      + specialize (I4 t g Hd Hp). unfold LsModel.cur in I4.
        destruct (docmap _ _ _ s g) eqn:D.
        * destruct (editor _ w g) eqn:E; auto.
          destruct (HD g) as [X | [X _]]; [rewrite X; auto | congruence].
        * assert (E : editor _ w g = None).
          { destruct (editor _ w g) eqn:E; auto. apply I1 in E. congruence. }
          rewrite E in *. destruct (disk _ w' g) eqn:K; simpl; auto.
          destruct (HD g) as [X | [_ X]].
          -- rewrite X in K. rewrite K in I4. exact I4.
          -- rewrite X in I4. exact I4.
      + destruct I4 as [T D]. rewrite D.
        assert (E : editor _ w g = None).
        { destruct (editor _ w g) eqn:E; auto. apply I1 in E. rewrite D in E. discriminate. }
        rewrite E. destruct (disk _ w' g); simpl; auto.
  Qed.

  Lemma inv_background : forall w s, Inv (w, s) -> Inv (w, background w s).
  Proof. intros. eapply inv_background_resync; eauto. Qed.

  Lemma inv_ext : forall w w' s,
    (forall h, disk _ w' h = disk _ w h) -> (forall h, editor _ w' h = editor _ w h) ->
    Inv (w, s) -> Inv (w', s).
  Proof.
    intros w w' s HD HE (I1 & I2 & I3 & I4). unfold Inv. repeat split; auto.
    - intros f c. rewrite HE. apply I1.
    - destruct (analysed _ _ _ s); auto. intros t g Hd Hp. rewrite (I4 t g Hd Hp).
      unfold LsModel.cur. rewrite HE, HD. reflexivity.
  Qed.

  (* on_change when nothing has been analysed yet (the very first didOpen) followed by the background task *)
  Lemma inv_first_open : forall w s f c,
    Inv (w, s) -> analysed _ _ _ s = false ->
    disk _ w f = Some c ->
    let w' := mkWorld _ (disk _ w) (upd (editor _ w) f (Some c)) in
    Inv (w', background w' (snd (on_change f c s))).
  Proof.
    intros w s f c (I1 & I2 & I3 & I4) A K w'. rewrite A in I4. destruct I4 as [T D].
    unfold Inv. repeat split.
    - intros g c0. simpl. unfold upd. eqb_cases; auto.
    - intros. rewrite background_tabs. rewrite H. reflexivity.
    - intros. rewrite background_tabs. destruct (drained t); auto.
      assert (Z : tabs _ _ _ (snd (on_change f c s)) t g = []).
      { rewrite on_change_tabs. destruct (drained t); auto. rewrite contrib_unwritten by auto. rewrite !T.
        destruct (g =? f); destruct (dropped t); reflexivity. }
      rewrite Z. destruct (docmap _ _ _ (snd (on_change f c s)) g); auto.
      destruct (disk _ w' g); auto. rewrite contrib_unwritten by auto. destruct (dropped t); reflexivity.
    - simpl analysed. intros t g Hd Hp. rewrite background_tabs. rewrite Hd, Hp.
      rewrite on_change_tabs. rewrite Hd, Hp. simpl docmap. unfold upd at 1.
      unfold LsModel.cur. simpl editor. simpl disk. unfold upd.
      destruct (Nat.eqb_spec g f); subst; simpl; auto.
      rewrite D. rewrite T.
      assert (E : editor _ w g = None).
      { destruct (editor _ w g) eqn:E; auto. apply I1 in E. rewrite D in E. discriminate. }
      rewrite E. destruct (disk _ w g); simpl; auto.
  Qed.

  (* dropping a file that is no longer current (removed from disk and not open); the server may or may not
     forget its document_map entry *)
  Lemma inv_remove_file_gen : forall w s f dk dm,
    Inv (w, s) ->
    (forall g, g <> f -> dk g = disk _ w g) -> dk f = None ->
    (forall g, dm g = docmap _ _ _ s g \/ (g = f /\ dm g = None)) ->
    Inv (mkWorld _ dk (upd (editor _ w) f None),
         mkSrv table content fact (drop_file f (tabs _ _ _ s)) dm (analysed _ _ _ s)).
  Proof.
    intros w s f dk dm (I1 & I2 & I3 & I4) Hdk Hf Hdm. unfold Inv. repeat split.
    - intros g c. simpl. unfold upd. destruct (Nat.eqb_spec g f); subst; [discriminate|].
      intro E. apply I1 in E. destruct (Hdm g) as [X | [X _]]; [congruence | contradiction].
    - intros. simpl. unfold LsModel.drop_file. rewrite I2 by auto. destruct (dropped t && (g =? f)); reflexivity.
    - intros. simpl. unfold LsModel.drop_file. rewrite I3 by auto. destruct (dropped t && (g =? f)); reflexivity.
    - simpl analysed. destruct (analysed _ _ _ s).
      + intros t g Hd Hp. simpl tabs. unfold LsModel.drop_file. rewrite Hp. simpl.
        unfold LsModel.cur. simpl. unfold upd.
        destruct (Nat.eqb_spec g f); subst.
        * rewrite Hf. reflexivity.
        * rewrite Hdk by auto. apply (I4 t g Hd Hp).
      + destruct I4 as [T D]. split.
        * intros. simpl. unfold LsModel.drop_file. rewrite T. destruct (dropped t && (g =? f)); reflexivity.
        * intro g. simpl. destruct (Hdm g) as [X | [_ X]]; [rewrite X; apply D | exact X].
  Qed.

  Lemma inv_remove_file : forall w s f dk,
    Inv (w, s) ->
    (forall g, g <> f -> dk g = disk _ w g) -> dk f = None ->
    Inv (mkWorld _ dk (upd (editor _ w) f None), on_remove f s).
  Proof.
    intros. unfold LsModel.on_remove. apply inv_remove_file_gen; auto.
    intro g. destruct remove_forgets; auto. unfold upd.
    destruct (Nat.eqb_spec g f); subst; auto.
  Qed.

  Lemma inv_forget_file : forall w s f dk,
    Inv (w, s) ->
    (forall g, g <> f -> dk g = disk _ w g) -> dk f = None ->
    Inv (mkWorld _ dk (upd (editor _ w) f None), forget f s).
  Proof.
    intros. unfold LsModel.forget. apply inv_remove_file_gen; auto.
    intro g. unfold upd. destruct (Nat.eqb_spec g f); subst; auto.
  Qed.

  (* changing the disk where the server looks again (background) or where the column is already right *)
  Lemma inv_step : forall st e, Inv st -> ev_ok st e -> Inv (step st e).
  Proof.
    intros [w s] e I OK. destruct e as [f | f c | f | f | f g | f]; cbn [LsModel.step].
    - (* Open *)
      destruct (disk _ w f) eqn:K; auto. destruct (editor _ w f) eqn:E; auto.
      destruct (analysed _ _ _ s) eqn:A.
      + apply inv_background. apply inv_on_change; auto.
      + apply inv_first_open; auto.
    - (* Change *)
      destruct (editor _ w f) eqn:E; auto.
      apply inv_on_change; auto. eapply inv_analysed_of_open; eauto.
    - (* Save *)
      destruct (editor _ w f) eqn:E; auto.
      destruct I as (I1 & I2 & I3 & I4). unfold Inv. repeat split; auto.
      destruct (analysed _ _ _ s); auto.
      intros t g Hd Hp. rewrite (I4 t g Hd Hp). unfold LsModel.cur. simpl. unfold upd.
      destruct (Nat.eqb_spec g f); subst; auto. rewrite E. reflexivity.
    - (* Close *)
      destruct (editor _ w f) eqn:E; auto.
      destruct close_handled eqn:CH.
      + (* didClose handled: forget the buffer, drop the file, re-read it from disk *)
        assert (J0 : Inv (mkWorld content (upd (disk _ w) f None) (upd (editor _ w) f None), forget f s)).
        { apply inv_forget_file; auto.
          - intros h Hh. unfold upd. destruct (Nat.eqb_spec h f); [contradiction | reflexivity].
          - unfold upd. rewrite Nat.eqb_refl. reflexivity. }
        eapply inv_background_resync; [exact J0 | reflexivity | | reflexivity].
        intro h. simpl. unfold upd. destruct (Nat.eqb_spec h f); subst; auto.
      + simpl in OK. destruct OK as [OK | OK]; [discriminate|]. specialize (OK _ E).
        destruct I as (I1 & I2 & I3 & I4). unfold Inv. repeat split; auto.
        * intros g c0. simpl. unfold upd. eqb_cases; [discriminate | apply I1].
        * destruct (analysed _ _ _ s); auto.
          intros t g Hd Hp. rewrite (I4 t g Hd Hp). unfold LsModel.cur. simpl. unfold upd.
          destruct (Nat.eqb_spec g f); subst; auto. rewrite E, OK. reflexivity.
    - (* Rename *)
      simpl in OK.
      destruct (disk _ w f) eqn:K; auto. destruct (disk _ w g) eqn:Kg; auto.
      specialize (OK eq_refl).
      destruct (Nat.eqb_spec f g) as [|NE]; auto.
      (* state after willRename, with the file gone from disk and its buffer (if any) closed *)
      assert (J0 : Inv (mkWorld content (upd (disk _ w) f None) (upd (editor _ w) f None), on_remove f s)).
      { apply inv_remove_file; auto.
        - intros h Hh. unfold upd. destruct (Nat.eqb_spec h f); [contradiction | reflexivity].
        - unfold upd. rewrite Nat.eqb_refl. reflexivity. }
      destruct (editor _ w f) eqn:E.
      + set (w1 := mkWorld content (upd (upd (disk _ w) f None) g (Some c0)) (editor _ w)).
        set (wm := mkWorld content (upd (upd (disk _ w) f None) g (Some c0)) (upd (editor _ w) f None)).
        assert (J1 : Inv (wm, background w1 (on_remove f s))).
        { eapply inv_background_resync; [exact J0 | reflexivity | | reflexivity].
          intro h. simpl. unfold upd at 1. destruct (Nat.eqb_spec h g); subst; auto.
          right. split.
          { simpl. destruct remove_forgets; auto. unfold upd. destruct (Nat.eqb_spec g f); auto. }
          { unfold upd. destruct (Nat.eqb_spec g f); auto. } }
        apply inv_background.
        apply (inv_on_change wm _ g c0 J1). reflexivity.
      + set (w1 := mkWorld content (upd (upd (disk _ w) f None) g (Some c)) (editor _ w)).
        eapply inv_background_resync; [exact J0 | | | reflexivity].
        * intro h. simpl. unfold upd. destruct (Nat.eqb_spec h f); subst; auto.
        * intro h. simpl. unfold upd at 1. destruct (Nat.eqb_spec h g); subst; auto.
          right. split.
          { simpl. destruct remove_forgets; auto. unfold upd. destruct (Nat.eqb_spec g f); auto. }
          { unfold upd. destruct (Nat.eqb_spec g f); auto. }
    - (* Delete *)
      destruct (disk _ w f) eqn:K; auto.
      apply inv_remove_file; auto.
      + intros h Hh. unfold upd. destruct (Nat.eqb_spec h f); [contradiction | reflexivity].
      + unfold upd. rewrite Nat.eqb_refl. reflexivity.
  Qed.

  (* ------------------------------------------------------------------ refinement *)
  Lemma inv_run_from : forall h st, Inv st -> hist_ok st h -> Inv (fold_left step h st).
  Proof.
    induction h as [|e h IH]; intros st I OK; simpl; auto.
    destruct OK as [O1 O2]. apply IH; auto. apply inv_step; auto.
  Qed.

  Lemma inv_run : forall w0 h,
    (forall f, editor _ w0 f = None) ->
    hist_ok (w0, init_srv table content fact) h -> Inv (run w0 h).
  Proof. intros. apply inv_run_from; auto. apply inv_init; auto. Qed.

  Notation discipline := (discipline table written dropped drained observable).
  Notation reads_observable_only := (reads_observable_only table fact diag observable diagf).

  (* in a state satisfying the invariant, re-sending an open buffer publishes the specified diagnostics *)
  Lemma refresh_spec : forall w s f c,
    discipline -> reads_observable_only ->
    Inv (w, s) -> editor _ w f = Some c ->
    fst (on_change f c s) = diags_spec (cur w) f.
  Proof.
    intros w s f c DISC RO I E.
    assert (A : analysed _ _ _ s = true) by (eapply inv_analysed_of_open; eauto).
    destruct I as (I1 & I2 & I3 & I4). rewrite A in I4.
    unfold LsModel.on_change, LsModel.diags_spec. simpl fst. apply RO.
    intros t g OB. unfold LsModel.write_file, LsModel.drop_file, LsModel.spec_tables.
    assert (CF : cur w f = Some c) by (unfold LsModel.cur; rewrite E; reflexivity).
    destruct (drained t) eqn:Hd.
    - rewrite !I2 by auto. destruct (Nat.eqb_spec g f); subst.
      + rewrite CF. simpl. destruct (dropped t && true); reflexivity.
      + destruct (dropped t && false); reflexivity.
    - destruct (written t) eqn:Hw.
      + destruct (DISC t Hw OB) as [Hp | Hx]; [| congruence].
        rewrite Hp. destruct (Nat.eqb_spec g f); subst; simpl.
        * rewrite CF. reflexivity.
        * apply I4; auto.
      + rewrite contrib_opt_unwritten by auto. rewrite contrib_unwritten by auto. rewrite !I3 by auto.
        destruct (g =? f); destruct (dropped t); reflexivity.
  Qed.

  (* MAIN THEOREM: under the table discipline, after every admissible history the diagnostics the server
     publishes for an open buffer (when the editor re-sends it) are the specified function of the
     current texts alone *)
  Theorem ls_refines_spec :
    discipline -> reads_observable_only ->
    forall w0 h f d,
      (forall g, editor _ w0 g = None) ->
      hist_ok (w0, init_srv table content fact) h ->
      refresh (run w0 h) f = Some d ->
      d = diags_spec (cur (fst (run w0 h))) f.
  Proof.
    intros DISC RO w0 h f d E0 OK R.
    pose proof (inv_run w0 h E0 OK) as I.
    destruct (run w0 h) as [w s] eqn:Q. unfold LsModel.refresh in R. simpl fst in *. simpl snd in *.
    destruct (editor _ w f) eqn:E; [|discriminate]. inversion R; subst.
    eapply refresh_spec; eauto.
  Qed.

  Lemma diags_spec_ext : forall b1 b2 f,
    (forall g, b1 g = b2 g) -> reads_observable_only -> diags_spec b1 f = diags_spec b2 f.
  Proof.
    intros b1 b2 f H RO. unfold LsModel.diags_spec. apply RO. intros t g _.
    unfold LsModel.spec_tables. rewrite H. reflexivity.
  Qed.

  (* history-independence: any two admissible histories (e.g. a long editing session and a freshly started
     server that just opens the files) ending with the same current texts publish the same diagnostics *)
  Theorem ls_history_independent :
    discipline -> reads_observable_only ->
    forall w1 h1 w2 h2 f d1 d2,
      (forall g, editor _ w1 g = None) -> (forall g, editor _ w2 g = None) ->
      hist_ok (w1, init_srv table content fact) h1 ->
      hist_ok (w2, init_srv table content fact) h2 ->
      (forall g, cur (fst (run w1 h1)) g = cur (fst (run w2 h2)) g) ->
      refresh (run w1 h1) f = Some d1 -> refresh (run w2 h2) f = Some d2 ->
      d1 = d2.
  Proof.
    intros DISC RO w1 h1 w2 h2 f d1 d2 E1 E2 O1 O2 C R1 R2.
    rewrite (ls_refines_spec DISC RO w1 h1 f d1 E1 O1 R1).
    rewrite (ls_refines_spec DISC RO w2 h2 f d2 E2 O2 R2).
    apply diags_spec_ext; auto.
  Qed.

  (* ------------------------------------------------------------------ a server that handles didClose *)
  (* With did_close handled and on_remove forgetting the buffer, document_map is exactly the set of buffers the
     editor has open, every open buffer has a file, and therefore EVERY history is admissible. *)
  Definition Inv2 (st : world * srv) : Prop :=
    let (w, s) := st in
    (forall f c, docmap _ _ _ s f = Some c -> editor _ w f = Some c) /\
    (forall f c, editor _ w f = Some c -> disk _ w f <> None).

  Arguments Inv2 : simpl never.

  Ltac fin2 := intros; first [congruence | solve [eauto] | (intro; congruence) | idtac].

  Lemma inv2_step : close_handled = true -> remove_forgets = true ->
    forall st e, Inv2 st -> Inv2 (step st e).
  Proof.
    intros CH RF [w s] e [J1 J2]. destruct e as [f | f c | f | f | f g | f]; cbn [LsModel.step].
    - destruct (disk _ w f) eqn:K; [|split; auto]. destruct (editor _ w f) eqn:E; [split; auto|].
      unfold Inv2. simpl. unfold upd. split; intros h cc; destruct (Nat.eqb_spec h f); subst; fin2.
    - destruct (editor _ w f) eqn:E; [|split; auto].
      unfold Inv2. simpl. unfold upd. split; intros h cc; destruct (Nat.eqb_spec h f); subst; fin2.
    - destruct (editor _ w f) eqn:E; [|split; auto].
      unfold Inv2. simpl. unfold upd. split; auto. intros h cc; destruct (Nat.eqb_spec h f); subst; fin2.
    - destruct (editor _ w f) eqn:E; [|split; auto]. rewrite CH.
      unfold Inv2. simpl. unfold upd. split; intros h cc; destruct (Nat.eqb_spec h f); subst; fin2.
    - destruct (disk _ w f) eqn:K; [|split; auto]. destruct (disk _ w g) eqn:Kg; [split; auto|].
      destruct (Nat.eqb_spec f g) as [|NE]; [split; auto|].
      destruct (editor _ w f) eqn:E.
      + unfold Inv2. simpl. rewrite RF. unfold upd. split; intros h cc.
        * destruct (Nat.eqb_spec h g); subst; fin2. destruct (Nat.eqb_spec h f); subst; fin2.
        * destruct (Nat.eqb_spec h g); subst; fin2. destruct (Nat.eqb_spec h f); subst; fin2.
      + unfold Inv2. simpl. rewrite RF. unfold upd. split; intros h cc.
        * destruct (Nat.eqb_spec h f); subst; fin2.
        * destruct (Nat.eqb_spec h g); subst; fin2. destruct (Nat.eqb_spec h f); subst; fin2.
    - destruct (disk _ w f) eqn:K; [|split; auto].
      unfold Inv2. simpl. rewrite RF. unfold upd. split; intros h cc; destruct (Nat.eqb_spec h f); subst; fin2.
  Qed.

  Lemma ev_ok_of_inv2 : close_handled = true -> forall st e, Inv2 st -> ev_ok st e.
  Proof.
    intros CH [w s] e [J1 J2]. destruct e; simpl; auto.
    intro Kg. destruct (docmap _ _ _ s g) eqn:D; auto.
    apply J1 in D. apply J2 in D. contradiction.
  Qed.

  Lemma hist_ok_always : close_handled = true -> remove_forgets = true ->
    forall h st, Inv2 st -> hist_ok st h.
  Proof.
    intros CH RF. induction h as [|e h IH]; intros st J; simpl; auto.
    split; [apply ev_ok_of_inv2; auto | apply IH; apply inv2_step; auto].
  Qed.

  (* MAIN THEOREM for a server that handles didClose and forgets removed buffers: no condition on the history *)
  Theorem ls_refines_spec_all :
    discipline -> reads_observable_only ->
    close_handled = true -> remove_forgets = true ->
    forall w0 h f d,
      (forall g, editor _ w0 g = None) ->
      refresh (run w0 h) f = Some d ->
      d = diags_spec (cur (fst (run w0 h))) f.
  Proof.
    intros DISC RO CH RF w0 h f d E0 R.
    eapply ls_refines_spec; eauto.
    apply hist_ok_always; auto. split; simpl; [discriminate | intros; rewrite E0 in *; discriminate].
  Qed.

  Theorem ls_history_independent_all :
    discipline -> reads_observable_only ->
    close_handled = true -> remove_forgets = true ->
    forall w1 h1 w2 h2 f d1 d2,
      (forall g, editor _ w1 g = None) -> (forall g, editor _ w2 g = None) ->
      (forall g, cur (fst (run w1 h1)) g = cur (fst (run w2 h2)) g) ->
      refresh (run w1 h1) f = Some d1 -> refresh (run w2 h2) f = Some d2 ->
      d1 = d2.
  Proof.
    intros DISC RO CH RF w1 h1 w2 h2 f d1 d2 E1 E2 C R1 R2.
    rewrite (ls_refines_spec_all DISC RO CH RF w1 h1 f d1 E1 R1).
    rewrite (ls_refines_spec_all DISC RO CH RF w2 h2 f d2 E2 R2).
    apply diags_spec_ext; auto.
  Qed.

End LsProofs.

(* the unconditional theorem with the two server flags fixed to true *)
Theorem ls_refines_spec_all_histories :
  forall (table content fact diag : Type)
         (written dropped drained observable : table -> bool)
         (pass1 : file -> content -> table -> list fact)
         (diagf : file -> (table -> file -> list fact) -> diag),
    discipline table written dropped drained observable ->
    reads_observable_only table fact diag observable diagf ->
    forall w0 h f d,
      (forall g, editor content w0 g = None) ->
      refresh table content fact diag written dropped drained pass1 diagf
              (run table content fact diag written dropped drained true true pass1 diagf w0 h) f = Some d ->
      d = diags_spec table content fact diag written drained pass1 diagf
            (cur content (fst (run table content fact diag written dropped drained true true pass1 diagf w0 h))) f.
Proof.
  intros table content fact diag written dropped drained observable pass1 diagf D R.
  exact (ls_refines_spec_all table content fact diag written dropped drained observable true true pass1 diagf
           D R eq_refl eq_refl).
Qed.

(* ---------------------------------------------------------------------- converse witness schema *)
Section StaleWitness.
  Variable table : Type.
  Variable content : Type.
  Variable fact : Type.
  Variable written dropped drained : table -> bool.
  Variable close_handled remove_forgets : bool.
  Variable pass1 : file -> content -> table -> list fact.
  Variable feqb : fact -> fact -> bool.

  (* an observer that reveals whether fact x is present in column g of table t *)
  Definition reveal (t : table) (x : fact) : file -> (table -> file -> list fact) -> bool :=
    fun g tb => existsb (feqb x) (tb t g).

  Definition only_file (f : file) (c : content) : world content :=
    mkWorld content (fun g => if g =? f then Some c else None) (fun _ => None).

  (* A table that pass 1 writes, that drop_file does not clear and that no post pass drains keeps the facts
     of the earlier text: after  didOpen f (text c1); didChange f c2  the observer still sees a fact that
     only c1 produces, while the specification and a freshly started server on c2 do not. *)
  Theorem stale_table_witness : forall t x f c1 c2,
    written t = true -> dropped t = false -> drained t = false ->
    existsb (feqb x) (pass1 f c1 t) = true ->
    existsb (feqb x) (pass1 f c2 t) = false ->
    let D := reveal t x in
    let h := [Open f; Change f c2] in
    let st := run table content fact bool written dropped drained close_handled remove_forgets pass1 D (only_file f c1) h in
    hist_ok table content fact bool written dropped drained close_handled remove_forgets pass1 D
            (only_file f c1, init_srv table content fact) h /\
    refresh table content fact bool written dropped drained pass1 D st f = Some true /\
    diags_spec table content fact bool written drained pass1 D (cur content (fst st)) f = false /\
    refresh table content fact bool written dropped drained pass1 D
            (run table content fact bool written dropped drained close_handled remove_forgets pass1 D (only_file f c2) [Open f]) f
      = Some false.
  Proof.
    intros t x f c1 c2 Hw Hp Hd H1 H2 D h st.
    cbv [st h D reveal run refresh diags_spec spec_tables only_file init_srv empty_tables fold_left step forget on_remove
         hist_ok ev_ok disk editor fst snd on_change background docmap tabs upd cur write_file drop_file
         post_pass contrib_opt contrib analysed].
    repeat (rewrite ?Nat.eqb_refl, ?Hw, ?Hp, ?Hd; cbv beta iota; simpl).
    rewrite ?existsb_app, ?H1, ?H2. simpl.
    repeat split; auto.
  Qed.
End StaleWitness.

(* ---------------------------------------------------------------------- why the two side conditions are needed *)
Section ProtocolWitnesses.
  Variable table : Type.
  Variable content : Type.
  Variable fact : Type.
  Variable written dropped drained : table -> bool.
  Variable pass1 : file -> content -> table -> list fact.
  Variable feqb : fact -> fact -> bool.

  (* diagnostics of every buffer reveal whether x is in column f of table t (a cross-file dependency) *)
  Definition reveal_at (t : table) (x : fact) (f : file) : file -> (table -> file -> list fact) -> bool :=
    fun _ tb => existsb (feqb x) (tb t f).

  Definition files3 (f : file) (cf : content) (g : file) (cg : content) (k : file) (ck : option content)
    : world content :=
    mkWorld content (fun h => if h =? f then Some cf else if h =? g then Some cg
                              else if h =? k then ck else None) (fun _ => None).

  Ltac crunch Hfg Hgf :=
    repeat (rewrite ?Nat.eqb_refl, ?Hfg, ?Hgf; cbv beta iota; simpl).

  (* When didClose is not handled by the server (close_handled = false): closing a buffer with unsaved edits (the editor discards them, the
     file on disk keeps c1) leaves the discarded text c2 analysed, even for a perfectly dropped table. *)
  Theorem dirty_close_witness : forall t x f g c0 c1 c2,
    f <> g ->
    written t = true -> dropped t = true -> drained t = false ->
    existsb (feqb x) (pass1 f c2 t) = true ->
    existsb (feqb x) (pass1 f c1 t) = false ->
    let D := reveal_at t x f in
    let h := [Open g; Open f; Change f c2; Close f] in
    let st := run table content fact bool written dropped drained false false pass1 D (files3 f c1 g c0 0 None) h in
    refresh table content fact bool written dropped drained pass1 D st g = Some true /\
    diags_spec table content fact bool written drained pass1 D (cur content (fst st)) g = false.
  Proof.
    intros t x f g c0 c1 c2 NE Hw Hp Hd H2 H1 D h st.
    assert (Hfg : (f =? g) = false) by (apply Nat.eqb_neq; auto).
    assert (Hgf : (g =? f) = false) by (apply Nat.eqb_neq; auto).
    cbv [st h D reveal_at run refresh diags_spec spec_tables files3 init_srv empty_tables fold_left step
         disk editor fst snd on_change background docmap tabs upd cur write_file drop_file
         post_pass contrib_opt contrib analysed].
    crunch Hfg Hgf.
    rewrite ?Hw, ?Hp, ?Hd. crunch Hfg Hgf.
    rewrite ?Hw, ?Hp, ?Hd. crunch Hfg Hgf.
    rewrite ?H1, ?H2. split; reflexivity.
  Qed.
  (* When document_map never shrinks (close_handled = remove_forgets = false): after a file that was once open disappears (delete / rename away), a file renamed
     onto the same path is skipped by background_analyze and stays unanalysed. *)
  Theorem rename_onto_docmap_witness : forall t x f g k c0 c1 c2,
    f <> g -> f <> k -> g <> k ->
    written t = true -> dropped t = true -> drained t = false ->
    existsb (feqb x) (pass1 f c2 t) = true ->
    let D := reveal_at t x f in
    let h := [Open g; Open f; Close f; Delete f; Rename k f] in
    let st := run table content fact bool written dropped drained false false pass1 D (files3 f c1 g c0 k (Some c2)) h in
    refresh table content fact bool written dropped drained pass1 D st g = Some false /\
    diags_spec table content fact bool written drained pass1 D (cur content (fst st)) g = true.
  Proof.
    intros t x f g k c0 c1 c2 N1 N2 N3 Hw Hp Hd H2 D h st.
    assert (Hfg : (f =? g) = false) by (apply Nat.eqb_neq; auto).
    assert (Hgf : (g =? f) = false) by (apply Nat.eqb_neq; auto).
    assert (Hfk : (f =? k) = false) by (apply Nat.eqb_neq; auto).
    assert (Hkf : (k =? f) = false) by (apply Nat.eqb_neq; auto).
    assert (Hgk : (g =? k) = false) by (apply Nat.eqb_neq; auto).
    assert (Hkg : (k =? g) = false) by (apply Nat.eqb_neq; auto).
    cbv [st h D reveal_at run refresh diags_spec spec_tables files3 init_srv empty_tables fold_left step
         disk editor fst snd on_change background on_remove docmap tabs upd cur write_file drop_file
         post_pass contrib_opt contrib analysed].
    repeat (rewrite ?Nat.eqb_refl, ?Hfg, ?Hgf, ?Hfk, ?Hkf, ?Hgk, ?Hkg, ?Hw, ?Hp, ?Hd; cbv beta iota; simpl).
    rewrite ?H2. split; reflexivity.
  Qed.
End ProtocolWitnesses.
