(* C07 — model of the language server's analysis state (definitions only).

   What is modelled (crates/languageserver/src/server.rs, crates/analyzer/src/analyzer.rs):
   * the analyzer's global tables as  table -> file -> list fact  ("column g of table t" = the facts
     that analysing file g registered in t);
   * Analyzer::drop_file g        = clear column g of every table in [dropped];
   * parse + analyze_pass1 (or fragment_cache::restore) of (g, c)
                                  = append [pass1 g c t] to column g of every table t in [written];
   * Analyzer::analyze_post_pass1 = consume the pending lists ([drained] tables become empty);
     every other derived fact is recomputed from the tables, i.e. is part of the function [diagf];
   * Server::on_change            = drop_file; parse+pass1; post pass (+pass 2); publish; document_map.insert
   * Server::background_analyze over the project paths = for every file on disk that is NOT in
     document_map: drop_file; parse+pass1 from the disk text — written pointwise because each iteration
     only touches the column of its own file — followed by one post pass;
   * the notifications: didOpen, didChange, didSave (ignored by the server), didClose (ignored by the
     server when [close_handled] = false; otherwise document_map.remove + drop_file + background task),
     willRename/didRename (+ didClose/didOpen of the moved buffer), willDelete.
   Unbounded nat for files; contents, facts and diagnostics are abstract types.  The interleaving of
   on_change with a running background task is NOT modelled (didOpen = on_change + whole task). *)
From Coq Require Import List Bool Arith.
Import ListNotations.

Definition file := nat.

Section LsModel.
  Variable table : Type.
  Variable content : Type.
  Variable fact : Type.
  Variable diag : Type.

  (* classification of the tables (instantiated from the Rust source by translators/dropped_tables.py) *)
  Variable written : table -> bool.   (* mutated by parse / pass-1 handlers / fragment restore *)
  Variable dropped : table -> bool.   (* cleared for the file by Analyzer::drop_file *)
  Variable drained : table -> bool.   (* pending list consumed by analyze_post_pass1 *)
  Variable observable : table -> bool. (* read by something that can end up in a diagnostic *)

  (* shape of the server (instantiated from backend.rs / server.rs by the translator) *)
  Variable close_handled : bool.  (* Backend implements did_close: forget the buffer, drop the file, re-analyse from disk *)
  Variable remove_forgets : bool. (* Server::on_remove also removes the path from document_map *)

  (* what parse + pass 1 of file g with text c inserts into table t ([] for unparsable text) *)
  Variable pass1 : file -> content -> table -> list fact.
  (* everything downstream (post passes, pass 2, filtering, to_diag) as a function of the tables *)
  Variable diagf : file -> (table -> file -> list fact) -> diag.

  Definition tables := table -> file -> list fact.

  Definition contrib (g : file) (c : content) (t : table) : list fact :=
    if written t then pass1 g c t else [].

  Definition contrib_opt (g : file) (oc : option content) (t : table) : list fact :=
    match oc with Some c => contrib g c t | None => [] end.

  Definition empty_tables : tables := fun _ _ => [].

  Definition drop_file (f : file) (tb : tables) : tables :=
    fun t g => if dropped t && (g =? f) then [] else tb t g.

  Definition write_file (f : file) (c : content) (tb : tables) : tables :=
    fun t g => if g =? f then tb t g ++ contrib f c t else tb t g.

  Definition post_pass (tb : tables) : tables :=
    fun t g => if drained t then [] else tb t g.

  Definition upd {A} (m : file -> A) (f : file) (v : A) : file -> A :=
    fun g => if g =? f then v else m g.

  (* ---------------------------------------------------------------- server and world *)
  Record srv := mkSrv {
    tabs : tables;
    docmap : file -> option content;   (* Server.document_map: never shrinks *)
    analysed : bool                    (* at least one background task has completed *)
  }.

  Record world := mkWorld {
    disk : file -> option content;
    editor : file -> option content    (* buffers open in the editor *)
  }.

  Definition init_srv : srv := mkSrv empty_tables (fun _ => None) false.

  (* the text the user currently sees for a file: the open buffer, else the file on disk *)
  Definition cur (w : world) (g : file) : option content :=
    match editor w g with Some c => Some c | None => disk w g end.

  (* Server::on_change: returns the published diagnostics and the new server state *)
  Definition on_change (f : file) (c : content) (s : srv) : diag * srv :=
    let t1 := write_file f c (drop_file f (tabs s)) in
    (diagf f t1, mkSrv (post_pass t1) (upd (docmap s) f (Some c)) (analysed s)).

  (* one whole background task (all project paths, then analyze_post_pass1) *)
  Definition background (w : world) (s : srv) : srv :=
    let tb := tabs s in
    let tb' : tables := fun t g =>
      match docmap s g with
      | Some _ => tb t g                      (* open in the editor: skipped *)
      | None => match disk w g with
                | Some d => write_file g d (drop_file g tb) t g
                | None => tb t g               (* not a project path *)
                end
      end in
    mkSrv (post_pass tb') (docmap s) true.

  (* Server::on_remove (willRename / willDelete): drop_file with prj = None (+ document_map.remove) *)
  Definition on_remove (f : file) (s : srv) : srv :=
    mkSrv (drop_file f (tabs s)) (if remove_forgets then upd (docmap s) f None else docmap s) (analysed s).

  (* Server::did_close: document_map.remove; drop_file; (then a background task) *)
  Definition forget (f : file) (s : srv) : srv :=
    mkSrv (drop_file f (tabs s)) (upd (docmap s) f None) (analysed s).

  Inductive ev :=
  | Open (f : file)
  | Change (f : file) (c : content)
  | Save (f : file)
  | Close (f : file)
  | Rename (f g : file)
  | Delete (f : file).

  Definition is_some {A} (o : option A) := match o with Some _ => true | None => false end.

  (* notifications that make no sense in the current editor state are ignored (as the driver does) *)
  Definition step (st : world * srv) (e : ev) : world * srv :=
    let (w, s) := st in
    match e with
    | Open f =>
        match disk w f, editor w f with
        | Some c, None =>
            let w' := mkWorld (disk w) (upd (editor w) f (Some c)) in
            (w', background w' (snd (on_change f c s)))
        | _, _ => st
        end
    | Change f c =>
        match editor w f with
        | Some _ => (mkWorld (disk w) (upd (editor w) f (Some c)), snd (on_change f c s))
        | None => st
        end
    | Save f =>
        match editor w f with
        | Some c => (mkWorld (upd (disk w) f (Some c)) (editor w), s)
        | None => st
        end
    | Close f =>
        match editor w f with
        | Some _ =>
            let w' := mkWorld (disk w) (upd (editor w) f None) in
            (w', if close_handled then background w' (forget f s) else s)
        | None => st
        end
    | Rename f g =>
        match disk w f, disk w g with
        | Some d, None =>
            if f =? g then st else
            match editor w f with
            | None =>
                let w1 := mkWorld (upd (upd (disk w) f None) g (Some d)) (editor w) in
                (w1, background w1 (on_remove f s))
            | Some c =>
                (* the editor saves the buffer, moves the file, then sends didClose f / didOpen g *)
                let w1 := mkWorld (upd (upd (disk w) f None) g (Some c)) (editor w) in
                let s1 := background w1 (on_remove f s) in
                let w2 := mkWorld (disk w1) (upd (upd (editor w) f None) g (Some c)) in
                (w2, background w2 (snd (on_change g c s1)))
            end
        | _, _ => st
        end
    | Delete f =>
        match disk w f with
        | Some _ => (mkWorld (upd (disk w) f None) (upd (editor w) f None), on_remove f s)
        | None => st
        end
    end.

  Definition run (w0 : world) (h : list ev) : world * srv := fold_left step h (w0, init_srv).

  (* what the server publishes for an open buffer when the editor re-sends it unchanged *)
  Definition refresh (st : world * srv) (f : file) : option diag :=
    match editor (fst st) f with
    | Some c => Some (fst (on_change f c (snd st)))
    | None => None
    end.

  (* ---------------------------------------------------------------- specification *)
  (* the tables a server must hold when it analyses buffer f of a project whose current texts are bufs:
     every file's own contribution; pending lists hold only what f itself just queued *)
  Definition spec_tables (bufs : file -> option content) (f : file) : tables :=
    fun t g =>
      if drained t then (if g =? f then contrib_opt g (bufs g) t else [])
      else contrib_opt g (bufs g) t.

  Definition diags_spec (bufs : file -> option content) (f : file) : diag :=
    diagf f (spec_tables bufs f).

  (* ---------------------------------------------------------------- side conditions *)
  (* table discipline: what pass 1 writes and a diagnostic can see is dropped per file or drained *)
  Definition discipline : Prop :=
    forall t, written t = true -> observable t = true -> dropped t = true \/ drained t = true.

  (* diagnostics read observable tables only *)
  Definition reads_observable_only : Prop :=
    forall f (s1 s2 : tables),
      (forall t g, observable t = true -> s1 t g = s2 t g) -> diagf f s1 = diagf f s2.

  (* editor-protocol conditions on a history, evaluated along the run:
     - a buffer is closed only when it equals the file on disk (unless the server handles didClose);
     - a rename never lands on a path the server still has in document_map. *)
  Definition ev_ok (st : world * srv) (e : ev) : Prop :=
    let (w, s) := st in
    match e with
    | Close f => close_handled = true \/ forall c, editor w f = Some c -> disk w f = Some c
    | Rename f g => disk w g = None -> docmap s g = None
    | _ => True
    end.

  Fixpoint hist_ok (st : world * srv) (h : list ev) : Prop :=
    match h with
    | [] => True
    | e :: h' => ev_ok st e /\ hist_ok (step st e) h'
    end.

End LsModel.

Arguments Open {content} f.
Arguments Change {content} f c.
Arguments Save {content} f.
Arguments Close {content} f.
Arguments Rename {content} f g.
Arguments Delete {content} f.
