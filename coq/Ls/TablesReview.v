(* C07 — reviewed classification of the analyzer tables, on top of the lists that
   translators/dropped_tables.py regenerates from the Rust source (GeneratedTables.v), and the
   instantiation of the generic refinement theorem with them.

   [observable t]: can a stale entry of table t (an entry registered for an EARLIER text of a file) change a
   published diagnostic?  Reasons for the tables judged unobservable:
     T_intern            string/path interning and id counters: only identities, never compared in a diagnostic;
                         interning is idempotent.
     T_literal, T_msb, T_connect_op, T_generic_inferred
                         keyed by TokenId; every parse / fragment restore allocates fresh token ids
                         (resource_table::new_token_id / reserve_token_ids), so an entry of an earlier text is never
                         looked up again.
     T_reference_functions, T_generic_instances, T_type_dag
                         keyed by SymbolId of symbols of the file itself; re-analysis allocates fresh symbol ids
                         and lookups start from live symbols only.
     T_scope_tree        interned (parent, name) -> scope id; a scope left without locals/imports/wildcards
                         resolves nothing.
     T_symbol_resolved   fields inside Symbol values: dropped together with T_symbols.
   Tables that ARE observable although drop_file does not clear them (confirmed on the real server by the
   end-to-end driver, see design/C07.md and KNOWN_FINDINGS.txt) are listed in [known_stale]; the refinement
   theorem is then about diagnostics that do not read those tables, and [stale_table_witness] gives the
   2-edit history schema for each of them. *)
From Coq Require Import List Bool Arith.
Import ListNotations.
From VV Require Import Ls.LsModel Ls.LsProofs Ls.GeneratedTables.

Definition mem (t : table) (l : list table) : bool := existsb (table_eqb t) l.

Definition written (t : table) : bool := mem t written_pass1_l || mem t written_post_l.
Definition dropped (t : table) : bool := mem t dropped_l.
Definition drained (t : table) : bool := mem t drained_l.

Definition unobservable_l : list table :=
  [T_intern; T_literal; T_msb; T_connect_op; T_generic_inferred; T_reference_functions;
   T_generic_instances; T_type_dag; T_scope_tree; T_symbol_resolved].

(* written, observable, neither dropped per file nor drained: each one is a finding with a replay *)
Definition known_stale_l : list table :=
  [T_doc_comment; T_scope_imports; T_scope_wildcards; T_scope_mixins; T_scope_generic].

Definition observable_all (t : table) : bool := negb (mem t unobservable_l).
(* the diagnostics covered by the theorem: everything except what is computed from a known-stale table *)
Definition observable (t : table) : bool := observable_all t && negb (mem t known_stale_l).

(* the inclusion  Written /\ Observable  <=  Dropped \/ Drained, decided on the generated lists *)
Definition discipline_b : bool :=
  forallb (fun t => implb (written t && observable t) (dropped t || drained t)) all_tables.

(* what is left over when the known-stale tables are not excused: must be exactly that list *)
Definition stale_tables : list table :=
  filter (fun t => written t && observable_all t && negb (dropped t || drained t)) all_tables.

Lemma all_tables_complete : forall t, In t all_tables.
Proof. destruct t; simpl; tauto. Qed.

Lemma table_eqb_refl : forall t, table_eqb t t = true.
Proof. destruct t; reflexivity. Qed.

Lemma discipline_holds : discipline_b = true.
Proof. vm_compute. reflexivity. Qed.

Lemma stale_tables_are_the_known_ones : stale_tables = known_stale_l.
Proof. vm_compute. reflexivity. Qed.

Lemma server_shape_ok :
  on_change_shape_ok = true /\ background_shape_ok = true /\ on_remove_drops = true /\
  did_close_handled = false /\ did_save_handled = false.
Proof. vm_compute. repeat split. Qed.

Lemma discipline_prop : discipline table written dropped drained observable.
Proof.
  intros t Hw Ho. pose proof discipline_holds as H. unfold discipline_b in H.
  rewrite forallb_forall in H. specialize (H t (all_tables_complete t)).
  rewrite Hw, Ho in H. simpl in H. apply orb_true_iff in H. exact H.
Qed.

Section Instance.
  Variable content fact diag : Type.
  Variable pass1 : file -> content -> table -> list fact.
  Variable diagf : file -> (table -> file -> list fact) -> diag.

  (* the model instantiated with the generated classification *)
  Definition ls_run := run table content fact diag written dropped drained pass1 diagf.
  Definition ls_refresh := refresh table content fact diag written dropped drained pass1 diagf.
  Definition ls_hist_ok := hist_ok table content fact diag written dropped drained pass1 diagf.
  Definition ls_spec := diags_spec table content fact diag written drained pass1 diagf.
  Definition ls_reads_observable_only := reads_observable_only table fact diag observable diagf.

  Theorem ls_refines_spec_generated :
    ls_reads_observable_only ->
    forall w0 h f d,
      (forall g, editor content w0 g = None) ->
      ls_hist_ok (w0, init_srv table content fact) h ->
      ls_refresh (ls_run w0 h) f = Some d ->
      d = ls_spec (cur content (fst (ls_run w0 h))) f.
  Proof. intro RO. exact (ls_refines_spec _ _ _ _ _ _ _ _ _ _ discipline_prop RO). Qed.

  Theorem ls_history_independent_generated :
    ls_reads_observable_only ->
    forall w1 h1 w2 h2 f d1 d2,
      (forall g, editor content w1 g = None) -> (forall g, editor content w2 g = None) ->
      ls_hist_ok (w1, init_srv table content fact) h1 ->
      ls_hist_ok (w2, init_srv table content fact) h2 ->
      (forall g, cur content (fst (ls_run w1 h1)) g = cur content (fst (ls_run w2 h2)) g) ->
      ls_refresh (ls_run w1 h1) f = Some d1 -> ls_refresh (ls_run w2 h2) f = Some d2 ->
      d1 = d2.
  Proof. intro RO. exact (ls_history_independent _ _ _ _ _ _ _ _ _ _ discipline_prop RO). Qed.
End Instance.
