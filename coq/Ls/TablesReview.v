(* C07 — reviewed classification of the analyzer tables, on top of the lists that
   translators/dropped_tables.py regenerates from the Rust source (GeneratedTables.v), and the
   instantiation of the generic refinement theorems with them.

   [observable t]: can an entry of table t that was registered for an EARLIER text of a file change a
   published diagnostic?  Reasons for the tables judged unobservable:
     T_intern            string/path interning and id counters: only identities, never compared in a diagnostic;
                         interning is idempotent.
     T_literal, T_msb, T_connect_op, T_generic_inferred
                         keyed by TokenId; every parse / fragment restore allocates fresh token ids
                         (resource_table::new_token_id / reserve_token_ids), so an entry of an earlier text is never
                         looked up again.
     T_reference_functions, T_generic_instances
                         keyed by SymbolId of symbols of the file itself; re-analysis allocates fresh symbol ids
                         and lookups start from live symbols only.
     T_type_dag          nodes are keyed by SymbolId, file nodes are re-created per symbol: an edge of an earlier
                         text joins dead nodes only.  (The panic in insert_file_edge for files that reference
                         each other is history-independent in kind; it is a C11 finding.)
     T_scope_generic     instance scope -> template scope, both determined by their names; re-registration is
                         idempotent.
     T_symbol_resolved   fields inside Symbol values: dropped together with T_symbols.
   Tables that ARE observable although drop_file does not clear them are listed in [known_stale_l]; each is a
   finding confirmed on the real server by the end-to-end driver (design/C07.md, KNOWN_FINDINGS.txt):
     T_scope_tree        interned scopes keep their kind after their owner is dropped: once `PkgB` has existed,
                         `PkgB::C0` is reported as "PkgB is undefined" twice instead of "C0 is undefined" +
                         "PkgB is undefined" (key stale-scope:undefined-identifier-names).
   The refinement theorem is about diagnostics that do not read those tables, and [stale_table_witness] gives the
   2-edit history schema for each of them. *)
From Coq Require Import List Bool Arith.
Import ListNotations.
From VV Require Import Ls.LsModel Ls.LsProofs Ls.GeneratedTables.

Definition mem (t : table) (l : list table) : bool := existsb (table_eqb t) l.

Definition written (t : table) : bool := mem t written_pass1_l || mem t written_post_l.
Definition dropped (t : table) : bool := mem t dropped_l.
Definition drained (t : table) : bool := mem t drained_l.

Definition unobservable_l : list table :=
  [T_intern; T_literal; T_msb; T_connect_op; T_generic_inferred; T_reference_functions;
   T_generic_instances; T_type_dag; T_scope_generic; T_symbol_resolved].

(* written, observable, neither dropped per file nor drained: each one is a finding with a replay *)
Definition known_stale_l : list table := [T_scope_tree].

Definition observable_all (t : table) : bool := negb (mem t unobservable_l).
(* the diagnostics covered by the theorem: everything except what is computed from a known-stale table *)
Definition observable (t : table) : bool := observable_all t && negb (mem t known_stale_l).

(* the inclusion  Written /\ Observable  <=  Dropped \/ Drained, decided on the generated lists *)
Definition discipline_b : bool :=
  forallb (fun t => implb (written t && observable t) (dropped t || drained t)) all_tables.

(* what is left over when the known-stale tables are not excused: must be exactly that list *)
Definition stale_tables : list table :=
  filter (fun t => written t && observable_all t && negb (dropped t || drained t)) all_tables.

Lemma all_tables_complete : forall t, In t all_tables.
Proof. destruct t; simpl; tauto. Qed.

Lemma table_eqb_refl : forall t, table_eqb t t = true.
Proof. destruct t; reflexivity. Qed.

Lemma discipline_holds : discipline_b = true.
Proof. vm_compute. reflexivity. Qed.

Lemma stale_tables_are_the_known_ones : stale_tables = known_stale_l.
Proof. vm_compute. reflexivity. Qed.

Lemma server_shape_ok :
  on_change_shape_ok = true /\ background_shape_ok = true /\ on_remove_drops = true.
Proof. vm_compute. repeat split. Qed.

(* the server handles didClose (forget the buffer, drop the file, re-analyse from disk) and on_remove forgets the
   buffer of a removed file: then every history is admissible *)
Lemma close_is_handled : did_close_handled = true.
Proof. vm_compute. reflexivity. Qed.
Lemma remove_forgets_buffer : on_remove_forgets = true.
Proof. vm_compute. reflexivity. Qed.

Lemma discipline_prop : discipline table written dropped drained observable.
Proof.
  intros t Hw Ho. pose proof discipline_holds as H. unfold discipline_b in H.
  rewrite forallb_forall in H. specialize (H t (all_tables_complete t)).
  rewrite Hw, Ho in H. simpl in H. apply orb_true_iff in H. exact H.
Qed.

Section Instance.
  Variable content fact diag : Type.
  Variable pass1 : file -> content -> table -> list fact.
  Variable diagf : file -> (table -> file -> list fact) -> diag.

  (* the model instantiated with the generated classification and server shape *)
  Definition ls_run := run table content fact diag written dropped drained did_close_handled on_remove_forgets pass1 diagf.
  Definition ls_refresh := refresh table content fact diag written dropped drained pass1 diagf.
  Definition ls_hist_ok := hist_ok table content fact diag written dropped drained did_close_handled on_remove_forgets pass1 diagf.
  Definition ls_spec := diags_spec table content fact diag written drained pass1 diagf.
  Definition ls_reads_observable_only := reads_observable_only table fact diag observable diagf.

  Theorem ls_refines_spec_generated :
    ls_reads_observable_only ->
    forall w0 h f d,
      (forall g, editor content w0 g = None) ->
      ls_refresh (ls_run w0 h) f = Some d ->
      d = ls_spec (cur content (fst (ls_run w0 h))) f.
  Proof.
    intro RO.
    exact (ls_refines_spec_all _ _ _ _ _ _ _ _ _ _ _ _ discipline_prop RO close_is_handled remove_forgets_buffer).
  Qed.

  Theorem ls_history_independent_generated :
    ls_reads_observable_only ->
    forall w1 h1 w2 h2 f d1 d2,
      (forall g, editor content w1 g = None) -> (forall g, editor content w2 g = None) ->
      (forall g, cur content (fst (ls_run w1 h1)) g = cur content (fst (ls_run w2 h2)) g) ->
      ls_refresh (ls_run w1 h1) f = Some d1 -> ls_refresh (ls_run w2 h2) f = Some d2 ->
      d1 = d2.
  Proof.
    intro RO.
    exact (ls_history_independent_all _ _ _ _ _ _ _ _ _ _ _ _ discipline_prop RO close_is_handled remove_forgets_buffer).
  Qed.
End Instance.
