(* Bit-level and modular-arithmetic lemmas on N used by the Value / SvLogic proofs. *)
From VV Require Import BV.Ops1800.
Open Scope N_scope.

Lemma ones_eq w : ones w = N.ones w.
Proof. unfold ones. rewrite N.ones_equiv, N.sub_1_r. reflexivity. Qed.

Lemma tb_ones w i : N.testbit (ones w) i = (i <? w).
Proof.
  rewrite ones_eq. destruct (N.ltb_spec i w).
  - apply N.ones_spec_low; assumption.
  - apply N.ones_spec_high; assumption.
Qed.

Lemma tb_mod a w i : N.testbit (a mod 2 ^ w) i = (i <? w) && N.testbit a i.
Proof.
  destruct (N.ltb_spec i w).
  - rewrite N.mod_pow2_bits_low by assumption. reflexivity.
  - rewrite N.mod_pow2_bits_high by assumption. reflexivity.
Qed.

Lemma land_ones a w : N.land a (ones w) = a mod 2 ^ w.
Proof. rewrite ones_eq. apply N.land_ones. Qed.

Lemma pow2_pos w : 0 < 2 ^ w.
Proof. apply N.neq_0_lt_0, N.pow_nonzero. discriminate. Qed.

Lemma pow2_le a b : a <= b -> 2 ^ a <= 2 ^ b.
Proof. intros. apply N.pow_le_mono_r; [discriminate | assumption]. Qed.

Lemma tb_lt a w i : a < 2 ^ w -> w <= i -> N.testbit a i = false.
Proof.
  intros Ha Hi. destruct (N.eq_dec a 0) as [->|Hz]; [apply N.bits_0|].
  apply N.bits_above_log2. apply N.log2_lt_pow2; [lia|].
  eapply N.lt_le_trans; [exact Ha|]. apply pow2_le; assumption.
Qed.

Lemma mod_small_pow a w : a < 2 ^ w -> a mod 2 ^ w = a.
Proof. intros. apply N.mod_small; assumption. Qed.

Lemma lt_pow2_of_bits a w : (forall i, w <= i -> N.testbit a i = false) -> a < 2 ^ w.
Proof.
  intros H. assert (E : a mod 2 ^ w = a).
  { apply N.bits_inj; intro i. rewrite tb_mod. destruct (N.ltb_spec i w); [reflexivity|].
    rewrite H by assumption. reflexivity. }
  rewrite <- E. apply N.mod_lt. apply N.pow_nonzero. discriminate.
Qed.

Lemma mod_mod_pow2 a v w : w <= v -> (a mod 2 ^ v) mod 2 ^ w = a mod 2 ^ w.
Proof.
  intros. apply N.bits_inj; intro i. rewrite !tb_mod.
  destruct (N.ltb_spec i w); [|reflexivity].
  destruct (N.ltb_spec i v); [reflexivity|lia].
Qed.

Lemma ones_lt w : ones w < 2 ^ w.
Proof. unfold ones. pose proof (pow2_pos w). lia. Qed.

Lemma ones_succ w : ones w + 1 = 2 ^ w.
Proof. unfold ones. pose proof (pow2_pos w). lia. Qed.

Lemma lxor_ones_sub a w : a < 2 ^ w -> N.lxor a (ones w) = ones w - a.
Proof.
  intros Ha. destruct (N.eq_dec a 0) as [->|Hz].
  { rewrite N.lxor_0_l, N.sub_0_r. reflexivity. }
  rewrite ones_eq. rewrite <- (N.lnot_sub_low a w).
  2:{ apply N.log2_lt_pow2; lia. }
  unfold N.lnot. reflexivity.
Qed.

Lemma lxor_ones_ones w0 w : w0 <= w -> N.lxor (ones w) (ones w0) = ones w - ones w0.
Proof.
  intros. rewrite N.lxor_comm. apply lxor_ones_sub.
  eapply N.lt_le_trans; [apply ones_lt|]. apply pow2_le; assumption.
Qed.

Lemma tb_fill w0 w i : w0 <= w -> N.testbit (ones w - ones w0) i = (w0 <=? i) && (i <? w).
Proof.
  intros. rewrite <- lxor_ones_ones by assumption. rewrite N.lxor_spec, !tb_ones.
  destruct (N.ltb_spec i w), (N.ltb_spec i w0), (N.leb_spec w0 i); try reflexivity; lia.
Qed.

Lemma lor_lt a b w : a < 2 ^ w -> b < 2 ^ w -> N.lor a b < 2 ^ w.
Proof.
  intros Ha Hb. apply lt_pow2_of_bits. intros i Hi.
  rewrite N.lor_spec, (tb_lt a w i), (tb_lt b w i) by assumption. reflexivity.
Qed.
Lemma land_lt_l a b w : a < 2 ^ w -> N.land a b < 2 ^ w.
Proof.
  intros Ha. apply lt_pow2_of_bits. intros i Hi.
  rewrite N.land_spec, (tb_lt a w i) by assumption. reflexivity.
Qed.
Lemma land_lt_r a b w : b < 2 ^ w -> N.land a b < 2 ^ w.
Proof. intros. rewrite N.land_comm. apply land_lt_l; assumption. Qed.
Lemma lxor_lt a b w : a < 2 ^ w -> b < 2 ^ w -> N.lxor a b < 2 ^ w.
Proof.
  intros Ha Hb. apply lt_pow2_of_bits. intros i Hi.
  rewrite N.lxor_spec, (tb_lt a w i), (tb_lt b w i) by assumption. reflexivity.
Qed.
Lemma mul_pow2_mod_0 a s w : w <= s -> (a * 2 ^ s) mod 2 ^ w = 0.
Proof.
  intros. replace s with ((s - w) + w) by lia. rewrite N.pow_add_r, N.mul_assoc.
  apply N.mod_mul. apply N.pow_nonzero. discriminate.
Qed.

Lemma div_pow2_0 a s w : a < 2 ^ w -> w <= s -> a / 2 ^ s = 0.
Proof.
  intros. apply N.div_small. eapply N.lt_le_trans; [eassumption|]. apply pow2_le; assumption.
Qed.

(* Z <-> N modular reduction *)
Lemma Z_mod_mod_pow2 z v w : (w <= v)%N -> ((z mod 2 ^ Z.of_N v) mod 2 ^ Z.of_N w = z mod 2 ^ Z.of_N w)%Z.
Proof.
  intros. symmetry. apply Znumtheory.Zmod_div_mod.
  - apply Z.pow_pos_nonneg; lia.
  - apply Z.pow_pos_nonneg; lia.
  - exists (2 ^ (Z.of_N v - Z.of_N w))%Z. rewrite <- Z.pow_add_r by lia. f_equal. lia.
Qed.

Lemma of_z_mod64 z w : w <= 64 -> (Z.to_N (z mod 2 ^ 64)%Z) mod 2 ^ w = of_z w z.
Proof.
  intros. unfold of_z. apply N2Z.inj.
  pose proof (Z.mod_pos_bound z (2 ^ 64) eq_refl).
  pose proof (Z.mod_pos_bound z (2 ^ Z.of_N w) ltac:(apply Z.pow_pos_nonneg; lia)).
  rewrite N2Z.inj_mod, N2Z.inj_pow, !Z2N.id by lia.
  change (Z.of_N 2) with 2%Z. change 64%Z with (Z.of_N 64). apply Z_mod_mod_pow2. assumption.
Qed.

Lemma of_z_N w n : of_z w (Z.of_N n) = n mod 2 ^ w.
Proof.
  unfold of_z. apply N2Z.inj.
  pose proof (Z.mod_pos_bound (Z.of_N n) (2 ^ Z.of_N w) ltac:(apply Z.pow_pos_nonneg; lia)).
  rewrite Z2N.id, N2Z.inj_mod, N2Z.inj_pow by lia. reflexivity.
Qed.

Lemma of_z_lt w z : of_z w z < 2 ^ w.
Proof.
  unfold of_z.
  pose proof (Z.mod_pos_bound z (2 ^ Z.of_N w) ltac:(apply Z.pow_pos_nonneg; lia)).
  apply N2Z.inj_lt. rewrite Z2N.id, N2Z.inj_pow by lia. change (Z.of_N 2) with 2%Z. lia.
Qed.

Lemma of_z_add_mul w z k : of_z w (z + k * 2 ^ Z.of_N w) = of_z w z.
Proof. unfold of_z. rewrite Z.mod_add; [reflexivity|]. apply Z.pow_nonzero; lia. Qed.

(* bits of of_bits *)
Lemma of_bits_nat_p f n i :
  N.testbit (vp (of_bits_nat f n)) i = (i <? N.of_nat n) && pbit (f i).
Proof.
  induction n as [|n IH].
  - cbn. destruct i; reflexivity.
  - cbn [of_bits_nat]. rewrite Nat2N.inj_succ. set (k := N.of_nat n) in *.
    destruct (pbit (f k)) eqn:E; cbn [vp vm].
    + destruct (N.eq_dec i k) as [->|Hne].
      * rewrite N.setbit_eq, E. destruct (N.ltb_spec k (N.succ k)); [reflexivity|lia].
      * rewrite N.setbit_neq by congruence. rewrite IH.
        destruct (N.ltb_spec i k), (N.ltb_spec i (N.succ k)); try reflexivity; lia.
    + rewrite IH. destruct (N.eq_dec i k) as [->|Hne].
      * rewrite E, !Bool.andb_false_r. reflexivity.
      * destruct (N.ltb_spec i k), (N.ltb_spec i (N.succ k)); try reflexivity; lia.
Qed.

Lemma of_bits_nat_m f n i :
  N.testbit (vm (of_bits_nat f n)) i = (i <? N.of_nat n) && mbit (f i).
Proof.
  induction n as [|n IH].
  - cbn. destruct i; reflexivity.
  - cbn [of_bits_nat]. rewrite Nat2N.inj_succ. set (k := N.of_nat n) in *.
    destruct (mbit (f k)) eqn:E; cbn [vp vm].
    + destruct (N.eq_dec i k) as [->|Hne].
      * rewrite N.setbit_eq, E. destruct (N.ltb_spec k (N.succ k)); [reflexivity|lia].
      * rewrite N.setbit_neq by congruence. rewrite IH.
        destruct (N.ltb_spec i k), (N.ltb_spec i (N.succ k)); try reflexivity; lia.
    + rewrite IH. destruct (N.eq_dec i k) as [->|Hne].
      * rewrite E, !Bool.andb_false_r. reflexivity.
      * destruct (N.ltb_spec i k), (N.ltb_spec i (N.succ k)); try reflexivity; lia.
Qed.

Lemma of_bits_p f w i : N.testbit (vp (of_bits f w)) i = (i <? w) && pbit (f i).
Proof. unfold of_bits. rewrite of_bits_nat_p, N2Nat.id. reflexivity. Qed.
Lemma of_bits_m f w i : N.testbit (vm (of_bits f w)) i = (i <? w) && mbit (f i).
Proof. unfold of_bits. rewrite of_bits_nat_m, N2Nat.id. reflexivity. Qed.

(* per-bit view of a vector *)
Lemma getbit_bits v i :
  pbit (getbit v i) = N.testbit (vp v) i /\ mbit (getbit v i) = N.testbit (vm v) i.
Proof. unfold getbit. destruct (N.testbit (vm v) i), (N.testbit (vp v) i); split; reflexivity. Qed.

Lemma vec_eq a b : vp a = vp b -> vm a = vm b -> a = b.
Proof. destruct a, b; simpl; intros; subst; reflexivity. Qed.
