(* L1: reference semantics of IEEE 1800-2017 operators on 4-state vectors (clause 11.4),
   written directly from the standard's per-bit tables and integer definitions.
   This file is the oracle; it does not mention veryl's code.

   A vector of width w is a pair (p, m) of naturals < 2^w: bit i is
     0 if ~m_i ~p_i, 1 if ~m_i p_i, X if m_i ~p_i, Z if m_i p_i
   (veryl's payload / mask_xz encoding, so results can be compared without conversion). *)
From Coq Require Export List NArith ZArith Bool Lia.
Export ListNotations.
Open Scope N_scope.

Inductive bit4 := B0 | B1 | BX | BZ.

Definition bit4_eqb (a b : bit4) : bool :=
  match a, b with B0, B0 | B1, B1 | BX, BX | BZ, BZ => true | _, _ => false end.

Record vec := mkVec { vp : N; vm : N }.

Definition getbit (v : vec) (i : N) : bit4 :=
  if N.testbit (vm v) i then (if N.testbit (vp v) i then BZ else BX)
  else if N.testbit (vp v) i then B1 else B0.

Definition pbit (b : bit4) : bool := match b with B1 | BZ => true | _ => false end.
Definition mbit (b : bit4) : bool := match b with BX | BZ => true | _ => false end.

(* build a vector of width w from a bit function *)
Fixpoint of_bits_nat (f : N -> bit4) (w : nat) : vec :=
  match w with
  | O => mkVec 0 0
  | S w' => let v := of_bits_nat f w' in
            let i := N.of_nat w' in
            mkVec (if pbit (f i) then N.setbit (vp v) i else vp v)
                  (if mbit (f i) then N.setbit (vm v) i else vm v)
  end.
Definition of_bits (f : N -> bit4) (w : N) : vec := of_bits_nat f (N.to_nat w).

Definition ones (w : N) : N := 2 ^ w - 1.
Definition allx (w : N) : vec := mkVec 0 (ones w).
Definition known (v : vec) : bool := vm v =? 0.

(* two's-complement value of the low w bits *)
Definition sval (w p : N) : Z :=
  if (0 <? w) && N.testbit p (w - 1) then (Z.of_N p - 2 ^ Z.of_N w)%Z else Z.of_N p.
Definition of_z (w : N) (z : Z) : N := Z.to_N (z mod 2 ^ Z.of_N w)%Z.

(* 11.6 / 11.8: extension of an operand of width w0 to the context width w.
   Signed context: replicate the most significant bit (which may be x or z). *)
Definition ext (signed : bool) (w0 w : N) (v : vec) : vec :=
  if (w <=? w0) || (w0 =? 0) || negb signed then v
  else
    let fill := ones w - ones w0 in
    mkVec (if N.testbit (vp v) (w0 - 1) then N.lor (vp v) fill else vp v)
          (if N.testbit (vm v) (w0 - 1) then N.lor (vm v) fill else vm v).

(* ---------------------------------------------------------------- 11.4.3 arithmetic *)
Definition arith (w : N) (a b : vec) (f : N -> N -> N) : vec :=
  if known a && known b then mkVec (f (vp a) (vp b) mod 2 ^ w) 0 else allx w.

Definition s_add (w : N) (a b : vec) := arith w a b N.add.
Definition s_sub (w : N) (a b : vec) := arith w a b (fun x y => x + 2 ^ w - y mod 2 ^ w).
Definition s_mul (w : N) (a b : vec) := arith w a b N.mul.
Definition s_neg (w : N) (a : vec) : vec :=
  if known a then mkVec ((2 ^ w - vp a mod 2 ^ w) mod 2 ^ w) 0 else allx w.

(* division / modulus: x if any operand bit is x/z or the divisor is zero; signed operands
   truncate toward zero, modulus takes the sign of the first operand *)
Definition s_div (signed : bool) (w : N) (a b : vec) : vec :=
  if known a && known b && negb (vp b mod 2 ^ w =? 0)
  then if signed then mkVec (of_z w (Z.quot (sval w (vp a)) (sval w (vp b)))) 0
       else mkVec ((vp a / vp b) mod 2 ^ w) 0
  else allx w.
Definition s_rem (signed : bool) (w : N) (a b : vec) : vec :=
  if known a && known b && negb (vp b mod 2 ^ w =? 0)
  then if signed then mkVec (of_z w (Z.rem (sval w (vp a)) (sval w (vp b)))) 0
       else mkVec ((vp a mod vp b) mod 2 ^ w) 0
  else allx w.

(* ---------------------------------------------------------------- 11.4.8 bitwise tables *)
Definition and4 (a b : bit4) : bit4 :=
  match a, b with
  | B0, _ | _, B0 => B0
  | B1, B1 => B1
  | _, _ => BX
  end.
Definition or4 (a b : bit4) : bit4 :=
  match a, b with
  | B1, _ | _, B1 => B1
  | B0, B0 => B0
  | _, _ => BX
  end.
Definition xor4 (a b : bit4) : bit4 :=
  match a, b with
  | B0, B0 | B1, B1 => B0
  | B0, B1 | B1, B0 => B1
  | _, _ => BX
  end.
Definition not4 (a : bit4) : bit4 := match a with B0 => B1 | B1 => B0 | _ => BX end.
Definition xnor4 (a b : bit4) : bit4 := not4 (xor4 a b).

Definition lift2 (f : bit4 -> bit4 -> bit4) (w : N) (a b : vec) : vec :=
  of_bits (fun i => f (getbit a i) (getbit b i)) w.
Definition lift1 (f : bit4 -> bit4) (w : N) (a : vec) : vec :=
  of_bits (fun i => f (getbit a i)) w.

Definition s_and := lift2 and4.
Definition s_or := lift2 or4.
Definition s_xor := lift2 xor4.
Definition s_xnor := lift2 xnor4.
Definition s_not := lift1 not4.

(* ---------------------------------------------------------------- 11.4.9 reductions *)
Fixpoint reduce_nat (f : bit4 -> bit4 -> bit4) (a : vec) (w : nat) (acc : bit4) : bit4 :=
  match w with O => acc | S w' => reduce_nat f a w' (f acc (getbit a (N.of_nat w'))) end.
(* operand has at least one bit; start from bit w-1 and fold down *)
Definition reduce (f : bit4 -> bit4 -> bit4) (w : N) (a : vec) : bit4 :=
  match N.to_nat w with
  | O => BX
  | S w' => reduce_nat f a w' (getbit a (N.of_nat w'))
  end.
Definition vec_of_bit (b : bit4) : vec := mkVec (if pbit b then 1 else 0) (if mbit b then 1 else 0).
(* a reduction result is a 1-bit x when unknown (never z) *)
Definition norm1 (b : bit4) : bit4 := match b with BZ => BX | o => o end.

Definition s_red_and w a := vec_of_bit (norm1 (reduce and4 w a)).
Definition s_red_or w a := vec_of_bit (norm1 (reduce or4 w a)).
Definition s_red_xor w a := vec_of_bit (norm1 (reduce xor4 w a)).
Definition s_red_nand w a := vec_of_bit (not4 (reduce and4 w a)).
Definition s_red_nor w a := vec_of_bit (not4 (reduce or4 w a)).
Definition s_red_xnor w a := vec_of_bit (not4 (reduce xor4 w a)).

(* ---------------------------------------------------------------- 11.4.4 relational *)
Definition s_rel (signed : bool) (w : N) (a b : vec) (fz : Z -> Z -> bool) : vec :=
  if known a && known b
  then let va := if signed then sval w (vp a) else Z.of_N (vp a) in
       let vb := if signed then sval w (vp b) else Z.of_N (vp b) in
       vec_of_bit (if fz va vb then B1 else B0)
  else vec_of_bit BX.

(* ---------------------------------------------------------------- 11.4.5 equality *)
(* a definite mismatch: some bit position where both bits are known and differ *)
Definition definite_mismatch (a b : vec) : bool :=
  negb (N.ldiff (N.ldiff (N.lxor (vp a) (vp b)) (vm a)) (vm b) =? 0).

Definition s_eq (a b : vec) : vec :=
  if definite_mismatch a b then vec_of_bit B0
  else if known a && known b then vec_of_bit B1 else vec_of_bit BX.
Definition s_ne (a b : vec) : vec :=
  if definite_mismatch a b then vec_of_bit B1
  else if known a && known b then vec_of_bit B0 else vec_of_bit BX.

(* 11.4.6 wildcard equality: x/z bits of the RIGHT operand are don't-cares *)
Definition s_weq (a b : vec) : vec :=
  let diff := N.ldiff (N.ldiff (N.lxor (vp a) (vp b)) (vm b)) (vm a) in
  if negb (diff =? 0) then vec_of_bit B0
  else if negb (N.ldiff (vm a) (vm b) =? 0) then vec_of_bit BX else vec_of_bit B1.
Definition s_wne (a b : vec) : vec :=
  match s_weq a b with
  | {| vp := 1; vm := 0 |} => vec_of_bit B0
  | {| vp := 0; vm := 0 |} => vec_of_bit B1
  | _ => vec_of_bit BX
  end.

(* ---------------------------------------------------------------- 11.4.7 logical *)
Inductive tri := TT | TF | TU.
(* true: some bit is 1; false: every bit is 0; otherwise unknown *)
Definition truth (a : vec) : tri :=
  if negb (N.ldiff (vp a) (vm a) =? 0) then TT
  else if vm a =? 0 then TF else TU.
Definition tri_and (a b : tri) : tri :=
  match a, b with TF, _ | _, TF => TF | TT, TT => TT | _, _ => TU end.
Definition tri_or (a b : tri) : tri :=
  match a, b with TT, _ | _, TT => TT | TF, TF => TF | _, _ => TU end.
Definition tri_not (a : tri) : tri := match a with TT => TF | TF => TT | TU => TU end.
Definition vec_of_tri (t : tri) : vec :=
  vec_of_bit (match t with TT => B1 | TF => B0 | TU => BX end).
Definition s_land (a b : vec) := vec_of_tri (tri_and (truth a) (truth b)).
Definition s_lor (a b : vec) := vec_of_tri (tri_or (truth a) (truth b)).
Definition s_lnot (a : vec) := vec_of_tri (tri_not (truth a)).

(* ---------------------------------------------------------------- 11.4.10 shifts *)
(* amount: None when it contains x/z *)
Definition s_shl (w : N) (a : vec) (amt : option N) : vec :=
  match amt with
  | None => allx w
  | Some s => mkVec (N.shiftl (vp a) s mod 2 ^ w) (N.shiftl (vm a) s mod 2 ^ w)
  end.
Definition s_shr (w : N) (a : vec) (amt : option N) : vec :=
  match amt with
  | None => allx w
  | Some s => mkVec (N.shiftr (vp a mod 2 ^ w) s) (N.shiftr (vm a mod 2 ^ w) s)
  end.
(* >>> : fill with the sign bit (possibly x/z) when the result type is signed *)
Definition s_ashr (signed : bool) (w : N) (a : vec) (amt : option N) : vec :=
  match amt with
  | None => allx w
  | Some s =>
      let fill := ones w - ones (w - s) in
      let p := N.shiftr (vp a mod 2 ^ w) s in
      let m := N.shiftr (vm a mod 2 ^ w) s in
      if signed && (0 <? w)
      then mkVec (if N.testbit (vp a) (w - 1) then N.lor p fill else p)
                 (if N.testbit (vm a) (w - 1) then N.lor m fill else m)
      else mkVec p m
  end.

(* ---------------------------------------------------------------- 11.4.3 power, Table 11-4 *)
Fixpoint zpow_mod_pos (b : Z) (e : positive) (m : Z) : Z :=
  match e with
  | xH => (b mod m)%Z
  | xO e' => let h := zpow_mod_pos b e' m in ((h * h) mod m)%Z
  | xI e' => let h := zpow_mod_pos b e' m in (((h * h) mod m * (b mod m)) mod m)%Z
  end.
Definition zpow_mod (b : Z) (e : N) (m : Z) : Z :=
  match e with 0 => (1 mod m)%Z | Npos p => zpow_mod_pos b p m end.

(* base a (value va), exponent value eb (an integer; negative only when its type is signed) *)
Definition s_pow (signed_a : bool) (w : N) (a : vec) (eb : option Z) : vec :=
  match eb with
  | None => allx w
  | Some e =>
      if negb (known a) then allx w else
      let va := if signed_a then sval w (vp a) else Z.of_N (vp a mod 2 ^ w) in
      if (e <? 0)%Z then
        if (va =? 0)%Z then allx w
        else if (va =? 1)%Z then mkVec (1 mod 2 ^ w) 0
        else if (va =? -1)%Z then mkVec (of_z w (if Z.odd e then -1 else 1)%Z) 0
        else mkVec 0 0
      else mkVec (Z.to_N (zpow_mod va (Z.to_N e) (2 ^ Z.of_N w))) 0
  end.
