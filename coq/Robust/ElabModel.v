(* C11 — model of the instance-elaboration bookkeeping that enforces the elaboration limits
   (crates/analyzer/src/conv/instance.rs: InstanceHistory::{get,set,push,pop};
    crates/analyzer/src/conv/utils.rs:3328-3470: get_component).
   Definitions only.  Proofs: Robust/ElabProofs.v.

   A signature (module/interface + parameter/generic values) is a number; `design` says what
   converting the body of a signature does.  Signatures range over all of N: a design whose
   parameters grow at every level (`inst a: A #(N: N + 1)`) is an infinite, non-repeating chain. *)
From Coq Require Import List NArith Bool Lia.
Import ListNotations.
Open Scope N_scope.

Record cfg := mkCfg { depth_limit : N; total_limit : N }.

(* hierarchy: Vec<Signature> (last = innermost); full: HashMap<Signature, Option<component>>,
   the bool says whether the component has been set (Some) *)
Record hist := mkHist { hier : list N; full : list (N * bool) }.

Definition empty_hist : hist := mkHist [] [].

Definition len {A} (l : list A) : N := N.of_nat (length l).

Fixpoint mem (s : N) (l : list N) : bool :=
  match l with
  | [] => false
  | x :: r => (x =? s) || mem s r
  end.

Fixpoint lookup (s : N) (l : list (N * bool)) : option bool :=
  match l with
  | [] => None
  | (k, v) :: r => if k =? s then Some v else lookup s r
  end.

Fixpoint setdone (s : N) (l : list (N * bool)) : list (N * bool) :=
  match l with
  | [] => []
  | (k, v) :: r => (k, if k =? s then true else v) :: setdone s r
  end.

Inductive push_result :=
| PErrDepth : N -> push_result          (* InstanceHistoryError::ExceedDepthLimit(len) *)
| PErrTotal : N -> push_result          (* InstanceHistoryError::ExceedTotalLimit(len) *)
| PErrRecursion : push_result           (* InstanceHistoryError::InfiniteRecursion *)
| POk : bool -> hist -> push_result.    (* Ok(pushed) *)

(* InstanceHistory::push, branch for branch *)
Definition push (c : cfg) (h : hist) (s : N) : push_result :=
  if depth_limit c <? len (hier h) then PErrDepth (len (hier h))
  else if total_limit c <? len (full h) then PErrTotal (len (full h))
  else if mem s (hier h) then PErrRecursion
  else match lookup s (full h) with
       | Some _ => POk false h
       | None => POk true (mkHist (hier h ++ [s]) ((s, false) :: full h))
       end.

(* InstanceHistory::pop: Vec::pop (no-op on an empty hierarchy) *)
Definition pop (h : hist) : hist := mkHist (removelast (hier h)) (full h).

(* InstanceHistory::set: only when the key exists *)
Definition set_done (h : hist) (s : N) : hist := mkHist (hier h) (setdone s (full h)).

(* InstanceHistory::get: Some only for a set entry *)
Definition get (h : hist) (s : N) : bool :=
  match lookup s (full h) with
  | Some true => true
  | _ => false
  end.

(* what converting the body of a signature does in get_component after a successful push *)
Inductive body :=
| NoDef : body                 (* `definition_table::get(..).ok_or_else(..)?` fails, or `_ => Err(..)`:
                                  returns Err with the pushed entry left on the hierarchy *)
| Def : list N -> body         (* Conv::conv = Ok after elaborating the instances of the body:
                                  set_instance_history; pop_instance_history; Ok *)
| Fails : list N -> body.      (* Conv::conv = Err after elaborating the instances: pop_instance_history; Err *)

Definition is_def (b : body) : bool := match b with Def _ => true | _ => false end.
Definition is_fails (b : body) : bool := match b with Fails _ => true | _ => false end.

(* elaborate the instances of a body in order; a failing instance is reported and skipped *)
Section ElabList.
  Variable E : N -> hist -> option (hist * bool).
  Fixpoint elab_list_gen (cs : list N) (h : hist) : option hist :=
    match cs with
    | [] => Some h
    | x :: r => match E x h with
                | None => None
                | Some (h', _) => elab_list_gen r h'
                end
    end.
End ElabList.

(* get_component.  One unit of fuel per nested call: `None` = the recursion is deeper than fuel
   (on the real machine: deeper than the stack).  Result: history afterwards, Ok/Err. *)
Fixpoint elab (fuel : nat) (c : cfg) (d : N -> body) (s : N) (h : hist) : option (hist * bool) :=
  match fuel with
  | O => None
  | S f =>
    if get h s then Some (h, true)
    else
      match push c h s with
      | POk _ h1 =>
          match d s with
          | NoDef => Some (h1, false)
          | Def cs => match elab_list_gen (elab f c d) cs h1 with
                      | None => None
                      | Some h2 => Some (pop (set_done h2 s), true)
                      end
          | Fails cs => match elab_list_gen (elab f c d) cs h1 with
                        | None => None
                        | Some h2 => Some (pop h2, false)
                        end
          end
      | _ => Some (h, false)
      end
  end.

Definition elab_list (f : nat) (c : cfg) (d : N -> body) := elab_list_gen (elab f c d).

Definition no_fails (d : N -> body) : Prop := forall s, is_fails (d s) = false.

(* in-progress conversions are on the hierarchy *)
Definition inv (d : N -> body) (h : hist) : Prop :=
  forall s, lookup s (full h) = Some false -> is_def (d s) = true -> mem s (hier h) = true.

(* witness design for the refutation: 0 = Def [1; 1; 0], 1 = Fails [] *)
Definition bad_design (s : N) : body :=
  match s with
  | 0 => Def [1; 1; 0]
  | 1 => Fails []
  | _ => NoDef
  end.

(* designs used as examples: self-instantiation, growing parameters *)
Definition self_design (s : N) : body := Def [s].
Definition grow_design (s : N) : body := Def [s + 1].
