(* C10 — proofs about Robust/ParseModel.v. *)
From Coq Require Import List NArith Bool Lia.
From VV Require Import Robust.ParseModel.
Import ListNotations.
Open Scope N_scope.

(* ------------------------------------------------------------------------------------------ *)
(* Part 1: spans                                                                              *)

Lemma blen_app : forall a b, blen (a ++ b) = blen a + blen b.
Proof. intros. unfold blen. rewrite app_length. lia. Qed.

Lemma parse_buf_cases :
  forall i, (ends_with_nl i = true /\ parse_buf i = i) \/
            (ends_with_nl i = false /\ parse_buf i = i ++ [NL]).
Proof. intro i. unfold parse_buf. destruct (ends_with_nl i); auto. Qed.

Lemma parse_buf_len_le : forall i, blen (parse_buf i) <= blen i + 1.
Proof.
  intro i. destruct (parse_buf_cases i) as [[_ E]|[_ E]]; rewrite E.
  - lia.
  - rewrite blen_app. unfold blen at 2. simpl. lia.
Qed.

Lemma parse_buf_ends_with_nl : forall i, ends_with_nl (parse_buf i) = true.
Proof.
  intro i. destruct (parse_buf_cases i) as [[H E]|[_ E]]; rewrite E; auto.
  unfold ends_with_nl. rewrite rev_app_distr. reflexivity.
Qed.

Lemma span_end_of_loc : forall l, span_end (span_of_loc l) = N.max (l_start l) (l_end l).
Proof. intros [s e]. unfold span_end, span_of_loc, loc_len. simpl. lia. Qed.

Lemma span_in_buffer_l :
  forall buf l, loc_in buf l -> span_end (span_of_loc l) <= blen buf.
Proof. intros buf l [H1 H2]. rewrite span_end_of_loc. lia. Qed.

Lemma span_in_input_l :
  forall i l, loc_in (parse_buf i) l ->
    span_end (span_of_loc l) <= blen i + 1 /\
    (ends_with_nl i = true -> span_end (span_of_loc l) <= blen i).
Proof.
  intros i l H. pose proof (span_in_buffer_l _ _ H) as B. split.
  - pose proof (parse_buf_len_le i). lia.
  - intro E. unfold parse_buf in B. rewrite E in B. exact B.
Qed.

Lemma nth_app_last : forall (a : list byte) x d, nth (length a) (a ++ [x]) d = x.
Proof. induction a; simpl; auto. Qed.

Lemma span_outside_only_newline_l :
  forall i l, loc_in (parse_buf i) l -> blen i < span_end (span_of_loc l) ->
    ends_with_nl i = false /\
    span_end (span_of_loc l) = blen i + 1 /\
    parse_buf i = i ++ [NL] /\
    nth (length i) (parse_buf i) 0 = NL.
Proof.
  intros i l H O. destruct (span_in_input_l i l H) as [A B].
  destruct (parse_buf_cases i) as [[E P]|[E P]].
  - specialize (B E). lia.
  - repeat split; auto; try lia. rewrite P. apply nth_app_last.
Qed.

Lemma pick_in_buffer_l :
  forall buf us el, Forall (loc_in buf) us -> loc_in buf el ->
    span_end (pick_error_location us el) <= blen buf.
Proof.
  intros buf us el F H. unfold pick_error_location.
  destruct (rev us) as [|t r] eqn:E.
  - apply span_in_buffer_l; auto.
  - apply span_in_buffer_l. rewrite Forall_forall in F. apply F.
    apply in_rev. rewrite E. left; auto.
Qed.

Lemma span_inside_spec : forall n s, span_inside n s = true <-> span_end s <= n.
Proof. intros. unfold span_inside. apply N.leb_le. Qed.

(* ------------------------------------------------------------------------------------------ *)
(* Part 2: the depth counter                                                                  *)

Section TreeInd.
  Variable P : tree -> Prop.
  Hypothesis HL : forall t, P (Leaf t).
  Hypothesis HN : forall l p b cs, Forall P cs -> P (Node l p b cs).
  Fixpoint tree_ind' (t : tree) : P t :=
    match t with
    | Leaf x => HL x
    | Node l p b cs =>
        HN l p b cs ((fix go (cs : list tree) : Forall P cs :=
                        match cs with
                        | [] => Forall_nil _
                        | c :: r => Forall_cons c (tree_ind' c) (go r)
                        end) cs)
    end.
End TreeInd.

Lemma maxmap_le : forall {A} (f : A -> N) l x, In x l -> f x <= maxmap f l.
Proof. induction l; simpl; intros x H; [tauto|]. destruct H as [->|H]; [lia|]. specialize (IHl _ H). lia. Qed.

Lemma maxmap_bound : forall {A} (f : A -> N) l b, (forall x, In x l -> f x <= b) -> maxmap f l <= b.
Proof. induction l; simpl; intros b H; [lia|]. apply N.max_lub; auto. Qed.

Lemma maxmap_mono : forall {A} (f g : A -> N) l, (forall x, In x l -> f x <= g x) -> maxmap f l <= maxmap g l.
Proof.
  induction l; simpl; intros H; [lia|].
  pose proof (H a (or_introl eq_refl)). assert (maxmap f l <= maxmap g l) by (apply IHl; auto). lia.
Qed.

Lemma run_node : forall f D l p b cs r d,
  run (S f) D (SN (Node l p b cs) :: r) d =
  if D <? (if b then d else d + 1) then DepthErr (if b then d else d + 1)
  else run f D (map SN cs ++ SE b :: r) (if b then d else d + 1).
Proof. reflexivity. Qed.

Lemma run_leaf : forall f D x r d, run (S f) D (SN (Leaf x) :: r) d = run f D r d.
Proof. reflexivity. Qed.

Lemma run_end : forall f D b r d, run (S f) D (SE b :: r) d = run f D r (if b then d else d - 1).
Proof. reflexivity. Qed.

(* more fuel never changes a finished run *)
Lemma run_more : forall f D stk d o, run f D stk d = o -> o <> OutOfFuel ->
  forall g, (f <= g)%nat -> run g D stk d = o.
Proof.
  induction f; simpl; intros D stk d o H NE g L; [congruence|].
  destruct g; [lia|]. simpl.
  destruct stk as [|[[x|l p b cs]|b] r]; auto.
  - apply IHf; auto; lia.
  - destruct (D <? (if b then d else d + 1)); auto. apply IHf; auto; lia.
  - apply IHf; auto; lia.
Qed.

(* a subtree / a list of sibling subtrees that fits under the cap is consumed and the counter
   returns to its value *)
Lemma run_fits_gen : forall t,
  (forall D r d f, d + ndepth t <= D -> run (steps t + f) D (SN t :: r) d = run f D r d).
Proof.
  induction t using tree_ind'; intros D r d f H0.
  - simpl. reflexivity.
  - simpl steps. simpl plus. rewrite run_node.
    simpl ndepth in H0.
    set (d' := if b then d else d + 1).
    assert (Hd' : d' <= D) by (unfold d'; destruct b; lia).
    assert (Hlt : (D <? d') = false) by (apply N.ltb_ge; lia).
    rewrite Hlt.
    assert (Hcs : forall cs', Forall (fun t => forall D r d f, d + ndepth t <= D ->
                      run (steps t + f) D (SN t :: r) d = run f D r d) cs' ->
              forall r' f', d' + maxmap ndepth cs' <= D ->
              run (summap steps cs' + f') D (map SN cs' ++ r') d' = run f' D r' d').
    { induction cs' as [|c cs' IH]; intros F r' f' HB; simpl.
      - reflexivity.
      - inversion F; subst. simpl in HB.
        replace (steps c + summap steps cs' + f')%nat with (steps c + (summap steps cs' + f'))%nat by lia.
        rewrite H3 by lia. apply IH; auto. lia. }
    replace (S (summap steps cs + f)) with (summap steps cs + S f)%nat by lia.
    rewrite Hcs; auto.
    + rewrite run_end. f_equal. unfold d'. destruct b; lia.
    + unfold d'. destruct b; lia.
Qed.

(* a subtree that does not fit makes the loop return MaxParsingDepthExceeded{cap+1} *)
Lemma run_overflows_gen : forall t,
  (forall D r d f, d <= D -> D < d + ndepth t -> (steps t <= f)%nat ->
      run f D (SN t :: r) d = DepthErr (D + 1)).
Proof.
  induction t using tree_ind'; intros D r d f Hd Ho Hf.
  - simpl in Ho. lia.
  - simpl in Hf. destruct f as [|f]; [lia|]. rewrite run_node.
    simpl ndepth in Ho.
    set (d' := if b then d else d + 1).
    destruct (D <? d') eqn:Hlt.
    + apply N.ltb_lt in Hlt. f_equal. unfold d' in *. destruct b; lia.
    + apply N.ltb_ge in Hlt.
      assert (Hcs : forall cs', Forall (fun t => forall D r d f, d <= D -> D < d + ndepth t ->
                        (steps t <= f)%nat -> run f D (SN t :: r) d = DepthErr (D + 1)) cs' ->
                forall r' f', D < d' + maxmap ndepth cs' -> (summap steps cs' <= f')%nat ->
                run f' D (map SN cs' ++ r') d' = DepthErr (D + 1)).
      { induction cs' as [|c cs' IH]; intros F r' f' HB HF; simpl in *.
        - lia.
        - inversion F; subst.
          destruct (N.ltb_spec D (d' + ndepth c)) as [Hc|Hc].
          + apply H2; auto. lia.
          + replace f' with (steps c + (f' - steps c))%nat by lia.
            rewrite run_fits_gen by lia. apply IH; auto; lia. }
      apply Hcs; auto.
      * unfold d'. destruct b; lia.
      * lia.
Qed.

Lemma machine_accepts_iff_ndepth_l :
  forall D t, parse_accepts D t = Accept <-> ndepth t <= D.
Proof.
  intros D t. unfold parse_accepts. split.
  - intro H. destruct (N.leb_spec (ndepth t) D) as [L|L]; auto.
    rewrite (run_overflows_gen t D [] 0 (S (steps t))) in H; try lia. discriminate.
  - intro L. replace (S (steps t)) with (steps t + 1)%nat by lia.
    rewrite run_fits_gen by lia. reflexivity.
Qed.

Lemma machine_rejects_with_cap_plus_one_l :
  forall D t, D < ndepth t -> parse_accepts D t = DepthErr (D + 1).
Proof. intros. unfold parse_accepts. apply run_overflows_gen; lia. Qed.

Lemma machine_total_l :
  forall D t, parse_accepts D t = Accept \/ parse_accepts D t = DepthErr (D + 1).
Proof.
  intros. destruct (N.leb_spec (ndepth t) D).
  - left. apply machine_accepts_iff_ndepth_l; auto.
  - right. apply machine_rejects_with_cap_plus_one_l; auto.
Qed.

(* ---- walkers --------------------------------------------------------------------------- *)

Lemma mul_bound : forall k a b c, a <= k * b -> b <= c -> a <= k * c.
Proof. intros. eapply N.le_trans; [eassumption|]. apply N.mul_le_mono_l; auto. Qed.

Lemma wframes_le_l : forall k t, wframes k t <= k * (ndepth t + edepth t).
Proof.
  intros k. induction t using tree_ind'.
  - simpl. lia.
  - rewrite Forall_forall in H. cbn [wframes ndepth edepth].
    set (e := fun c => (if b && negb (is_tail l c) then 1 else 0) + edepth c).
    set (M := maxmap ndepth cs). set (E := maxmap e cs).
    apply N.max_lub.
    + destruct b; [lia|]. apply mul_bound with (b := 1); lia.
    + apply maxmap_bound. intros x Hx. specialize (H x Hx).
      pose proof (maxmap_le ndepth cs x Hx) as A1. fold M in A1.
      pose proof (maxmap_le e cs x Hx) as A2. fold E in A2. unfold e in A2.
      destruct b; cbn [andb] in *.
      * destruct (is_tail l x); cbn [negb] in *.
        -- apply mul_bound with (b := ndepth x + edepth x); auto. lia.
        -- apply mul_bound with (b := ndepth x + (1 + edepth x)); [|lia].
           rewrite !N.mul_add_distr_l, N.mul_1_r. rewrite N.mul_add_distr_l in H. lia.
      * apply mul_bound with (b := 1 + (ndepth x + edepth x)); [|lia].
        rewrite N.mul_add_distr_l, N.mul_1_r. lia.
Qed.

Lemma lnest_le_maxnest : forall t, lnest t <= maxnest t.
Proof. destruct t; simpl; lia. Qed.

Lemma maxnest_child : forall l p b cs x, In x cs -> maxnest x <= maxnest (Node l p b cs).
Proof. intros. simpl. pose proof (maxmap_le maxnest cs x H). lia. Qed.

Lemma edepth_le_l : forall P t, maxnest t <= P -> edepth t <= lnest t + P * ndepth t.
Proof.
  intros P. induction t using tree_ind'; intro HP.
  - simpl. lia.
  - rewrite Forall_forall in H.
    assert (HC : forall x, In x cs -> edepth x <= lnest x + P * ndepth x /\ lnest x <= P).
    { intros x Hx. pose proof (maxnest_child l p b cs x Hx). pose proof (lnest_le_maxnest x).
      split; [apply H; auto; lia | lia]. }
    cbn [edepth ndepth lnest].
    set (M := maxmap ndepth cs).
    apply maxmap_bound. intros x Hx. destruct (HC x Hx) as [E L].
    pose proof (maxmap_le ndepth cs x Hx) as A1. fold M in A1.
    assert (PM : P * ndepth x <= P * M) by (apply N.mul_le_mono_l; auto).
    destruct b; cbn [andb].
    + pose proof (maxmap_le (fun c => if is_tail l c then lnest c else 1 + lnest c) cs x Hx) as A2.
      cbn beta in A2. rewrite N.add_0_l.
      destruct (is_tail l x); cbn [negb]; lia.
    + rewrite N.mul_add_distr_l, N.mul_1_r. lia.
Qed.

Lemma walker_bound_l :
  forall k P D t, maxnest t <= P -> parse_accepts D t = Accept ->
    wframes k t <= k * ((P + 1) * D + P).
Proof.
  intros k P D t HP HA. apply machine_accepts_iff_ndepth_l in HA.
  pose proof (edepth_le_l P t HP) as E.
  pose proof (lnest_le_maxnest t) as L.
  apply mul_bound with (b := ndepth t + edepth t); [apply wframes_le_l|].
  assert (P * ndepth t <= P * D) by (apply N.mul_le_mono_l; auto).
  rewrite N.mul_add_distr_r, N.mul_1_l. lia.
Qed.

(* ------------------------------------------------------------------------------------------ *)
(* Part 3: families                                                                           *)

Lemma ndepth_side_tree : forall s, ndepth (side_tree s) = N.of_nat s.
Proof.
  induction s; [reflexivity|]. cbn [side_tree ndepth maxmap]. rewrite IHs, Nat2N.inj_succ.
  rewrite N.max_0_r. lia.
Qed.

Lemma ndepth_chain : forall ls inner,
  sides_shallow ls (ndepth inner) = true -> ndepth (chain ls inner) = cost ls + ndepth inner.
Proof.
  induction ls as [|l r IH]; intros inner H; simpl in *.
  - lia.
  - apply andb_true_iff in H. destruct H as [H1 H2]. apply N.leb_le in H1.
    rewrite ndepth_side_tree, N2Nat.id, IH by auto. destruct (k_push l); lia.
Qed.

Lemma sides_shallow_mono : forall ls a b, a <= b -> sides_shallow ls a = true -> sides_shallow ls b = true.
Proof.
  induction ls; simpl; intros x y L H; auto.
  apply andb_true_iff in H. destruct H as [H1 H2]. apply N.leb_le in H1.
  apply andb_true_iff. split; [apply N.leb_le; lia | eapply IHls; eauto].
Qed.

Lemma ndepth_iter_chain : forall n ls inner,
  sides_shallow ls (ndepth inner) = true ->
  ndepth (iter_chain n ls inner) = N.of_nat n * cost ls + ndepth inner.
Proof.
  induction n; intros ls inner H.
  - simpl. lia.
  - cbn [iter_chain]. rewrite ndepth_chain.
    + rewrite IHn by auto. lia.
    + rewrite IHn by auto. eapply sides_shallow_mono; [|exact H]. lia.
Qed.

Lemma family_depth_exact_l : forall f n, family_ok f = true ->
  ndepth (family_tree f n) = family_depth f (N.of_nat n).
Proof.
  intros f n H. unfold family_ok in H.
  apply andb_true_iff in H. destruct H as [H H3].
  apply andb_true_iff in H. destruct H as [H1 H2].
  unfold family_tree, family_depth.
  assert (T : ndepth (chain (f_tail f) (Leaf 0)) = cost (f_tail f)).
  { rewrite ndepth_chain; simpl; auto. lia. }
  assert (I : ndepth (iter_chain n (f_rep f) (chain (f_tail f) (Leaf 0))) =
              N.of_nat n * cost (f_rep f) + cost (f_tail f)).
  { rewrite ndepth_iter_chain; rewrite T; auto. }
  rewrite ndepth_chain; rewrite I.
  - lia.
  - eapply sides_shallow_mono; [|exact H3]. lia.
Qed.

Lemma family_accepts_iff_l : forall D f n, family_ok f = true ->
  (parse_accepts D (family_tree f n) = Accept <-> family_accepts D f (N.of_nat n) = true).
Proof.
  intros. rewrite machine_accepts_iff_ndepth_l, family_depth_exact_l by auto.
  unfold family_accepts. symmetry. apply N.leb_le.
Qed.

(* a family whose repeated chain holds at least one non-push production cannot be nested deeper
   than the cap *)
Lemma family_bounded_l : forall D f n, family_ok f = true -> 1 <= cost (f_rep f) ->
  parse_accepts D (family_tree f n) = Accept -> N.of_nat n <= D.
Proof.
  intros D f n OK C A. apply family_accepts_iff_l in A; auto.
  unfold family_accepts in A. apply N.leb_le in A. unfold family_depth in A.
  assert (N.of_nat n * 1 <= N.of_nat n * cost (f_rep f)) by (apply N.mul_le_mono_l; auto).
  lia.
Qed.

(* the literal statement "every span lies inside the input" is false for the model: the end-of-input
   location of a text without final newline lies behind the appended newline *)
Lemma span_inside_input_refuted_l :
  exists i l, loc_in (parse_buf i) l /\ ends_with_nl i = false /\
              span_of_loc l = (blen i + 1, 0) /\ ~ span_end (span_of_loc l) <= blen i.
Proof.
  exists [109], (mkLoc 2 2). unfold loc_in, blen. simpl. repeat split; try discriminate.
  intro H. apply H. reflexivity.
Qed.

(* outside that class (input ends in a newline, or the location does not touch the appended byte)
   the span lies inside the input *)
Lemma span_inside_input_outside_known_class_l :
  forall i l, loc_in (parse_buf i) l ->
    (ends_with_nl i = true \/ (l_start l <= blen i /\ l_end l <= blen i)) ->
    span_end (span_of_loc l) <= blen i.
Proof.
  intros i l H [E|[A B]].
  - apply span_in_input_l; auto.
  - rewrite span_end_of_loc. lia.
Qed.
