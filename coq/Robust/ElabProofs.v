(* C11 — proofs about Robust/ElabModel.v. *)
From Coq Require Import List NArith Bool Lia.
From VV Require Import Robust.ElabModel.
Import ListNotations.
Open Scope N_scope.

Lemma len_app1 : forall (l : list N) x, len (l ++ [x]) = len l + 1.
Proof. intros. unfold len. rewrite app_length. simpl. lia. Qed.

Lemma len_cons : forall {A} (x : A) l, len (x :: l) = len l + 1.
Proof. intros. unfold len. simpl. lia. Qed.

(* ---- push respects both limits ---------------------------------------------------------- *)

Lemma push_limits_l : forall c h s b h',
  push c h s = POk b h' ->
  len (hier h) <= depth_limit c /\ len (full h) <= total_limit c /\
  len (hier h') <= depth_limit c + 1 /\ len (full h') <= total_limit c + 1.
Proof.
  intros c h s b h' H. unfold push in H.
  destruct (depth_limit c <? len (hier h)) eqn:E1; [discriminate|].
  destruct (total_limit c <? len (full h)) eqn:E2; [discriminate|].
  apply N.ltb_ge in E1. apply N.ltb_ge in E2.
  destruct (mem s (hier h)); [discriminate|].
  destruct (lookup s (full h)); inversion H; subst; simpl.
  - repeat split; lia.
  - rewrite len_app1, len_cons. repeat split; lia.
Qed.

(* ---- basic facts about the tables ------------------------------------------------------- *)

Lemma mem_app : forall s a b, mem s (a ++ b) = mem s a || mem s b.
Proof. induction a; simpl; intros; auto. rewrite IHa. apply orb_assoc. Qed.

Lemma mem_In : forall s l, mem s l = true <-> In s l.
Proof.
  induction l; simpl; split; intro H; try discriminate; try tauto.
  - apply orb_true_iff in H. destruct H as [H|H]; [left; apply N.eqb_eq; auto | right; apply IHl; auto].
  - apply orb_true_iff. destruct H as [H|H]; [left; apply N.eqb_eq; auto | right; apply IHl; auto].
Qed.

Lemma lookup_setdone : forall s t l,
  lookup t (setdone s l) =
  match lookup t l with
  | Some v => Some (if t =? s then true else v)
  | None => None
  end.
Proof.
  induction l as [|[k v] r IH]; simpl; auto.
  destruct (k =? t) eqn:E.
  - apply N.eqb_eq in E. subst. reflexivity.
  - exact IH.
Qed.

Definition mono (h h' : hist) : Prop :=
  forall x, lookup x (full h) = Some true -> lookup x (full h') = Some true.

Definition settled (d : N -> body) (h : hist) (x : N) : Prop :=
  is_def (d x) = false \/ lookup x (full h) = Some true.

Lemma mono_refl : forall h, mono h h.
Proof. intros h x H; exact H. Qed.

Lemma mono_trans : forall a b c, mono a b -> mono b c -> mono a c.
Proof. intros a b c H1 H2 x H. apply H2, H1, H. Qed.

Lemma settled_mono : forall d h h' x, mono h h' -> settled d h x -> settled d h' x.
Proof. intros d h h' x M [S|S]; [left; auto | right; apply M; auto]. Qed.

Lemma removelast_app_ne : forall (a b : list N), b <> [] -> removelast (a ++ b) = a ++ removelast b.
Proof. intros. apply removelast_app. auto. Qed.

Lemma In_removelast : forall (x : N) l, In x (removelast l) -> In x l.
Proof.
  induction l as [|a l IH]; simpl; auto. destruct l as [|b l]; simpl in *; [tauto|].
  intros [H|H]; auto.
Qed.

(* a key of `full` is never removed *)
Lemma keys_persist : forall d c s f x h h' ok,
  elab f c d x h = Some (h', ok) -> lookup s (full h) <> None -> lookup s (full h') <> None.
Proof.
  intros d c s. induction f as [|f IHf]; intros x h h' ok E K; [discriminate|].
  simpl in E. destruct (get h x); [inversion E; subst; auto|].
  destruct (push c h x) as [n|n| |b hp] eqn:P; try (inversion E; subst; auto; fail).
  assert (KP : lookup s (full hp) <> None).
  { unfold push in P.
    destruct (depth_limit c <? len (hier h)); [discriminate|].
    destruct (total_limit c <? len (full h)); [discriminate|].
    destruct (mem x (hier h)); [discriminate|].
    destruct (lookup x (full h)); inversion P; subst; auto.
    simpl. destruct (x =? s); [discriminate|auto]. }
  assert (KL : forall cs hp hq, lookup s (full hp) <> None ->
               elab_list_gen (elab f c d) cs hp = Some hq -> lookup s (full hq) <> None).
  { induction cs as [|y r IHr]; simpl; intros hp0 hq K0 EL0.
    - inversion EL0; subst; auto.
    - destruct (elab f c d y hp0) as [[hy oky]|] eqn:Ey; [|discriminate].
      eapply IHr; [|exact EL0]. eapply IHf; eauto. }
  destruct (d x) as [|cs|cs].
  - inversion E; subst; auto.
  - destruct (elab_list_gen (elab f c d) cs hp) as [hq|] eqn:ELq; [|discriminate].
    inversion E; subst. simpl. rewrite lookup_setdone.
    specialize (KL _ _ _ KP ELq). destruct (lookup s (full hq)); [discriminate|contradiction].
  - destruct (elab_list_gen (elab f c d) cs hp) as [hq|] eqn:ELq; [|discriminate].
    inversion E; subst. simpl. eapply KL; eauto.
Qed.

Lemma keys_persist_list : forall d c s f cs h h',
  elab_list_gen (elab f c d) cs h = Some h' -> lookup s (full h) <> None -> lookup s (full h') <> None.
Proof.
  intros d c s f. induction cs as [|y r IHr]; simpl; intros h h' EL K.
  - inversion EL; subst; auto.
  - destruct (elab f c d y h) as [[hy oky]|] eqn:Ey; [|discriminate].
    eapply IHr; [exact EL|]. eapply keys_persist; eauto.
Qed.

(* ---- the main invariant lemma ----------------------------------------------------------- *)

(* what a completed call guarantees: invariant kept, hierarchy only extended by settled entries,
   set entries stay set *)
Definition post (d : N -> body) (h h' : hist) : Prop :=
  inv d h' /\ mono h h' /\ exists extra, hier h' = hier h ++ extra /\ Forall (settled d h') extra.

Lemma post_refl : forall d h, inv d h -> post d h h.
Proof.
  intros d h I. split; [auto|]. split; [apply mono_refl|]. exists []. rewrite app_nil_r. auto.
Qed.

Lemma post_trans : forall d a b c, post d a b -> post d b c -> post d a c.
Proof.
  intros d a b c (I1 & M1 & e1 & H1 & F1) (I2 & M2 & e2 & H2 & F2).
  split; [auto|]. split; [eapply mono_trans; eauto|].
  exists (e1 ++ e2). split.
  - rewrite H2, H1, app_assoc. reflexivity.
  - apply Forall_app. split; auto.
    eapply Forall_impl; [|exact F1]. intros x Sx. eapply settled_mono; eauto.
Qed.

Lemma elab_list_post : forall d c f,
  (forall s h h' ok, inv d h -> elab f c d s h = Some (h', ok) -> post d h h') ->
  forall cs h h', inv d h -> elab_list_gen (elab f c d) cs h = Some h' -> post d h h'.
Proof.
  intros d c f IH. induction cs as [|x r IHr]; simpl; intros h h' I H.
  - inversion H; subst. apply post_refl; auto.
  - destruct (elab f c d x h) as [[h1 ok]|] eqn:E; [|discriminate].
    pose proof (IH _ _ _ _ I E) as P1. destruct P1 as (I1 & _).
    eapply post_trans; [eapply IH; eauto | eapply IHr; eauto].
Qed.

Lemma elab_post : forall d c, no_fails d ->
  forall f s h h' ok, inv d h -> elab f c d s h = Some (h', ok) -> post d h h'.
Proof.
  intros d c NF. induction f as [|f IH]; intros s h h' ok I H; [discriminate|].
  simpl in H. destruct (get h s) eqn:G.
  { inversion H; subst. apply post_refl; auto. }
  destruct (push c h s) as [n|n| |b h1] eqn:P;
    try (inversion H; subst; apply post_refl; auto; fail).
  (* push succeeded *)
  assert (NG : lookup s (full h) <> Some true).
  { unfold get in G. destruct (lookup s (full h)) as [[|]|]; congruence. }
  unfold push in P.
  destruct (depth_limit c <? len (hier h)); [discriminate|].
  destruct (total_limit c <? len (full h)); [discriminate|].
  destruct (mem s (hier h)) eqn:M; [discriminate|].
  destruct (lookup s (full h)) as [v|] eqn:L.
  - (* Ok(false): the key exists, unset, and s is not on the hierarchy *)
    inversion P; subst b h1. clear P.
    assert (v = false) by (destruct v; congruence). subst v.
    destruct (d s) as [|cs|cs] eqn:D.
    + inversion H; subst. apply post_refl; auto.
    + (* a Def body here would be an in-progress conversion off the hierarchy: excluded by inv *)
      exfalso. specialize (I s L). rewrite D in I. specialize (I eq_refl). congruence.
    + specialize (NF s). rewrite D in NF. discriminate.
  - (* Ok(true): pushed *)
    inversion P; subst b h1. clear P.
    set (h1 := mkHist (hier h ++ [s]) ((s, false) :: full h)) in *.
    assert (I1 : inv d h1).
    { intros t Lt Dt. unfold h1 in *. simpl in *. rewrite mem_app. simpl.
      destruct (s =? t) eqn:E.
      - rewrite orb_false_r. apply orb_true_iff. right. reflexivity.
      - apply orb_true_iff. left. apply I; auto. }
    assert (M1 : mono h h1).
    { intros x Lx. unfold h1. simpl. destruct (s =? x) eqn:E; auto.
      apply N.eqb_eq in E. subst. congruence. }
    destruct (d s) as [|cs|cs] eqn:D.
    + (* NoDef: Err, entry left on the hierarchy *)
      inversion H; subst. split; [auto|]. split; [auto|].
      exists [s]. split; [reflexivity|]. constructor; [|constructor]. left. rewrite D. reflexivity.
    + (* Def *)
      destruct (elab_list_gen (elab f c d) cs h1) as [h2|] eqn:EL; [|discriminate].
      inversion H; subst h' ok. clear H.
      pose proof (elab_list_post d c f IH cs h1 h2 I1 EL) as (I2 & M2 & E & HE & FE).
      set (h3 := set_done h2 s).
      assert (M3 : mono h2 h3).
      { intros x Lx. unfold h3. simpl. rewrite lookup_setdone, Lx. destruct (x =? s); auto. }
      assert (S3 : lookup s (full h3) = Some true).
      { unfold h3. simpl. rewrite lookup_setdone.
        assert (exists v, lookup s (full h2) = Some v) as [v Lv].
        { destruct (lookup s (full h2)) as [v|] eqn:Q; [eauto|]. exfalso.
          eapply (keys_persist_list d c s f cs h1 h2); eauto.
          unfold h1. simpl. rewrite N.eqb_refl. discriminate. }
        rewrite Lv, N.eqb_refl. reflexivity. }
      assert (I3 : inv d h3).
      { intros t Lt Dt. unfold h3 in *. simpl in *. rewrite lookup_setdone in Lt.
        destruct (lookup t (full h2)) as [v|] eqn:Q; [|discriminate].
        destruct (t =? s); [discriminate|]. inversion Lt; subst. apply I2; auto. }
      (* result: pop h3 *)
      assert (HH : hier h3 = hier h ++ ([s] ++ E)).
      { unfold h3. simpl. rewrite HE. unfold h1. simpl. rewrite <- app_assoc. reflexivity. }
      assert (HP : hier (pop h3) = hier h ++ removelast ([s] ++ E)).
      { unfold pop. cbn [hier]. rewrite HH. apply removelast_app_ne. discriminate. }
      assert (FP : full (pop h3) = full h3) by reflexivity.
      split; [|split].
      * (* inv after pop: an unset Def key other than s is in hier h (settled entries cannot be it) *)
        intros t Lt Dt. rewrite FP in Lt. rewrite HP.
        pose proof (I3 t Lt Dt) as Mt. rewrite HH in Mt.
        rewrite mem_app in *. apply orb_true_iff in Mt. apply orb_true_iff.
        destruct Mt as [Mt|Mt]; [left; auto|]. exfalso.
        apply mem_In in Mt. destruct Mt as [Mt|Mt].
        -- subst t. congruence.
        -- rewrite Forall_forall in FE. destruct (settled_mono d h2 h3 t M3 (FE t Mt)) as [Q|Q]; congruence.
      * intros x Lx. rewrite FP. apply M3, M2, M1, Lx.
      * exists (removelast ([s] ++ E)). split; [exact HP|].
        apply Forall_forall. intros x Hx. apply In_removelast in Hx.
        destruct Hx as [Hx|Hx].
        -- subst x. right. rewrite FP. exact S3.
        -- rewrite Forall_forall in FE. destruct (settled_mono d h2 h3 x M3 (FE x Hx)) as [Q|Q];
             [left; auto | right; rewrite FP; auto].
    + specialize (NF s). rewrite D in NF. discriminate.
Qed.

(* ---- the recursion is bounded by the depth limit ---------------------------------------- *)

Lemma post_len : forall d h h', post d h h' -> len (hier h) <= len (hier h').
Proof. intros d h h' (_ & _ & e & H & _). rewrite H. unfold len. rewrite app_length. lia. Qed.

Lemma elab_depth_gen : forall d c, no_fails d ->
  forall f s h, inv d h -> depth_limit c + 2 <= N.of_nat f + len (hier h) -> (1 <= f)%nat ->
  elab f c d s h <> None.
Proof.
  intros d c NF. induction f as [|f IH]; intros s h I B F; [lia|].
  simpl. destruct (get h s) eqn:G; [discriminate|].
  destruct (push c h s) as [n|n| |b h1] eqn:P; try discriminate.
  pose proof (push_limits_l _ _ _ _ _ P) as (L1 & _).
  assert (P' := P). unfold push in P'.
  destruct (depth_limit c <? len (hier h)); [discriminate|].
  destruct (total_limit c <? len (full h)); [discriminate|].
  destruct (mem s (hier h)) eqn:M; [discriminate|].
  destruct (lookup s (full h)) as [v|] eqn:L.
  - inversion P'; subst b h1.
    destruct (d s) as [|cs|cs] eqn:D; try discriminate.
    + exfalso. assert (v = false).
      { unfold get in G. rewrite L in G. destruct v; [discriminate|reflexivity]. }
      subst v. specialize (I s L). rewrite D in I. specialize (I eq_refl). congruence.
    + specialize (NF s). rewrite D in NF. discriminate.
  - inversion P'; subst b h1.
    set (h1 := mkHist (hier h ++ [s]) ((s, false) :: full h)) in *.
    assert (I1 : inv d h1).
    { intros t Lt Dt. unfold h1 in *. simpl in *. rewrite mem_app. simpl.
      destruct (s =? t) eqn:E.
      - rewrite orb_false_r. apply orb_true_iff. right. reflexivity.
      - apply orb_true_iff. left. apply I; auto. }
    assert (B1 : depth_limit c + 2 <= N.of_nat f + len (hier h1)).
    { unfold h1. simpl. rewrite len_app1. lia. }
    assert (F1 : (1 <= f)%nat) by lia.
    assert (EL : forall cs hx, inv d hx -> len (hier h1) <= len (hier hx) ->
                 elab_list_gen (elab f c d) cs hx <> None).
    { induction cs as [|x r IHr]; cbn [elab_list_gen]; intros hx Ix Lx; [discriminate|].
      destruct (elab f c d x hx) as [[hy oky]|] eqn:E.
      - pose proof (elab_post d c NF f x hx hy oky Ix E) as Py.
        apply IHr; [destruct Py; auto|]. pose proof (post_len _ _ _ Py). lia.
      - exfalso. eapply IH; [exact Ix| |exact F1|exact E]. lia. }
    destruct (d s) as [|cs|cs] eqn:D; try discriminate.
    + specialize (EL cs h1 I1 (N.le_refl _)).
      destruct (elab_list_gen (elab f c d) cs h1); [discriminate|contradiction].
    + specialize (NF s). rewrite D in NF. discriminate.
Qed.

Lemma inv_empty : forall d, inv d empty_hist.
Proof. intros d s H. discriminate. Qed.

(* designs whose body conversions never fail: get_component never nests deeper than
   depth_limit + 2 calls, whatever the design (cyclic, or an infinite chain of fresh signatures) *)
Lemma elab_depth_bounded_l : forall d c s fuel, no_fails d ->
  (N.to_nat (depth_limit c) + 2 <= fuel)%nat ->
  elab fuel c d s empty_hist <> None.
Proof.
  intros d c s fuel NF F. apply elab_depth_gen; auto.
  - apply inv_empty.
  - unfold empty_hist, len. simpl. lia.
  - lia.
Qed.

(* after a completed top-level elaboration nothing is left in progress: whatever remains on the
   hierarchy is a leaked NoDef entry or a converted component *)
Lemma elab_result_l : forall d c s fuel h ok, no_fails d ->
  elab fuel c d s empty_hist = Some (h, ok) ->
  inv d h /\ Forall (settled d h) (hier h).
Proof.
  intros d c s fuel h ok NF H. eapply elab_post in H; eauto using inv_empty.
  destruct H as (I & _ & e & HE & FE). split; auto. rewrite HE. exact FE.
Qed.

(* ---- refutation: a body conversion that fails twice unbalances the hierarchy ------------ *)

Definition h_inf : hist := mkHist [] [(1, false); (0, false)].

Lemma ltb_false : forall a b, b <= a -> (a <? b) = false.
Proof. intros. apply N.ltb_ge. auto. Qed.

Lemma bad_loop : forall c, 2 <= total_limit c ->
  forall fuel, elab fuel c bad_design 0 h_inf = None.
Proof.
  intros c T. induction fuel as [|f IH]; [reflexivity|].
  cbn [elab]. change (get h_inf 0) with false. cbv iota.
  unfold push. change (len (hier h_inf)) with 0. change (len (full h_inf)) with 2.
  rewrite (ltb_false (depth_limit c) 0) by lia. rewrite (ltb_false (total_limit c) 2) by lia.
  change (mem 0 (hier h_inf)) with false. change (lookup 0 (full h_inf)) with (Some false).
  cbv iota. change (bad_design 0) with (Def [1; 1; 0]). cbv iota.
  destruct f as [|g]; [reflexivity|].
  assert (E1 : elab (S g) c bad_design 1 h_inf = Some (h_inf, false)).
  { cbn [elab]. change (get h_inf 1) with false. cbv iota.
    unfold push. change (len (hier h_inf)) with 0. change (len (full h_inf)) with 2.
    rewrite (ltb_false (depth_limit c) 0) by lia. rewrite (ltb_false (total_limit c) 2) by lia.
    reflexivity. }
  cbn [elab_list_gen]. rewrite E1. rewrite E1. rewrite IH. reflexivity.
Qed.

Lemma elab_unbalanced_pop_refuted_l : forall c, 1 <= depth_limit c -> 2 <= total_limit c ->
  forall fuel, elab fuel c bad_design 0 empty_hist = None.
Proof.
  intros c Dl T fuel. destruct fuel as [|f]; [reflexivity|].
  cbn [elab]. change (get empty_hist 0) with false. cbv iota.
  unfold push. change (len (hier empty_hist)) with 0. change (len (full empty_hist)) with 0.
  rewrite (ltb_false (depth_limit c) 0) by lia. rewrite (ltb_false (total_limit c) 0) by lia.
  change (mem 0 (hier empty_hist)) with false. change (lookup 0 (full empty_hist)) with (@None bool).
  cbv iota. change (bad_design 0) with (Def [1; 1; 0]). cbv iota.
  destruct f as [|g]; [reflexivity|].
  set (h1 := mkHist (hier empty_hist ++ [0]) ((0, false) :: full empty_hist)).
  set (h2 := mkHist [0] [(1, false); (0, false)]).
  assert (E1 : elab (S g) c bad_design 1 h1 = Some (h2, false)).
  { cbn [elab]. change (get h1 1) with false. cbv iota.
    unfold push. change (len (hier h1)) with 1. change (len (full h1)) with 1.
    rewrite (ltb_false (depth_limit c) 1) by lia. rewrite (ltb_false (total_limit c) 1) by lia.
    reflexivity. }
  assert (E2 : elab (S g) c bad_design 1 h2 = Some (h_inf, false)).
  { cbn [elab]. change (get h2 1) with false. cbv iota.
    unfold push. change (len (hier h2)) with 1. change (len (full h2)) with 2.
    rewrite (ltb_false (depth_limit c) 1) by lia. rewrite (ltb_false (total_limit c) 2) by lia.
    reflexivity. }
  cbn [elab_list_gen]. rewrite E1, E2. rewrite bad_loop by auto. reflexivity.
Qed.

(* non-vacuity / examples *)
Lemma self_design_no_fails : no_fails self_design.
Proof. intro s. reflexivity. Qed.
Lemma grow_design_no_fails : no_fails grow_design.
Proof. intro s. reflexivity. Qed.
Lemma bad_design_fails : ~ no_fails bad_design.
Proof. intro H. specialize (H 1). discriminate. Qed.
