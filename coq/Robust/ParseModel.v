(* C10 — model of what a proof can carry about `veryl_parser::Parser::parse`.
   Definitions only (must still evaluate when a proof breaks).  Proofs: Robust/ParseProofs.v.

   Part 1  (crates/parser/src/parser.rs:15-36, crates/parser/src/parser_error.rs:202-207,150-155)
     the buffer handed to parol, and how a lexer Location becomes a miette SourceSpan.
   Part 2  (parol_runtime-5.0.0 src/parser/parser_types.rs: push_production, the `ParseType::E`
     arm of the parse loop; crates/parser/build.rs:9 MAX_PARSING_DEPTH; generated
     veryl_parser.rs `set_max_parsing_depth`, `is_push_production`)
     the production-depth counter of the LL(k) push-down loop, run along a derivation tree.
   Part 3  spine trees for the nesting families whose production chains the translator
     translators/parse_depth.py extracts from veryl_parser.rs (Robust/GenDepth.v).            *)
From Coq Require Import List NArith Bool Lia.
Import ListNotations.
Open Scope N_scope.

(* ------------------------------------------------------------------------------------------ *)
(* Part 1: buffer and spans                                                                   *)

Definition byte := N.
Definition NL : byte := 10.

(* str::ends_with("\n") on the byte string *)
Definition ends_with_nl (s : list byte) : bool :=
  match rev s with
  | c :: _ => c =? NL
  | [] => false
  end.

(* parser.rs:  let mut text = input.to_string(); if !text.ends_with("\n") { text.push('\n'); } *)
Definition parse_buf (input : list byte) : list byte :=
  if ends_with_nl input then input else input ++ [NL].

Definition blen (s : list byte) : N := N.of_nat (length s).

(* parol_runtime::Location: only the two byte offsets matter for spans (u32 each) *)
Record loc := mkLoc { l_start : N; l_end : N }.

(* Location::len = end.saturating_sub(start) *)
Definition loc_len (l : loc) : N := l_end l - l_start l.   (* N subtraction saturates at 0 *)

(* parser_error.rs: SourceSpan::new((location.start as usize).into(), location.len()) *)
Definition span_of_loc (l : loc) : N * N := (l_start l, loc_len l).

Definition span_end (s : N * N) : N := fst s + snd s.

(* a location produced by scanning the buffer: both offsets are positions in the buffer *)
Definition loc_in (buf : list byte) (l : loc) : Prop := l_start l <= blen buf /\ l_end l <= blen buf.

(* parser_error.rs:150  error_location = unexpected_tokens.last().map(|t| t.token)
                                          .unwrap_or_else(|| Location(error_location).into()) *)
Definition pick_error_location (unexpected : list loc) (error_location : loc) : N * N :=
  match rev unexpected with
  | t :: _ => span_of_loc t
  | [] => span_of_loc error_location
  end.

(* what the check evaluates on every returned diagnostic span *)
Definition span_inside (n : N) (s : N * N) : bool := span_end s <=? n.

(* ------------------------------------------------------------------------------------------ *)
(* Part 2: the production-depth counter                                                       *)

(* a derivation tree: a terminal, or production `prod` of non-terminal `lhs` applied to children;
   `push` is the production's is_push_production flag *)
Inductive tree :=
| Leaf : N -> tree
| Node : N (* lhs *) -> N (* prod *) -> bool (* push *) -> list tree -> tree.

(* parse-stack entries: a grammar symbol still to be expanded (we carry the subtree prediction
   will choose for it — prediction is an oracle here), or the end-of-production marker E(p) *)
Inductive sym :=
| SN : tree -> sym
| SE : bool (* is_push_production of p *) -> sym.

Inductive outcome :=
| Accept : outcome
| DepthErr : N -> outcome      (* ParserError::MaxParsingDepthExceeded { depth } *)
| OutOfFuel : outcome.

(* one loop iteration per fuel unit.  `stk` has the top of the parse stack at its head.
     T(t):  consume the token, pop
     N(n):  pop; push_production(p):  push E(p), push rhs;  if !push { depth += 1 };
            if depth > max { return Err(MaxParsingDepthExceeded{depth}) }
     E(p):  if !push { depth -= 1 }; pop                                                       *)
Fixpoint run (fuel : nat) (D : N) (stk : list sym) (d : N) : outcome :=
  match fuel with
  | O => OutOfFuel
  | S f =>
    match stk with
    | [] => Accept
    | SN (Leaf _) :: r => run f D r d
    | SN (Node _ _ push cs) :: r =>
        let d' := if push then d else d + 1 in
        if D <? d' then DepthErr d'
        else run f D (map SN cs ++ SE push :: r) d'
    | SE push :: r => run f D r (if push then d else d - 1)
    end
  end.

(* max of f over a list (0 for the empty list) *)
Definition maxmap {A} (f : A -> N) : list A -> N :=
  fix go (l : list A) : N :=
    match l with
    | [] => 0
    | c :: r => N.max (f c) (go r)
    end.

Definition summap {A} (f : A -> nat) : list A -> nat :=
  fix go (l : list A) : nat :=
    match l with
    | [] => O
    | c :: r => (f c + go r)%nat
    end.

(* number of loop iterations the tree needs *)
Fixpoint steps (t : tree) : nat :=
  match t with
  | Leaf _ => 1
  | Node _ _ _ cs => S (S (summap steps cs))
  end.

(* the structural quantity the counter measures: non-push productions on the deepest path *)
Fixpoint ndepth (t : tree) : N :=
  match t with
  | Leaf _ => 0
  | Node _ _ push cs => (if push then 0 else 1) + maxmap ndepth cs
  end.

(* one more iteration than the tree needs: the loop ends when it finds the stack empty *)
Definition parse_accepts (D : N) (t : tree) : outcome := run (S (steps t)) D [SN t] 0.

(* A structurally recursive walker over the syntax tree built from the derivation (visitor,
   serializer, Drop glue): the generated AST has one struct per production instance; the instances
   of a push (list) production `L : x L` are the elements of ONE Vec and are visited by a loop, so
   the tail occurrence of the same list is a sibling, not a child.  The walker spends at most k
   frames per struct.  `is_tail lhs c` recognises the recursive tail of a push list.            *)
Definition is_tail (lhs : N) (c : tree) : bool :=
  match c with
  | Node l _ true _ => l =? lhs
  | _ => false
  end.

Fixpoint wframes (k : N) (t : tree) : N :=
  match t with
  | Leaf _ => 0
  | Node lhs _ push cs =>
      N.max (if push then 0 else k)
            (maxmap (fun c => if push && is_tail lhs c then wframes k c else k + wframes k c) cs)
  end.

(* list-element structs a path leaves through a non-tail child *)
Fixpoint edepth (t : tree) : N :=
  match t with
  | Leaf _ => 0
  | Node lhs _ push cs =>
      maxmap (fun c => (if push && negb (is_tail lhs c) then 1 else 0) + edepth c) cs
  end.

(* list levels stacked directly on each other with no non-push production in between
   (veryl.par: at most 2, e.g. HierarchicalIdentifierList0 holding HierarchicalIdentifierList0List;
   the translator recomputes this bound from the production table on every run) *)
Fixpoint lnest (t : tree) : N :=
  match t with
  | Leaf _ => 0
  | Node lhs _ push cs =>
      if push then maxmap (fun c => if is_tail lhs c then lnest c else 1 + lnest c) cs else 0
  end.

Fixpoint maxnest (t : tree) : N :=
  match t with
  | Leaf _ => 0
  | Node lhs p push cs => N.max (lnest (Node lhs p push cs)) (maxmap maxnest cs)
  end.

(* ------------------------------------------------------------------------------------------ *)
(* Part 3: spine trees of the nesting families                                                *)

(* a chain link = one production on the spine: (lhs, production number, is_push) and how many
   terminal siblings (token leaves) it has besides the spine child; siblings only matter through
   `side`: the ndepth of the deepest sibling subtree hanging off this link *)
Record link := mkLink { k_lhs : N; k_prod : N; k_push : bool; k_side : N }.

(* a sibling subtree of production-depth s: a chain of s non-push unit productions over a token *)
Fixpoint side_tree (s : nat) : tree :=
  match s with
  | O => Leaf 0
  | S s' => Node 0 0 false [side_tree s']
  end.

(* hang `inner` below the chain, outermost link first *)
Fixpoint chain (ls : list link) (inner : tree) : tree :=
  match ls with
  | [] => inner
  | l :: r => Node (k_lhs l) (k_prod l) (k_push l) [side_tree (N.to_nat (k_side l)); chain r inner]
  end.

Fixpoint iter_chain (n : nat) (ls : list link) (inner : tree) : tree :=
  match n with
  | O => inner
  | S n' => chain ls (iter_chain n' ls inner)
  end.

(* non-push links of a chain *)
Fixpoint cost (ls : list link) : N :=
  match ls with
  | [] => 0
  | l :: r => (if k_push l then 0 else 1) + cost r
  end.

(* a nesting family: prefix chain (root .. first nesting point), the repeated chain, the tail chain
   (innermost nesting point .. deepest token) *)
Record family := mkFamily { f_pre : list link; f_rep : list link; f_tail : list link }.

Definition family_tree (f : family) (n : nat) : tree :=
  chain (f_pre f) (iter_chain n (f_rep f) (chain (f_tail f) (Leaf 0))).

(* predicted maximal production depth of the family at nesting n — only valid when no sibling is
   deeper than the spine (sides_shallow) *)
Definition family_depth (f : family) (n : N) : N :=
  cost (f_pre f) + n * cost (f_rep f) + cost (f_tail f).

(* every sibling hanging off a link is no deeper than what follows the link on the spine *)
Fixpoint sides_shallow (ls : list link) (below : N) : bool :=
  match ls with
  | [] => true
  | l :: r => (k_side l <=? cost r + below) && sides_shallow r below
  end.

Definition family_ok (f : family) : bool :=
  sides_shallow (f_tail f) 0 &&
  sides_shallow (f_rep f) (cost (f_tail f)) &&
  sides_shallow (f_pre f) (cost (f_tail f)).

(* accept / reject-by-depth prediction used by the correspondence check *)
Definition family_accepts (D : N) (f : family) (n : N) : bool := family_depth f n <=? D.
