(* C26, expand_inside_operation: reference reading of IEEE 1800-2017 11.4.13 (set membership)
   on top of BV/Ops1800, and a model of what crates/emitter/src/emitter.rs prints when
   [build] expand_inside_operation = true (inside_expanded_expression,
   outside_expanded_expression, inside_element_operation, case_expression_condition,
   emit_expanded_case_item).  Definitions only.

   Operands are typed 4-state values (width, signedness, bits).  Every binary comparison is
   evaluated as IEEE 1800 11.6.1 / 11.8.1 prescribe: both operands are extended to the larger
   of the two widths, sign-extended only when BOTH are signed.  The reading of 11.4.13 taken
   here: each member of the set is compared with the left operand on its own (pairwise
   context), singular values with the wildcard equality ==? (x/z bits of the SET MEMBER are
   don't-care), ranges [lo:hi] by lo <= x <= hi; the result is 1 if some member matches, 0 if
   every comparison is 0, x otherwise. *)
From VV Require Export BV.Ops1800.
Open Scope N_scope.

Record tv := mkTv { tw : N; tsg : bool; tval : vec }.

Definition ctx_w (a b : tv) : N := N.max (tw a) (tw b).
Definition ctx_s (a b : tv) : bool := tsg a && tsg b.
(* operand a in the context of the comparison a <op> b *)
Definition opnd (a b : tv) (x : tv) : vec := ext (ctx_s a b) (tw x) (ctx_w a b) (tval x).

Definition tri_of_vec (v : vec) : tri :=
  if negb (vm v =? 0) then TU else if vp v =? 0 then TF else TT.

(* SystemVerilog binary operators on typed operands, 1-bit results (Ops1800) *)
Definition sv_weq (a b : tv) : vec := s_weq (opnd a b a) (opnd a b b).
Definition sv_rel (f : Z -> Z -> bool) (a b : tv) : vec :=
  s_rel (ctx_s a b) (ctx_w a b) (opnd a b a) (opnd a b b) f.
Definition sv_ge := sv_rel Z.geb.
Definition sv_le := sv_rel Z.leb.
Definition sv_lt := sv_rel Z.ltb.

(* ------------------------------------------------------------ 11.4.13, the reference *)

Inductive member :=
| MVal (a : tv)                 (* singular value *)
| MRange (lo hi : tv).          (* [lo:hi], both inclusive *)

Definition known_tv (a : tv) : bool := known (tval a).

(* integer value of operand x in the comparison context of (a, b) *)
Definition ival (a b x : tv) : Z :=
  if ctx_s a b then sval (ctx_w a b) (vp (opnd a b x)) else Z.of_N (vp (opnd a b x)).

(* is x within [lo:hi]?  1 when both bounds hold, 0 when one bound is violated by known
   values, x otherwise *)
Definition range_ref (x lo hi : tv) : tri :=
  let lo_bad := known_tv x && known_tv lo && (ival x lo x <? ival x lo lo)%Z in
  let hi_bad := known_tv x && known_tv hi && (ival x hi hi <? ival x hi x)%Z in
  if lo_bad || hi_bad then TF
  else if known_tv x && known_tv lo && known_tv hi then TT else TU.

Definition member_ref (x : tv) (m : member) : tri :=
  match m with
  | MVal a => tri_of_vec (sv_weq x a)
  | MRange lo hi => range_ref x lo hi
  end.

Definition tri_eqb (a b : tri) : bool :=
  match a, b with TT, TT | TF, TF | TU, TU => true | _, _ => false end.

(* x inside {ms} *)
Definition inside_ref (x : tv) (ms : list member) : tri :=
  if existsb (fun m => tri_eqb (member_ref x m) TT) ms then TT
  else if forallb (fun m => tri_eqb (member_ref x m) TF) ms then TF else TU.

(* veryl's outside = !(x inside {...}) in both emitted forms *)
Definition outside_ref (x : tv) (ms : list member) : tri := tri_not (inside_ref x ms).

(* ------------------------------------------------------------ what the emitter prints *)

(* inside_element_operation:   (x) ==? (a)        |   ((x) >= (lo)) && ((x) <= (hi)) *)
Definition element_exp (x : tv) (m : member) : vec :=
  match m with
  | MVal a => sv_weq x a
  | MRange lo hi => s_land (sv_ge x lo) (sv_le x hi)
  end.

(* inside_expanded_expression:  ( e1 || e2 || ... || en )    (|| is left associative; ==? binds
   tighter than &&, && tighter than ||, so the printed text parses as this tree) *)
Definition inside_exp (x : tv) (m : member) (ms : list member) : vec :=
  fold_left (fun acc m' => s_lor acc (element_exp x m')) ms (element_exp x m).

(* outside_expanded_expression:  !( e1 || ... || en ) *)
Definition outside_exp (x : tv) (m : member) (ms : list member) : vec :=
  s_lnot (inside_exp x m ms).

(* a one-member expansion used as a condition (case expression arm, ?: operand) has the truth
   value of the element expression; in the printed text it is an operand of ?: *)

(* ------------------------------------------------------------ exclusive range lo..hi *)
(* Without expansion the emitter prints [lo:(hi)-1]; with expansion ((x) >= (lo)) && ((x) < (hi)).
   Both upper-bound tests are modelled at one context width W and signedness S (they coincide
   when max(width x, width hi) >= 32 because the literal 1 is a signed 32-bit integer), on
   operands already extended to W. *)
Definition one : vec := mkVec 1 0.
Definition upper_normal (S : bool) (W : N) (X C : vec) : vec := s_rel S W X (s_sub W C one) Z.leb.
Definition upper_expanded (S : bool) (W : N) (X C : vec) : vec := s_rel S W X C Z.ltb.
(* the smallest value of the type: hi - 1 wraps exactly there *)
Definition min_val (S : bool) (W : N) : N := if S then 2 ^ (W - 1) else 0.

(* ------------------------------------------------------------ case statements *)
(* case (x) inside  m1, m2 : ...   matches an arm when (x inside {arm members}) is 1
   (12.5.4: no match on 0 or x).  The expansion prints  case (1'b1)  e1, e2 : ...  where an
   item matches when 1'b1 === ei  (12.5: case equality on 4-state values). *)
Definition ceq (a b : vec) : bool := (vp a =? vp b) && (vm a =? vm b).
Definition arm_ref (x : tv) (ms : list member) : bool := tri_eqb (inside_ref x ms) TT.
Definition arm_exp (x : tv) (ms : list member) : bool :=
  existsb (fun m => ceq (mkVec 1 0) (element_exp x m)) ms.

(* plain case (x) with 2-state constant items (is_simple_case_statement): item a matches when
   x === a; the expansion tests ((x) ==? (a)) === 1'b1.  Both on operands of one common width. *)
Definition simple_item_ref (X A : vec) : bool := ceq X A.
Definition simple_item_exp (X A : vec) : bool := ceq (mkVec 1 0) (s_weq X A).
