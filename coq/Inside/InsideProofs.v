From VV Require Import Inside.InsideModel.
Open Scope N_scope.

(* ---------------------------------------------------------------- 1-bit results *)

Lemma truth_vec_of_tri t : truth (vec_of_tri t) = t.
Proof. destruct t; reflexivity. Qed.

Lemma tri_of_vec_of_tri t : tri_of_vec (vec_of_tri t) = t.
Proof. destruct t; reflexivity. Qed.

Definition tri_of_bit (b : bit4) : tri := match b with B1 => TT | B0 => TF | _ => TU end.

Lemma vec_of_bit_tri b : b <> BZ -> vec_of_bit b = vec_of_tri (tri_of_bit b).
Proof. destruct b; try reflexivity. congruence. Qed.

Lemma s_weq_tri a b : exists t, s_weq a b = vec_of_tri t.
Proof.
  unfold s_weq. destruct (negb _); [exists TF; reflexivity|].
  destruct (negb _); [exists TU | exists TT]; reflexivity.
Qed.

Lemma known_ext s w0 w v : known (ext s w0 w v) = known v.
Proof.
  unfold ext, known. destruct (_ || _ || _); auto. simpl.
  destruct (N.testbit (vm v) (w0 - 1)) eqn:E; auto.
  destruct (N.eqb_spec (vm v) 0) as [Z|NZ].
  - rewrite Z in E. rewrite N.bits_0 in E. discriminate.
  - apply N.eqb_neq. intros H. apply N.lor_eq_0_iff in H as [H _]. contradiction.
Qed.

Lemma known_opnd a b x : known (opnd a b x) = known_tv x.
Proof. unfold opnd, known_tv. apply known_ext. Qed.

(* a relational operator on typed operands *)
Lemma sv_rel_tri f a b :
  sv_rel f a b = vec_of_tri (if known_tv a && known_tv b
                             then (if f (ival a b a) (ival a b b) then TT else TF) else TU).
Proof.
  unfold sv_rel, s_rel, ival. rewrite !known_opnd.
  destruct (known_tv a && known_tv b); [|reflexivity].
  destruct (ctx_s a b); destruct (f _ _); reflexivity.
Qed.

(* ---------------------------------------------------------------- members *)

Lemma range_exp_ref x lo hi :
  s_land (sv_ge x lo) (sv_le x hi) = vec_of_tri (range_ref x lo hi).
Proof.
  unfold s_land, sv_ge, sv_le. rewrite !sv_rel_tri, !truth_vec_of_tri. f_equal.
  unfold range_ref.
  destruct (known_tv x), (known_tv lo), (known_tv hi); simpl; try reflexivity.
  - rewrite Z.geb_leb, (Z.leb_antisym (ival x hi hi)), (Z.leb_antisym (ival x lo x)).
    destruct (ival x lo x <? ival x lo lo)%Z, (ival x hi hi <? ival x hi x)%Z; reflexivity.
  - rewrite Z.geb_leb, (Z.leb_antisym (ival x lo x)).
    destruct (ival x lo x <? ival x lo lo)%Z; reflexivity.
  - rewrite (Z.leb_antisym (ival x hi hi)).
    destruct (ival x hi hi <? ival x hi x)%Z; reflexivity.
Qed.

Lemma element_exp_ref x m : element_exp x m = vec_of_tri (member_ref x m).
Proof.
  destruct m as [a|lo hi]; simpl.
  - unfold sv_weq. destruct (s_weq_tri (opnd x a x) (opnd x a a)) as [t ->].
    rewrite tri_of_vec_of_tri. reflexivity.
  - apply range_exp_ref.
Qed.

(* ---------------------------------------------------------------- the || chain *)

Definition tri_any (ts : list tri) : tri :=
  if existsb (fun t => tri_eqb t TT) ts then TT
  else if forallb (fun t => tri_eqb t TF) ts then TF else TU.

Lemma fold_tri_or ts : forall acc,
  fold_left tri_or ts acc = tri_any (acc :: ts).
Proof.
  induction ts as [|t ts IH]; intros acc.
  - destruct acc; reflexivity.
  - cbn [fold_left]. rewrite IH. unfold tri_any. cbn [existsb forallb].
    destruct acc, t; simpl; try reflexivity.
    all: destruct (existsb _ ts); simpl; try reflexivity; rewrite ?andb_false_r; reflexivity.
Qed.

Lemma inside_exp_fold x ms : forall acc,
  fold_left (fun a m' => s_lor a (element_exp x m')) ms (vec_of_tri acc)
  = vec_of_tri (fold_left tri_or (map (member_ref x) ms) acc).
Proof.
  induction ms as [|m ms IH]; intros acc; simpl; auto.
  rewrite element_exp_ref. unfold s_lor at 2. rewrite !truth_vec_of_tri. apply IH.
Qed.

Lemma existsb_map' {A B} (f : A -> B) (p : B -> bool) l :
  existsb p (map f l) = existsb (fun a => p (f a)) l.
Proof. induction l; simpl; congruence. Qed.
Lemma forallb_map' {A B} (f : A -> B) (p : B -> bool) l :
  forallb p (map f l) = forallb (fun a => p (f a)) l.
Proof. induction l; simpl; congruence. Qed.

Lemma inside_ref_any x ms : inside_ref x ms = tri_any (map (member_ref x) ms).
Proof.
  unfold inside_ref, tri_any. rewrite existsb_map', forallb_map'. reflexivity.
Qed.

Theorem inside_expand_equiv x m ms :
  inside_exp x m ms = vec_of_tri (inside_ref x (m :: ms)).
Proof.
  unfold inside_exp. rewrite element_exp_ref, inside_exp_fold, fold_tri_or, inside_ref_any.
  reflexivity.
Qed.

Theorem outside_expand_equiv x m ms :
  outside_exp x m ms = vec_of_tri (outside_ref x (m :: ms)).
Proof.
  unfold outside_exp, outside_ref, s_lnot. rewrite inside_expand_equiv, truth_vec_of_tri.
  reflexivity.
Qed.

(* ---------------------------------------------------------------- case arms *)

Lemma ceq_one_tri t : ceq (mkVec 1 0) (vec_of_tri t) = tri_eqb t TT.
Proof. destruct t; reflexivity. Qed.

Theorem case_arm_expand_equiv x ms : arm_exp x ms = arm_ref x ms.
Proof.
  unfold arm_exp, arm_ref, inside_ref.
  assert (E : existsb (fun m => ceq (mkVec 1 0) (element_exp x m)) ms
              = existsb (fun m => tri_eqb (member_ref x m) TT) ms).
  { induction ms as [|m ms IH]; simpl; auto. rewrite element_exp_ref, ceq_one_tri, IH. reflexivity. }
  rewrite E. clear E.
  destruct (existsb (fun m => tri_eqb (member_ref x m) TT) ms); [reflexivity|].
  destruct (forallb _ ms); reflexivity.
Qed.

Theorem simple_case_item_equiv X A : known A = true ->
  simple_item_exp X A = simple_item_ref X A.
Proof.
  unfold known, simple_item_exp, simple_item_ref, ceq, s_weq. intros K.
  apply N.eqb_eq in K. rewrite K, N.ldiff_0_r.
  destruct (N.eqb_spec (vm X) 0) as [M|M].
  - rewrite M, !N.ldiff_0_r. simpl.
    destruct (N.eqb_spec (vp X) (vp A)) as [P|P].
    + rewrite P, N.lxor_nilpotent. reflexivity.
    + destruct (N.eqb_spec (N.lxor (vp X) (vp A)) 0) as [L|L].
      * apply N.lxor_eq in L. contradiction.
      * reflexivity.
  - rewrite andb_false_r.
    destruct (negb (N.ldiff (N.lxor (vp X) (vp A)) (vm X) =? 0)); [reflexivity|].
    rewrite N.ldiff_0_r. destruct (N.eqb_spec (vm X) 0); [contradiction|]. reflexivity.
Qed.

(* ---------------------------------------------------------------- exclusive upper bound *)

Lemma testbit_top W p : 0 < W -> p < 2 ^ W -> N.testbit p (W - 1) = (2 ^ (W - 1) <=? p).
Proof.
  intros HW Hp. rewrite N.testbit_eqb.
  assert (E : 2 ^ W = 2 * 2 ^ (W - 1)).
  { rewrite <- N.pow_succ_r'. f_equal. lia. }
  assert (Hpos : 0 < 2 ^ (W - 1)) by (apply N.neq_0_lt_0, N.pow_nonzero; discriminate).
  destruct (N.leb_spec (2 ^ (W - 1)) p) as [L|L].
  - assert (Q : p / 2 ^ (W - 1) = 1).
    { symmetry. apply (N.div_unique p _ 1 (p - 2 ^ (W - 1))); lia. }
    rewrite Q. reflexivity.
  - rewrite N.div_small by assumption. reflexivity.
Qed.

Lemma sval_cases W p : 0 < W -> p < 2 ^ W ->
  sval W p = if 2 ^ (W - 1) <=? p then (Z.of_N p - 2 ^ Z.of_N W)%Z else Z.of_N p.
Proof.
  intros HW Hp. unfold sval. rewrite testbit_top by assumption.
  destruct (N.ltb_spec 0 W); [|lia]. reflexivity.
Qed.

Ltac fin := f_equal;
  match goal with |- (if ?a then _ else _) = (if ?b then _ else _) =>
     let Ea := fresh "Ea" in let Eb := fresh "Eb" in
     destruct a eqn:Ea; destruct b eqn:Eb; try reflexivity; exfalso;
     rewrite ?Z.leb_le, ?Z.leb_gt, ?Z.ltb_lt, ?Z.ltb_ge in *; lia end.

(* hi - 1 at width W, hi known, not the smallest value *)
Theorem exclusive_upper_equiv S W X C :
  0 < W -> vp X < 2 ^ W -> vp C < 2 ^ W ->
  (known C = true -> vp C <> min_val S W) ->
  upper_normal S W X C = upper_expanded S W X C.
Proof.
  intros HW HX HC Hmin. unfold upper_normal, upper_expanded, s_rel, s_sub, arith.
  change (known one) with true. rewrite andb_true_r.
  destruct (known C) eqn:KC; simpl.
  2:{ unfold known, allx. simpl. rewrite andb_false_r.
      destruct (N.eqb_spec (ones W) 0) as [E|E].
      - exfalso. unfold ones in E. assert (1 < 2 ^ W) by (apply N.pow_gt_1; lia). lia.
      - rewrite andb_false_r. reflexivity. }
  specialize (Hmin eq_refl).
  change (known {| vp := _; vm := 0 |}) with true. rewrite andb_true_r.
  destruct (known X); [|reflexivity]. simpl.
  assert (Hpow : 1 < 2 ^ W) by (apply N.pow_gt_1; lia).
  assert (H1 : 1 mod 2 ^ W = 1) by (apply N.mod_small; assumption).
  rewrite H1.
  assert (Hpos : 0 < 2 ^ (W - 1)) by (apply N.neq_0_lt_0, N.pow_nonzero; discriminate).
  assert (E2 : 2 ^ W = 2 * 2 ^ (W - 1)).
  { rewrite <- N.pow_succ_r'. f_equal. lia. }
  assert (EZ : (2 ^ Z.of_N W = Z.of_N (2 ^ W))%Z) by (rewrite N2Z.inj_pow; reflexivity).
  destruct S; unfold min_val in Hmin.
  - (* signed *)
    assert (Hc : (vp C + 2 ^ W - 1) mod 2 ^ W = if vp C =? 0 then 2 ^ W - 1 else vp C - 1).
    { destruct (N.eqb_spec (vp C) 0) as [Z0|NZ].
      - rewrite Z0. apply N.mod_small. lia.
      - replace (vp C + 2 ^ W - 1) with (vp C - 1 + 1 * 2 ^ W) by lia.
        rewrite N.mod_add by lia. apply N.mod_small. lia. }
    rewrite Hc.
    rewrite !sval_cases; try assumption.
    2:{ destruct (vp C =? 0); lia. }
    rewrite EZ.
    destruct (N.eqb_spec (vp C) 0) as [Z0|NZ].
    + rewrite Z0.
      destruct (N.leb_spec (2 ^ (W - 1)) (2 ^ W - 1)); [|lia].
      destruct (N.leb_spec (2 ^ (W - 1)) 0); [lia|].
      destruct (N.leb_spec (2 ^ (W - 1)) (vp X)); fin.
    + destruct (N.leb_spec (2 ^ (W - 1)) (vp C - 1)), (N.leb_spec (2 ^ (W - 1)) (vp C));
        destruct (N.leb_spec (2 ^ (W - 1)) (vp X)); fin.
  - (* unsigned *)
    replace (vp C + 2 ^ W - 1) with (vp C - 1 + 1 * 2 ^ W) by lia.
    rewrite N.mod_add by lia. rewrite N.mod_small by lia.
    fin.
Qed.

(* at the smallest value the two printed forms differ: x inside {0..0} with 32-bit unsigned
   operands: [0:(0)-1] = [0:32'hffffffff] contains 0; (0 >= 0) && (0 < 0) does not *)
Theorem exclusive_upper_refuted :
  exists S W X C, 0 < W /\ vp X < 2 ^ W /\ vp C < 2 ^ W /\ known C = true /\
    vp C = min_val S W /\ upper_normal S W X C <> upper_expanded S W X C.
Proof.
  exists false, 32, (mkVec 0 0), (mkVec 0 0). repeat split; try reflexivity. vm_compute. discriminate.
Qed.

(* ---------------------------------------------------------------- context width *)

Lemma land_low_high p w0 k : p < 2 ^ w0 -> N.land p (k * 2 ^ w0) = 0.
Proof.
  intros Hp. apply N.bits_inj. intros i. rewrite N.land_spec, N.bits_0.
  destruct (N.lt_ge_cases i w0) as [L|G].
  - rewrite N.mul_pow2_bits_low by assumption. apply andb_false_r.
  - assert (N.testbit p i = false).
    { destruct (N.eq_dec p 0) as [->|NZ]; [apply N.bits_0|].
      apply N.bits_above_log2. apply N.log2_lt_pow2; [lia|].
      eapply N.lt_le_trans; [exact Hp|]. apply N.pow_le_mono_r; lia. }
    rewrite H. reflexivity.
Qed.

Lemma lor_fill p w0 w : w0 <= w -> p < 2 ^ w0 ->
  N.lor p (ones w - ones w0) = p + (2 ^ w - 2 ^ w0).
Proof.
  intros Hw Hp. unfold ones.
  assert (P0 : 0 < 2 ^ w0) by (apply N.neq_0_lt_0, N.pow_nonzero; discriminate).
  assert (P1 : 2 ^ w0 <= 2 ^ w) by (apply N.pow_le_mono_r; lia).
  replace (2 ^ w - 1 - (2 ^ w0 - 1)) with (2 ^ w - 2 ^ w0) by lia.
  assert (E : 2 ^ w - 2 ^ w0 = (2 ^ (w - w0) - 1) * 2 ^ w0).
  { rewrite N.mul_sub_distr_r, <- N.pow_add_r. replace (w - w0 + w0) with w by lia. lia. }
  rewrite E. rewrite <- N.lxor_lor by (apply land_low_high; assumption).
  symmetry. apply N.add_nocarry_lxor. apply land_low_high. assumption.
Qed.

(* sign extension keeps the two's-complement value *)
Theorem ext_signed_value w0 w v : 0 < w0 -> w0 <= w -> vp v < 2 ^ w0 ->
  sval w (vp (ext true w0 w v)) = sval w0 (vp v) /\ vp (ext true w0 w v) < 2 ^ w.
Proof.
  intros H0 Hw Hp.
  assert (P0 : 0 < 2 ^ w0) by (apply N.neq_0_lt_0, N.pow_nonzero; discriminate).
  assert (P1 : 2 ^ w0 <= 2 ^ w) by (apply N.pow_le_mono_r; lia).
  unfold ext. destruct (N.leb_spec w w0) as [L|L]; simpl.
  - assert (w = w0) by lia. subst w. split; [reflexivity|assumption].
  - destruct (N.eqb_spec w0 0); [lia|]. simpl.
    assert (Hw0 : 2 ^ w0 = 2 * 2 ^ (w0 - 1)).
    { rewrite <- N.pow_succ_r'. f_equal. lia. }
    assert (Hw1 : 2 ^ w = 2 * 2 ^ (w - 1)).
    { rewrite <- N.pow_succ_r'. f_equal. lia. }
    assert (P2 : 2 ^ w0 <= 2 ^ (w - 1)) by (apply N.pow_le_mono_r; lia).
    assert (EZ0 : (2 ^ Z.of_N w0 = Z.of_N (2 ^ w0))%Z) by (rewrite N2Z.inj_pow; reflexivity).
    assert (EZ1 : (2 ^ Z.of_N w = Z.of_N (2 ^ w))%Z) by (rewrite N2Z.inj_pow; reflexivity).
    rewrite (testbit_top w0 (vp v)) by assumption.
    destruct (N.leb_spec (2 ^ (w0 - 1)) (vp v)) as [T|T].
    + rewrite lor_fill by (try assumption; lia).
      split; [|lia].
      rewrite !sval_cases by (try assumption; lia).
      destruct (N.leb_spec (2 ^ (w - 1)) (vp v + (2 ^ w - 2 ^ w0))); [|lia].
      destruct (N.leb_spec (2 ^ (w0 - 1)) (vp v)); [|lia].
      rewrite EZ0, EZ1. lia.
    + split; [|lia].
      rewrite !sval_cases by (try assumption; lia).
      destruct (N.leb_spec (2 ^ (w - 1)) (vp v)); [lia|].
      destruct (N.leb_spec (2 ^ (w0 - 1)) (vp v)); [lia|]. reflexivity.
Qed.

(* the comparison context width does not matter (justifies the pairwise reading against a
   reading that extends all members of the set to one common width, for operands of one
   signedness class) *)
Definition wf_tv (x : tv) : Prop := 0 < tw x /\ vp (tval x) < 2 ^ tw x.

Definition rel_at (W : N) (f : Z -> Z -> bool) (a b : tv) : vec :=
  s_rel (ctx_s a b) W (ext (ctx_s a b) (tw a) W (tval a)) (ext (ctx_s a b) (tw b) W (tval b)) f.
Definition weq_at (W : N) (a b : tv) : vec :=
  s_weq (ext (ctx_s a b) (tw a) W (tval a)) (ext (ctx_s a b) (tw b) W (tval b)).

Theorem rel_context_irrelevant W f a b :
  wf_tv a -> wf_tv b -> ctx_w a b <= W -> rel_at W f a b = sv_rel f a b.
Proof.
  intros [Ha0 Ha] [Hb0 Hb] HW. unfold rel_at, sv_rel, opnd, s_rel. rewrite !known_ext.
  destruct (known (tval a) && known (tval b)); [|reflexivity].
  unfold ctx_w in *.
  destruct (ctx_s a b).
  - destruct (ext_signed_value (tw a) W (tval a)) as [E1 _]; try assumption; try lia.
    destruct (ext_signed_value (tw b) W (tval b)) as [E2 _]; try assumption; try lia.
    destruct (ext_signed_value (tw a) (N.max (tw a) (tw b)) (tval a)) as [E3 _]; try assumption; try lia.
    destruct (ext_signed_value (tw b) (N.max (tw a) (tw b)) (tval b)) as [E4 _]; try assumption; try lia.
    rewrite E1, E2, E3, E4. reflexivity.
  - unfold ext. simpl. rewrite !orb_true_r. reflexivity.
Qed.

Theorem weq_context_irrelevant_unsigned W a b :
  ctx_s a b = false -> weq_at W a b = sv_weq a b.
Proof.
  intros H. unfold weq_at, sv_weq, opnd. rewrite H. unfold ext. simpl. rewrite !orb_true_r. reflexivity.
Qed.
