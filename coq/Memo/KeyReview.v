(* C34 — the reviewed side of the key translator.

   Memo/GeneratedKey.v lists what the Rust source says NOW: the parameters of every memoised
   conversion entry point, the expressions that form each cache key, the fields of every cached
   structure and how the relocation rebuilds each one.  This file states, per cache, which input
   is covered by which key part, which inputs are per-process constants (with the reason), and
   which are handled by relocation; `key_obligations` is the conjunction of the resulting
   inclusions and is decided by vm_compute (key_obligations_hold).  A dependency dropped from a
   key, a new conversion input, a cached field that is no longer relocated, or a changed arm of
   the relocation arithmetic makes that proof — hence Props/C34.v — fail. *)
From Coq Require Import List String Bool.
From VV Require Import Memo.GeneratedKey Memo.MemoModel Memo.MemoProofs.
Import ListNotations.
Open Scope string_scope.

Definition smem (s : string) (l : list string) : bool := existsb (String.eqb s) l.
Definition subset (a b : list string) : bool := forallb (fun x => smem x b) a.
Definition same_set (a b : list string) : bool := subset a b && subset b a.
Fixpoint list_eqb (a b : list string) : bool :=
  match a, b with
  | [], [] => true
  | x :: a', y :: b' => String.eqb x y && list_eqb a' b'
  | _, _ => false
  end.
Definition remove_s (s : string) (l : list string) := filter (fun x => negb (String.eqb s x)) l.
Definition uncovered (inputs covered : list string) := filter (fun x => negb (smem x covered)) inputs.

(* ------------------------------------------------------------------ 1. ProtoModuleCache *)
(* build_ir_cached(ir, top, config, cache): the conversion reads ir, top, config. *)
Definition proto_conv_inputs : list string := remove_s "cache" g_proto_params.
Definition proto_key_fields : list string := g_proto_lookup_key.
(* Reviewed per-process constants: `veryl test` analyses once (one air::Ir) and builds one Config
   before the caches exist; cmd_test.rs passes exactly these to every call (checked below), and
   after the cache is created only component_libraries / component_file_base are assigned (before
   the first conversion). *)
Definition proto_reviewed_constant_inputs : list string := ["ir"; "config"].
Definition proto_uncovered := uncovered proto_conv_inputs (proto_key_fields ++ proto_reviewed_constant_inputs).

Definition ob_proto : bool :=
  subset proto_conv_inputs (proto_key_fields ++ proto_reviewed_constant_inputs)
  && same_set g_proto_lookup_key g_proto_insert_key
  && list_eqb g_proto_key_type ["StrId"]
  && subset g_proto_hit_reads ["config"; "top"]
  && same_set g_proto_entry_fields ["proto"; "token"]
  && same_set g_proto_context_init ["config"; "backends"]
  && list_eqb g_cli_call_args ["ir | top_str_id | config | cache"]
  && subset g_cli_config_mutations_after_cache ["component_file_base"; "component_libraries"]
  && list_eqb g_cli_config_methods_after_cache [].

(* ------------------------------------------------------------------ 2. GLOBAL_STMT_CACHE *)
(* try_reuse_or_claim(component_key, alias_enabled, ff_start, comb_start, dut_reuse) *)
Definition stmt_uncovered :=
  uncovered g_stmt_params (g_stmt_key_inputs ++ g_stmt_gate_inputs ++ g_stmt_reloc_inputs).

(* what InstDeclaration::conv can read through the conversion Context, and why the component
   key is enough for each (class in the right column) *)
Definition context_review : list (string * string) :=
  [ ("config", "process constant");
    ("scope_contexts", "child scope is built from the component; the parent scope is read only by the port wiring, which is rebuilt on every hit");
    ("ff_total_bytes", "start of the subtree: relocated (ff_delta)");
    ("comb_total_bytes", "start of the subtree: relocated (comb_delta)");
    ("pending_statements", "local to one declaration");
    ("chunk_cache", "itself a cache keyed by the component pointer, per conversion");
    ("expanding_functions", "empty at an instance boundary");
    ("in_initial", "false at an instance boundary");
    ("in_reuse_dut", "true for every cached subtree (cached only when de-aliased)");
    ("test_top_id", "read only by the alias decision, which gates caching");
    ("backends", "built from config");
    ("internal_event_ids_allocated", "ids of a reused subtree are re-keyed on every hit") ].

Definition config_review : list string :=
  [ "use_4state"; "abstract_reset_active_high"; "abstract_reset_sync"; "use_jit"; "dump_cranelift";
    "dump_asm"; "disable_ff_opt"; "aot_c"; "aot_c_event"; "aot_c_async"; "aot_c_validate";
    "aot_c_validate_stride"; "aot_c_min_stmts"; "dut_reuse"; "seed"; "component_libraries";
    "component_file_base" ].

Definition cached_offset_fields : list string :=
  [ "event_statements"; "comb_statements"; "post_comb_fns"; "child_modules"; "derived_clock_candidates" ].

Definition ob_stmt : bool :=
  subset g_stmt_params (g_stmt_key_inputs ++ g_stmt_gate_inputs ++ g_stmt_reloc_inputs)
  && same_set g_stmt_params g_stmt_params_used
  && list_eqb g_stmt_key_inputs ["component_key"]
  && list_eqb g_stmt_gate_expr ["!dut_reuse || alias_enabled"]
  && same_set g_stmt_reloc_inputs ["ff_start"; "comb_start"]
  && subset g_context_fields (map fst context_review)
  && subset g_config_fields config_review
  (* every cached field is either a reference start / size or is relocated by BOTH deltas *)
  && same_set g_cached_fields (["ref_ff_start"; "ref_comb_start"; "ff_size"; "comb_size"] ++ cached_offset_fields)
  && subset cached_offset_fields g_reloc_relocated_fields
  && subset g_reloc_copied_fields ["ff_size"; "comb_size"]
  && same_set g_reused_fields (g_reloc_relocated_fields ++ g_reloc_copied_fields)
  && list_eqb g_reloc_delta_defs
       ["comb_delta = comb_start - entry.ref_comb_start"; "ff_delta = ff_start - entry.ref_ff_start"]
  && list_eqb g_store_fields
       ["child_modules<-child_modules"; "comb_size<-comb_size"; "comb_statements<-comb_statements";
        "derived_clock_candidates<-derived_clock_candidates"; "event_statements<-event_statements";
        "ff_size<-ff_size"; "post_comb_fns<-post_comb_fns"; "ref_comb_start<-comb_start";
        "ref_ff_start<-ff_start"].

(* ------------------------------------------------------------------ 3. relocation arms = RelocModel *)
Definition ob_reloc : bool :=
  (* CompiledBlockStatement: RelocModel.reloc_stmts, SCompiled arm *)
  same_set g_compiled_fields (g_compiled_reloc_both ++ g_compiled_reloc_ff ++ g_compiled_reloc_comb ++ g_compiled_reloc_plain)
  && list_eqb g_compiled_reloc_plain ["artifact"]
  && same_set g_compiled_reloc_ff ["ff_delta_bytes"; "ff_canonical_offsets"]
  && list_eqb g_compiled_reloc_comb ["comb_delta_bytes"]
  && same_set g_compiled_reloc_both ["input_offsets"; "output_offsets"; "stmt_deps"; "original_stmts"]
  && list_eqb g_reloc_stmt_fallback ["let mut c = other.clone(); c.adjust_offsets(ff_delta, comb_delta); c"]
  (* VariableElement: RelocModel.reloc_elem_meta *)
  && list_eqb g_element_fields ["native_bytes"; "current"; "next_offset"]
  && list_eqb g_element_reloc ["native_bytes:copy"; "current:comb_delta+ff_delta"; "next_offset:ff_delta+is_ff"]
  (* VarOffset::adjust: RelocModel.adjust *)
  && list_eqb g_adjust_arms ["Ff->Ff:o + ff_delta"; "Comb->Comb:o + comb_delta"]
  (* ProtoStatement::adjust_offsets: every variant has an arm; exactly CompiledBlock and Break do nothing *)
  && same_set (map (fun s => s ++ ":adj") (remove_s "CompiledBlock" (remove_s "Break" g_stmt_variants))
               ++ ["CompiledBlock:noop"; "Break:noop"]) g_adjust_stmt_arms.

(* ------------------------------------------------------------------ 4. chunk / pipeline keys *)
Definition ob_chunk : bool :=
  (* CompileCtx = {config (process constant), use_4state, contains_compiled_block}; both flags
     and the statements are hashed *)
  subset g_compile_ctx_fields ["config"; "use_4state"; "contains_compiled_block"]
  && subset g_chunk_params ["self"; "ctx"; "stmts"]
  && list_eqb g_chunk_key_args ["ctx.use_4state"; "ctx.contains_compiled_block"; "stmts"]
  && same_set g_chunk_fp_params g_chunk_fp_hashed.

Definition pipeline_uncovered := uncovered g_pipeline_call_roots (g_pipeline_key_roots ++ ["src"]).

Definition ob_pipeline : bool :=
  (* every argument handed to run_comb_pipeline takes part in the key, except the module name
     (diagnostics only) *)
  subset g_pipeline_call_roots (g_pipeline_key_roots ++ ["src"])
  && Nat.eqb (List.length g_pipeline_params) (List.length g_pipeline_call_args)
  && same_set g_pipeline_key_fn_params g_pipeline_key_fn_used
  && same_set g_whole_fp_params g_whole_fp_hashed.

Definition ob_env : bool :=
  list_eqb g_dut_reuse_env ["env::var(""VERYL_DUT_REUSE"").ok().as_deref() != Some(""0"")"].

Definition key_obligations : bool :=
  ob_proto && ob_stmt && ob_reloc && ob_chunk && ob_pipeline && ob_env.

Theorem key_obligations_hold : key_obligations = true.
Proof. vm_compute. reflexivity. Qed.

(* ------------------------------------------------------------------ bridge to memo_transparent
   Requests as assignments of values to the named inputs.  If the conversion reads only the
   inputs the translator lists, then the list inclusion decided above gives exactly the
   hypothesis of memo_transparent for the requests of one process. *)
Section Named.
  Variables (Val V R : Type).
  Definition env := string -> Val.
  Variables (inputs keyf consts : list string).
  Variable conv : env -> option V.
  Variable finish_cfg : env -> V -> R.
  Variable veqb : list Val -> list Val -> bool.
  Hypothesis veqb_spec : forall a b, veqb a b = true <-> a = b.
  (* the conversion reads only the listed inputs (the post-processing uses the current request) *)
  Hypothesis conv_reads : forall x y, (forall n, In n inputs -> x n = y n) -> conv x = conv y.

  Definition nkey (x : env) : list Val := map x keyf.
  Variable c0 : env.                                   (* the constants of this process *)
  Definition in_process (x : env) : Prop := forall c, In c consts -> x c = c0 c.

  Lemma smem_In : forall s l, smem s l = true -> In s l.
  Proof.
    intros s l H. unfold smem in H. apply existsb_exists in H.
    destruct H as [y [Hy E]]. apply String.eqb_eq in E. subst. exact Hy.
  Qed.

  Lemma map_eq_at : forall (x y : env) l n, map x l = map y l -> In n l -> x n = y n.
  Proof.
    induction l as [|a l IH]; intros n H Hn; [contradiction|].
    simpl in H. inversion H as [[H1 H2]]. destruct Hn as [->|Hn]; [exact H1|apply IH; assumption].
  Qed.

  Lemma named_sufficient :
    subset inputs (keyf ++ consts) = true ->
    key_sufficient_on nkey conv finish_cfg in_process.
  Proof.
    intros Hs x y vx Px Py Hk Hx.
    assert (A : forall n, In n inputs -> x n = y n).
    { intros n Hn. unfold subset in Hs. rewrite forallb_forall in Hs.
      specialize (Hs n Hn). apply smem_In in Hs. apply in_app_or in Hs.
      destruct Hs as [Hk'|Hc].
      - apply (map_eq_at x y keyf n Hk Hk').
      - rewrite (Px n Hc), (Py n Hc). reflexivity. }
    unfold MemoModel.uncached. rewrite <- (conv_reads x y A), Hx. reflexivity.
  Qed.

  Theorem named_memo_transparent :
    subset inputs (keyf ++ consts) = true ->
    forall rs, Forall in_process rs ->
    fst (run nkey veqb conv finish_cfg [] rs) = map (uncached conv finish_cfg) rs.
  Proof.
    intros Hs rs HP.
    apply (memo_transparent_on _ _ _ _ nkey veqb conv finish_cfg veqb_spec in_process rs []).
    - apply named_sufficient. exact Hs.
    - apply cache_ok_on_nil.
    - exact HP.
  Qed.
End Named.

(* instantiated with what the translator extracted for ProtoModuleCache *)
Theorem proto_cache_transparent :
  forall (Val V R : Type) (conv : env Val -> option V) (finish_cfg : env Val -> V -> R)
         (veqb : list Val -> list Val -> bool),
    (forall a b, veqb a b = true <-> a = b) ->
    (forall x y, (forall n, In n proto_conv_inputs -> x n = y n) -> conv x = conv y) ->
    forall (c0 : env Val) rs,
      Forall (in_process Val proto_reviewed_constant_inputs c0) rs ->
      fst (run (nkey Val proto_key_fields) veqb conv finish_cfg [] rs) = map (uncached conv finish_cfg) rs.
Proof.
  intros Val V R conv finish_cfg veqb Hv Hc c0 rs HP.
  apply (named_memo_transparent Val V R proto_conv_inputs proto_key_fields
           proto_reviewed_constant_inputs conv finish_cfg veqb Hv Hc c0).
  - vm_compute. reflexivity.
  - exact HP.
Qed.
