(* C34 — proofs about the cache models of MemoModel.v. *)
From Coq Require Import List Bool ZArith Lia.
From VV Require Import Memo.MemoModel.
Import ListNotations.

Section MemoProofs.
  Variables (Req K V R : Type).
  Variable key   : Req -> K.
  Variable keqb  : K -> K -> bool.
  Variable conv  : Req -> option V.
  Variable finish : Req -> V -> R.
  Hypothesis keqb_spec : forall a b, keqb a b = true <-> a = b.

  Notation lookup := (lookup keqb).
  Notation uncached := (uncached conv finish).
  Notation cached_step := (cached_step key keqb conv finish).
  Notation run := (run key keqb conv finish).
  Notation cache_ok := (cache_ok key keqb conv).
  Notation key_sufficient := (key_sufficient key conv finish).
  Notation key_determines_conv := (key_determines_conv key conv).

  Lemma keqb_refl : forall k, keqb k k = true.
  Proof. intros k. apply keqb_spec. reflexivity. Qed.

  Lemma cache_ok_nil : cache_ok [].
  Proof. intros k v H. discriminate H. Qed.

  Lemma cache_ok_insert : forall c r v,
    cache_ok c -> conv r = Some v -> cache_ok ((key r, v) :: c).
  Proof.
    intros c r v Hc Hr k v' H. simpl in H.
    destruct (keqb (key r) k) eqn:E.
    - inversion H; subst. apply keqb_spec in E. exists r. split; assumption.
    - apply Hc. exact H.
  Qed.

  Lemma step_correct : forall c r,
    key_sufficient -> cache_ok c ->
    fst (cached_step c r) = uncached r /\ cache_ok (snd (cached_step c r)).
  Proof.
    intros c r Hk Hc. unfold MemoModel.cached_step.
    destruct (lookup c (key r)) as [v|] eqn:L.
    - simpl. split; [|exact Hc].
      destruct (Hc _ _ L) as [x [Hx Hv]].
      symmetry. apply (Hk x r v Hx Hv).
    - unfold MemoModel.uncached. destruct (conv r) as [v|] eqn:C; simpl.
      + split; [reflexivity|]. apply cache_ok_insert; assumption.
      + split; [reflexivity|exact Hc].
  Qed.

  Lemma run_correct : forall rs c,
    key_sufficient -> cache_ok c ->
    fst (run c rs) = map uncached rs /\ cache_ok (snd (run c rs)).
  Proof.
    induction rs as [|r rs IH]; intros c Hk Hc.
    - simpl. split; [reflexivity|exact Hc].
    - simpl. destruct (step_correct c r Hk Hc) as [H1 H2].
      destruct (cached_step c r) as [o c1] eqn:S. simpl in H1, H2.
      destruct (IH c1 Hk H2) as [H3 H4].
      destruct (run c1 rs) as [os c2] eqn:Rn. simpl in *.
      split; [rewrite H1, H3; reflexivity|exact H4].
  Qed.

  (* memo_transparent: for EVERY request sequence, starting from any cache that only holds
     conversions of earlier requests, the cached converter returns what the uncached does *)
  Theorem memo_transparent_from : forall rs c,
    key_sufficient -> cache_ok c -> fst (run c rs) = map uncached rs.
  Proof. intros rs c Hk Hc. apply (run_correct rs c Hk Hc). Qed.

  Theorem memo_transparent : forall rs,
    key_sufficient -> fst (run [] rs) = map uncached rs.
  Proof. intros rs Hk. apply memo_transparent_from; [exact Hk|apply cache_ok_nil]. Qed.

  Lemma determines_sufficient : key_determines_conv -> key_sufficient.
  Proof.
    intros Hd x y vx Hxy Hx. unfold MemoModel.uncached.
    rewrite <- (Hd x y Hxy), Hx. reflexivity.
  Qed.

  Theorem memo_transparent_inj : forall rs,
    key_determines_conv -> fst (run [] rs) = map uncached rs.
  Proof. intros rs Hd. apply memo_transparent. apply determines_sufficient. exact Hd. Qed.

  (* converse witness: a dependency of the conversion that the key does not reflect gives a
     two-request sequence whose second answer is wrong *)
  Theorem memo_witness : forall x y vx,
    key x = key y -> conv x = Some vx -> uncached y <> Some (finish y vx) ->
    fst (run [] [x; y]) <> map uncached [x; y].
  Proof.
    intros x y vx Hxy Hx Hne. simpl.
    unfold MemoModel.cached_step at 1. simpl. rewrite Hx.
    unfold MemoModel.cached_step. simpl. rewrite Hxy, keqb_refl. simpl.
    intro H. inversion H as [[H1 H2]]. apply Hne. symmetry. exact H2.
  Qed.

  (* the key condition is exact *)
  Theorem memo_transparent_iff :
    (forall rs, fst (run [] rs) = map uncached rs) <-> key_sufficient.
  Proof.
    split.
    - intros H x y vx Hxy Hx.
      destruct (uncached y) as [ry|] eqn:U.
      + specialize (H [x; y]).
        assert (D : {uncached y = Some (finish y vx)} + {True}) by (right; exact I).
        clear D. simpl in H.
        unfold MemoModel.cached_step at 1 in H. simpl in H. rewrite Hx in H.
        unfold MemoModel.cached_step in H. simpl in H. rewrite Hxy, keqb_refl in H. simpl in H.
        inversion H as [[H1 H2]]. rewrite U in H2. symmetry. exact H2.
      + specialize (H [x; y]). simpl in H.
        unfold MemoModel.cached_step at 1 in H. simpl in H. rewrite Hx in H.
        unfold MemoModel.cached_step in H. simpl in H. rewrite Hxy, keqb_refl in H. simpl in H.
        inversion H as [[H1 H2]]. rewrite U in H2. discriminate H2.
    - intros Hk rs. apply memo_transparent. exact Hk.
  Qed.
  (* ---- restricted to a set P of requests (one process) ---- *)
  Section On.
    Variable P : Req -> Prop.
    Notation cache_ok_on := (cache_ok_on key keqb conv P).
    Notation key_sufficient_on := (key_sufficient_on key conv finish P).

    Lemma step_correct_on : forall c r,
      key_sufficient_on -> cache_ok_on c -> P r ->
      fst (cached_step c r) = uncached r /\ cache_ok_on (snd (cached_step c r)).
    Proof.
      intros c r Hk Hc Hr. unfold MemoModel.cached_step.
      destruct (lookup c (key r)) as [v|] eqn:L.
      - simpl. split; [|exact Hc].
        destruct (Hc _ _ L) as [x [Px [Hx Hv]]].
        symmetry. apply (Hk x r v Px Hr Hx Hv).
      - unfold MemoModel.uncached. destruct (conv r) as [v|] eqn:C; simpl.
        + split; [reflexivity|].
          intros k v' H. simpl in H.
          destruct (keqb (key r) k) eqn:E.
          * inversion H; subst. apply keqb_spec in E. exists r. repeat split; assumption.
          * apply Hc. exact H.
        + split; [reflexivity|exact Hc].
    Qed.

    Theorem memo_transparent_on : forall rs c,
      key_sufficient_on -> cache_ok_on c -> Forall P rs ->
      fst (run c rs) = map uncached rs /\ cache_ok_on (snd (run c rs)).
    Proof.
      induction rs as [|r rs IH]; intros c Hk Hc HP.
      - simpl. split; [reflexivity|exact Hc].
      - inversion HP as [|? ? Hr Hrs]; subst. simpl.
        destruct (step_correct_on c r Hk Hc Hr) as [H1 H2].
        destruct (cached_step c r) as [o c1] eqn:S. simpl in H1, H2.
        destruct (IH c1 Hk H2 Hrs) as [H3 H4].
        destruct (run c1 rs) as [os c2] eqn:Rn. simpl in *.
        split; [rewrite H1, H3; reflexivity|exact H4].
    Qed.

    Lemma cache_ok_on_nil : cache_ok_on [].
    Proof. intros k v H. discriminate H. Qed.
  End On.
End MemoProofs.

Section RelocMemoProofs.
  Variables (Comp P : Type).
  Variable ceqb : Comp -> Comp -> bool.
  Variable convat : Comp -> Z * Z -> option P.
  Variable reloc : Z * Z -> P -> P.
  Variable dut_reuse : bool.
  Hypothesis ceqb_spec : forall a b, ceqb a b = true <-> a = b.

  Notation reuse_step := (reuse_step ceqb convat reloc dut_reuse).
  Notation reuse_run := (reuse_run ceqb convat reloc dut_reuse).
  Notation from_scratch := (from_scratch convat).
  Notation equivariant := (equivariant convat reloc).
  Notation rcache_ok := (rcache_ok ceqb convat).

  Lemma rcache_ok_nil : rcache_ok [].
  Proof. intros k ref p H. discriminate H. Qed.

  Lemma reuse_step_correct : forall c r,
    equivariant -> rcache_ok c ->
    fst (reuse_step c r) = from_scratch r /\ rcache_ok (snd (reuse_step c r)).
  Proof.
    intros c r He Hc. unfold MemoModel.reuse_step, MemoModel.from_scratch.
    destruct (negb dut_reuse || rq_alias r); [split; [reflexivity|exact Hc]|].
    destruct (lookup ceqb c (rq_comp r)) as [[ref p]|] eqn:L.
    - simpl. split; [|exact Hc].
      symmetry. apply He. apply (Hc _ _ _ L).
    - destruct (convat (rq_comp r) (rq_start r)) as [p|] eqn:C; simpl.
      + split; [reflexivity|].
        intros k ref p' H. simpl in H.
        destruct (ceqb (rq_comp r) k) eqn:E.
        * inversion H; subst. apply ceqb_spec in E. subst k. exact C.
        * apply (Hc _ _ _ H).
      + split; [reflexivity|exact Hc].
  Qed.

  (* relocating reuse is invisible for EVERY sequence of instance conversions, whatever the
     starts (hence deltas of either sign) and whatever mix of aliased / de-aliased requests *)
  Theorem reuse_transparent : forall rs c,
    equivariant -> rcache_ok c ->
    fst (reuse_run c rs) = map from_scratch rs /\ rcache_ok (snd (reuse_run c rs)).
  Proof.
    induction rs as [|r rs IH]; intros c He Hc.
    - simpl. split; [reflexivity|exact Hc].
    - simpl. destruct (reuse_step_correct c r He Hc) as [H1 H2].
      destruct (reuse_step c r) as [o c1]. simpl in H1, H2.
      destruct (IH c1 He H2) as [H3 H4].
      destruct (reuse_run c1 rs) as [os c2]. simpl in *.
      split; [rewrite H1, H3; reflexivity|exact H4].
  Qed.

  Theorem reuse_transparent_empty : forall rs,
    equivariant -> fst (reuse_run [] rs) = map from_scratch rs.
  Proof. intros rs He. apply (reuse_transparent rs [] He rcache_ok_nil). Qed.

  (* converse witness: a conversion that is not the relocation of the cached one (something
     position- or context-dependent the single delta cannot express) shows after two requests *)
  Theorem reuse_witness : forall cmp s s' p,
    dut_reuse = true ->
    convat cmp s = Some p -> convat cmp s' <> Some (reloc (delta s' s) p) ->
    fst (reuse_run [] [mkRReq cmp s false; mkRReq cmp s' false])
      <> map from_scratch [mkRReq cmp s false; mkRReq cmp s' false].
  Proof.
    intros cmp s s' p Hd Hs Hne.
    assert (E : ceqb cmp cmp = true) by (apply ceqb_spec; reflexivity).
    unfold MemoModel.reuse_run, MemoModel.reuse_step, MemoModel.from_scratch.
    rewrite Hd. simpl. rewrite Hs. simpl. rewrite E. simpl.
    intro H. injection H as H2. apply Hne. symmetry. exact H2.
  Qed.
End RelocMemoProofs.
